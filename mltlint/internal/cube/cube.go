// Package cube implements exact set algebra on mask/match patterns over
// 32-bit words (cubes): intersection, disjoint sharp (set difference) and
// cardinality, without enumerating words.
package cube

import (
	"fmt"
	"math/bits"
)

// Cube is the set of words w with w&Mask == Match. Match&^Mask must be 0.
type Cube struct {
	Mask, Match uint32
	Tag         string
}

func (c Cube) String() string {
	return fmt.Sprintf("%s{mask=%#08x match=%#08x}", c.Tag, c.Mask, c.Match)
}

// Empty reports whether a mask/match pair can match nothing.
func Empty(mask, match uint32) bool { return match&^mask != 0 }

// Intersect returns the intersection of two cubes.
func Intersect(a, b Cube) (Cube, bool) {
	if (a.Match^b.Match)&a.Mask&b.Mask != 0 {
		return Cube{}, false
	}
	return Cube{Mask: a.Mask | b.Mask, Match: a.Match | b.Match, Tag: a.Tag + "&" + b.Tag}, true
}

// Count is the number of words in the cube.
func (c Cube) Count() uint64 { return 1 << uint(32-bits.OnesCount32(c.Mask)) }

// Witness returns one word of the cube.
func (c Cube) Witness() uint32 { return c.Match }

// Sharp returns a \ b as a list of pairwise disjoint cubes.
func Sharp(a, b Cube) []Cube {
	if _, ok := Intersect(a, b); !ok {
		return []Cube{a}
	}
	var out []Cube
	cur := a
	extra := b.Mask &^ a.Mask // bits fixed by b but free in a
	for i := uint(0); i < 32; i++ {
		bit := uint32(1) << i
		if extra&bit == 0 {
			continue
		}
		// words of cur that differ from b at bit i
		d := cur
		d.Mask |= bit
		d.Match = d.Match&^bit | (^b.Match & bit)
		out = append(out, d)
		// continue with the part that agrees with b at bit i
		cur.Mask |= bit
		cur.Match = cur.Match&^bit | (b.Match & bit)
	}
	return out
}

// Diff returns (union of as) \ (union of bs) as a list of cubes.
func Diff(as, bs []Cube) []Cube {
	cur := append([]Cube(nil), as...)
	for _, b := range bs {
		var next []Cube
		for _, a := range cur {
			next = append(next, Sharp(a, b)...)
		}
		cur = next
		if len(cur) == 0 {
			break
		}
	}
	return cur
}

// Total sums the cardinalities of pairwise disjoint cubes.
func Total(cs []Cube) uint64 {
	var n uint64
	for _, c := range cs {
		n += c.Count()
	}
	return n
}

// FirstOverlap returns the first overlapping pair of a list.
func FirstOverlap(cs []Cube) (int, int, bool) {
	for i := range cs {
		for j := i + 1; j < len(cs); j++ {
			if _, ok := Intersect(cs[i], cs[j]); ok {
				return i, j, true
			}
		}
	}
	return 0, 0, false
}
