package rules

import (
	"fmt"
	"go/token"
	"go/types"
	"math/big"
	"sort"
	"strings"

	"golang.org/x/tools/go/ssa"

	"mltlint/internal/absint"
	. "mltlint/internal/core"
)

func init() { register("C11", "other", checkC11) }

// C11 (partial): the gadgets of pkg/expr/exprtools whose documented function
// follows, for every width and every operand value, from the shape of the
// expression they build. The expression a gadget returns is read off its SSA
// (helpers of the package inlined) as a term over the IR's operators, its own
// operands and small constants, every node at one width U. Three arguments,
// none of which evaluates anything numerically:
//
//   - bitwise: a term of Nand nodes over the operands and the constant zero acts
//     on every bit position alike, so its truth table (at most 4 rows) is its
//     meaning at every width: BitNot, BitAnd, BitOr, BitXor, Ones.
//   - ring: Add and Mul are the operations of Z/2^(8U), a full-width complement
//     is -x-1, the quotient is an atom q(a,b): the term's polynomial normal form
//     is compared with the documented one: Negate, Sub, NewWidthGadget, Mod
//     (and Mod with the divisor 0, where the quotient is all ones by C10's
//     definition of Div).
//   - cases: a selection cond(a < b ? t : f) whose condition compares with the
//     constants 0 and 1, or the two operands with each other, is decided under
//     each case of (operand zero / non-zero), (a < b, a = b, a > b), with the
//     ring form deciding "a - b is zero": Bool, Not, BoolCond, Eq, Leu.
//
// Decided on top of an inner gadget kept as a node: Les on Lts, IntNegative and
// Abs on the sign mask - Lts (checkLts: eight cases of top bits and unsigned
// order) and the sign mask (C11.signmask: all 255 widths) are decided
// themselves - and SignedMul on SignExtend (C11.signext: per bit in three
// position classes); MaskBits on the bit mask (C11.mask: every width, every
// count up to 72 beyond the largest width). NOT decided: SignedDiv, SignedMod, RshA (their meaning depends on
// sign bits and masks that vary with the width), and the meaning of the IR
// operators themselves (C10).
func checkC11(c *Ctx) {
	c.Rule("C11.bitwise", "BitNot, BitAnd, BitOr, BitXor, Ones build a term of Nand nodes, all at the gadget's width, over their operands and the constant zero; its truth table per bit is NOT / AND / OR / XOR / constant one; IntNegative, relative to the sign mask (one in the top position), is the operand's top bit and zero elsewhere")
	c.Rule("C11.ring", "Negate, Sub, NewWidthGadget, Mod build a term whose polynomial normal form over Z/2^(8w) (Add, Mul, full-width complement = -x-1, quotient as an atom) is -a / a-b / a / a - q(a,b)*b, and Mod with divisor 0 (quotient all ones) is a")
	c.Rule("C11.cases", "Bool, Not, BoolCond, Eq, Leu build selections whose conditions, decided under every case of (operand zero / non-zero) resp. (a<b, a=b, a>b), select the documented result; Les likewise under the signed order, on top of Lts (kept as a node); Lts itself under the eight cases of (top bit of a, top bit of b, unsigned order), with negation reversing the order of two operands whose top bits are set; Abs, relative to the sign mask, is the operand where its top bit is clear and its negation otherwise")

	tpkg := ModulePath + "/pkg/expr/exprtools"
	ep := c.Prog.SSAPkg[ExprPkg]
	if ep == nil {
		c.Undecide("C11: package expr not loaded")
		return
	}
	ops := map[int64]string{}
	for _, n := range []string{"Add", "Lsh", "Rsh", "Mul", "Div", "Nand"} {
		v, ok := absint.ConstByName(ep, n)
		if !ok {
			c.Undecide("C11: constant expr.%s does not resolve", n)
			return
		}
		ops[int64(v)] = n
	}
	x := &gExtract{c: c, ops: ops, tpkg: tpkg, opaque: map[*ssa.Function]bool{}}
	if lts := c.Prog.Func(tpkg + ".Lts"); lts != nil {
		x.opaque[Origin(lts)] = true
	}
	x.opaqueMask = map[*ssa.Function]bool{}
	if sm := c.Prog.Func(tpkg + ".signBitMask"); sm != nil {
		x.opaqueMask[Origin(sm)] = true
	}
	x.opaqueSX = map[*ssa.Function]bool{}
	if sx := c.Prog.Func(tpkg + ".SignExtend"); sx != nil {
		x.opaqueSX[Origin(sx)] = true
	}
	term := func(name string) (*gt, *ssa.Function) {
		f := c.Prog.Func(tpkg + "." + name)
		if f == nil || f.Blocks == nil {
			c.Undecide("C11: %s.%s not found", tpkg, name)
			return nil, nil
		}
		env := map[*ssa.Parameter]*gt{}
		ne := 0
		for _, p := range f.Params {
			switch {
			case TypeNameIs(p.Type(), "pkg/expr.Width"):
				env[p] = &gt{kind: "width", name: "w"}
			case TypeNameIs(p.Type(), "pkg/expr.Expr"):
				env[p] = &gt{kind: "var", name: fmt.Sprintf("p%d", ne)}
				ne++
			}
		}
		t, err := x.result(f, env, 0)
		if err != "" {
			c.Fail(ruleOfGadget(name), "pkg/expr/exprtools."+name, c.Prog.FuncPos(f), "the expression the gadget builds cannot be read off its code: "+err)
			return nil, f
		}
		return t, f
	}
	n := 0
	// ---- bitwise
	for _, g := range []struct {
		name  string
		arity int
		want  func(a, b bool) bool
		what  string
	}{
		{"BitNot", 1, func(a, _ bool) bool { return !a }, "NOT"},
		{"BitAnd", 2, func(a, b bool) bool { return a && b }, "AND"},
		{"BitOr", 2, func(a, b bool) bool { return a || b }, "OR"},
		{"BitXor", 2, func(a, b bool) bool { return a != b }, "XOR"},
		{"Ones", 0, func(_, _ bool) bool { return true }, "constant one"},
		// relative to the sign mask (kept as a node): the operand's top bit, zero elsewhere
		{"IntNegative", 1, func(a, _ bool) bool { return a }, "the sign bit alone"},
	} {
		t, f := term(g.name)
		if t == nil {
			continue
		}
		n++
		bad := ""
		for row := 0; row < 1<<uint(g.arity) && bad == ""; row++ {
			a, b := row&1 == 1, row&2 == 2
			for _, top := range []bool{false, true} { // the top bit position and every other one
				got, err := t.perBit(map[string]bool{"p0": a, "p1": b}, "w", top)
				want := g.want(a, b)
				if g.name == "IntNegative" {
					want = top && a
				}
				switch {
				case err != "":
					bad = err
				case got != want:
					bad = fmt.Sprintf("for operand bits (%v, %v)%s the result bit is %v, %s gives %v; the term is %s", a, b, map[bool]string{true: " in the top position", false: ""}[top], got, g.what, want, t)
				}
			}
		}
		c.Oblige("C11.bitwise", "pkg/expr/exprtools."+g.name, c.Prog.FuncPos(f), bad == "", bad)
	}
	// ---- ring
	v := func(n string) gpoly { return gpoly{n: big.NewInt(1)} }
	for _, g := range []struct {
		name string
		want gpoly
		what string
	}{
		{"Negate", v("p0").scale(-1), "-a"},
		{"Sub", v("p0").add(v("p1").scale(-1)), "a - b"},
		{"NewWidthGadget", v("p0"), "a"},
		{"Mod", v("p0").add(v("q(p0,p1)").mul(v("p1")).scale(-1)), "a - (a div b)*b"},
	} {
		t, f := term(g.name)
		if t == nil {
			continue
		}
		n++
		got, err := t.poly("w", nil)
		bad := ""
		switch {
		case err != "":
			bad = err
		case !got.equal(g.want):
			bad = fmt.Sprintf("the term %s is %s over Z/2^(8w), documented is %s = %s", t, got, g.what, g.want)
		}
		if bad == "" && g.name == "Mod" {
			// divisor zero: the quotient is all ones (C10), the result the dividend
			z, err := t.poly("w", map[string]gpoly{"p1": {}, "q(p0,0)": constPoly(-1)})
			if err != "" {
				bad = err
			} else if !z.equal(v("p0")) {
				bad = fmt.Sprintf("with the divisor 0 (quotient all ones) the term %s is %s, documented is the dividend", t, z)
			}
		}
		c.Oblige("C11.ring", "pkg/expr/exprtools."+g.name, c.Prog.FuncPos(f), bad == "", bad)
	}
	// ---- cases
	type gcase struct {
		what  string
		facts gfacts
		want  string // the leaf selected: "k0", "k1" or an operand
	}
	zero := func(p string) gfacts { return gfacts{subst: map[string]gpoly{p: {}}} }
	nonzero := func(p string) gfacts { return gfacts{nonzero: map[string]bool{v(p).String(): true}} }
	diff := v("p0").add(v("p1").scale(-1))
	lt := gfacts{order: "<", nonzero: map[string]bool{diff.String(): true, diff.scale(-1).String(): true}}
	eq := gfacts{order: "=", subst: map[string]gpoly{"p1": v("p0")}}
	gtr := gfacts{order: ">", nonzero: map[string]bool{diff.String(): true, diff.scale(-1).String(): true}}
	slt := gfacts{sorder: "<", nonzero: lt.nonzero}
	seq := gfacts{sorder: "=", subst: eq.subst}
	sgt := gfacts{sorder: ">", nonzero: lt.nonzero}
	for _, g := range []struct {
		name  string
		width string
		cases []gcase
	}{
		{"Bool", "W(p0)", []gcase{{"the operand is zero", zero("p0"), "k0"}, {"the operand is not zero", nonzero("p0"), "k1"}}},
		{"Not", "W(p0)", []gcase{{"the operand is zero", zero("p0"), "k1"}, {"the operand is not zero", nonzero("p0"), "k0"}}},
		{"BoolCond", "w", []gcase{{"the condition is zero", zero("p0"), "p2"}, {"the condition is not zero", nonzero("p0"), "p1"}}},
		{"Eq", "w", []gcase{{"a = b", eq, "p2"}, {"a < b", lt, "p3"}, {"a > b", gtr, "p3"}}},
		{"Leu", "w", []gcase{{"a = b", eq, "p2"}, {"a < b", lt, "p2"}, {"a > b", gtr, "p3"}}},
		// relative to the sign mask: the operand where its top bit is clear, its negation otherwise
		{"Abs", "w", []gcase{{"the top bit is clear", gfacts{msb: map[string]int{"p0": 0}}, "p0"}, {"the top bit is set", gfacts{msb: map[string]int{"p0": 1}}, "poly:" + v("p0").scale(-1).String()}}},
		// relative to Lts (the signed comparison, kept as a node and not itself decided)
		{"Les", "w", []gcase{{"a = b", seq, "p2"}, {"a < b (signed)", slt, "p2"}, {"a > b (signed)", sgt, "p3"}}},
	} {
		t, f := term(g.name)
		if t == nil {
			continue
		}
		n++
		bad := ""
		for _, cs := range g.cases {
			leaf, err := t.selectLeaf(g.width, cs.facts)
			switch {
			case err != "":
				bad = "where " + cs.what + ": " + err
			case leaf != cs.want:
				bad = fmt.Sprintf("where %s the gadget yields %s, documented is %s; the term is %s", cs.what, leafName(leaf), leafName(cs.want), t)
			}
			if bad != "" {
				break
			}
		}
		c.Oblige("C11.cases", "pkg/expr/exprtools."+g.name, c.Prog.FuncPos(f), bad == "", bad)
	}
	// ---- Lts: the signed comparison itself, by cases of the two top bits and
	// the unsigned order (extracted without treating Lts as a node)
	{
		saved := x.opaque
		x.opaque = map[*ssa.Function]bool{}
		if t, f := term("Lts"); t != nil {
			n++
			checkLts(c, t, f)
		}
		x.opaque = saved
	}
	// ---- SignExtend: per bit in three position classes (below / at / above the
	// sign position), the masks 1<<s and (1<<s)-1 recognised as polynomials
	c.Rule("C11.signext", "SignExtend(e, s, w) selects on the bit of e at position s alone and yields e below s and that bit from s upwards (per-bit argument in three position classes; 1<<s and (1<<s)-1 recognised by their polynomial form; s < 8w as documented)")
	{
		saved := x.opaqueSX
		x.opaqueSX = map[*ssa.Function]bool{}
		if t, f := term("SignExtend"); t != nil {
			n++
			checkSignExtend(c, t, f)
		}
		x.opaqueSX = saved
	}
	// ---- SignedMul, relative to SignExtend and Mul: the product, at twice the
	// width, of the operands each sign-extended from its own top bit to that width
	c.Rule("C11.smul", "SignedMul builds Mul(sext(a, bit 8*width(a)-1), sext(b, bit 8*width(b)-1)) with both extensions and the product at width 2w (relative to SignExtend, kept as a node, and to Mul)")
	if t, f := term("SignedMul"); t != nil {
		n++
		bad := ""
		okArg := func(a *gt, p string) bool {
			return a.kind == "sx" && a.w == "(2*w)" && a.a[0].kind == "var" && a.a[0].name == p &&
				a.a[1].kind == "kexpr" && a.a[1].name == "(Bits(W("+p+"))-1)"
		}
		switch {
		case t.kind != "bin" || t.name != "Mul" || t.w != "(2*w)":
			bad = "the term " + t.String() + " is not a product at width 2w"
		case !(okArg(t.a[0], "p0") && okArg(t.a[1], "p1")) && !(okArg(t.a[0], "p1") && okArg(t.a[1], "p0")):
			bad = "the factors of " + t.String() + " are not the two operands, each sign-extended from its own top bit to width 2w"
		}
		c.Oblige("C11.smul", "pkg/expr/exprtools.SignedMul", c.Prog.FuncPos(f), bad == "", bad)
	}
	// ---- the sign mask itself: widths are a finite set (1..MaxWidth), so the
	// function is walked (E7, typed integer arithmetic) for every one of them
	c.Rule("C11.signmask", "signBitMask(w), walked for every width 1..MaxWidth, returns either the constant 1<<(8w-1) of width w or the node Lsh(1, 8w-1) of width w")
	if sm := c.Prog.Func(tpkg + ".signBitMask"); sm != nil && sm.Blocks != nil && len(sm.Params) == 1 {
		n++
		maxW := int64(255)
		if v, ok := absint.ConstByName(ep, "MaxWidth"); ok {
			maxW = int64(v)
		}
		lshOp := int64(-1)
		for k, name := range ops {
			if name == "Lsh" {
				lshOp = k
			}
		}
		bad, walked := "", 0
		for w := int64(1); w <= maxW && bad == ""; w++ {
			var vl *Valuation
			form, okForm := "", false
			vl = &Valuation{
				Typed: true,
				Enter: func(g *ssa.Function) bool {
					return g != nil && g.Blocks != nil && ((PkgPathOf(g) == ExprPkg && NameOf(g) == "Bits") || PkgPathOf(g) == tpkg)
				},
				Int: func(v ssa.Value) (int64, bool) {
					if v == ssa.Value(sm.Params[0]) {
						return w, true
					}
					return 0, false
				},
			}
			var last *ssa.Call
			vl.Visit = func(in ssa.Instruction) {
				call, ok := in.(*ssa.Call)
				if !ok || call.Call.StaticCallee() == nil {
					return
				}
				g := Origin(call.Call.StaticCallee())
				switch {
				case FuncNameIs(g, "pkg/expr.NewConstUint") && len(call.Call.Args) == 2:
					k, ok1 := vl.EvalInt(call.Call.Args[0], nil)
					ww, ok2 := vl.EvalInt(call.Call.Args[1], nil)
					last, form = call, "const"
					okForm = ok1 && ok2 && ww == w && 8*w-1 < 64 && uint64(k) == uint64(1)<<uint(8*w-1)
				case FuncNameIs(g, "pkg/expr.NewBinary") && len(call.Call.Args) == 4:
					op, ok0 := ConstInt(call.Call.Args[0])
					ww, ok2 := vl.EvalInt(call.Call.Args[3], nil)
					one := false
					if ld, isLd := Unwrap(call.Call.Args[1]).(*ssa.UnOp); isLd {
						if gl, isG := ld.X.(*ssa.Global); isG && gl.Name() == "One" {
							one = true
						}
					}
					amt := int64(-1)
					if sc, isC := Unwrap(vl.Root(call.Call.Args[2])).(*ssa.Call); isC && sc.Call.StaticCallee() != nil && FuncNameIs(Origin(sc.Call.StaticCallee()), "pkg/expr.ConstFromUint") {
						amt, _ = vl.EvalInt(sc.Call.Args[0], nil)
					}
					last, form = call, "shift"
					okForm = ok0 && op == lshOp && ok2 && ww == w && one && amt == 8*w-1
				}
			}
			res := vl.Walk(sm.Blocks[0], nil)
			ret, isRet := res.End.(*ssa.Return)
			switch {
			case !res.OK:
				bad = fmt.Sprintf("width %d: the function cannot be followed: %s", w, res.Why)
			case !isRet:
				bad = fmt.Sprintf("width %d: the function panics", w)
			case last == nil || Unwrap(vl.Root(ret.Results[0])) != ssa.Value(last):
				bad = fmt.Sprintf("width %d: the result is not a constant or a shift built here", w)
			case !okForm:
				bad = fmt.Sprintf("width %d: the %s built is not 1<<(8*%d-1) at width %d", w, form, w, w)
			default:
				walked++
			}
		}
		c.Oblige("C11.signmask", "pkg/expr/exprtools.signBitMask", c.Prog.FuncPos(sm), bad == "", bad)
		c.Saw("signmask_widths", fmt.Sprintf("%d", walked))
	} else {
		c.Undecide("C11.signmask: %s.signBitMask not found", tpkg)
	}
	// ---- the bit mask of MaskBits: counts and widths are finite sets, so bitMask
	// is walked (E7, typed integer arithmetic) for every width and every count
	// from 0 to 72 positions beyond the largest width (relative to Sub, kept as a call)
	c.Rule("C11.mask", "bitMask(bits, w), walked for every width 1..MaxWidth and every count 0..8*MaxWidth+72, returns either a constant of width w that equals 2^min(bits,8w)-1 (which needs min(bits,8w) <= 64), or Sub(Lsh(1, bits), 1) at width w (Sub decided by C11.ring; a shift by 8w or more is zero by C10, the difference all ones); MaskBits is BitAnd (C11.bitwise) of its operand and that mask at the same width")
	// the mask function is identified from MaskBits (the call that receives its
	// count and its width), not by name
	var bm *ssa.Function
	bitsIdx, wIdx := 0, 1
	if mb := c.Prog.Func(tpkg + ".MaskBits"); mb != nil && mb.Blocks != nil && len(mb.Params) == 3 {
		for _, b := range mb.Blocks {
			for _, in := range b.Instrs {
				mc, ok := in.(*ssa.Call)
				if !ok || mc.Call.StaticCallee() == nil || len(mc.Call.Args) != 2 || PkgPathOf(mc.Call.StaticCallee()) != tpkg {
					continue
				}
				a0, a1 := Unwrap(mc.Call.Args[0]), Unwrap(mc.Call.Args[1])
				switch {
				case a0 == ssa.Value(mb.Params[1]) && a1 == ssa.Value(mb.Params[2]):
					bm, bitsIdx, wIdx = Origin(mc.Call.StaticCallee()), 0, 1
				case a1 == ssa.Value(mb.Params[1]) && a0 == ssa.Value(mb.Params[2]):
					bm, bitsIdx, wIdx = Origin(mc.Call.StaticCallee()), 1, 0
				}
			}
		}
	}
	if bm != nil && bm.Blocks != nil && len(bm.Params) == 2 {
		n++
		maxW := int64(255)
		if v, ok := absint.ConstByName(ep, "MaxWidth"); ok {
			maxW = int64(v)
		}
		lshOp := int64(-1)
		for k, name := range ops {
			if name == "Lsh" {
				lshOp = k
			}
		}
		subFn := c.Prog.Func(tpkg + ".Sub")
		isOne := func(v ssa.Value) bool {
			if ld, isLd := Unwrap(v).(*ssa.UnOp); isLd {
				if gl, isG := ld.X.(*ssa.Global); isG && gl.Name() == "One" {
					return true
				}
			}
			return false
		}
		bad, walked := "", 0
		for w := int64(1); w <= maxW && bad == ""; w++ {
			for bits := int64(0); bits <= 8*maxW+72 && bad == ""; bits++ {
				var vl *Valuation
				form, okForm := "", false
				vl = &Valuation{
					Typed: true,
					Enter: func(g *ssa.Function) bool {
						// unexported helpers of the package are followed; its exported gadgets (Sub) stay calls
						return g != nil && g.Blocks != nil && ((PkgPathOf(g) == ExprPkg && NameOf(g) == "Bits") || (PkgPathOf(g) == tpkg && !token.IsExported(NameOf(g))))
					},
					Int: func(v ssa.Value) (int64, bool) {
						switch v {
						case ssa.Value(bm.Params[bitsIdx]):
							return bits, true
						case ssa.Value(bm.Params[wIdx]):
							return w, true
						}
						return 0, false
					},
				}
				var last *ssa.Call
				vl.Visit = func(in ssa.Instruction) {
					call, ok := in.(*ssa.Call)
					if !ok || call.Call.StaticCallee() == nil {
						return
					}
					g := Origin(call.Call.StaticCallee())
					switch {
					case FuncNameIs(g, "pkg/expr.NewConstUint") && len(call.Call.Args) == 2:
						k, ok1 := vl.EvalInt(call.Call.Args[0], nil)
						ww, ok2 := vl.EvalInt(call.Call.Args[1], nil)
						last, form = call, "constant"
						// the mask has min(bits, 8w) ones: a uint64 constant can spell it only up to 64,
						// and NewConstUint panics on a value beyond the width
						eff := bits
						if eff > 8*w {
							eff = 8 * w
						}
						want := ^uint64(0)
						if eff < 64 {
							want = uint64(1)<<uint(eff) - 1
						}
						okForm = ok1 && ok2 && ww == w && eff <= 64 && uint64(k) == want
					case subFn != nil && g == Origin(subFn) && len(call.Call.Args) == 3:
						ww, ok2 := vl.EvalInt(call.Call.Args[2], nil)
						sh, isSh := Unwrap(vl.Root(call.Call.Args[0])).(*ssa.Call)
						okSh := false
						if isSh && sh.Call.StaticCallee() != nil && FuncNameIs(Origin(sh.Call.StaticCallee()), "pkg/expr.NewBinary") && len(sh.Call.Args) == 4 {
							op, ok0 := ConstInt(sh.Call.Args[0])
							sw, ok3 := vl.EvalInt(sh.Call.Args[3], nil)
							amt := int64(-1)
							if sc, isC := Unwrap(vl.Root(sh.Call.Args[2])).(*ssa.Call); isC && sc.Call.StaticCallee() != nil && FuncNameIs(Origin(sc.Call.StaticCallee()), "pkg/expr.ConstFromUint") {
								amt, _ = vl.EvalInt(sc.Call.Args[0], nil)
							}
							okSh = ok0 && op == lshOp && ok3 && sw == w && isOne(sh.Call.Args[1]) && amt == bits
						}
						last, form = call, "difference"
						okForm = ok2 && ww == w && okSh && isOne(call.Call.Args[1])
					}
				}
				res := vl.Walk(bm.Blocks[0], nil)
				ret, isRet := res.End.(*ssa.Return)
				switch {
				case !res.OK:
					bad = fmt.Sprintf("width %d, count %d: the function cannot be followed: %s", w, bits, res.Why)
				case !isRet:
					bad = fmt.Sprintf("width %d, count %d: the function panics", w, bits)
				case last == nil || Unwrap(vl.Root(ret.Results[0])) != ssa.Value(last):
					bad = fmt.Sprintf("width %d, count %d: the result is not a constant or a difference built here", w, bits)
				case !okForm:
					bad = fmt.Sprintf("width %d, count %d: the %s built is not 2^min(%d,%d)-1 at width %d%s", w, bits, form, bits, 8*w, w, map[bool]string{true: " (a constant beyond the width makes NewConstUint panic; one of 64 bits cannot hold a longer mask)"}[form == "constant" && (bits > 8*w || bits > 64)])
				default:
					walked++
				}
			}
		}
		c.Oblige("C11.mask", "pkg/expr/exprtools.bitMask", c.Prog.FuncPos(bm), bad == "", bad) // keyed by role: the mask function of MaskBits
		c.Saw("mask_walks", fmt.Sprintf("%d", walked))
		// MaskBits: BitAnd(e, bitMask(cnt, w), w)
		if mb := c.Prog.Func(tpkg + ".MaskBits"); mb != nil && mb.Blocks != nil && len(mb.Params) == 3 {
			n++
			bad := "the function does not return BitAnd(e, bitMask(cnt, w), w) of its own parameters"
			andFn := c.Prog.Func(tpkg + ".BitAnd")
			if len(mb.Blocks) == 1 && andFn != nil {
				if ret, ok := mb.Blocks[0].Instrs[len(mb.Blocks[0].Instrs)-1].(*ssa.Return); ok && len(ret.Results) == 1 {
					if ac, ok := Unwrap(ret.Results[0]).(*ssa.Call); ok && ac.Call.StaticCallee() != nil && Origin(ac.Call.StaticCallee()) == Origin(andFn) && len(ac.Call.Args) == 3 {
						isMask := func(v ssa.Value) bool {
							mc, ok := Unwrap(v).(*ssa.Call)
							return ok && mc.Call.StaticCallee() != nil && Origin(mc.Call.StaticCallee()) == Origin(bm) && len(mc.Call.Args) == 2 &&
								Unwrap(mc.Call.Args[bitsIdx]) == ssa.Value(mb.Params[1]) && Unwrap(mc.Call.Args[wIdx]) == ssa.Value(mb.Params[2])
						}
						isE := func(v ssa.Value) bool { return Unwrap(v) == ssa.Value(mb.Params[0]) }
						a0, a1 := ac.Call.Args[0], ac.Call.Args[1]
						if ((isE(a0) && isMask(a1)) || (isE(a1) && isMask(a0))) && Unwrap(ac.Call.Args[2]) == ssa.Value(mb.Params[2]) {
							bad = ""
						}
					}
				}
			}
			c.Oblige("C11.mask", "pkg/expr/exprtools.MaskBits", c.Prog.FuncPos(mb), bad == "", bad)
		} else {
			c.Undecide("C11.mask: %s.MaskBits not found", tpkg)
		}
	} else {
		c.Undecide("C11.mask: no function of %s receives the count and the width of MaskBits", tpkg)
	}
	c.RequireCount("C11 gadgets decided", n, 23)
}

func ruleOfGadget(name string) string {
	switch name {
	case "BitNot", "BitAnd", "BitOr", "BitXor", "Ones", "IntNegative":
		return "C11.bitwise"
	case "Negate", "Sub", "NewWidthGadget", "Mod":
		return "C11.ring"
	case "SignedMul":
		return "C11.smul"
	case "SignExtend":
		return "C11.signext"
	}
	return "C11.cases"
}

func leafName(l string) string {
	if strings.HasPrefix(l, "poly:") {
		return "the value " + l[5:]
	}
	switch l {
	case "k0":
		return "the constant 0"
	case "k1":
		return "the constant 1"
	}
	return "its operand " + l
}

// ---------------------------------------------------------------------------
// terms

// gt is a term of the expression IR as a gadget builds it.
type gt struct {
	kind string        // "var", "const", "bin", "less", "width"
	name string        // var: p<i>; bin: the operator; width: its spelling
	k    int64         // const
	a    []*gt         // bin: 2 operands; less: a, b, t, f
	w    string        // bin/less/const: the node's width
	fn   *ssa.Function // kind "func": a constructor handed down as a value
}

func (t *gt) String() string {
	switch t.kind {
	case "var":
		return t.name
	case "const":
		return fmt.Sprintf("%d", t.k)
	case "width":
		return t.name
	case "bin":
		return fmt.Sprintf("%s(%s, %s)@%s", t.name, t.a[0], t.a[1], t.w)
	case "less":
		return fmt.Sprintf("(%s < %s ? %s : %s)@%s", t.a[0], t.a[1], t.a[2], t.a[3], t.w)
	case "sless":
		return fmt.Sprintf("(%s <s %s ? %s : %s)@%s", t.a[0], t.a[1], t.a[2], t.a[3], t.w)
	case "sx":
		return fmt.Sprintf("sext(%s, bit %s)@%s", t.a[0], t.a[1], t.w)
	case "kexpr":
		return t.name
	case "topmask":
		return "signmask@" + t.w
	}
	return "?"
}

type gExtract struct {
	c    *Ctx
	ops  map[int64]string
	tpkg string
	// selection gadgets kept as nodes when met inside another gadget
	opaque     map[*ssa.Function]bool
	opaqueSX   map[*ssa.Function]bool
	opaqueMask map[*ssa.Function]bool
}

// scalarOf spells a Go integer computed from widths: constants, + - *, and
// Width.Bits().
func (x *gExtract) scalarOf(v ssa.Value, env map[*ssa.Parameter]*gt, depth int) (string, bool) {
	switch y := v.(type) {
	case *ssa.Const:
		if k, ok := ConstInt(y); ok {
			return fmt.Sprint(k), true
		}
	case *ssa.Convert:
		return x.scalarOf(y.X, env, depth)
	case *ssa.ChangeType:
		return x.scalarOf(y.X, env, depth)
	case *ssa.BinOp:
		a, ok1 := x.scalarOf(y.X, env, depth)
		b, ok2 := x.scalarOf(y.Y, env, depth)
		if ok1 && ok2 && (y.Op == token.ADD || y.Op == token.SUB || y.Op == token.MUL) {
			if y.Op != token.SUB && a > b {
				a, b = b, a
			}
			return "(" + a + y.Op.String() + b + ")", true
		}
	case *ssa.Call:
		if g := y.Call.StaticCallee(); g != nil && !y.Call.IsInvoke() && FuncNameIs(g, "(pkg/expr.Width).Bits") && len(y.Call.Args) == 1 {
			if t, err := x.termOf(y.Call.Args[0], env, depth); err == "" && t.kind == "width" {
				return "Bits(" + t.name + ")", true
			}
		}
	case *ssa.Parameter:
		if t := env[y]; t != nil && t.kind == "width" {
			return t.name, true
		}
	}
	if t, err := x.termOf(v, env, depth); err == "" && t.kind == "width" {
		return t.name, true
	}
	return "", false
}

// result: the term a straight-line function returns under env.
func (x *gExtract) result(f *ssa.Function, env map[*ssa.Parameter]*gt, depth int) (*gt, string) {
	if depth > 6 {
		return nil, "helpers nested too deeply"
	}
	// one return; any other way out is a panic (a guard on the arguments decides
	// only whether an expression is built, not which)
	var ret *ssa.Return
	for _, b := range f.Blocks {
		switch t := b.Instrs[len(b.Instrs)-1].(type) {
		case *ssa.Return:
			if ret != nil {
				return nil, ShortName(f) + " returns in more than one place"
			}
			ret = t
		}
	}
	if ret == nil || len(ret.Results) != 1 {
		return nil, ShortName(f) + " does not return one expression"
	}
	return x.termOf(ret.Results[0], env, depth)
}

func (x *gExtract) termOf(v ssa.Value, env map[*ssa.Parameter]*gt, depth int) (*gt, string) {
	v = Unwrap(v)
	switch y := v.(type) {
	case *ssa.Parameter:
		if t, ok := env[y]; ok {
			return t, ""
		}
		return nil, "parameter " + y.Name() + " is neither an expression nor a width"
	case *ssa.Const:
		if k, ok := ConstInt(y); ok {
			if TypeNameIs(y.Type(), "pkg/expr.Width") {
				return &gt{kind: "width", name: fmt.Sprint(k)}, ""
			}
			return &gt{kind: "const", k: k}, ""
		}
	case *ssa.UnOp:
		if g, ok := y.X.(*ssa.Global); ok && y.Op == token.MUL && g.Pkg != nil && g.Pkg.Pkg.Path() == ExprPkg {
			switch g.Name() {
			case "Zero":
				return &gt{kind: "const", k: 0, w: "1"}, ""
			case "One":
				return &gt{kind: "const", k: 1, w: "1"}, ""
			}
		}
	case *ssa.Convert:
		return x.termOf(y.X, env, depth)
	case *ssa.BinOp:
		// a width computed from widths (2*w)
		if TypeNameIs(y.Type(), "pkg/expr.Width") {
			if sc, ok := x.scalarOf(y, env, depth); ok {
				return &gt{kind: "width", name: sc}, ""
			}
		}
	case *ssa.Call:
		if y.Call.IsInvoke() {
			if y.Call.Method.Name() == "Width" {
				r, err := x.termOf(y.Call.Value, env, depth)
				if err != "" {
					return nil, err
				}
				if r.kind == "var" {
					return &gt{kind: "width", name: "W(" + r.name + ")"}, ""
				}
				if r.w != "" && r.kind != "const" {
					return &gt{kind: "width", name: r.w}, "" // a node has the width it was built with
				}
				return nil, "the width of a computed expression is taken"
			}
			return nil, "method " + y.Call.Method.Name() + " is called on an expression"
		}
		g := y.Call.StaticCallee()
		if g == nil {
			// a constructor handed down as a value
			if p, ok := y.Call.Value.(*ssa.Parameter); ok && env[p] != nil && env[p].kind == "func" {
				g = env[p].fn
			} else if f, _ := ResolveFunc(y.Call.Value); f != nil {
				g = f
			}
		}
		if g == nil {
			return nil, "a function value is called"
		}
		args := y.Call.Args
		arg := func(i int) (*gt, string) { return x.termOf(args[i], env, depth) }
		width := func(i int) (string, string) {
			t, err := arg(i)
			if err != "" {
				return "", err
			}
			if t.kind != "width" {
				return "", "a width is computed"
			}
			return t.name, ""
		}
		switch {
		case FuncNameIs(g, "pkg/expr.NewBinary") && len(args) == 4:
			k, ok := ConstInt(args[0])
			if !ok || x.ops[k] == "" {
				return nil, "the operator of a binary node is not a constant"
			}
			a, e1 := arg(1)
			b, e2 := arg(2)
			w, e3 := width(3)
			if e := firstErr(e1, e2, e3); e != "" {
				return nil, e
			}
			return &gt{kind: "bin", name: x.ops[k], a: []*gt{a, b}, w: w}, ""
		case FuncNameIs(g, "pkg/expr.NewLess") && len(args) == 5:
			var as []*gt
			for i := 0; i < 4; i++ {
				t, e := arg(i)
				if e != "" {
					return nil, e
				}
				as = append(as, t)
			}
			w, e := width(4)
			if e != "" {
				return nil, e
			}
			return &gt{kind: "less", a: as, w: w}, ""
		case PkgPathOf(g) == x.tpkg && x.opaqueMask[Origin(g)] && len(args) == 1:
			// the mask of the sign bit of a width, kept as a node
			w, e := width(0)
			if e != "" {
				return nil, e
			}
			return &gt{kind: "topmask", w: w}, ""
		case PkgPathOf(g) == x.tpkg && x.opaqueSX[Origin(g)] && len(args) == 3:
			// sign extension, kept as a node (its own meaning is not decided)
			v0, e1 := arg(0)
			bit, e2 := arg(1)
			w, e3 := width(2)
			if e := firstErr(e1, e2, e3); e != "" {
				return nil, e
			}
			return &gt{kind: "sx", a: []*gt{v0, bit}, w: w}, ""
		case (FuncNameIs(Origin(g), "pkg/expr.ConstFromUint") || FuncNameIs(Origin(g), "pkg/expr.ConstFromInt")) && len(args) == 1:
			sc, ok := x.scalarOf(args[0], env, depth)
			if !ok {
				return nil, "a constant is built from a value that cannot be spelled"
			}
			return &gt{kind: "kexpr", name: sc}, ""
		case PkgPathOf(g) == x.tpkg && x.opaque[Origin(g)] && len(args) == 5:
			// a selection gadget that is not itself decided (the signed comparison): kept
			// as a node, its own meaning taken as documented
			var as []*gt
			for i := 0; i < 4; i++ {
				t, e := arg(i)
				if e != "" {
					return nil, e
				}
				as = append(as, t)
			}
			w, e := width(4)
			if e != "" {
				return nil, e
			}
			return &gt{kind: "sless", a: as, w: w}, ""
		case PkgPathOf(g) == x.tpkg && g.Blocks != nil:
			env2 := map[*ssa.Parameter]*gt{}
			for i, p := range g.Params {
				if i >= len(args) {
					break
				}
				if TypeNameIs(p.Type(), "pkg/expr.Width") || isExprValueT(p.Type()) {
					t, e := arg(i)
					if e != "" {
						return nil, e
					}
					env2[p] = t
				} else if _, isFn := p.Type().Underlying().(*types.Signature); isFn {
					if q, ok := args[i].(*ssa.Parameter); ok && env[q] != nil && env[q].kind == "func" {
						env2[p] = env[q]
					} else if f, _ := ResolveFunc(args[i]); f != nil {
						env2[p] = &gt{kind: "func", fn: f}
					}
				}
			}
			return x.result(g, env2, depth+1)
		}
		return nil, "a call of " + ShortName(g) + " takes part in the expression"
	}
	return nil, fmt.Sprintf("%s takes part in the expression", v.Name())
}

// isExprValueT: expr.Expr or one of the node types of package expr.
func isExprValueT(t types.Type) bool {
	n, ok := t.(*types.Named)
	return ok && n.Obj().Pkg() != nil && n.Obj().Pkg().Path() == ExprPkg && n.Obj().Name() != "Width"
}

func firstErr(es ...string) string {
	for _, e := range es {
		if e != "" {
			return e
		}
	}
	return ""
}

// perBit: the value of one bit of the term, every node being a Nand at width U.
func (t *gt) perBit(env map[string]bool, U string, top bool) (bool, string) {
	switch t.kind {
	case "var":
		return env[t.name], ""
	case "const":
		if t.k == 0 {
			return false, ""
		}
		return false, fmt.Sprintf("the constant %d is not the same in every bit position", t.k)
	case "bin":
		if t.name != "Nand" {
			return false, "the operator " + t.name + " does not act on each bit on its own"
		}
		if t.w != U {
			return false, "a node of width " + t.w + " in a gadget of width " + U
		}
		a, e1 := t.a[0].perBit(env, U, top)
		b, e2 := t.a[1].perBit(env, U, top)
		return !(a && b), firstErr(e1, e2)
	case "topmask":
		// one in the top bit position of the width, zero elsewhere
		if t.w != U {
			return false, "a sign mask of width " + t.w + " in a gadget of width " + U
		}
		return top, ""
	}
	return false, "a selection takes part in a bitwise gadget"
}

// ---------------------------------------------------------------------------
// polynomials over Z (identities that hold over Z hold in every Z/2^n)

type gpoly map[string]*big.Int // monomial (sorted factors joined by *; "" = 1) -> coefficient

func constPoly(k int64) gpoly {
	if k == 0 {
		return gpoly{}
	}
	return gpoly{"": big.NewInt(k)}
}

func (p gpoly) add(q gpoly) gpoly {
	out := gpoly{}
	for m, c := range p {
		out[m] = new(big.Int).Set(c)
	}
	for m, c := range q {
		if out[m] == nil {
			out[m] = new(big.Int)
		}
		out[m].Add(out[m], c)
		if out[m].Sign() == 0 {
			delete(out, m)
		}
	}
	return out
}

func (p gpoly) scale(k int64) gpoly {
	out := gpoly{}
	for m, c := range p {
		if v := new(big.Int).Mul(c, big.NewInt(k)); v.Sign() != 0 {
			out[m] = v
		}
	}
	return out
}

func (p gpoly) mul(q gpoly) gpoly {
	out := gpoly{}
	for m1, c1 := range p {
		for m2, c2 := range q {
			var fs []string
			if m1 != "" {
				fs = append(fs, strings.Split(m1, "*")...)
			}
			if m2 != "" {
				fs = append(fs, strings.Split(m2, "*")...)
			}
			sort.Strings(fs)
			m := strings.Join(fs, "*")
			if out[m] == nil {
				out[m] = new(big.Int)
			}
			out[m].Add(out[m], new(big.Int).Mul(c1, c2))
			if out[m].Sign() == 0 {
				delete(out, m)
			}
		}
	}
	return out
}

func (p gpoly) equal(q gpoly) bool { return len(p.add(q.scale(-1))) == 0 }

func (p gpoly) String() string {
	if len(p) == 0 {
		return "0"
	}
	var ms []string
	for m := range p {
		ms = append(ms, m)
	}
	sort.Strings(ms)
	var parts []string
	for _, m := range ms {
		switch {
		case m == "":
			parts = append(parts, p[m].String())
		case p[m].Cmp(big.NewInt(1)) == 0:
			parts = append(parts, m)
		default:
			parts = append(parts, p[m].String()+"*"+m)
		}
	}
	return strings.Join(parts, " + ")
}

func (p gpoly) isConst() (int64, bool) {
	switch len(p) {
	case 0:
		return 0, true
	case 1:
		if c, ok := p[""]; ok && c.IsInt64() {
			return c.Int64(), true
		}
	}
	return 0, false
}

// poly: the term as a polynomial over Z/2^(8U): every operator node must be at
// width U. subst replaces variables / quotient atoms.
func (t *gt) poly(U string, subst map[string]gpoly) (gpoly, string) {
	switch t.kind {
	case "var":
		if s, ok := subst[t.name]; ok {
			return s, ""
		}
		return gpoly{t.name: big.NewInt(1)}, ""
	case "const":
		return constPoly(t.k), ""
	case "bin":
		if t.w != U {
			return nil, "a node of width " + t.w + " in a gadget of width " + U
		}
		a, e1 := t.a[0].poly(U, subst)
		b, e2 := t.a[1].poly(U, subst)
		if e := firstErr(e1, e2); e != "" {
			return nil, e
		}
		switch t.name {
		case "Add":
			return a.add(b), ""
		case "Mul":
			return a.mul(b), ""
		case "Nand":
			// a complement of the whole word: -x-1
			switch {
			case b.equal(constPoly(-1)), a.equal(b):
				return a.scale(-1).add(constPoly(-1)), ""
			case a.equal(constPoly(-1)):
				return b.scale(-1).add(constPoly(-1)), ""
			}
			return nil, "a Nand that is not a complement of the whole word takes part in an arithmetic gadget"
		case "Div":
			name := "q(" + a.String() + "," + b.String() + ")"
			if s, ok := subst[name]; ok {
				return s, ""
			}
			return gpoly{name: big.NewInt(1)}, ""
		}
		return nil, "the operator " + t.name + " is not an operation of the ring"
	}
	return nil, "a selection takes part in an arithmetic gadget"
}

// ---------------------------------------------------------------------------
// selections

type gfacts struct {
	subst   map[string]gpoly // variables known to equal something
	nonzero map[string]bool  // polynomials (spelled) known to be non-zero
	order   string           // "<", "=", ">" between p0 and p1 (unsigned, at the compare width)
	sorder  string           // the same for the signed order (cases of a gadget built on the signed comparison)
	msb     map[string]int   // the top bit of an operand (cases of a gadget built on the sign mask)
}

// selectLeaf decides every selection of the term under the facts and returns
// the leaf it yields: "k0"/"k1" or an operand name. Adding zero at another
// width (the width adapter) to the constants 0 and 1 does not change them.
func (t *gt) selectLeaf(U string, f gfacts) (string, string) {
	switch t.kind {
	case "var":
		return t.name, ""
	case "const":
		if t.k == 0 || t.k == 1 {
			return fmt.Sprintf("k%d", t.k), ""
		}
		return "", fmt.Sprintf("the constant %d is selected", t.k)
	case "bin":
		// x + 0 at any width >= 1 byte of a value that is 0 or 1
		if t.name == "Add" {
			if z, err := t.a[1].poly(t.w, nil); err == "" && len(z) == 0 {
				l, e := t.a[0].selectLeaf(U, f)
				if e == "" && (l == "k0" || l == "k1") {
					return l, ""
				}
				if e != "" {
					return "", e
				}
			}
		}
		if p, err := t.poly(U, f.subst); err == "" {
			return "poly:" + p.String(), ""
		}
		return "", "a computed value (" + t.String() + ") is selected"
	case "sless":
		// the signed comparison of the two operands themselves, under a case of
		// their signed order
		if t.w != U {
			return "", "a comparison at width " + t.w + " in a gadget comparing at width " + U
		}
		pa, e1 := t.a[0].poly(U, nil)
		pb, e2 := t.a[1].poly(U, nil)
		if e := firstErr(e1, e2); e != "" {
			return "", e
		}
		one := func(p gpoly, m string) bool { return len(p) == 1 && p[m] != nil && p[m].Cmp(big.NewInt(1)) == 0 }
		yes := false
		switch {
		case f.sorder == "":
			return "", "a signed comparison in a gadget that is not decided by the signed order of its operands"
		case one(pa, "p0") && one(pb, "p1"):
			yes = f.sorder == "<"
		case one(pa, "p1") && one(pb, "p0"):
			yes = f.sorder == ">"
		default:
			return "", fmt.Sprintf("the signed comparison %s <s %s is not of the two operands themselves", pa, pb)
		}
		if yes {
			return t.a[2].selectLeaf(U, f)
		}
		return t.a[3].selectLeaf(U, f)
	case "less":
		if t.w != U {
			return "", "a comparison at width " + t.w + " in a gadget comparing at width " + U
		}
		if t.a[1].kind == "topmask" {
			// x < signmask exactly when the top bit of x is clear
			pa, e := t.a[0].poly(U, nil)
			if e != "" || t.a[1].w != U {
				return "", firstErr(e, "a sign mask of another width")
			}
			for name, bit := range f.msb {
				if len(pa) == 1 && pa[name] != nil && pa[name].Cmp(big.NewInt(1)) == 0 {
					if bit == 0 {
						return t.a[2].selectLeaf(U, f)
					}
					return t.a[3].selectLeaf(U, f)
				}
			}
			return "", "a comparison with the sign mask of something else than an operand"
		}
		yes, err := decideLess(t.a[0], t.a[1], U, f)
		if err != "" {
			return "", err
		}
		if yes {
			return t.a[2].selectLeaf(U, f)
		}
		return t.a[3].selectLeaf(U, f)
	}
	return "", "the term cannot be followed"
}

// decideLess: a < b (unsigned) under the facts.
func decideLess(a, b *gt, U string, f gfacts) (bool, string) {
	pa, e1 := a.poly(U, f.subst)
	pb, e2 := b.poly(U, f.subst)
	if e := firstErr(e1, e2); e != "" {
		return false, e
	}
	ka, aConst := pa.isConst()
	kb, bConst := pb.isConst()
	isNonzero := func(p gpoly) bool { return f.nonzero[p.String()] }
	switch {
	case aConst && bConst && ka >= 0 && kb >= 0:
		return ka < kb, ""
	case bConst && kb == 1 && isNonzero(pa):
		return false, "" // x < 1 only for x = 0
	case aConst && ka == 0 && isNonzero(pb):
		return true, "" // 0 < x for every x but 0
	case bConst && kb == 0:
		return false, "" // nothing is below zero
	}
	// the two operands themselves
	if len(pa) == 1 && len(pb) == 1 && f.order != "" {
		_, a0 := pa["p0"]
		_, b1 := pb["p1"]
		_, a1 := pa["p1"]
		_, b0 := pb["p0"]
		one := func(p gpoly, m string) bool { return p[m] != nil && p[m].Cmp(big.NewInt(1)) == 0 }
		switch {
		case a0 && b1 && one(pa, "p0") && one(pb, "p1"):
			return f.order == "<", ""
		case a1 && b0 && one(pa, "p1") && one(pb, "p0"):
			return f.order == ">", ""
		case a0 && b0 && one(pa, "p0") && one(pb, "p0"):
			return false, "" // x < x
		}
	}
	return false, fmt.Sprintf("the comparison %s < %s cannot be decided from the case alone", pa, pb)
}

// ---------------------------------------------------------------------------
// the signed comparison

// sval is what a sub-term of Lts stands for under one case of (top bit of a,
// top bit of b, unsigned order of a and b): an operand, the negation of an
// operand whose top bit is set, zero, the sign mask, or a selected leaf.
type sval struct {
	kind string // "var", "neg", "zero", "mask", "leaf"
	name string
}

type scase struct {
	msb   map[string]int // p0, p1
	order string         // unsigned order of p0 and p1
}

// signedEval evaluates a term of the signed comparison under a case.
func (t *gt) signedEval(U string, cs scase) (sval, string) {
	switch t.kind {
	case "var":
		if t.name == "p0" || t.name == "p1" {
			return sval{"var", t.name}, ""
		}
		return sval{"leaf", t.name}, ""
	case "const":
		if t.k == 0 {
			return sval{"zero", ""}, ""
		}
		return sval{}, fmt.Sprintf("the constant %d takes part in the comparison", t.k)
	case "topmask":
		if t.w != U {
			return sval{}, "a sign mask of another width"
		}
		return sval{"mask", ""}, ""
	case "bin":
		if t.w != U {
			return sval{}, "a node of width " + t.w + " in a gadget of width " + U
		}
		// the negation of an operand
		if p, err := t.poly(U, nil); err == "" {
			for _, v := range []string{"p0", "p1"} {
				if len(p) == 1 && p[v] != nil && p[v].Cmp(big.NewInt(-1)) == 0 {
					if cs.msb[v] != 1 {
						return sval{}, "the negation of an operand whose top bit is clear takes part in a comparison"
					}
					return sval{"neg", v}, ""
				}
			}
		}
		// a bitwise term over the operands and the sign mask: zero outside the top
		// position whatever the operands' bits are, the top position from the case
		for _, a := range []bool{false, true} {
			for _, b := range []bool{false, true} {
				bit, err := t.perBit(map[string]bool{"p0": a, "p1": b}, U, false)
				if err != "" {
					return sval{}, err
				}
				if bit {
					return sval{}, "a bitwise term that is not confined to the sign bit takes part in the comparison"
				}
			}
		}
		top, err := t.perBit(map[string]bool{"p0": cs.msb["p0"] == 1, "p1": cs.msb["p1"] == 1}, U, true)
		if err != "" {
			return sval{}, err
		}
		if top {
			return sval{"mask", ""}, ""
		}
		return sval{"zero", ""}, ""
	case "less":
		if t.w != U {
			return sval{}, "a comparison at width " + t.w + " in a gadget comparing at width " + U
		}
		a, e1 := t.a[0].signedEval(U, cs)
		b, e2 := t.a[1].signedEval(U, cs)
		if e := firstErr(e1, e2); e != "" {
			return sval{}, e
		}
		yes, err := signedLess(a, b, cs)
		if err != "" {
			return sval{}, err
		}
		if yes {
			return t.a[2].signedEval(U, cs)
		}
		return t.a[3].signedEval(U, cs)
	}
	return sval{}, "the term cannot be followed"
}

// signedLess: a <u b for two abstract values under the case.
func signedLess(a, b sval, cs scase) (bool, string) {
	ord := func(x, y string) string { // unsigned order of operand x and operand y
		switch {
		case x == y:
			return "="
		case x == "p0":
			return cs.order
		}
		return map[string]string{"<": ">", "=": "=", ">": "<"}[cs.order]
	}
	switch {
	case a.kind == "zero" && b.kind == "zero", a.kind == "mask" && b.kind == "mask":
		return false, ""
	case a.kind == "zero" && b.kind == "mask":
		return true, ""
	case a.kind == "mask" && b.kind == "zero":
		return false, ""
	case a.kind == "var" && b.kind == "mask":
		return cs.msb[a.name] == 0, "" // below the sign mask exactly when the top bit is clear
	case a.kind == "var" && b.kind == "var":
		return ord(a.name, b.name) == "<", ""
	case a.kind == "neg" && b.kind == "neg":
		// both operands have their top bit set (so neither is zero): negation reverses the order
		return ord(b.name, a.name) == "<", ""
	}
	return false, fmt.Sprintf("the comparison of %s %s with %s %s cannot be decided from the case", a.kind, a.name, b.kind, b.name)
}

// checkLts: the signed comparison under every consistent case.
func checkLts(c *Ctx, t *gt, f *ssa.Function) {
	bad := ""
	for _, cs := range []struct {
		m0, m1 int
		order  string
		want   string
	}{
		{0, 0, "<", "p2"}, {0, 0, "=", "p3"}, {0, 0, ">", "p3"},
		{1, 1, "<", "p2"}, {1, 1, "=", "p3"}, {1, 1, ">", "p3"},
		{0, 1, "<", "p3"}, // a >= 0 > b
		{1, 0, ">", "p2"}, // a < 0 <= b
	} {
		got, err := t.signedEval("w", scase{msb: map[string]int{"p0": cs.m0, "p1": cs.m1}, order: cs.order})
		at := fmt.Sprintf("where the top bits of a and b are %d and %d and a %s b as unsigned numbers", cs.m0, cs.m1, cs.order)
		switch {
		case err != "":
			bad = at + ": " + err
		case got.kind != "leaf" || got.name != cs.want:
			bad = fmt.Sprintf("%s the gadget yields %s %s, the signed comparison gives %s", at, got.kind, got.name, leafName(cs.want))
		}
		if bad != "" {
			break
		}
	}
	c.Oblige("C11.cases", "pkg/expr/exprtools.Lts", c.Prog.FuncPos(f), bad == "", bad)
}

// ---------------------------------------------------------------------------
// sign extension at a given bit

// sxBit: one bit of a term of SignExtend(e, s, w) in one of three position
// classes - below the sign position s, at it, above it (s < 8w assumed, as the
// gadget documents). Nand nodes act per bit; any other node must be, as a
// polynomial with the atom L = Lsh(1, s), either L (a one at position s) or
// L - 1 (ones below s).
func (t *gt) sxBit(e bool, cls int, U string) (bool, string) {
	switch t.kind {
	case "var":
		if t.name == "p0" {
			return e, ""
		}
		return false, "the sign position takes part as a value"
	case "const":
		if t.k == 0 {
			return false, ""
		}
		return false, fmt.Sprintf("the constant %d is not the same in every bit position", t.k)
	case "bin":
		if t.w != U {
			return false, "a node of width " + t.w + " in a gadget of width " + U
		}
		if t.name == "Nand" {
			a, e1 := t.a[0].sxBit(e, cls, U)
			b, e2 := t.a[1].sxBit(e, cls, U)
			return !(a && b), firstErr(e1, e2)
		}
		p, err := t.sxPoly(U)
		if err != "" {
			return false, err
		}
		one := func(m string, k int64) bool { return p[m] != nil && p[m].Cmp(big.NewInt(k)) == 0 }
		switch {
		case len(p) == 1 && one("L", 1):
			return cls == 0, "" // a one at the sign position
		case len(p) == 2 && one("L", 1) && one("", -1):
			return cls < 0, "" // 2^s - 1: ones below the sign position
		}
		return false, "a computed value that is neither 1<<s nor (1<<s)-1 takes part in the extension"
	}
	return false, "a selection inside the extension"
}

// sxPoly: poly with the atom L for Lsh(1, p1).
func (t *gt) sxPoly(U string) (gpoly, string) {
	if t.kind == "bin" && t.name == "Lsh" && t.w == U && t.a[0].kind == "const" && t.a[0].k == 1 && t.a[1].kind == "var" && t.a[1].name == "p1" {
		return gpoly{"L": big.NewInt(1)}, ""
	}
	if t.kind == "bin" && t.w == U && (t.name == "Add" || t.name == "Mul" || t.name == "Nand") {
		a, e1 := t.a[0].sxPoly(U)
		b, e2 := t.a[1].sxPoly(U)
		if e := firstErr(e1, e2); e != "" {
			return nil, e
		}
		switch t.name {
		case "Add":
			return a.add(b), ""
		case "Mul":
			return a.mul(b), ""
		default:
			switch {
			case b.equal(constPoly(-1)), a.equal(b):
				return a.scale(-1).add(constPoly(-1)), ""
			case a.equal(constPoly(-1)):
				return b.scale(-1).add(constPoly(-1)), ""
			}
			return nil, "a Nand that is not a complement of the whole word inside a computed mask"
		}
	}
	return t.poly(U, nil)
}

// checkSignExtend: SignExtend(e, s, w) = cond(0 < c ? t : f) where c is non-zero
// exactly when bit s of e is set, t is e with ones from s upwards, f is e with
// zeros from s upwards.
func checkSignExtend(c *Ctx, t *gt, f *ssa.Function) {
	bad := ""
	classes := []int{-1, 0, 1}
	name := map[int]string{-1: "below the sign position", 0: "at the sign position", 1: "above the sign position"}
	switch {
	case t.kind != "less" || t.w != "w" || !(t.a[0].kind == "const" && t.a[0].k == 0):
		bad = "the gadget is not a selection on 0 < (e & 1<<s): " + t.String()
	default:
		for _, cls := range classes {
			for _, e := range []bool{false, true} {
				if bad != "" {
					break
				}
				// the condition: the bit of e at the sign position, nothing elsewhere
				cb, err := t.a[1].sxBit(e, cls, "w")
				if err != "" {
					bad = "the condition: " + err
					break
				}
				if want := cls == 0 && e; cb != want {
					bad = fmt.Sprintf("the condition has bit %v %s for an operand bit %v: it is not the sign bit alone", cb, name[cls], e)
					break
				}
				// the two results; at the sign position the operand's bit is the sign
				for _, sign := range []bool{false, true} {
					if cls == 0 && e != sign {
						continue
					}
					br := t.a[3]
					if sign {
						br = t.a[2]
					}
					got, err := br.sxBit(e, cls, "w")
					want := e
					if cls >= 0 {
						want = sign
					}
					switch {
					case err != "":
						bad = "the result: " + err
					case got != want:
						bad = fmt.Sprintf("with the sign bit %v the result has bit %v %s (operand bit %v), sign extension gives %v", sign, got, name[cls], e, want)
					}
				}
			}
		}
	}
	c.Oblige("C11.signext", "pkg/expr/exprtools.SignExtend", c.Prog.FuncPos(f), bad == "", bad)
}
