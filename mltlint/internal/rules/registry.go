// Package rules holds one checker per claimed property.
package rules

import (
	"sort"

	"mltlint/internal/core"
)

// Checker decides the structural clauses of one property on a loaded tree.
type Checker func(c *core.Ctx)

type entry struct {
	fn    Checker
	level string
}

var registry = map[string]entry{}

func register(id, level string, fn Checker) { registry[id] = entry{fn, level} }

// Lookup returns the checker of a property.
func Lookup(id string) (Checker, string, bool) {
	e, ok := registry[id]
	return e.fn, e.level, ok
}

// IDs lists the claimed properties.
func IDs() []string {
	var out []string
	for k := range registry {
		out = append(out, k)
	}
	sort.Strings(out)
	return out
}
