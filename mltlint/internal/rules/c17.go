package rules

import (
	"fmt"
	"go/types"
	"os"

	"golang.org/x/tools/go/ssa"

	. "mltlint/internal/core"
)

func init() { register("C17", "other", checkC17) }

const pkgInterval = "internal/state/interval"

// C17: the interval-set operations. They touch interval endpoints only by
// comparing and copying them; each operator is walked (E7+, ivlMachine) for
// every pair of normalised sets whose endpoints lie in a small range - every
// weak ordering of the endpoints of sets with up to two intervals, and of the
// per-interval helpers with lists of up to three - and the result is compared
// with the set of integers the operation denotes, in normal form.
func checkC17(c *Ctx) {
	c.Rule("C17.union", "MapUnion, walked for every pair of sets of up to 2 intervals with endpoints in 0..6, returns without an out-of-range access and yields the normal form of the union")
	c.Rule("C17.complement", "MapComplement, walked for the same pairs, returns without an out-of-range access and yields the normal form of the difference")
	c.Rule("C17.intersect", "MapIntersect, walked for the same pairs, returns without an out-of-range access and yields the normal form of the intersection")
	c.Rule("C17.ops", "the per-interval helpers of MapIntersect/MapComplement for lists of up to 3 intervals: pieces and consumed count (as C16.ops)")
	c.Rule("C17.norm", "NewMap sorts its intervals by begin and its merge loop, walked for every begin-sorted list of up to 3 possibly overlapping or adjacent intervals with endpoints in 0..5, leaves the normal form in the prefix it returns")

	ipkg := ModulePath + "/" + pkgInterval
	checkIntervalOperators(c, map[string]string{"MapUnion": "C17.union", "MapComplement": "C17.complement", "MapIntersect": "C17.intersect"})
	checkIntervalOps(c, "C17.ops")

	// --- NewMap
	nm := c.Prog.Func(ipkg + ".NewMap")
	if nm != nil && nm.Blocks == nil {
		nm = Origin(nm)
	}
	if nm == nil || nm.Blocks == nil || len(nm.Params) != 1 {
		c.Undecide("C17.norm: %s.NewMap not found", ipkg)
		return
	}
	sorted := false
	for _, cs := range Calls(nm) {
		if sortsAscending(cs.Common(), func(v ssa.Value) bool { n, _, ok := FieldNameOfLoad(v); return ok && n == "begin" }) ||
			sortsAscending(cs.Common(), isBeginKey) {
			if DependsOn(cs.Common().Args[0], func(v ssa.Value) bool { return v == ssa.Value(nm.Params[0]) }) {
				sorted = true
			}
		}
	}
	c.Oblige("C17.norm", ShortName(nm)+"/sorts-by-begin", c.Prog.FuncPos(nm), sorted, "NewMap does not sort its intervals by begin before merging them")
	for k := 0; k <= 3; k++ {
		// begin-sorted lists of k non-empty intervals, overlaps and ties allowed
		var lists [][]ivl
		var rec func(cur []ivl)
		rec = func(cur []ivl) {
			if len(cur) == k {
				lists = append(lists, append([]ivl(nil), cur...))
				return
			}
			from := int64(0)
			if len(cur) > 0 {
				from = cur[len(cur)-1].b
			}
			for b := from; b < 6; b++ {
				for e := b + 1; e < 6; e++ {
					rec(append(cur, ivl{b, e}))
				}
			}
		}
		rec(nil)
		bad, walked := "", 0
		for _, l := range lists {
			m := newIvlMachine(nm)
			in := append([]ivl(nil), l...)
			m.lists[nm.Params[0]] = &in
			_, crash, why := m.run()
			at := "for " + ivlString(l)
			if crash != "" {
				bad = at + ": " + crash
				break
			}
			if why != "" {
				bad = at + ": not computable: " + why
				break
			}
			walked++
			var got []ivl
			switch {
			case m.resLen >= 0 && m.resLen <= int64(len(in)):
				got = in[:m.resLen]
			case len(m.acc) > 0 || len(in) == 0:
				got = m.acc // built in a fresh list
			default:
				got = in
			}
			if want := ivlNormalise(l); !ivlEqual(got, want) {
				bad = fmt.Sprintf("%s the result is %s, the normal form is %s", at, ivlString(got), ivlString(want))
				break
			}
		}
		c.Oblige("C17.norm", fmt.Sprintf("%s/%d-intervals", ShortName(nm), k), c.Prog.FuncPos(nm), bad == "", bad)
		c.Saw("interval_lists", fmt.Sprintf("NewMap/%d: %d", k, walked))
	}
}

func isBuiltin(call *ssa.Call, name string) bool {
	bi, ok := call.Call.Value.(*ssa.Builtin)
	return ok && bi.Name() == name
}

var _ = types.Typ

// checkIntervalOperators walks the set operators as wholes (see checkC17);
// rules maps an operator's name to the rule its obligations are filed under.
func checkIntervalOperators(c *Ctx, rules map[string]string) {
	ipkg := ModulePath + "/" + pkgInterval
	var sets [][]ivl
	for k := 0; k <= 2; k++ {
		sets = append(sets, ivlLists(7, k)...)
	}
	type binop struct {
		rule, name, what string
		want             func(a, b []ivl) []ivl
	}
	inSet := func(l []ivl, x int64) bool {
		for _, i := range l {
			if i.b <= x && x < i.e {
				return true
			}
		}
		return false
	}
	pointwise := func(f func(a, b bool) bool) func(a, b []ivl) []ivl {
		return func(a, b []ivl) []ivl {
			var out []ivl
			for x := int64(0); x < 8; x++ {
				if f(inSet(a, x), inSet(b, x)) {
					out = append(out, ivl{x, x + 1})
				}
			}
			return ivlNormalise(out)
		}
	}
	for _, op := range []binop{
		{rules["MapUnion"], "MapUnion", "union", pointwise(func(a, b bool) bool { return a || b })},
		{rules["MapComplement"], "MapComplement", "difference", pointwise(func(a, b bool) bool { return a && !b })},
		{rules["MapIntersect"], "MapIntersect", "intersection", pointwise(func(a, b bool) bool { return a && b })},
	} {
		if op.rule == "" {
			continue
		}
		fn := c.Prog.Func(ipkg + "." + op.name)
		if fn != nil && fn.Blocks == nil {
			fn = Origin(fn)
		}
		if fn == nil || fn.Blocks == nil || len(fn.Params) != 2 {
			c.Undecide("%s: %s.%s not found", op.rule, ipkg, op.name)
			continue
		}
		// one obligation per shape (number of intervals on each side)
		type shape struct{ a, b int }
		bad := map[shape]string{}
		walked := map[shape]int{}
		for _, a := range sets {
			for _, b := range sets {
				sh := shape{len(a), len(b)}
				if bad[sh] != "" {
					continue
				}
				if f := os.Getenv("MLTLINT_IVL"); f != "" && f != op.name+ivlString(a)+ivlString(b) {
					continue
				}
				m := newIvlMachine(fn)
				la, lb := append([]ivl(nil), a...), append([]ivl(nil), b...)
				m.lists[fn.Params[0]] = &la
				m.lists[fn.Params[1]] = &lb
				_, crash, why := m.run()
				at := fmt.Sprintf("for %s and %s", ivlString(a), ivlString(b))
				switch {
				case crash != "":
					bad[sh] = at + ": " + crash
				case why != "":
					bad[sh] = at + ": not computable: " + why
				default:
					walked[sh]++
					if want := op.want(a, b); !ivlEqual(m.acc, want) {
						bad[sh] = fmt.Sprintf("%s the result is %s, the %s is %s", at, ivlString(m.acc), op.what, ivlString(want))
					}
				}
			}
		}
		n := 0
		for ka := 0; ka <= 2; ka++ {
			for kb := 0; kb <= 2; kb++ {
				sh := shape{ka, kb}
				key := fmt.Sprintf("%s/%d-and-%d-intervals", ShortName(fn), ka, kb)
				c.Oblige(op.rule, key, c.Prog.FuncPos(fn), bad[sh] == "", bad[sh])
				n += walked[sh]
			}
		}
		c.Saw("interval_set_pairs", fmt.Sprintf("%s: %d", op.name, n))
		// the result is the list the walk accumulated: the returned Map's slice is
		// built by append/helper calls only (not an input list handed back)
		for _, b := range fn.Blocks {
			if ret, ok := b.Instrs[len(b.Instrs)-1].(*ssa.Return); ok {
				aliases := DependsOn(ret.Results[0], func(v ssa.Value) bool {
					return v == ssa.Value(fn.Params[0]) || v == ssa.Value(fn.Params[1])
				}) && !DependsOn(ret.Results[0], func(v ssa.Value) bool {
					call, ok := v.(*ssa.Call)
					return ok && !isBuiltin(call, "len")
				})
				c.Oblige(op.rule, ShortName(fn)+"/returns-the-built-list", c.Prog.Pos(ret.Pos()), !aliases, "the result is an operand's own list, not the list built by the sweep")
			}
		}
	}
}
