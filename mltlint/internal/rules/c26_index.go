package rules

import (
	"fmt"
	"go/token"
	"go/types"

	"golang.org/x/tools/go/ssa"

	. "mltlint/internal/core"
)

// C26.index: indexing a fixed-size array with a computed index. The length is
// a constant of the type, so "the index is below it" has a finite argument: an
// upper bound of the index that follows from its type, from masks, remainders
// and shifts by constants, from being the key of a range over an array of the
// same length, or from a comparison that guards the access. An access for
// which no bound below the length follows is a possible crash of the code that
// loads, decodes and models the program.
func checkArrayIndexBounds(c *Ctx, rule string, pkgs []string) int {
	n := 0
	for _, pk := range pkgs {
		for _, f := range c.Prog.FuncsIn(ModulePath + "/" + pk) {
			if f.Blocks == nil {
				continue
			}
			site := 0
			for _, b := range f.Blocks {
				for _, in := range b.Instrs {
					var idx ssa.Value
					var length int64
					switch x := in.(type) {
					case *ssa.IndexAddr:
						if pt, ok := x.X.Type().Underlying().(*types.Pointer); ok {
							if at, ok := pt.Elem().Underlying().(*types.Array); ok {
								idx, length = x.Index, at.Len()
							}
						}
					case *ssa.Index:
						if at, ok := x.X.Type().Underlying().(*types.Array); ok {
							idx, length = x.Index, at.Len()
						}
					}
					if idx == nil {
						continue
					}
					if _, isConst := idx.(*ssa.Const); isConst {
						continue // checked by the compiler
					}
					site++
					n++
					key := fmt.Sprintf("%s/array-index#%d", ShortName(f), site)
					max, known := indexUpperBound(idx, b, length, 0)
					switch {
					case known && max < length:
						c.Pass(rule, key, c.Prog.Pos(in.Pos()), fmt.Sprintf("index <= %d, length %d", max, length))
					case known:
						c.Fail(rule, key, c.Prog.Pos(in.Pos()), fmt.Sprintf("an array of %d elements is indexed with a value that may reach %d: nothing bounds it below the length, the access can panic", length, max))
					default:
						c.Fail(rule, key, c.Prog.Pos(in.Pos()), fmt.Sprintf("an array of %d elements is indexed with a value for which no upper bound follows", length))
					}
				}
			}
		}
	}
	return n
}

// indexUpperBound: the largest value v can take where it is used in block at
// (inclusive), as far as it follows from the forms listed above.
func indexUpperBound(v ssa.Value, at *ssa.BasicBlock, length int64, depth int) (int64, bool) {
	if depth > 8 {
		return 0, false
	}
	best, have := int64(0), false
	take := func(m int64) {
		if m >= 0 && (!have || m < best) {
			best, have = m, true
		}
	}
	// the value's type
	if bt, ok := v.Type().Underlying().(*types.Basic); ok {
		switch bt.Kind() {
		case types.Uint8:
			take(1<<8 - 1)
		case types.Uint16:
			take(1<<16 - 1)
		case types.Uint32:
			take(1<<32 - 1)
		}
	}
	unsignedOrNonNeg := func(x ssa.Value) bool {
		bt, ok := x.Type().Underlying().(*types.Basic)
		return ok && bt.Info()&types.IsUnsigned != 0
	}
	switch x := v.(type) {
	case *ssa.Const:
		if k, ok := ConstInt(x); ok {
			take(k)
		}
	case *ssa.Convert:
		// widening (or same-size) conversion of an unsigned value keeps its bound
		if unsignedOrNonNeg(x.X) {
			if m, ok := indexUpperBound(x.X, at, length, depth+1); ok {
				take(m)
			}
		}
	case *ssa.ChangeType:
		if m, ok := indexUpperBound(x.X, at, length, depth+1); ok {
			take(m)
		}
	case *ssa.BinOp:
		switch x.Op {
		case token.AND:
			for _, o := range []ssa.Value{x.X, x.Y} {
				if k, ok := ConstInt(o); ok && k >= 0 {
					take(k)
				}
			}
		case token.REM:
			if k, ok := ConstInt(x.Y); ok && k > 0 && unsignedOrNonNeg(x.X) {
				take(k - 1)
			}
		case token.SHR:
			if k, ok := ConstInt(x.Y); ok && k >= 0 && k < 63 && unsignedOrNonNeg(x.X) {
				if m, ok := indexUpperBound(x.X, at, length, depth+1); ok {
					take(m >> uint(k))
				}
			}
		}
	case *ssa.Phi:
		// the key of a range over an array (or a slice of an array) of that length
		for _, l := range RangeLoops(x.Parent()) {
			if l.Key == v && !l.IsMap {
				if n, ok := staticLen(l.Over); ok {
					take(n - 1)
				}
			}
		}
	}
	// a comparison that guards the access (of the index itself or of a
	// value-preserving conversion of it)
	root := valuePreservingRoot(v)
	for _, g := range GuardsOf(at) {
		bo, ok := g.Cond.(*ssa.BinOp)
		if !ok {
			continue
		}
		if valuePreservingRoot(bo.X) == root {
			if k, ok := boundConst(bo.Y); ok {
				switch {
				case (bo.Op == token.LSS && g.Outcome) || (bo.Op == token.GEQ && !g.Outcome):
					take(k - 1)
				case (bo.Op == token.LEQ && g.Outcome) || (bo.Op == token.GTR && !g.Outcome):
					take(k)
				}
			}
		}
		if valuePreservingRoot(bo.Y) == root {
			if k, ok := boundConst(bo.X); ok {
				switch {
				case (bo.Op == token.GTR && g.Outcome) || (bo.Op == token.LEQ && !g.Outcome):
					take(k - 1)
				case (bo.Op == token.GEQ && g.Outcome) || (bo.Op == token.LSS && !g.Outcome):
					take(k)
				}
			}
		}
	}
	return best, have
}

// valuePreservingRoot strips conversions that cannot change the value: to a
// type at least as wide, from an unsigned type or between signed types.
func valuePreservingRoot(v ssa.Value) ssa.Value {
	for {
		switch x := v.(type) {
		case *ssa.ChangeType:
			v = x.X
			continue
		case *ssa.Convert:
			from, ok1 := x.X.Type().Underlying().(*types.Basic)
			to, ok2 := x.Type().Underlying().(*types.Basic)
			if ok1 && ok2 && from.Info()&types.IsInteger != 0 && to.Info()&types.IsInteger != 0 {
				fs, ts := intBits(from), intBits(to)
				fu, tu := from.Info()&types.IsUnsigned != 0, to.Info()&types.IsUnsigned != 0
				if (fu && ts > fs) || (fu && tu && ts >= fs) || (!fu && !tu && ts >= fs) {
					v = x.X
					continue
				}
			}
		}
		return v
	}
}

func intBits(b *types.Basic) int {
	switch b.Kind() {
	case types.Int8, types.Uint8:
		return 8
	case types.Int16, types.Uint16:
		return 16
	case types.Int32, types.Uint32:
		return 32
	}
	return 64
}

// boundConst: a constant, or len() of a fixed-size array.
func boundConst(v ssa.Value) (int64, bool) {
	if k, ok := ConstInt(v); ok {
		return k, true
	}
	if call, ok := v.(*ssa.Call); ok && isBuiltin(call, "len") {
		return staticLen(call.Call.Args[0])
	}
	return 0, false
}

func staticLen(v ssa.Value) (int64, bool) {
	t := v.Type().Underlying()
	if pt, ok := t.(*types.Pointer); ok {
		t = pt.Elem().Underlying()
	}
	if at, ok := t.(*types.Array); ok {
		return at.Len(), true
	}
	if sl, ok := v.(*ssa.Slice); ok && sl.Low == nil && sl.High == nil {
		return staticLen(sl.X)
	}
	return 0, false
}
