package rules

import (
	"fmt"
	"go/token"
	"go/types"
	"os"

	"golang.org/x/tools/go/ssa"

	. "mltlint/internal/core"
)

// ivlMachine is the valuation used to walk (E7+) the interval-set code of
// package interval on concrete small inputs. The code touches interval
// endpoints only by comparing and copying them, so one walk per weak ordering
// of the endpoints covers every input with that ordering.
//
// Model:
//   - input lists: slice-typed roots (a slice parameter, the intvs field of a
//     Map parameter, reslices x[lo:] of those) stand for concrete lists; their
//     elements can be read and - for a slice parameter (NewMap) - overwritten;
//   - interval-typed locals are cells holding a concrete interval; loads are
//     snapshotted where they execute;
//   - every other value of type []Interval is the accumulator: the one list the
//     walked code builds. An interval stored into a fresh array (the argument
//     of append) is pushed on it; its last elements can be read and rewritten;
//   - an index or slice bound outside its list is a crash.
type ivlMachine struct {
	root   *ssa.Function
	intv   map[*ssa.Parameter]ivl    // interval parameters of root
	lists  map[*ssa.Parameter]*[]ivl // slice parameters / Map parameters of root
	acc    []ivl
	crash  string
	why    string
	resLen int64 // last evaluated x[:hi] of an input list (NewMap's result), -1 if none

	vl      *Valuation
	cells   map[*ssa.Alloc]ivl
	snap    map[ssa.Value]ivl
	snapInt map[ssa.Value]int64
	views   map[*ssa.Slice]listView
	calls   []*ssa.Call // the entered calls that have not returned yet
}

type listView struct {
	list *[]ivl // nil: the accumulator
	off  int64
}

func isIvlType(t types.Type) bool {
	if p, ok := t.(*types.Pointer); ok {
		t = p.Elem()
	}
	n, ok := t.(*types.Named)
	return ok && n.Obj().Name() == "Interval" && n.Obj().Pkg() != nil && n.Obj().Pkg().Path() == ModulePath+"/internal/state/interval"
}

func isIvlSlice(t types.Type) bool {
	s, ok := t.Underlying().(*types.Slice)
	return ok && isIvlType(s.Elem())
}

func newIvlMachine(root *ssa.Function) *ivlMachine {
	m := &ivlMachine{root: root, intv: map[*ssa.Parameter]ivl{}, lists: map[*ssa.Parameter]*[]ivl{}, resLen: -1,
		cells: map[*ssa.Alloc]ivl{}, snap: map[ssa.Value]ivl{}, snapInt: map[ssa.Value]int64{}, views: map[*ssa.Slice]listView{}}
	m.vl = &Valuation{
		Enter: func(g *ssa.Function) bool {
			if g == nil || (g.Blocks == nil && Origin(g).Blocks == nil) || PkgPathOf(g) != PkgPathOf(root) {
				return false
			}
			// interval getters and the constructor are modelled, not followed
			if g.Signature.Recv() != nil && isIvlType(g.Signature.Recv().Type()) {
				if _, isGetter := GetterOf(g); isGetter {
					return false
				}
			}
			return NameOf(Origin(g)) != "New"
		},
		Int:   m.intAtom,
		Visit: m.visit,
		// a value that was snapshotted where it executed is not followed further
		// (its operands may have been overwritten by a later activation)
		RootStop: func(v ssa.Value) bool {
			_, ok := m.snap[v]
			return ok
		},
	}
	return m
}

func fieldNameOf(v ssa.Value) string {
	if f := FieldOf(v); f != nil {
		return f.Name()
	}
	return ""
}

// listOf: the concrete list a []Interval value stands for (nil list: the
// accumulator) and the offset of its first element.
func (m *ivlMachine) listOf(v ssa.Value, depth int) (listView, bool) {
	if depth > 12 {
		return listView{}, false
	}
	v = m.vl.Root(v)
	switch x := v.(type) {
	case *ssa.Parameter:
		if l, ok := m.lists[x]; ok {
			return listView{l, 0}, true
		}
	case *ssa.Slice:
		if vw, ok := m.views[x]; ok {
			return vw, true
		}
	case *ssa.UnOp:
		if x.Op == token.MUL {
			if fa, ok := x.X.(*ssa.FieldAddr); ok {
				if p := m.mapParam(fa.X); p != nil {
					return listView{m.lists[p], 0}, true
				}
			}
		}
	case *ssa.Field:
		if p := m.mapParam(x.X); p != nil {
			return listView{m.lists[p], 0}, true
		}
	}
	if isIvlSlice(v.Type()) {
		return listView{nil, 0}, true
	}
	return listView{}, false
}

// mapParam: v is (the address of a local copy of) a Map parameter of root.
func (m *ivlMachine) mapParam(v ssa.Value) *ssa.Parameter {
	for i := 0; i < 6; i++ {
		v = m.vl.Root(v)
		switch x := v.(type) {
		case *ssa.Parameter:
			if _, ok := m.lists[x]; ok && !isIvlSlice(x.Type()) {
				return x
			}
			return nil
		case *ssa.Alloc:
			// a spilled struct value: the value stored into it
			var st *ssa.Store
			if x.Referrers() != nil {
				for _, r := range *x.Referrers() {
					if s, ok := r.(*ssa.Store); ok && s.Addr == ssa.Value(x) {
						st = s
					}
				}
			}
			if st == nil {
				return nil
			}
			_, fr := m.vl.RootF(x)
			old := m.vl.SetFrame(fr)
			v = m.vl.Root(st.Val)
			m.vl.SetFrame(old)
			if p, ok := v.(*ssa.Parameter); ok {
				if _, has := m.lists[p]; has && !isIvlSlice(p.Type()) {
					return p
				}
			}
			return nil
		case *ssa.UnOp:
			if x.Op != token.MUL {
				return nil
			}
			v = x.X
		default:
			return nil
		}
	}
	return nil
}

func (m *ivlMachine) elems(vw listView) []ivl {
	if vw.list == nil {
		return m.acc
	}
	return *vw.list
}

// elemAt: the element an IndexAddr addresses.
func (m *ivlMachine) elemAt(ia *ssa.IndexAddr) (vw listView, idx int64, ok bool) {
	vw, ok = m.listOf(ia.X, 0)
	if !ok {
		return vw, 0, false
	}
	i, iok := m.vl.EvalInt(ia.Index, nil)
	if !iok {
		return vw, 0, false
	}
	idx = vw.off + i
	if i < 0 || idx < 0 || idx >= int64(len(m.elems(vw))) {
		if m.crash == "" {
			m.crash = fmt.Sprintf("index %d is applied to a list of length %d", i, int64(len(m.elems(vw)))-vw.off)
		}
		return vw, 0, false
	}
	return vw, idx, true
}

// resolve: the interval a struct-typed value stands for.
func (m *ivlMachine) resolve(v ssa.Value) (ivl, bool) {
	if s, ok := m.snap[v]; ok {
		return s, true
	}
	v = m.vl.Root(v)
	if s, ok := m.snap[v]; ok {
		return s, true
	}
	switch y := v.(type) {
	case *ssa.Parameter:
		if i, ok := m.intv[y]; ok {
			return i, true
		}
	case *ssa.Call:
		if f := y.Call.StaticCallee(); f != nil && NameOf(Origin(f)) == "New" && len(y.Call.Args) == 2 {
			b, ok1 := m.vl.EvalInt(y.Call.Args[0], nil)
			e, ok2 := m.vl.EvalInt(y.Call.Args[1], nil)
			return ivl{b, e}, ok1 && ok2
		}
	case *ssa.UnOp:
		if y.Op == token.MUL {
			if a, ok := y.X.(*ssa.Alloc); ok {
				c, ok := m.cells[a]
				return c, ok
			}
		}
	}
	return ivl{}, false
}

func endpointOf(i ivl, name string) (int64, bool) {
	switch name {
	case "begin":
		return i.b, true
	case "end":
		return i.e, true
	}
	return 0, false
}

func (m *ivlMachine) intAtom(v ssa.Value) (int64, bool) {
	if n, ok := m.snapInt[v]; ok {
		return n, true
	}
	switch y := v.(type) {
	case *ssa.Call:
		if bi, ok := y.Call.Value.(*ssa.Builtin); ok {
			if (bi.Name() == "len" || bi.Name() == "cap") && isIvlSlice(y.Call.Args[0].Type()) {
				if vw, ok := m.listOf(y.Call.Args[0], 0); ok {
					return int64(len(m.elems(vw))) - vw.off, true
				}
			}
			return 0, false
		}
		f := y.Call.StaticCallee()
		if f == nil || y.Call.IsInvoke() || len(y.Call.Args) != 1 || !isIvlType(y.Call.Args[0].Type()) {
			return 0, false
		}
		if fld, isGetter := GetterOf(f); isGetter {
			if i, ok := m.resolve(y.Call.Args[0]); ok {
				return endpointOf(i, fld)
			}
		}
	case *ssa.Field:
		if isIvlType(y.X.Type()) {
			if i, ok := m.resolve(y.X); ok {
				return endpointOf(i, fieldNameOf(y))
			}
		}
	}
	return 0, false
}

func (m *ivlMachine) visit(in ssa.Instruction) {
	if m.crash != "" {
		return // the walked code has already failed
	}
	if os.Getenv("MLTLINT_DEBUG") == "ivl" {
		fmt.Fprintf(os.Stderr, "  ivl: %s = %s   acc=%v\n", func() string {
			if v, ok := in.(ssa.Value); ok {
				return v.Name()
			}
			return "-"
		}(), in, m.acc)
	}
	switch y := in.(type) {
	case *ssa.Call:
		if g := y.Call.StaticCallee(); g != nil && !y.Call.IsInvoke() && m.vl.Enter(g) {
			m.calls = append(m.calls, y)
		}
	case *ssa.Return:
		// an interval handed back by an entered callee is fixed now: the callee's
		// own values are overwritten by its next activation
		if n := len(m.calls); n > 0 && y.Parent() != m.root {
			call := m.calls[n-1]
			m.calls = m.calls[:n-1]
			delete(m.snap, call)
			if len(y.Results) == 1 && isIvlType(y.Results[0].Type()) {
				if i, ok := m.resolve(y.Results[0]); ok {
					m.snap[call] = i
				}
			}
		}
	case *ssa.Panic:
		if n := len(m.calls); n > 0 {
			m.calls = m.calls[:n-1]
		}
	case *ssa.Slice:
		if !isIvlSlice(y.X.Type()) {
			return
		}
		base, ok := m.listOf(y.X, 0)
		if !ok {
			return
		}
		n := int64(len(m.elems(base))) - base.off
		lo, hi := int64(0), n
		if y.Low != nil {
			if v, ok := m.vl.EvalInt(y.Low, nil); ok {
				lo = v
			} else {
				m.why = "a slice bound cannot be evaluated"
			}
		}
		if y.High != nil {
			if v, ok := m.vl.EvalInt(y.High, nil); ok {
				hi = v
				if base.list != nil {
					m.resLen = base.off + v
				}
			} else {
				m.why = "a slice bound cannot be evaluated"
			}
		}
		if (lo < 0 || hi > n || lo > hi) && m.crash == "" {
			m.crash = fmt.Sprintf("the slice expression [%d:%d] is applied to a list of length %d", lo, hi, n)
		}
		m.views[y] = listView{base.list, base.off + lo}
	case *ssa.UnOp:
		if y.Op != token.MUL {
			return
		}
		// loads are snapshotted where they execute: the cell may change later
		switch a := y.X.(type) {
		case *ssa.Alloc:
			if c, ok := m.cells[a]; ok {
				m.snap[y] = c
			} else {
				delete(m.snap, y)
			}
		case *ssa.FieldAddr:
			var base ivl
			ok := false
			switch bs := a.X.(type) {
			case *ssa.Alloc:
				base, ok = m.cells[bs]
			case *ssa.IndexAddr:
				if isIvlSlice(bs.X.Type()) {
					if vw, idx, eok := m.elemAt(bs); eok {
						base, ok = m.elems(vw)[idx], true
					}
				}
			}
			delete(m.snapInt, y)
			if ok {
				if n, nok := endpointOf(base, fieldNameOf(a)); nok {
					m.snapInt[y] = n
				}
			}
		case *ssa.IndexAddr:
			delete(m.snap, y)
			if isIvlSlice(a.X.Type()) {
				if vw, idx, ok := m.elemAt(a); ok {
					m.snap[y] = m.elems(vw)[idx]
				}
			}
		}
	case *ssa.Store:
		switch a := y.Addr.(type) {
		case *ssa.Alloc:
			if isIvlType(a.Type()) {
				if os.Getenv("MLTLINT_DEBUG") == "ivl" {
					r := m.vl.Root(y.Val)
					fmt.Fprintf(os.Stderr, "    store %s <- %s roots to %s (%T) in %s\n", a.Name(), y.Val.Name(), r.Name(), r, r.Parent())
				}
				if i, ok := m.resolve(y.Val); ok {
					m.cells[a] = i
				} else {
					delete(m.cells, a)
				}
			}
		case *ssa.FieldAddr:
			if !isIvlType(a.X.Type()) {
				return
			}
			n, nok := m.vl.EvalInt(y.Val, nil)
			set := func(c ivl) ivl {
				switch fieldNameOf(a) {
				case "begin":
					c.b = n
				case "end":
					c.e = n
				}
				return c
			}
			switch bs := a.X.(type) {
			case *ssa.Alloc:
				c, has := m.cells[bs]
				if !has || !nok {
					delete(m.cells, bs)
					m.why = "a write to an interval local cannot be evaluated"
					return
				}
				m.cells[bs] = set(c)
			case *ssa.IndexAddr:
				vw, idx, ok := m.elemAt(bs)
				if !ok || !nok {
					if m.crash == "" {
						m.why = "a write to a list element cannot be evaluated"
					}
					return
				}
				if vw.list == nil {
					m.acc[idx] = set(m.acc[idx])
				} else {
					(*vw.list)[idx] = set((*vw.list)[idx])
				}
			}
		case *ssa.IndexAddr:
			if !isIvlType(y.Val.Type()) {
				return
			}
			if al, ok := a.X.(*ssa.Alloc); ok {
				if _, isArr := al.Type().(*types.Pointer).Elem().Underlying().(*types.Array); isArr {
					// an interval stored into a fresh array: the argument of append
					if i, ok := m.resolve(y.Val); ok {
						m.acc = append(m.acc, i)
					} else {
						m.why = "an appended interval cannot be evaluated"
					}
					return
				}
			}
			// list[i] = interval
			vw, idx, ok := m.elemAt(a)
			i, rok := m.resolve(y.Val)
			if !ok || !rok {
				if m.crash == "" {
					m.why = "a write to a list element cannot be evaluated"
				}
				return
			}
			if vw.list == nil {
				m.acc[idx] = i
			} else {
				(*vw.list)[idx] = i
			}
		}
	}
}

// run walks root. decided is false (with why) when a branch could not be
// evaluated; crash describes an out-of-range access or a panic.
func (m *ivlMachine) run() (res WalkResult, crash, why string) {
	res = m.vl.Walk(m.root.Blocks[0], nil)
	if m.crash != "" {
		return res, m.crash, ""
	}
	if m.why != "" {
		return res, "", m.why
	}
	if !res.OK {
		return res, "", res.Why
	}
	if _, isRet := res.End.(*ssa.Return); !isRet {
		return res, "the code panics", ""
	}
	return res, "", ""
}

// normalise: the sorted, disjoint, non-adjacent representation of a set of
// integers given by (possibly overlapping) intervals.
func ivlNormalise(l []ivl) []ivl {
	var pts []ivl
	for _, i := range l {
		if i.b < i.e {
			pts = append(pts, i)
		}
	}
	for i := 1; i < len(pts); i++ {
		for j := i; j > 0 && pts[j].b < pts[j-1].b; j-- {
			pts[j], pts[j-1] = pts[j-1], pts[j]
		}
	}
	var out []ivl
	for _, i := range pts {
		if n := len(out); n > 0 && i.b <= out[n-1].e {
			if i.e > out[n-1].e {
				out[n-1].e = i.e
			}
			continue
		}
		out = append(out, i)
	}
	return out
}

// normalised lists with k intervals and all endpoints among 0..n-1
func ivlLists(n, k int) [][]ivl {
	var lists [][]ivl
	var rec func(from int64, cur []ivl)
	rec = func(from int64, cur []ivl) {
		if len(cur) == k {
			lists = append(lists, append([]ivl(nil), cur...))
			return
		}
		for b := from; b < int64(n); b++ {
			for e := b + 1; e < int64(n); e++ {
				rec(e+1, append(cur, ivl{b, e}))
			}
		}
	}
	rec(0, nil)
	return lists
}
