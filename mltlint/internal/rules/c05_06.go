package rules

import (
	"fmt"
	"go/token"
	"go/types"
	"sort"
	"strings"

	"golang.org/x/tools/go/ssa"

	. "mltlint/internal/core"
)

func init() {
	register("C05", "other", checkC05)
	register("C06", "other", checkC06)
}

const pkgDeps = "internal/deps"

var writtenSets = map[string]bool{"outRegs": true, "stores": true}
var readSets = map[string]bool{"inRegs": true, "loads": true}

// scanner is a function of package deps with an *instruction parameter and a
// key->instruction table parameter.
type scanner struct {
	Fn  *ssa.Function
	Ins *ssa.Parameter
	Tab *ssa.Parameter
}

func isKeyInsMap(t types.Type) bool {
	m, ok := t.Underlying().(*types.Map)
	if !ok {
		return false
	}
	if !TypeNameIs(m.Key(), "pkg/expr.Key") {
		return false
	}
	p, ok := m.Elem().(*types.Pointer)
	return ok && TypeNameIs(p.Elem(), pkgDeps+".instruction")
}

func findScanners(c *Ctx) []scanner {
	var out []scanner
	for _, fn := range c.Prog.FuncsIn(ModulePath + "/" + pkgDeps) {
		if fn.Origin() != nil || fn.Blocks == nil || fn.Parent() != nil {
			continue
		}
		var s scanner
		for _, p := range fn.Params {
			if isKeyInsMap(p.Type()) {
				s.Tab = p
			}
			if pt, ok := p.Type().(*types.Pointer); ok && TypeNameIs(pt.Elem(), pkgDeps+".instruction") {
				s.Ins = p
			}
		}
		if s.Tab != nil && s.Ins != nil {
			s.Fn = fn
			out = append(out, s)
			c.Saw("functions", ShortName(fn))
		}
	}
	sort.Slice(out, func(i, j int) bool { return out[i].Fn.Name() < out[j].Fn.Name() })
	return out
}

// loopSet names the instruction set a range loop iterates (a field of ins).
func loopSet(l *RangeLoop, ins ssa.Value) string {
	name, base, ok := FieldNameOfLoad(l.Over)
	if !ok || base != ins {
		return ""
	}
	return name
}

// keyOfLoop: is v the key of the loop element? For map ranges the range key;
// for slice ranges x.Key() of the loaded element.
func keyOfLoop(l *RangeLoop, v ssa.Value) bool {
	v = Unwrap(v)
	if l.IsMap {
		return v == l.Key
	}
	call, ok := v.(*ssa.Call)
	if !ok || call.Call.IsInvoke() {
		return false
	}
	f := call.Call.StaticCallee()
	if f == nil || NameOf(f) != "Key" || len(call.Call.Args) != 1 {
		return false
	}
	ld, ok := Unwrap(call.Call.Args[0]).(*ssa.UnOp)
	if !ok || ld.Op != token.MUL {
		return false
	}
	ia, ok := ld.X.(*ssa.IndexAddr)
	return ok && ia.X == l.Over && ia.Index == l.Key
}

// scanDirection classifies how fn's caller walks the block: +1 forward, -1
// backward, 0 unknown.
// insArgOf: the instruction handed to a scanner: the argument of the instruction
// type (the first one; a scanner written as a method of the table has it second).
func insArgOf(cs CallSite) ssa.Value {
	for _, x := range cs.Common().Args {
		if pt, ok := x.Type().(*types.Pointer); ok {
			if n, ok := pt.Elem().(*types.Named); ok && n.Obj().Name() == "instruction" {
				return x
			}
		}
	}
	return cs.Common().Args[0]
}

func scanDirection(c *Ctx, fn *ssa.Function) (int, *ssa.Function) {
	for _, caller := range c.Prog.FuncsIn(ModulePath + "/" + pkgDeps) {
		for _, cs := range CallsTo(caller, fn) {
			// the instruction handed to the scanner: the argument of the instruction type
			// (the first one; a scanner written as a method of the table has it second)
			a := insArgOf(cs)
			ld, ok := Unwrap(a).(*ssa.UnOp)
			if !ok || ld.Op != token.MUL {
				continue
			}
			ia, ok := ld.X.(*ssa.IndexAddr)
			if !ok {
				continue
			}
			// a walk that consumes the list by reslicing: the last element of a list
			// shrinking at its end (backward), the first of one shrinking at its front
			if ph, isPhi := ia.X.(*ssa.Phi); isPhi {
				isLenMinus1 := func(v ssa.Value) bool {
					return matches(v, Bin(token.SUB, lenOf(ph), IntPat(1)))
				}
				for _, e := range ph.Edges {
					sl, ok := e.(*ssa.Slice)
					if !ok || sl.X != ssa.Value(ph) {
						continue
					}
					if k, isK := ConstInt(ia.Index); isK && k == 0 && sl.High == nil && sl.Low != nil {
						if lo, ok := ConstInt(sl.Low); ok && lo == 1 {
							return +1, caller
						}
					}
					if isLenMinus1(ia.Index) && sl.Low == nil && sl.High != nil && isLenMinus1(sl.High) {
						return -1, caller
					}
				}
			}
			switch idx := ia.Index.(type) {
			case *ssa.BinOp:
				if idx.Op == token.ADD {
					return +1, caller
				}
			case *ssa.Phi:
				for _, e := range idx.Edges {
					if bo, ok := e.(*ssa.BinOp); ok && bo.X == ssa.Value(idx) {
						if bo.Op == token.SUB {
							return -1, caller
						}
						if bo.Op == token.ADD {
							return +1, caller
						}
					}
				}
			}
		}
	}
	return 0, nil
}

func checkC05(c *Ctx) {
	c.Rule("C05.lw", "last-writer tables: in every dependency scanner (a function of package deps taking an instruction and a key->instruction table) some loop over the instruction's written keys (outRegs / stores) records the current instruction under that key on every path of the iteration; tables hold writers only")
	c.Rule("C05.dir", "addDep(first, second) orders first before second: scanners called in a forward walk add (table entry, current), scanners called in a backward walk add (current, table entry)")
	c.Rule("C05.kinds", "newBlock calls, unconditionally and with its own instruction sequence, a finder for each dependency kind (true, anti, output, control, special); each finder walks the whole block calling its register and memory scanners")
	c.Rule("C05.ctl", "findControlDeps: when the last instruction has jump targets every other instruction gets an edge (ins, last): the call sits in a full loop over instrs[:len-1], under no condition of its own, and the loop is not left early")
	c.Rule("C05.bnd", "LowerBound = 1 + greatest index in depsBack (0 if none), UpperBound = least index in depsFwd - 1 (Num()-1 if none); findBound keeps the candidate preferred by the comparator")
	c.Rule("C05.adddep", "addDep(first, second) records second in first.depsFwd and first in second.depsBack")

	scs := findScanners(c)
	c.RequireCount("C05.lw scanners", len(scs), 6)
	for _, s := range scs {
		loops := RangeLoops(s.Fn)
		// tables hold writers only
		for _, b := range s.Fn.Blocks {
			for _, in := range b.Instrs {
				mu, ok := in.(*ssa.MapUpdate)
				if !ok || mu.Map != ssa.Value(s.Tab) {
					continue
				}
				fromWritten := false
				for _, l := range loops {
					if writtenSets[loopSet(l, s.Ins)] && keyOfLoop(l, mu.Key) && LoopBlocks(l.Header)[b] {
						fromWritten = true
					}
				}
				key := ShortName(s.Fn) + "/table-update"
				if fromWritten && mu.Value == ssa.Value(s.Ins) {
					c.Pass("C05.lw", key, c.Prog.Pos(mu.Pos()), "")
				} else {
					c.Fail("C05.lw", key, c.Prog.Pos(mu.Pos()), "the table is updated with something other than (key written by ins -> ins): it must hold the last writer of each key")
				}
			}
		}
		sets := map[string]bool{}
		for _, l := range loops {
			if n := loopSet(l, s.Ins); writtenSets[n] {
				sets[n] = true
			}
		}
		if len(sets) == 0 {
			c.Fail("C05.lw", ShortName(s.Fn)+"/written-set", c.Prog.FuncPos(s.Fn), "scanner never walks the keys the instruction writes: later instructions cannot find it as last writer")
			continue
		}
		for set := range sets {
			key := ShortName(s.Fn) + "/" + set
			good := false
			var witness *ssa.BasicBlock
			for _, l := range loops {
				if loopSet(l, s.Ins) != set {
					continue
				}
				ok, w := EveryIterationPasses(l.Body, l.Header, func(in ssa.Instruction) bool {
					mu, ok := in.(*ssa.MapUpdate)
					return ok && mu.Map == ssa.Value(s.Tab) && keyOfLoop(l, mu.Key) && mu.Value == ssa.Value(s.Ins)
				})
				if ok {
					good = true
				} else if witness == nil {
					witness = w
				}
			}
			if good {
				c.Pass("C05.lw", key, c.Prog.FuncPos(s.Fn), "")
			} else {
				pos := c.Prog.FuncPos(s.Fn)
				if witness != nil && len(witness.Instrs) > 0 {
					pos = c.Prog.Pos(firstPos(witness))
				}
				c.Fail("C05.lw", key, pos, "an iteration over "+set+" can finish without recording the current instruction as the writer of the key: an earlier writer then gets no edge to this one and two writes of the same key can be reordered")
			}
		}
		// direction
		dir, caller := scanDirection(c, s.Fn)
		addDep := c.Prog.Func(ModulePath + "/" + pkgDeps + ".addDep")
		for i, cs := range CallsTo(s.Fn, addDep) {
			key := fmt.Sprintf("%s/addDep#%d", ShortName(s.Fn), i+1)
			a := cs.Common().Args
			insFirst := a[0] == ssa.Value(s.Ins)
			insSecond := a[1] == ssa.Value(s.Ins)
			switch {
			case dir == 0 || caller == nil:
				c.Fail("C05.dir", key, c.Prog.Pos(cs.Pos()), "cannot determine the walking direction of the scanner's caller")
			case insFirst == insSecond:
				c.Fail("C05.dir", key, c.Prog.Pos(cs.Pos()), "addDep does not relate the current instruction to a table entry")
			case dir > 0 && !insSecond:
				c.Fail("C05.dir", key, c.Prog.Pos(cs.Pos()), "forward walk ("+caller.Name()+"): the table holds earlier instructions, so the edge must be addDep(entry, ins); it is reversed")
			case dir < 0 && !insFirst:
				c.Fail("C05.dir", key, c.Prog.Pos(cs.Pos()), "backward walk ("+caller.Name()+"): the table holds later instructions, so the edge must be addDep(ins, entry); it is reversed")
			default:
				c.Pass("C05.dir", key, c.Prog.Pos(cs.Pos()), "")
			}
		}
	}

	// --- C05.kinds
	if nb := anchor(c, pkgDeps+".newBlock"); nb != nil {
		finders := map[string]bool{}
		type finderCall struct {
			cs CallSite
			f  *ssa.Function
		}
		var fcalls []finderCall
		for _, cs := range Calls(nb) {
			if f := Callee(cs.Common()); f != nil {
				fcalls = append(fcalls, finderCall{cs, f})
				continue
			}
			// a pass taken from a table of passes that is ranged over as a whole
			if t := TableOfElemLoad(cs.Common().Value); t != nil {
				for _, f := range t.TableFuncs() {
					fcalls = append(fcalls, finderCall{cs, f})
				}
			}
		}
		for _, fc := range fcalls {
			cs, f := fc.cs, fc.f
			if PkgPathOf(f) != ModulePath+"/"+pkgDeps || !strings.HasPrefix(NameOf(f), "find") {
				continue
			}
			key := ShortName(nb) + "/" + NameOf(f)
			uncond := cs.Block() == nb.Blocks[0] || postDominatesEntry(cs.Block())
			if Callee(cs.Common()) == nil {
				// inside the loop over the table: every element is reached when the
				// loop itself is entered unconditionally and is not left early
				for _, h := range nb.Blocks {
					lb := LoopBlocks(h)
					if len(lb) > 1 && lb[cs.Block()] && (h == nb.Blocks[0] || postDominatesEntry(h)) {
						early := false
						for b := range lb {
							for _, sx := range b.Succs {
								if !lb[sx] && b != h {
									early = true
								}
							}
						}
						uncond = !early
					}
				}
			}
			seqOK := len(cs.Common().Args) == 1 && cs.Common().Args[0] == ssa.Value(nb.Params[1])
			switch {
			case !uncond:
				c.Fail("C05.kinds", key, c.Prog.Pos(cs.Pos()), "the finder is called only conditionally")
			case !seqOK:
				c.Fail("C05.kinds", key, c.Prog.Pos(cs.Pos()), "the finder is not given newBlock's own instruction sequence")
			default:
				c.Pass("C05.kinds", key, c.Prog.Pos(cs.Pos()), "")
				finders[NameOf(f)] = true
			}
		}
		for _, want := range []string{"findTrueDeps", "findAntiDeps", "findOutputDeps", "findControlDeps", "findSpecialDeps"} {
			c.Oblige("C05.kinds", ShortName(nb)+"/has-"+want, c.Prog.FuncPos(nb), finders[want], "newBlock does not call "+want+": that kind of dependency is never recorded")
		}
		// each scanner is called from a full walk
		for _, s := range scs {
			dir, caller := scanDirection(c, s.Fn)
			key := ShortName(s.Fn) + "/called-for-every-instruction"
			if caller == nil {
				c.Fail("C05.kinds", key, c.Prog.FuncPos(s.Fn), "scanner is not called for the elements of the block")
				continue
			}
			ok, why := fullWalk(caller, s.Fn, dir)
			c.Oblige("C05.kinds", key, c.Prog.FuncPos(caller), ok, why)
			// and that caller is reachable from newBlock
			c.Oblige("C05.kinds", ShortName(s.Fn)+"/reached-from-newBlock", c.Prog.FuncPos(caller), finders[caller.Name()], caller.Name()+" is not called by newBlock")
		}
	}

	// --- C05.ctl
	if fc := anchor(c, pkgDeps+".findControlDeps"); fc != nil {
		addDep := c.Prog.Func(ModulePath + "/" + pkgDeps + ".addDep")
		sites := CallsTo(fc, addDep)
		c.RequireCount("C05.ctl addDep sites", len(sites), 1)
		for _, cs := range sites {
			key := ShortName(fc) + "/addDep"
			instrs := ssa.Value(fc.Params[0])
			isLast := func(v ssa.Value) bool {
				// instrs[len(instrs)-1]
				ld, ok := Unwrap(v).(*ssa.UnOp)
				if !ok || ld.Op != token.MUL {
					return false
				}
				ia, ok := ld.X.(*ssa.IndexAddr)
				if !ok || ia.X != instrs {
					return false
				}
				return matches(ia.Index, Bin(token.SUB, lenOf(instrs), IntPat(1)))
			}
			a := cs.Common().Args
			// first arg: element of instrs[:len-1]
			fromPrefix := false
			var ctlLoop *RangeLoop
			if ld, ok := Unwrap(a[0]).(*ssa.UnOp); ok && ld.Op == token.MUL {
				if ia, ok := ld.X.(*ssa.IndexAddr); ok {
					if sl, ok := ia.X.(*ssa.Slice); ok && sl.X == instrs && sl.Low == nil && sl.High != nil &&
						matches(sl.High, Bin(token.SUB, lenOf(instrs), IntPat(1))) {
						// index must be a full range loop over the prefix
						for _, l := range RangeLoops(fc) {
							if l.Over == ssa.Value(sl) && l.Key == ia.Index {
								fromPrefix = true
								ctlLoop = l
							}
						}
					}
				}
			}
			// the same walk as a counted loop: instrs[i] for i = 0 .. len(instrs)-2
			if ld, ok := Unwrap(a[0]).(*ssa.UnOp); ok && ld.Op == token.MUL && !fromPrefix {
				if ia, ok := ld.X.(*ssa.IndexAddr); ok && ia.X == instrs {
					if ph, ok := ia.Index.(*ssa.Phi); ok {
						from0, step1 := false, false
						for _, e := range ph.Edges {
							if k, isK := ConstInt(e); isK && k == 0 {
								from0 = true
							}
							if matches(e, Bin(token.ADD, func(v ssa.Value, _ *Bind) bool { return v == ssa.Value(ph) }, IntPat(1))) {
								step1 = true
							}
						}
						toEnd := false
						if iff, ok := ph.Block().Instrs[len(ph.Block().Instrs)-1].(*ssa.If); ok {
							if bo, ok := iff.Cond.(*ssa.BinOp); ok && bo.X == ssa.Value(ph) && (bo.Op == token.LSS || bo.Op == token.NEQ) &&
								matches(bo.Y, Bin(token.SUB, lenOf(instrs), IntPat(1))) {
								toEnd = true
							}
						}
						if from0 && step1 && toEnd {
							fromPrefix = true
							ctlLoop = &RangeLoop{Header: ph.Block()}
						}
					}
				}
			}
			guarded := false
			for _, g := range GuardsOf(cs.Block()) {
				bo, ok := g.Cond.(*ssa.BinOp)
				if !ok {
					continue
				}
				isLen := func(v ssa.Value) bool {
					call, ok := v.(*ssa.Call)
					if !ok {
						return false
					}
					bi, ok := call.Call.Value.(*ssa.Builtin)
					return ok && bi.Name() == "len" && LoadOfField(call.Call.Args[0], "jumpTargets", isLast)
				}
				z, isZ := ConstInt(bo.Y)
				if isLen(bo.X) && isZ && z == 0 {
					if (bo.Op == token.EQL && !g.Outcome) || (bo.Op == token.NEQ && g.Outcome) || (bo.Op == token.GTR && g.Outcome) {
						guarded = true
					}
				}
			}
			// every iteration adds its edge: inside the loop the call is not under a
			// condition of its own and nothing leaves the loop early
			skipped := ""
			if ctlLoop != nil {
				inLoop := LoopBlocks(ctlLoop.Header)
				for _, g := range GuardsOf(cs.Block()) {
					if gb := g.If.Block(); inLoop[gb] && gb != ctlLoop.Header {
						skipped = "the edge is added only under a condition on the instruction (" + c.Prog.Pos(g.If.Pos()) + ")"
					}
				}
				for b := range inLoop {
					if b == ctlLoop.Header {
						continue
					}
					for _, sc := range b.Succs {
						if !inLoop[sc] {
							skipped = "the loop over the instructions is left early"
						}
					}
					if _, isRet := b.Instrs[len(b.Instrs)-1].(*ssa.Return); isRet {
						skipped = "the loop over the instructions is left early"
					}
				}
			}
			switch {
			case skipped != "":
				c.Fail("C05.ctl", key, c.Prog.Pos(cs.Pos()), skipped+": an instruction without the edge may be moved behind the jump")
			case !isLast(a[1]):
				c.Fail("C05.ctl", key, c.Prog.Pos(cs.Pos()), "the edge does not end at the last instruction of the block")
			case !fromPrefix:
				c.Fail("C05.ctl", key, c.Prog.Pos(cs.Pos()), "the edge does not start at every instruction of instrs[:len(instrs)-1]")
			case !guarded:
				c.Fail("C05.ctl", key, c.Prog.Pos(cs.Pos()), "control edges are not conditional on the last instruction having jump targets")
			default:
				c.Pass("C05.ctl", key, c.Prog.Pos(cs.Pos()), "")
			}
		}
	}

	checkBounds(c, "C05.bnd")

	// --- addDep
	if ad := anchor(c, pkgDeps+".addDep"); ad != nil {
		fwd, back := false, false
		for _, b := range ad.Blocks {
			for _, in := range b.Instrs {
				mu, ok := in.(*ssa.MapUpdate)
				if !ok {
					continue
				}
				if LoadOfField(mu.Map, "depsFwd", func(v ssa.Value) bool { return v == ssa.Value(ad.Params[0]) }) && mu.Key == ssa.Value(ad.Params[1]) {
					fwd = true
				}
				if LoadOfField(mu.Map, "depsBack", func(v ssa.Value) bool { return v == ssa.Value(ad.Params[1]) }) && mu.Key == ssa.Value(ad.Params[0]) {
					back = true
				}
			}
		}
		c.Oblige("C05.adddep", ShortName(ad), c.Prog.FuncPos(ad), fwd && back, "addDep(first, second) does not record second in first.depsFwd and first in second.depsBack")
	}
}

func firstPos(b *ssa.BasicBlock) token.Pos {
	for _, in := range b.Instrs {
		if in.Pos().IsValid() {
			return in.Pos()
		}
	}
	return token.NoPos
}

func lenOf(x ssa.Value) Pat {
	return func(v ssa.Value, _ *Bind) bool {
		call, ok := Unwrap(v).(*ssa.Call)
		if !ok {
			return false
		}
		bi, ok := call.Call.Value.(*ssa.Builtin)
		return ok && bi.Name() == "len" && len(call.Call.Args) == 1 && call.Call.Args[0] == x
	}
}

// postDominatesEntry: every path from the entry to a return passes b.
func postDominatesEntry(b *ssa.BasicBlock) bool {
	fn := b.Parent()
	stop := map[*ssa.BasicBlock]bool{b: true}
	r := Reachable(fn.Blocks[0], nil, nil, stop)
	for x := range r {
		if x != b && BlockExit(x) == ExitReturn {
			return false
		}
	}
	return true
}

// fullWalk: caller calls scanner for instrs[i] inside a loop that visits
// every index of its slice parameter: forward `range instrs` or backward
// `for i := len(instrs)-1; i >= 0; i--`.
func fullWalk(caller, scannerFn *ssa.Function, dir int) (bool, string) {
	if len(caller.Params) == 0 {
		return false, "caller has no instruction sequence parameter"
	}
	instrs := ssa.Value(caller.Params[0])
	for _, cs := range CallsTo(caller, scannerFn) {
		ld, ok := Unwrap(insArgOf(cs)).(*ssa.UnOp)
		if !ok {
			return false, "scanner is not given an element of the sequence"
		}
		ia, ok := ld.X.(*ssa.IndexAddr)
		if !ok {
			return false, "scanner is not given an element of the caller's own sequence"
		}
		isCall := func(in ssa.Instruction) bool { return in == cs.Instr.(ssa.Instruction) }
		// the walk that consumes the sequence by reslicing: a list variable that
		// starts as the whole sequence, loses its last (backward) or first (forward)
		// element every round, and is walked until it is empty
		if ph, isPhi := ia.X.(*ssa.Phi); isPhi {
			whole, shrinks := false, false
			for _, e := range ph.Edges {
				if e == instrs {
					whole = true
				}
				sl, ok := e.(*ssa.Slice)
				if !ok || sl.X != ssa.Value(ph) {
					continue
				}
				lenM1 := Bin(token.SUB, lenOf(ph), IntPat(1))
				if dir < 0 && sl.Low == nil && sl.High != nil && matches(sl.High, lenM1) && matches(ia.Index, lenM1) {
					shrinks = true
				}
				if lo, isK := ConstInt(sl.Low); dir > 0 && sl.Low != nil && isK && lo == 1 && sl.High == nil {
					if k, ok := ConstInt(ia.Index); ok && k == 0 {
						shrinks = true
					}
				}
			}
			untilEmpty := false
			if iff, ok := ph.Block().Instrs[len(ph.Block().Instrs)-1].(*ssa.If); ok {
				if bo, ok := iff.Cond.(*ssa.BinOp); ok && matches(bo.X, lenOf(ph)) {
					z, isZ := ConstInt(bo.Y)
					if isZ && ((bo.Op == token.GTR && z == 0) || (bo.Op == token.NEQ && z == 0) || (bo.Op == token.GEQ && z == 1)) {
						untilEmpty = true
						if ok2, _ := EveryIterationPasses(iff.Block().Succs[0], ph.Block(), isCall); !ok2 {
							return false, "the scanner is skipped for some instructions (the call is conditional inside the walk): dependencies of those instructions are never recorded"
						}
					}
				}
			}
			if !whole || !shrinks || !untilEmpty {
				return false, "the walk by reslicing does not start with the whole sequence, drop one element per round at the right end, and run until the list is empty"
			}
			continue
		}
		if ia.X != instrs {
			return false, "scanner is not given an element of the caller's own sequence"
		}
		if dir > 0 {
			found := false
			for _, l := range RangeLoops(caller) {
				if l.Over == instrs && l.Key == ia.Index {
					found = true
					if ok, _ := EveryIterationPasses(l.Body, l.Header, isCall); !ok {
						return false, "the scanner is skipped for some instructions (the call is conditional inside the walk): dependencies of those instructions are never recorded"
					}
				}
			}
			if !found {
				return false, "forward walk is not a `range` over the whole sequence"
			}
		} else {
			ph, ok := ia.Index.(*ssa.Phi)
			if !ok {
				return false, "backward walk index is not a loop variable"
			}
			initOK, condOK := false, false
			for _, e := range ph.Edges {
				if matches(e, Bin(token.SUB, lenOf(instrs), IntPat(1))) {
					initOK = true
				}
			}
			if iff, ok := ph.Block().Instrs[len(ph.Block().Instrs)-1].(*ssa.If); ok {
				if bo, ok := iff.Cond.(*ssa.BinOp); ok && bo.X == ssa.Value(ph) {
					z, isZ := ConstInt(bo.Y)
					if isZ && ((bo.Op == token.GEQ && z == 0) || (bo.Op == token.GTR && z == -1)) {
						condOK = true
					}
				}
			}
			if !initOK || !condOK {
				return false, "backward walk does not run from len(instrs)-1 down to 0"
			}
			if iff, ok := ph.Block().Instrs[len(ph.Block().Instrs)-1].(*ssa.If); ok {
				if ok2, _ := EveryIterationPasses(iff.Block().Succs[0], ph.Block(), isCall); !ok2 {
					return false, "the scanner is skipped for some instructions (the call is conditional inside the walk): dependencies of those instructions are never recorded"
				}
			}
		}
	}
	return true, ""
}

// checkBounds decides the LowerBound/UpperBound/findBound clauses (shared by
// C05 and C07).
func checkBounds(c *Ctx, rule string) {
	lb := anchor(c, "(*"+pkgDeps+".block).LowerBound")
	ub := anchor(c, "(*"+pkgDeps+".block).UpperBound")
	if lb == nil || ub == nil {
		return
	}
	// the bound finder, by role: the function of the package that both bounds
	// call with a comparator and a set of instructions (a plain function or a
	// method of the set, whatever its name and parameter order)
	var fb *ssa.Function
	cmpIdx, setIdx := -1, -1
	for _, cs := range Calls(lb) {
		f := Callee(cs.Common())
		if f == nil || f.Blocks == nil || PkgPathOf(f) != ModulePath+"/"+pkgDeps || len(CallsTo(ub, f)) == 0 {
			continue
		}
		ci, si := -1, -1
		for i, p := range f.Params {
			switch p.Type().Underlying().(type) {
			case *types.Signature:
				ci = i
			case *types.Map:
				si = i
			}
		}
		if ci >= 0 && si >= 0 {
			fb, cmpIdx, setIdx = f, ci, si
		}
	}
	if fb == nil {
		c.Undecide("%s: LowerBound and UpperBound do not share a bound finder taking a comparator and an instruction set", rule)
		return
	}
	// findBound: curr starts negative; updated to element.blockIdx iff curr<0 || cmpF(element.blockIdx, curr)
	{
		okInit, okCall, okUpd := false, false, false
		var curr *ssa.Phi
		for _, b := range fb.Blocks {
			for _, in := range b.Instrs {
				if ph, ok := in.(*ssa.Phi); ok && ph.Type().Underlying() == types.Typ[types.Int] {
					for _, e := range ph.Edges {
						if k, isC := ConstInt(e); isC && k < 0 {
							curr, okInit = ph, true
						}
					}
				}
			}
		}
		if curr != nil {
			for _, cs := range Calls(fb) {
				if cs.Common().Value != ssa.Value(fb.Params[cmpIdx]) {
					continue
				}
				a := cs.Common().Args
				if LoadOfField(a[0], "blockIdx", func(ssa.Value) bool { return true }) && a[1] == ssa.Value(curr) {
					okCall = true
				}
			}
			for _, e := range curr.Edges {
				if LoadOfField(e, "blockIdx", func(ssa.Value) bool { return true }) {
					okUpd = true
				}
			}
			// returns curr
			for _, b := range fb.Blocks {
				if ret, ok := b.Instrs[len(b.Instrs)-1].(*ssa.Return); ok && ret.Results[0] != ssa.Value(curr) {
					okUpd = false
				}
			}
		}
		c.Oblige(rule, ShortName(fb), c.Prog.FuncPos(fb), okInit && okCall && okUpd, "findBound does not start from a negative candidate, ask cmpF(element.blockIdx, candidate) and return the kept candidate")
	}
	for _, side := range []struct {
		fn    *ssa.Function
		set   string
		op    token.Token
		delta int64
		name  string
	}{{lb, "depsBack", token.GTR, +1, "LowerBound"}, {ub, "depsFwd", token.LSS, -1, "UpperBound"}} {
		key := ShortName(side.fn)
		var call *ssa.Call
		for _, cs := range CallsTo(side.fn, fb) {
			call, _ = cs.Instr.(*ssa.Call)
		}
		if call == nil {
			c.Fail(rule, key, c.Prog.FuncPos(side.fn), side.name+" does not use findBound")
			continue
		}
		// the set
		recvIdx := func(v ssa.Value) bool {
			return matches(v, Method("index", ParamN(0), ParamN(1))) ||
				matches(v, Deref(func(x ssa.Value, _ *Bind) bool {
					ia, ok := x.(*ssa.IndexAddr)
					return ok && ia.Index == ssa.Value(side.fn.Params[1]) && LoadOfField(ia.X, "seq", func(b ssa.Value) bool { return b == ssa.Value(side.fn.Params[0]) })
				}))
		}
		setOK := LoadOfField(call.Call.Args[setIdx], side.set, recvIdx)
		// comparator polarity
		cmpOK := false
		if f, _ := ResolveFunc(call.Call.Args[cmpIdx]); f != nil {
			cmpOK = comparatorIs(f, side.op)
		}
		// result: idx<0 -> default, else idx+delta
		resOK := true
		why := ""
		for _, idx := range []int64{-1, 0, 3} {
			val := &Valuation{Int: func(v ssa.Value) (int64, bool) {
				if v == ssa.Value(call) {
					return idx, true
				}
				if cl, ok := v.(*ssa.Call); ok {
					if f := cl.Call.StaticCallee(); f != nil && NameOf(f) == "Num" {
						return 100, true
					}
					if bi, ok := cl.Call.Value.(*ssa.Builtin); ok && bi.Name() == "len" {
						return 100, true
					}
				}
				return 0, false
			}}
			res := val.Walk(call.Block(), nil)
			if !res.OK {
				// walk from the entry instead
				res = val.Walk(side.fn.Blocks[0], nil)
			}
			ret, isRet := res.End.(*ssa.Return)
			if !res.OK || !isRet {
				resOK, why = false, "result not computable"
				break
			}
			got, ok := val.EvalInt(ret.Results[0], res.Phi)
			want := idx + side.delta
			if idx < 0 {
				if side.delta > 0 {
					want = 0
				} else {
					want = 99
				}
			}
			if !ok || got != want {
				resOK, why = false, fmt.Sprintf("for a bound index %d the result is %d, expected %d", idx, got, want)
			}
		}
		switch {
		case !setOK:
			c.Fail(rule, key, c.Prog.Pos(call.Pos()), side.name+" must search "+side.set+" of the instruction at index i")
		case !cmpOK:
			c.Fail(rule, key, c.Prog.Pos(call.Pos()), side.name+"'s comparator does not prefer the "+map[token.Token]string{token.GTR: "greater", token.LSS: "smaller"}[side.op]+" index")
		case !resOK:
			c.Fail(rule, key, c.Prog.Pos(call.Pos()), side.name+": "+why)
		default:
			c.Pass(rule, key, c.Prog.Pos(call.Pos()), "")
		}
	}
}

// comparatorIs: f(a, b) returns a op b (possibly written mirrored).
func comparatorIs(f *ssa.Function, op token.Token) bool {
	if len(f.Blocks) != 1 || len(f.Params) != 2 {
		return false
	}
	ret, ok := f.Blocks[0].Instrs[len(f.Blocks[0].Instrs)-1].(*ssa.Return)
	if !ok {
		return false
	}
	bo, ok := ret.Results[0].(*ssa.BinOp)
	if !ok {
		return false
	}
	mirror := map[token.Token]token.Token{token.GTR: token.LSS, token.LSS: token.GTR}
	if bo.X == ssa.Value(f.Params[0]) && bo.Y == ssa.Value(f.Params[1]) {
		return bo.Op == op
	}
	if bo.X == ssa.Value(f.Params[1]) && bo.Y == ssa.Value(f.Params[0]) {
		return bo.Op == mirror[op]
	}
	return false
}

// --------------------------------------------------------------------- C06

func checkC06(c *Ctx) {
	c.Rule("C06.g", "every addDep call site is control-dependent on a witness of conflict: in the register/memory scanners the hit edge of a lookup in the writers table under a key read or written by the current instruction (and entry != current where the instruction has just recorded itself); in findSpecialDeps a non-nil last memory-order/special instruction (recorded only under insMemOrder/insSpecial) and, for memory order, isMemAccess (or insMemOrder) of the other instruction; in findControlDeps jump targets of the last instruction")
	c.Rule("C06.callers", "addDep is called only from the dependency finders of package deps")
	addDep := anchor(c, pkgDeps+".addDep")
	if addDep == nil {
		return
	}
	scs := findScanners(c)
	isScanner := map[*ssa.Function]scanner{}
	for _, s := range scs {
		isScanner[s.Fn] = s
	}
	total := 0
	for _, fn := range c.Prog.Funcs() {
		sites := CallsTo(fn, addDep)
		if len(sites) == 0 {
			continue
		}
		if PkgPathOf(fn) != ModulePath+"/"+pkgDeps || !strings.HasPrefix(NameOf(fn), "find") {
			c.Fail("C06.callers", ShortName(fn), c.Prog.FuncPos(fn), "addDep is called outside the dependency finders")
			continue
		}
		c.Pass("C06.callers", ShortName(fn), c.Prog.FuncPos(fn), "")
		for i, cs := range sites {
			total++
			key := fmt.Sprintf("%s/addDep#%d", ShortName(fn), i+1)
			pos := c.Prog.Pos(cs.Pos())
			a := cs.Common().Args
			if s, ok := isScanner[fn]; ok {
				// lookup hit
				var lk *ssa.Lookup
				for _, x := range a {
					if e, ok := x.(*ssa.Extract); ok && e.Index == 0 {
						if l, ok := e.Tuple.(*ssa.Lookup); ok && l.X == ssa.Value(s.Tab) && l.CommaOk {
							lk = l
						}
					}
				}
				if lk == nil {
					c.Fail("C06.g", key, pos, "the edge does not involve an entry looked up in the writers table")
					continue
				}
				hit, neq := false, false
				for _, g := range GuardsOf(cs.Block()) {
					if e, ok := g.Cond.(*ssa.Extract); ok && e.Index == 1 && e.Tuple == ssa.Value(lk) && g.Outcome {
						hit = true
					}
					if bo, ok := g.Cond.(*ssa.BinOp); ok && (bo.Op == token.EQL || bo.Op == token.NEQ) {
						isDep := func(v ssa.Value) bool {
							e, ok := v.(*ssa.Extract)
							return ok && e.Index == 0 && e.Tuple == ssa.Value(lk)
						}
						if (isDep(bo.X) && bo.Y == ssa.Value(s.Ins)) || (isDep(bo.Y) && bo.X == ssa.Value(s.Ins)) {
							if (bo.Op == token.NEQ) == g.Outcome {
								neq = true
							}
						}
					}
				}
				// key from a set of ins
				keyOK := false
				for _, l := range RangeLoops(fn) {
					n := loopSet(l, s.Ins)
					if (writtenSets[n] || readSets[n]) && keyOfLoop(l, lk.Index) {
						keyOK = true
					}
				}
				// does the instruction record itself before the lookup?
				selfFirst := false
				for _, b := range fn.Blocks {
					for _, in := range b.Instrs {
						if mu, ok := in.(*ssa.MapUpdate); ok && mu.Map == ssa.Value(s.Tab) && mu.Value == ssa.Value(s.Ins) {
							reach := false
							ReachableFromInstr(mu, func(x ssa.Instruction) {
								if x == ssa.Instruction(lk) {
									reach = true
								}
							})
							// a later iteration of the same loop does not count when the update is in the
							// lookup's own loop after it - provided the loop walks a set (a map: every key
							// once); the keys of a list (the stores of an instruction) can repeat
							if reach && !InstrDominates(lk, mu) {
								selfFirst = true
							}
							if reach && InstrDominates(lk, mu) {
								for _, l := range RangeLoops(fn) {
									lb := LoopBlocks(l.Header)
									if lb[lk.Block()] && lb[mu.Block()] && !l.IsMap && keyOfLoop(l, lk.Index) {
										selfFirst = true
									}
								}
							}
						}
					}
				}
				switch {
				case !hit:
					c.Fail("C06.g", key, pos, "edge added without the table lookup having hit: instructions that share no key become dependent")
				case !keyOK:
					c.Fail("C06.g", key, pos, "the looked-up key is not one the current instruction reads or writes")
				case selfFirst && !neq:
					c.Fail("C06.g", key, pos, "the instruction records itself before the lookup (earlier in the function, or in an earlier round of a loop over a list whose keys can repeat) and the entry is not checked to differ from it: an edge from the instruction to itself")
				default:
					c.Pass("C06.g", key, pos, "")
				}
				continue
			}
			// not a table scanner: the edge needs one of the two other witnesses of
			// conflict, whatever the function is called - the last instruction of
			// the block has jump targets (control edge), or one of the two
			// instructions is special / memory-ordering (special edge)
			ctl := false
			for _, gd := range GuardsOf(cs.Block()) {
				if DependsOn(gd.Cond, func(v ssa.Value) bool {
					n, _, ok := FieldNameOfLoad(v)
					return ok && n == "jumpTargets"
				}) {
					ctl = true
				}
			}
			if ctl {
				c.Pass("C06.g", key, pos, "control edge")
				continue
			}
			ok, why := specialWitness(fn, cs)
			if !ok {
				why = "the edge is added without a witness of conflict (no table hit, no jump target of the last instruction, and: " + why + ")"
			}
			c.Oblige("C06.g", key, pos, ok, why)
		}
	}
	c.RequireCount("C06.g addDep call sites", total, 11)
}

// specialWitness checks one addDep site of findSpecialDeps.
func specialWitness(fn *ssa.Function, cs CallSite) (bool, string) {
	a := cs.Common().Args
	var last *ssa.Phi
	var other ssa.Value
	for i, x := range a {
		if ph, ok := x.(*ssa.Phi); ok {
			last, other = ph, a[1-i]
		}
	}
	if last == nil {
		// the remembered instruction kept in a field of a local record
		for i, x := range a {
			if cell, ok := fieldCellOf(x); ok {
				kind, nonNil, why := cellWitness(fn, cs, cell, x)
				if why != "" {
					return false, why
				}
				return specialVerdict(fn, cs, kind, nonNil, a[1-i])
			}
		}
		return false, "neither end of the edge is a remembered special instruction"
	}
	// kind of `last`: every non-nil incoming value is stored under insMemOrder / insSpecial of that value
	kind := ""
	var visit func(p *ssa.Phi, seen map[*ssa.Phi]bool) bool
	visit = func(p *ssa.Phi, seen map[*ssa.Phi]bool) bool {
		if seen[p] {
			return true
		}
		seen[p] = true
		for i, e := range p.Edges {
			if IsNilConst(e) {
				continue
			}
			if q, ok := e.(*ssa.Phi); ok {
				if !visit(q, seen) {
					return false
				}
				continue
			}
			// value e assigned on edge from pred i: guarded by pred?
			pred := p.Block().Preds[i]
			k := ""
			for _, g := range append(GuardsOf(pred), guardOfEdge(pred, p.Block())...) {
				call, ok := g.Cond.(*ssa.Call)
				if !ok || !g.Outcome {
					continue
				}
				f := call.Call.StaticCallee()
				if f == nil || len(call.Call.Args) != 1 || call.Call.Args[0] != e {
					continue
				}
				switch specialPredicateKind(f) {
				case "memorder":
					k = "memorder"
				case "special":
					k = "special"
				}
			}
			if k == "" {
				return false
			}
			if kind != "" && kind != k {
				kind = "mixed"
			} else {
				kind = k
			}
		}
		return true
	}
	if !visit(last, map[*ssa.Phi]bool{}) || kind == "" || kind == "mixed" {
		return false, "the remembered instruction is not recorded exclusively under insMemOrder(x) or insSpecial(x)"
	}
	// remembered in an earlier iteration: a value assigned in the current one (a
	// merge inside the loop body, not at its header) must not be the instruction
	// the edge is drawn to - that would be an edge from an instruction to itself
	if selfEdgePossible(fn, last, other, map[*ssa.Phi]bool{}) {
		return false, "the instruction may have been remembered in this very iteration: the edge would lead from the instruction to itself"
	}
	nonNil := false
	for _, g := range GuardsOf(cs.Block()) {
		if x, nn, ok := NilCheck(g.Cond); ok && x == ssa.Value(last) && nn == g.Outcome {
			nonNil = true
		}
	}
	return specialVerdict(fn, cs, kind, nonNil, other)
}

// selfEdgePossible: can the merge p carry, without passing a loop header, the
// value other (the current element of the walk)?
func selfEdgePossible(fn *ssa.Function, p *ssa.Phi, other ssa.Value, seen map[*ssa.Phi]bool) bool {
	if seen[p] {
		return false
	}
	seen[p] = true
	for _, pred := range p.Block().Preds {
		if p.Block().Dominates(pred) {
			return false // a loop-header merge: its values come from before the loop or from earlier iterations
		}
	}
	for _, e := range p.Edges {
		if q, ok := e.(*ssa.Phi); ok {
			if selfEdgePossible(fn, q, other, seen) {
				return true
			}
			continue
		}
		if !IsNilConst(e) && (e == other || SameValue(e, other)) {
			return true
		}
	}
	return false
}

// specialVerdict: the remembered instruction (of the given kind, non-nil or
// not at the site) may be linked with other.
func specialVerdict(fn *ssa.Function, cs CallSite, kind string, nonNil bool, other ssa.Value) (bool, string) {
	memAcc := false
	// isMemAccess(other) somewhere among the conditions leading here (also as part of a disjunction)
	for _, b := range fn.Blocks {
		iff, ok := b.Instrs[len(b.Instrs)-1].(*ssa.If)
		if !ok || !b.Dominates(cs.Block()) {
			continue
		}
		if call, ok := iff.Cond.(*ssa.Call); ok {
			if f := call.Call.StaticCallee(); f != nil && specialPredicateKind(f) == "memaccess" && call.Call.Args[0] == other {
				memAcc = true
			}
		}
	}
	switch {
	case !nonNil:
		return false, "edge added without a remembered " + kind + " instruction (nil check missing)"
	case kind == "memorder" && !memAcc:
		return false, "a memory-ordering instruction is made dependent on an instruction without testing that it accesses memory (or orders memory itself)"
	}
	return true, ""
}

// fieldCell is a field of a local record (an Alloc of the function).
type fieldCell struct {
	alloc *ssa.Alloc
	field int
}

func fieldCellOf(v ssa.Value) (fieldCell, bool) {
	u, ok := v.(*ssa.UnOp)
	if !ok || u.Op != token.MUL {
		return fieldCell{}, false
	}
	fa, ok := u.X.(*ssa.FieldAddr)
	if !ok {
		return fieldCell{}, false
	}
	al, ok := fa.X.(*ssa.Alloc)
	return fieldCell{al, fa.Field}, ok
}

// cellWitness is specialWitness for a remembered instruction kept in a field of
// a local record instead of a local variable: every non-nil value written to
// the field - in the function or in a helper of its package the record is
// handed to - is written under insMemOrder(x) / insSpecial(x) of that value,
// and the field is tested non-nil on the way to the site with no write to it
// in between.
func cellWitness(fn *ssa.Function, cs CallSite, cell fieldCell, arg ssa.Value) (kind string, nonNil bool, why string) {
	type write struct {
		val ssa.Value       // nil: the field is cleared
		at  ssa.Instruction // in fn: the store, or the call that hands the record out
		in  *ssa.BasicBlock // the block of the store itself (in fn or in the helper)
	}
	var writes []write
	bad := ""
	var scan func(rec ssa.Value, at ssa.Instruction, depth int)
	scan = func(rec ssa.Value, at ssa.Instruction, depth int) {
		if rec.Referrers() == nil {
			return
		}
		for _, r := range *rec.Referrers() {
			site := at
			if site == nil {
				site = r
			}
			switch x := r.(type) {
			case *ssa.FieldAddr:
				if x.Field != cell.field || x.Referrers() == nil {
					continue
				}
				for _, rr := range *x.Referrers() {
					s2 := at
					if s2 == nil {
						s2 = rr
					}
					switch y := rr.(type) {
					case *ssa.UnOp, *ssa.DebugRef:
					case *ssa.Store:
						if y.Addr == ssa.Value(x) {
							writes = append(writes, write{y.Val, s2, y.Block()})
						} else {
							bad = "the address of the field is stored"
						}
					default:
						bad = "the address of the field escapes"
					}
				}
			case *ssa.Store:
				if x.Addr != rec {
					bad = "the record's address is stored"
					continue
				}
				if k, ok := x.Val.(*ssa.Const); ok && k.Value == nil {
					writes = append(writes, write{nil, site, x.Block()})
				} else {
					bad = "the record is overwritten as a whole"
				}
			case *ssa.UnOp, *ssa.DebugRef:
			case *ssa.Call:
				g := x.Call.StaticCallee()
				if g == nil || g.Blocks == nil || depth > 0 || PkgPathOf(g) != PkgPathOf(fn) {
					bad = "the record is handed to a function that cannot be followed"
					continue
				}
				for i, arg := range x.Call.Args {
					if arg == rec && i < len(g.Params) {
						scan(g.Params[i], site, depth+1)
					}
				}
			default:
				bad = "the record is used in a way that cannot be followed"
			}
		}
	}
	scan(cell.alloc, nil, 0)
	if bad != "" {
		return "", false, "the remembered instruction is kept in a record and " + bad
	}
	for _, w := range writes {
		if w.val == nil || IsNilConst(w.val) {
			continue
		}
		k := ""
		for _, g := range GuardsOf(w.in) {
			call, ok := g.Cond.(*ssa.Call)
			if !ok || !g.Outcome {
				continue
			}
			f := call.Call.StaticCallee()
			if f == nil || len(call.Call.Args) != 1 || call.Call.Args[0] != w.val {
				continue
			}
			if pk := specialPredicateKind(f); pk == "memorder" || pk == "special" {
				k = pk
			}
		}
		if k == "" || (kind != "" && kind != k) {
			return "", false, "the remembered instruction is not recorded exclusively under insMemOrder(x) or insSpecial(x)"
		}
		kind = k
	}
	if kind == "" {
		return "", false, "nothing is ever remembered in the field"
	}
	// non-nil on the way to the site, and unchanged since the test
	idx := func(in ssa.Instruction) int {
		for i, x := range in.Block().Instrs {
			if x == in {
				return i
			}
		}
		return -1
	}
	for _, g := range GuardsOf(cs.Block()) {
		x, nn, ok := NilCheck(g.Cond)
		if !ok || nn != g.Outcome {
			continue
		}
		c2, isCell := fieldCellOf(x)
		if !isCell || c2 != cell {
			continue
		}
		gb := g.If.Block()
		stable := true
		for _, w := range writes {
			var start []*ssa.BasicBlock
			switch wb := w.at.Block(); {
			case wb == gb:
				if ld, ok := x.(*ssa.UnOp); !ok || ld.Block() != gb || idx(w.at) > idx(ld) {
					stable = false
				}
				continue
			case wb == cs.Block():
				if idx(w.at) < idx(cs.Instr) {
					stable = false
					continue
				}
				start = wb.Succs
			default:
				start = []*ssa.BasicBlock{wb}
			}
			seen := map[*ssa.BasicBlock]bool{gb: true}
			for len(start) > 0 {
				b := start[0]
				start = start[1:]
				if seen[b] {
					continue
				}
				seen[b] = true
				if b == cs.Block() {
					stable = false
					break
				}
				start = append(start, b.Succs...)
			}
		}
		// the value handed to addDep is read at the site (or is the tested read)
		if ld, ok := arg.(*ssa.UnOp); ok && (ld == x || ld.Block() == cs.Block()) && stable {
			nonNil = true
		}
	}
	// remembered in an earlier iteration: no non-nil write reaches the site without
	// passing the header of the loop over the instructions
	for _, hb := range fn.Blocks {
		isHeader := false
		for _, pred := range hb.Preds {
			if hb.Dominates(pred) {
				isHeader = true
			}
		}
		if !isHeader {
			continue
		}
		l := struct{ Header *ssa.BasicBlock }{hb}
		inLoop := LoopBlocks(l.Header)
		if !inLoop[cs.Block()] {
			continue
		}
		for _, w := range writes {
			if w.val == nil || IsNilConst(w.val) || !inLoop[w.at.Block()] {
				continue
			}
			var start []*ssa.BasicBlock
			if w.at.Block() == cs.Block() {
				if idx(w.at) < idx(cs.Instr) {
					return "", false, "the instruction may have been remembered in this very iteration: the edge would lead from the instruction to itself"
				}
				start = w.at.Block().Succs
			} else {
				start = []*ssa.BasicBlock{w.at.Block()}
			}
			seen := map[*ssa.BasicBlock]bool{l.Header: true}
			for len(start) > 0 {
				b := start[0]
				start = start[1:]
				if seen[b] || !inLoop[b] {
					continue
				}
				seen[b] = true
				if b == cs.Block() {
					return "", false, "the instruction may have been remembered in this very iteration: the edge would lead from the instruction to itself"
				}
				start = append(start, b.Succs...)
			}
		}
	}
	return kind, nonNil, ""
}

// guardOfEdge returns the guard established by the edge pred->succ itself.
func guardOfEdge(pred, succ *ssa.BasicBlock) []Guard {
	iff, ok := pred.Instrs[len(pred.Instrs)-1].(*ssa.If)
	if !ok || pred.Succs[0] == pred.Succs[1] {
		return nil
	}
	if pred.Succs[0] == succ {
		return []Guard{{Cond: iff.Cond, Outcome: true, If: iff}}
	}
	if pred.Succs[1] == succ {
		return []Guard{{Cond: iff.Cond, Outcome: false, If: iff}}
	}
	return nil
}

// specialPredicateKind classifies a one-argument predicate on an instruction
// of package deps by what it computes (not by its name or by whether it is a
// function or a method): "memorder" - the instruction type's MemOrder();
// "special" - its Syscall()/CPUStateChange(); "memaccess" - it has loads or
// stores.
func specialPredicateKind(f *ssa.Function) string {
	if f == nil || f.Blocks == nil || len(f.Params) != 1 || f.Signature.Results().Len() != 1 || PkgPathOf(f) != ModulePath+"/"+pkgDeps {
		return ""
	}
	if b, ok := f.Signature.Results().At(0).Type().Underlying().(*types.Basic); !ok || b.Kind() != types.Bool {
		return ""
	}
	typeCalls, lens := map[string]bool{}, map[string]bool{}
	other := false
	for _, b := range f.Blocks {
		for _, in := range b.Instrs {
			call, ok := in.(*ssa.Call)
			if !ok {
				continue
			}
			if bi, isB := call.Call.Value.(*ssa.Builtin); isB {
				if bi.Name() == "len" {
					if n, _, ok := FieldNameOfRead(call.Call.Args[0]); ok {
						lens[n] = true
						continue
					}
				}
				other = true
				continue
			}
			name := ""
			if call.Call.IsInvoke() {
				name = call.Call.Method.Name()
			} else if g := call.Call.StaticCallee(); g != nil {
				name = NameOf(g)
			}
			switch name {
			case "MemOrder", "Syscall", "CPUStateChange":
				typeCalls[name] = true
			default:
				other = true
			}
		}
	}
	switch {
	case other:
		return ""
	case len(typeCalls) == 1 && typeCalls["MemOrder"] && len(lens) == 0:
		return "memorder"
	case len(typeCalls) > 0 && !typeCalls["MemOrder"] && len(lens) == 0:
		return "special"
	case len(typeCalls) == 0 && lens["stores"] && lens["loads"]:
		return "memaccess"
	}
	return ""
}
