package rules

import (
	"fmt"
	"go/token"
	"go/types"
	"sort"
	"strings"

	"golang.org/x/tools/go/ssa"

	. "mltlint/internal/core"
)

func inUI(fn *ssa.Function) bool {
	return strings.HasPrefix(PkgPathOf(fn), ModulePath+"/"+pkgUI)
}

func uiFuncs(c *Ctx) []*ssa.Function {
	var out []*ssa.Function
	for _, fn := range c.Prog.Funcs() {
		if fn.Origin() == nil && fn.Blocks != nil && fn.Synthetic == "" && inUI(fn) {
			out = append(out, fn)
		}
	}
	return out
}

// ---------------------------------------------------------------- E10(c)

// inputTaint computes the string / []string values that carry user input:
// results of linereader.ReadLine, parameters of functions used as argument
// parsers, and everything derived from them.
type inputTaint struct {
	params map[*ssa.Parameter]bool
}

func isStringy(t types.Type) bool {
	switch u := t.Underlying().(type) {
	case *types.Basic:
		return u.Info()&types.IsString != 0
	case *types.Slice:
		return isStringy(u.Elem())
	}
	return false
}

func newInputTaint(c *Ctx) *inputTaint {
	it := &inputTaint{params: map[*ssa.Parameter]bool{}}
	fns := uiFuncs(c)
	// parameters of functions whose value is used as ArgParseFunc / OptArgParseFunc
	for _, fn := range fns {
		for _, b := range fn.Blocks {
			for _, in := range b.Instrs {
				var vals []ssa.Value
				switch x := in.(type) {
				case *ssa.ChangeType:
					if TypeNameIs(x.Type(), pkgUI+".ArgParseFunc") || TypeNameIs(x.Type(), pkgUI+".OptArgParseFunc") {
						vals = append(vals, x.X)
					}
				case *ssa.Store:
					if pt, ok := x.Addr.Type().(*types.Pointer); ok && (TypeNameIs(pt.Elem(), pkgUI+".ArgParseFunc") || TypeNameIs(pt.Elem(), pkgUI+".OptArgParseFunc")) {
						vals = append(vals, x.Val)
					}
				case *ssa.Return:
					if fn.Signature.Results().Len() == 1 && TypeNameIs(fn.Signature.Results().At(0).Type(), pkgUI+".ArgParseFunc") {
						vals = append(vals, x.Results[0])
					}
				}
				for _, v := range vals {
					var f *ssa.Function
					switch y := Unwrap(v).(type) {
					case *ssa.Function:
						f = y
					case *ssa.MakeClosure:
						f, _ = y.Fn.(*ssa.Function)
					}
					if f != nil && len(f.Params) > 0 {
						it.params[f.Params[0]] = true
					}
				}
			}
		}
	}
	// interprocedural closure: tainted arguments taint callee parameters
	for changed := true; changed; {
		changed = false
		for _, fn := range fns {
			for _, cs := range Calls(fn) {
				f := Callee(cs.Common())
				if f == nil || !inUI(f) || f.Blocks == nil {
					continue
				}
				args := cs.Common().Args
				for i, a := range args {
					if i < len(f.Params) && isStringy(a.Type()) && it.tainted(a, map[ssa.Value]bool{}) && !it.params[f.Params[i]] {
						it.params[f.Params[i]] = true
						changed = true
					}
				}
			}
		}
	}
	return it
}

func (it *inputTaint) tainted(v ssa.Value, seen map[ssa.Value]bool) bool {
	if v == nil || seen[v] {
		return false
	}
	seen[v] = true
	switch x := v.(type) {
	case *ssa.Parameter:
		return it.params[x]
	case *ssa.Extract:
		return it.tainted(x.Tuple, seen)
	case *ssa.Phi:
		for _, e := range x.Edges {
			if it.tainted(e, seen) {
				return true
			}
		}
	case *ssa.Slice:
		return it.tainted(x.X, seen)
	case *ssa.UnOp:
		if x.Op == token.MUL {
			switch a := x.X.(type) {
			case *ssa.IndexAddr:
				return it.tainted(a.X, seen)
			case *ssa.Alloc:
				if refs := a.Referrers(); refs != nil {
					for _, r := range *refs {
						if st, ok := r.(*ssa.Store); ok && st.Addr == ssa.Value(a) && it.tainted(st.Val, seen) {
							return true
						}
					}
				}
			}
		}
	case *ssa.Call:
		if f := x.Call.StaticCallee(); f != nil {
			if f.String() == ModulePath+"/"+pkgUI+"/internal/linereader.ReadLine" {
				return true
			}
			// library and module functions: tainted if a stringy argument is
			for _, a := range x.Call.Args {
				if isStringy(a.Type()) && it.tainted(a, seen) {
					return true
				}
			}
		}
		if bi, ok := x.Call.Value.(*ssa.Builtin); ok && bi.Name() == "append" {
			for _, a := range x.Call.Args {
				if it.tainted(a, seen) {
					return true
				}
			}
		}
	}
	return false
}

// checkInputIndexing: E10(c) for the functions selected by scope.
func checkInputIndexing(c *Ctx, rule string, scope func(*ssa.Function) bool) int {
	it := newInputTaint(c)
	n := 0
	for _, fn := range uiFuncs(c) {
		if !scope(fn) {
			continue
		}
		ord := 0
		for _, b := range fn.Blocks {
			for _, in := range b.Instrs {
				var x ssa.Value
				need := int64(-1)
				what := ""
				switch y := in.(type) {
				case *ssa.IndexAddr:
					if k, ok := ConstInt(y.Index); ok {
						x, need, what = y.X, k+1, fmt.Sprintf("[%d]", k)
					}
				case *ssa.Index:
					if k, ok := ConstInt(y.Index); ok {
						x, need, what = y.X, k+1, fmt.Sprintf("[%d]", k)
					}
				case *ssa.Slice:
					var m int64
					lo, hi := "", ""
					if y.Low != nil {
						if k, ok := ConstInt(y.Low); ok {
							lo = fmt.Sprint(k)
							if k > m {
								m = k
							}
						}
					}
					if y.High != nil {
						if k, ok := ConstInt(y.High); ok {
							hi = fmt.Sprint(k)
							if k > m {
								m = k
							}
						}
					}
					if m > 0 {
						x, need, what = y.X, m, "["+lo+":"+hi+"]"
					}
				}
				if x == nil || !isStringy(x.Type()) || !it.tainted(x, map[ssa.Value]bool{}) {
					continue
				}
				n++
				ord++
				key := fmt.Sprintf("%s/input%s#%d", ShortName(fn), what, ord)
				have := minLenAt(b, x)
				// a guard on an earlier SSA name of the same variable does not count: the value must be the same
				if have >= need {
					c.Pass(rule, key, c.Prog.Pos(in.Pos()), "")
				} else {
					c.Fail(rule, key, c.Prog.Pos(in.Pos()), fmt.Sprintf("user input is indexed/sliced with %s while only len >= %d is established on this path: a short input line crashes the program", what, have))
				}
			}
		}
	}
	return n
}

// ---------------------------------------------------------------- E10(d)

// rawIndex computes, for functions of the UI packages, the int parameters
// that reach a slice index without a dominating bounds comparison.
type rawIndex struct {
	raw map[*ssa.Parameter]string // param -> where it is used as an index
}

func isInt(t types.Type) bool {
	b, ok := t.Underlying().(*types.Basic)
	return ok && b.Kind() == types.Int
}

// derivedFrom: v is p or p +/- constant.
func derivedFromParam(v ssa.Value) *ssa.Parameter {
	switch x := v.(type) {
	case *ssa.Parameter:
		return x
	case *ssa.BinOp:
		if x.Op == token.ADD || x.Op == token.SUB {
			if _, ok := ConstInt(x.Y); ok {
				return derivedFromParam(x.X)
			}
		}
	}
	return nil
}

func comparedAt(b *ssa.BasicBlock, v ssa.Value) (upper, lower bool) {
	return comparedUnder(GuardsOf(b), v)
}

// comparedUnder: which bounds of v do the guards establish?
func comparedUnder(guards []Guard, v ssa.Value) (upper, lower bool) {
	for _, g := range guards {
		bo, ok := g.Cond.(*ssa.BinOp)
		if !ok {
			continue
		}
		if validatedByCall(bo, g.Outcome, v) {
			upper = true
			continue
		}
		var other ssa.Value
		op := bo.Op
		switch {
		case bo.X == v:
			other = bo.Y
		case bo.Y == v:
			other = bo.X
			op = map[token.Token]token.Token{token.LSS: token.GTR, token.GTR: token.LSS, token.LEQ: token.GEQ, token.GEQ: token.LEQ, token.EQL: token.EQL, token.NEQ: token.NEQ}[op]
		default:
			continue
		}
		// v op other with outcome
		lt := (op == token.LSS && g.Outcome) || (op == token.GEQ && !g.Outcome)
		le := (op == token.LEQ && g.Outcome) || (op == token.GTR && !g.Outcome)
		ge := (op == token.GEQ && g.Outcome) || (op == token.LSS && !g.Outcome)
		gt := (op == token.GTR && g.Outcome) || (op == token.LEQ && !g.Outcome)
		if (lt || le) && isLenLike(other) {
			if lt {
				upper = true
			}
			_ = le
		}
		if k, ok := ConstInt(other); ok {
			if (ge && k >= 0) || (gt && k >= -1) {
				lower = true
			}
		}
	}
	return
}

// validatedByCall: the guard is `f(..., v, ...) == nil` (taken on the nil
// side) where f is a validator: a function that returns a nil error only when
// the corresponding argument is below a length (see validatorSummary).
func validatedByCall(bo *ssa.BinOp, outcome bool, v ssa.Value) bool {
	x, nonNil, ok := NilCheck(bo)
	if !ok || nonNil == outcome {
		return false
	}
	if ex, isEx := x.(*ssa.Extract); isEx {
		x = ex.Tuple
	}
	call, ok := x.(*ssa.Call)
	if !ok {
		return false
	}
	f := call.Call.StaticCallee()
	if f == nil {
		return false
	}
	sum := validatorSummary(f)
	for i, a := range call.Call.Args {
		if !sum[i] {
			continue
		}
		if a == v {
			return true
		}
		// variadic: a is `slice t[:]` of a fresh array whose slots were stored
		if sl, isSl := a.(*ssa.Slice); isSl {
			if al, isAl := sl.X.(*ssa.Alloc); isAl && al.Referrers() != nil {
				for _, r := range *al.Referrers() {
					ia, isIA := r.(*ssa.IndexAddr)
					if !isIA || ia.Referrers() == nil {
						continue
					}
					for _, r2 := range *ia.Referrers() {
						if st, isSt := r2.(*ssa.Store); isSt && st.Val == v {
							return true
						}
					}
				}
			}
		}
	}
	return false
}

var validatorMemo = map[*ssa.Function]map[int]bool{}

// validatorSummary: the parameters of fn (an error-returning function) that
// are proved below a length whenever fn returns a nil error. For an []int
// parameter the claim is about every element. Every return must either carry
// the nil constant (and then the bound must hold on that path) or a freshly
// made, hence non-nil, error.
func validatorSummary(fn *ssa.Function) map[int]bool {
	if s, ok := validatorMemo[fn]; ok {
		return s
	}
	out := map[int]bool{}
	validatorMemo[fn] = out
	res := fn.Signature.Results()
	if fn.Blocks == nil || res.Len() == 0 || res.At(res.Len()-1).Type().String() != "error" {
		return out
	}
	var nilRets []*ssa.BasicBlock
	for _, b := range fn.Blocks {
		ret, ok := b.Instrs[len(b.Instrs)-1].(*ssa.Return)
		if !ok {
			continue
		}
		e := ret.Results[len(ret.Results)-1]
		if IsNilConst(e) {
			nilRets = append(nilRets, b)
			continue
		}
		if !freshError(e) {
			return out
		}
	}
	if len(nilRets) == 0 {
		return out
	}
	for i, p := range fn.Params {
		switch {
		case isInt(p.Type()):
			ok := true
			for _, b := range nilRets {
				if up, _ := comparedAt(b, p); !up {
					ok = false
				}
			}
			if ok {
				out[i] = true
			}
		case isIntSlice(p.Type()):
			if everyElementBounded(fn, p, nilRets) {
				out[i] = true
			}
		}
	}
	return out
}

func isIntSlice(t types.Type) bool {
	sl, ok := t.Underlying().(*types.Slice)
	return ok && isInt(sl.Elem())
}

// freshError: a value that is certainly a non-nil error.
func freshError(v ssa.Value) bool {
	switch x := v.(type) {
	case *ssa.MakeInterface:
		return true
	case *ssa.Call:
		if f := x.Call.StaticCallee(); f != nil {
			n := f.String()
			return n == "fmt.Errorf" || n == "errors.New"
		}
	}
	return false
}

// everyElementBounded: fn ranges over its slice parameter p; on every way round
// the loop the element was found below a length; the loop is left, other than
// through its header (all elements visited), only into fresh-error returns;
// and the nil returns lie behind the loop.
func everyElementBounded(fn *ssa.Function, p *ssa.Parameter, nilRets []*ssa.BasicBlock) bool {
	for _, l := range RangeLoops(fn) {
		if l.IsMap || l.Over != ssa.Value(p) {
			continue
		}
		loop := LoopBlocks(l.Header)
		// the element: loads of &p[key] inside the loop
		var elems []ssa.Value
		for b := range loop {
			for _, in := range b.Instrs {
				ld, ok := in.(*ssa.UnOp)
				if !ok || ld.Op != token.MUL {
					continue
				}
				if ia, isIA := ld.X.(*ssa.IndexAddr); isIA && ia.X == ssa.Value(p) && ia.Index == l.Key {
					elems = append(elems, ld)
				}
			}
		}
		if len(elems) == 0 {
			continue
		}
		ok := true
		for b := range loop {
			for _, succ := range b.Succs {
				if succ == l.Header && b != l.Header {
					// latch: some load of the element is bounded here
					bounded := false
					for _, e := range elems {
						if up, _ := comparedUnder(append(GuardsOf(b), guardOfEdge(b, succ)...), e); up {
							bounded = true
						}
					}
					if !bounded {
						ok = false
					}
				}
				if !loop[succ] && b != l.Header {
					ret, isRet := succ.Instrs[len(succ.Instrs)-1].(*ssa.Return)
					if !isRet || !freshError(ret.Results[len(ret.Results)-1]) {
						ok = false
					}
				}
			}
		}
		for _, nb := range nilRets {
			if loop[nb] || !l.Header.Dominates(nb) {
				ok = false
			}
		}
		if ok {
			return true
		}
	}
	return false
}

// isLenLike: len(x) or a call of a method named Len / MaxValue, or a value
// clamped to one.
func isLenLike(v ssa.Value) bool {
	switch x := v.(type) {
	case *ssa.Call:
		if bi, ok := x.Call.Value.(*ssa.Builtin); ok {
			return bi.Name() == "len"
		}
		if f := x.Call.StaticCallee(); f != nil {
			return NameOf(f) == "Len" || NameOf(f) == "MaxValue"
		}
		if x.Call.IsInvoke() {
			return x.Call.Method.Name() == "Len"
		}
	case *ssa.UnOp:
		// field maxValue
		if n, _, ok := FieldNameOfLoad(x); ok && n == "maxValue" {
			return true
		}
	case *ssa.Phi:
		// clamp idiom: every edge is len-like or arrives over an edge on which value <= len-like holds
		for i, e := range x.Edges {
			if isLenLike(e) {
				continue
			}
			pred := x.Block().Preds[i]
			ok := false
			for _, g := range append(GuardsOf(pred), guardOfEdge(pred, x.Block())...) {
				bo, isBin := g.Cond.(*ssa.BinOp)
				if !isBin || bo.X != e || !isLenLike(bo.Y) {
					continue
				}
				if (bo.Op == token.GTR && !g.Outcome) || (bo.Op == token.LEQ && g.Outcome) || (bo.Op == token.LSS && g.Outcome) || (bo.Op == token.GEQ && !g.Outcome && false) {
					ok = true
				}
			}
			if !ok {
				return false
			}
		}
		return true
	}
	return false
}

func newRawIndex(c *Ctx) *rawIndex {
	ri := &rawIndex{raw: map[*ssa.Parameter]string{}}
	fns := uiFuncs(c)
	for _, fn := range fns {
		for _, b := range fn.Blocks {
			for _, in := range b.Instrs {
				var idx ssa.Value
				var base ssa.Value
				switch x := in.(type) {
				case *ssa.IndexAddr:
					idx, base = x.Index, x.X
				case *ssa.Index:
					idx, base = x.Index, x.X
				case *ssa.Lookup:
					continue
				default:
					continue
				}
				if _, isArr := base.Type().Underlying().(*types.Pointer); isArr {
					continue // fixed-size array
				}
				p := derivedFromParam(idx)
				if p == nil || !isInt(p.Type()) {
					continue
				}
				up, _ := comparedAt(b, idx)
				if pu, _ := comparedAt(b, p); pu {
					up = true
				}
				if !up {
					if _, ok := ri.raw[p]; !ok {
						ri.raw[p] = c.Prog.Pos(in.Pos())
					}
				}
			}
		}
	}
	for changed := true; changed; {
		changed = false
		for _, fn := range fns {
			for _, cs := range Calls(fn) {
				f := Callee(cs.Common())
				if f == nil || f.Blocks == nil {
					continue
				}
				for i, a := range cs.Common().Args {
					if i >= len(f.Params) {
						continue
					}
					where, isRaw := ri.raw[f.Params[i]]
					if !isRaw {
						continue
					}
					p := derivedFromParam(a)
					if p == nil || p.Parent() != fn {
						continue
					}
					if up, _ := comparedAt(cs.Block(), a); up {
						continue
					}
					if up, _ := comparedAt(cs.Block(), p); up {
						continue
					}
					if _, ok := ri.raw[p]; !ok {
						ri.raw[p] = where
						changed = true
					}
				}
			}
		}
	}
	return ri
}

// sanitised: is v a valid index by construction? Returns a reason when not.
func (ri *rawIndex) sanitised(v ssa.Value, at *ssa.BasicBlock, seen map[ssa.Value]bool) (bool, string) {
	if seen[v] {
		return true, ""
	}
	seen[v] = true
	if _, ok := ConstInt(v); ok {
		return true, ""
	}
	if up, _ := comparedAt(at, v); up {
		return true, ""
	}
	switch x := v.(type) {
	case *ssa.Call:
		if f := x.Call.StaticCallee(); f != nil {
			switch NameOf(f) {
			case "Value": // cursor.Cursor.Value(): 0 <= value < maxValue by Cursor.Set
				if f.Signature.Recv() != nil && strings.Contains(f.Signature.Recv().Type().String(), "cursor.Cursor") {
					return true, ""
				}
			case "Line": // lines.Lines.Line: position of an instruction of a block in the listing
				if f.Signature.Recv() != nil && strings.Contains(f.Signature.Recv().Type().String(), "lines.Lines") {
					return true, ""
				}
			}
		}
		return false, "the result of " + callName(x) + " is used as a line index"
	case *ssa.BinOp:
		switch x.Op {
		case token.REM:
			if isLenLike(x.Y) {
				return true, ""
			}
		case token.ADD, token.SUB:
			// layout exception: the line before the first / after the last instruction of a block exists
			// (block header, separating blank line): Line(...) +/- 1
			if k, ok := ConstInt(x.Y); ok && k == 1 {
				if call, ok := x.X.(*ssa.Call); ok {
					if f := call.Call.StaticCallee(); f != nil && NameOf(f) == "Line" {
						return true, ""
					}
				}
			}
			return false, "an index computed by arithmetic (" + x.X.Name() + " " + x.Op.String() + " " + x.Y.Name() + ") is not compared with the number of lines"
		}
		return false, "a computed value is used as a line index"
	case *ssa.Phi:
		for _, e := range x.Edges {
			if ok, why := ri.sanitised(e, at, seen); !ok {
				return false, why
			}
		}
		return true, ""
	case *ssa.TypeAssert:
		return false, "a user-supplied number (" + x.X.Name() + ") is used as a line index without being compared with the number of lines"
	case *ssa.Extract:
		return ri.sanitised(x.Tuple, at, seen)
	case *ssa.Parameter:
		return false, "parameter " + x.Name() + " is used as a line index"
	case *ssa.UnOp:
		return false, "a loaded value is used as a line index"
	}
	return false, "value of unknown range used as a line index"
}

// nonNegative: is v >= 0 by construction? The counterpart of sanitised for the
// lower end of an index. at is the block in which v is used.
func nonNegative(v ssa.Value, at *ssa.BasicBlock, seen map[ssa.Value]bool) (bool, string) {
	if seen[v] {
		return true, "" // a cycle through a loop phi: decided by the other edges
	}
	seen[v] = true
	if k, ok := ConstInt(v); ok {
		if k >= 0 {
			return true, ""
		}
		return false, fmt.Sprintf("the constant %d is used as an index", k)
	}
	if _, lo := comparedAt(at, v); lo {
		return true, ""
	}
	if b, ok := v.Type().Underlying().(*types.Basic); ok && b.Info()&types.IsUnsigned != 0 {
		return true, ""
	}
	switch x := v.(type) {
	case *ssa.Call:
		if bi, ok := x.Call.Value.(*ssa.Builtin); ok && (bi.Name() == "len" || bi.Name() == "cap") {
			return true, ""
		}
		name := ""
		if f := x.Call.StaticCallee(); f != nil {
			name = NameOf(f)
		} else if x.Call.IsInvoke() {
			name = x.Call.Method.Name()
		}
		switch name {
		case "Len", "Value", "Line", "MaxValue", "MinLines", "MaxLines", "Idx":
			return true, "" // lengths, cursor positions, listing positions
		}
		return false, "the result of " + callName(x) + " may be negative"
	case *ssa.Convert:
		return nonNegative(x.X, at, seen)
	case *ssa.BinOp:
		switch x.Op {
		case token.ADD, token.MUL, token.QUO:
			if ok, why := nonNegative(x.X, at, seen); !ok {
				return false, why
			}
			return nonNegative(x.Y, at, seen)
		case token.REM:
			return nonNegative(x.X, at, seen)
		case token.SUB:
			// x - y with a guard x >= y (or y <= x) in force, or y a constant
			// and x compared >= that constant
			for _, g := range GuardsOf(at) {
				bo, ok := g.Cond.(*ssa.BinOp)
				if !ok {
					continue
				}
				ge := (bo.Op == token.GEQ && g.Outcome) || (bo.Op == token.LSS && !g.Outcome) || (bo.Op == token.GTR && g.Outcome) || (bo.Op == token.LEQ && !g.Outcome)
				le := (bo.Op == token.LEQ && g.Outcome) || (bo.Op == token.GTR && !g.Outcome) || (bo.Op == token.LSS && g.Outcome) || (bo.Op == token.GEQ && !g.Outcome)
				if ge && SameValue(bo.X, x.X) && SameValue(bo.Y, x.Y) {
					return true, ""
				}
				if le && SameValue(bo.X, x.Y) && SameValue(bo.Y, x.X) {
					return true, ""
				}
			}
			return false, "the difference " + x.X.Name() + " - " + x.Y.Name() + " may be negative: nothing on this path compares the two"
		}
		return false, "a computed value may be negative"
	case *ssa.Phi:
		for i, e := range x.Edges {
			pred := x.Block().Preds[i]
			// clamp idiom: the value arrives over an edge on which e >= 0 holds
			if _, lo := comparedUnder(append(GuardsOf(pred), guardOfEdge(pred, x.Block())...), e); lo {
				continue
			}
			if ok, why := nonNegative(e, pred, seen); !ok {
				return false, why
			}
		}
		return true, ""
	case *ssa.Extract:
		return nonNegative(x.Tuple, at, seen)
	case *ssa.TypeAssert:
		if min, ok := userArgMin(x); ok && min >= 0 {
			return true, ""
		}
		return false, "a user-supplied number may be negative (its argument parser does not enforce a minimum >= 0)"
	case *ssa.Parameter:
		return false, "parameter " + x.Name() + " may be negative"
	case *ssa.UnOp:
		if n, _, ok := FieldNameOfLoad(x); ok && (n == "value" || n == "maxValue") {
			return true, ""
		}
		return false, "a loaded value may be negative"
	}
	return false, "a value of unknown sign is used as an index"
}

// cmdLits is the command table of the UI (set by checkLineIndices).
var cmdLits []*cmdLit

// userArgMin: ta is args[k].(int) inside the Action of a command whose k-th
// argument parser is cmdtools.ParseNum(min, max) with a constant min, and
// ParseNum's closure returns a value only on the edge where v < min is false.
func userArgMin(ta *ssa.TypeAssert) (int64, bool) {
	ld, ok := ta.X.(*ssa.UnOp)
	if !ok {
		return 0, false
	}
	ia, ok := ld.X.(*ssa.IndexAddr)
	if !ok {
		return 0, false
	}
	k, ok := ConstInt(ia.Index)
	if !ok {
		return 0, false
	}
	fn := ta.Parent()
	if len(fn.Params) == 0 || Unwrap(ia.X) != ssa.Value(fn.Params[len(fn.Params)-1]) {
		return 0, false
	}
	for _, cl := range cmdLits {
		if cl.Action != fn || int(k) >= len(cl.Args) {
			continue
		}
		call, ok := Unwrap(cl.Args[k]).(*ssa.Call)
		if !ok {
			return 0, false
		}
		f := call.Call.StaticCallee()
		if f == nil || f.Blocks == nil || len(call.Call.Args) != 2 || !parseNumEnforcesMin(f) {
			return 0, false
		}
		return ConstInt(call.Call.Args[0])
	}
	return 0, false
}

// parseNumEnforcesMin: the closure returned by ParseNum returns a nil error
// only where `v < min` (min the captured first parameter) is false.
func parseNumEnforcesMin(f *ssa.Function) bool {
	if len(f.Params) == 0 {
		return false
	}
	var cl *ssa.Function
	// isMin: does v, in the parser's body, carry the factory's first parameter?
	var isMin func(v ssa.Value) bool
	switch {
	case len(f.AnonFuncs) == 1:
		cl = f.AnonFuncs[0]
		isMin = func(v ssa.Value) bool {
			return DependsOn(v, func(w ssa.Value) bool {
				fv, ok := w.(*ssa.FreeVar)
				return ok && fv.Name() == f.Params[0].Name()
			})
		}
	default:
		// a bound method of a record built from the parameters: the field that
		// receives the first parameter is the minimum
		var mc *ssa.MakeClosure
		for _, b := range f.Blocks {
			if ret, ok := b.Instrs[len(b.Instrs)-1].(*ssa.Return); ok && len(ret.Results) == 1 {
				mc, _ = Unwrap(ret.Results[0]).(*ssa.MakeClosure)
			}
		}
		if mc == nil || len(mc.Bindings) != 1 {
			return false
		}
		w, _ := mc.Fn.(*ssa.Function)
		if w == nil || len(w.Blocks) != 1 {
			return false
		}
		for _, in := range w.Blocks[0].Instrs {
			if call, ok := in.(*ssa.Call); ok && call.Call.StaticCallee() != nil {
				cl = call.Call.StaticCallee()
			}
		}
		if cl == nil || cl.Blocks == nil || len(cl.Params) == 0 {
			return false
		}
		minField := ""
		for _, b := range f.Blocks {
			for _, in := range b.Instrs {
				if st, ok := in.(*ssa.Store); ok && Unwrap(st.Val) == ssa.Value(f.Params[0]) {
					if fa, ok := st.Addr.(*ssa.FieldAddr); ok {
						if fld := FieldOf(fa); fld != nil {
							minField = NameOf(fld)
						}
					}
				}
			}
		}
		if minField == "" {
			return false
		}
		isMin = func(v ssa.Value) bool {
			return DependsOn(v, func(w ssa.Value) bool {
				n, x, ok := FieldNameOfRead(w)
				if !ok || n != minField {
					return false
				}
				if Unwrap(x) == ssa.Value(cl.Params[0]) {
					return true
				}
				// a value receiver spilled to a local
				if al, isAl := Unwrap(x).(*ssa.Alloc); isAl && al.Referrers() != nil {
					for _, r := range *al.Referrers() {
						if st, isSt := r.(*ssa.Store); isSt && st.Addr == ssa.Value(al) && st.Val == ssa.Value(cl.Params[0]) {
							return true
						}
					}
				}
				return false
			})
		}
	}
	found := false
	for _, b := range cl.Blocks {
		ret, ok := b.Instrs[len(b.Instrs)-1].(*ssa.Return)
		if !ok || len(ret.Results) != 2 || !IsNilConst(ret.Results[1]) {
			continue
		}
		okRet := false
		for _, g := range GuardsOf(b) {
			bo, isBin := g.Cond.(*ssa.BinOp)
			if !isBin {
				continue
			}
			if (bo.Op == token.LSS && isMin(bo.Y) && !g.Outcome) || (bo.Op == token.GEQ && isMin(bo.Y) && g.Outcome) ||
				(bo.Op == token.GTR && isMin(bo.X) && !g.Outcome) || (bo.Op == token.LEQ && isMin(bo.X) && g.Outcome) {
				okRet = true
			}
		}
		if !okRet {
			return false
		}
		found = true
	}
	return found
}

func callName(x *ssa.Call) string {
	if f := x.Call.StaticCallee(); f != nil {
		return ShortName(f)
	}
	if x.Call.IsInvoke() {
		return "." + x.Call.Method.Name() + "()"
	}
	return "a call"
}

// taintedInt: is v an integer whose range is controlled from outside the
// listing - a number typed by the user (args[k].(int) of a command Action),
// the height granted to a Print(n) method, or arithmetic on such a value or
// on a cursor position?
func taintedInt(v ssa.Value, seen map[ssa.Value]bool) bool {
	if v == nil || seen[v] {
		return false
	}
	seen[v] = true
	switch x := v.(type) {
	case *ssa.TypeAssert:
		// args[k].(int)
		if ld, ok := x.X.(*ssa.UnOp); ok {
			if ia, ok := ld.X.(*ssa.IndexAddr); ok {
				if p, ok := ia.X.(*ssa.Parameter); ok && p.Name() == "args" {
					return true
				}
			}
		}
	case *ssa.Parameter:
		fn := x.Parent()
		if NameOf(fn) == "Print" && fn.Signature.Recv() != nil && len(fn.Params) == 2 && fn.Params[1] == x && isInt(x.Type()) {
			return true
		}
	case *ssa.Convert:
		return taintedInt(x.X, seen)
	case *ssa.Call:
		// float round trips of tainted values (golden ratio computation)
		for _, a := range x.Call.Args {
			if taintedInt(a, seen) {
				return true
			}
		}
	case *ssa.BinOp:
		switch x.Op {
		case token.ADD, token.SUB, token.MUL, token.QUO:
			if taintedInt(x.X, seen) || taintedInt(x.Y, seen) {
				return true
			}
			// arithmetic on a cursor position leaves the valid range
			for _, o := range []ssa.Value{x.X, x.Y} {
				if call, ok := o.(*ssa.Call); ok {
					if f := call.Call.StaticCallee(); f != nil && NameOf(f) == "Value" && f.Signature.Recv() != nil && strings.Contains(f.Signature.Recv().Type().String(), "cursor.Cursor") {
						return true
					}
				}
			}
		}
	case *ssa.Phi:
		for _, e := range x.Edges {
			if taintedInt(e, seen) {
				return true
			}
		}
	case *ssa.UnOp:
		return taintedInt(x.X, seen)
	}
	return false
}

// checkLineIndices: E10(d). Every value passed to a raw-index parameter (or
// used directly as an index of a non-constant-length slice) in the selected
// functions must be sanitised, unless it is the function's own parameter
// (then its callers are checked).
func checkLineIndices(c *Ctx, rule string, scope func(*ssa.Function) bool) int {
	ri := newRawIndex(c)
	cmdLits = findCommands(c)
	var rawNames []string
	for p, w := range ri.raw {
		rawNames = append(rawNames, ShortName(p.Parent())+"("+p.Name()+") -> "+w)
	}
	sort.Strings(rawNames)
	c.Extra["raw_index_parameters"] = rawNames
	n := 0
	for _, fn := range uiFuncs(c) {
		if !scope(fn) {
			continue
		}
		ord := map[string]int{}
		for _, cs := range Calls(fn) {
			f := Callee(cs.Common())
			if f == nil || f.Blocks == nil {
				continue
			}
			for i, a := range cs.Common().Args {
				if i >= len(f.Params) {
					continue
				}
				if _, isRaw := ri.raw[f.Params[i]]; !isRaw {
					continue
				}
				if p := derivedFromParam(a); p != nil && p.Parent() == fn {
					if _, propagated := ri.raw[p]; propagated {
						continue // checked at this function's callers
					}
				}
				if !taintedInt(a, map[ssa.Value]bool{}) {
					continue // an internal value (loop variable, block index, ...), not controlled from outside
				}
				n++
				name := NameOf(Origin(f))
				ord[name]++
				key := fmt.Sprintf("%s/%s(arg%d)#%d", ShortName(fn), name, i, ord[name])
				ok, why := ri.sanitised(a, cs.Block(), map[ssa.Value]bool{})
				if ok {
					if lo, whyLo := nonNegative(a, cs.Block(), map[ssa.Value]bool{}); !lo {
						ok, why = false, whyLo+": a negative line index"
					}
				}
				if ok {
					c.Pass(rule, key, c.Prog.Pos(cs.Pos()), "")
				} else {
					c.Fail(rule, key, c.Prog.Pos(cs.Pos()), why+" ("+ShortName(f)+" indexes with it at "+ri.raw[f.Params[i]]+"): an out-of-range value crashes the program")
				}
			}
		}
		// direct indexing with non-parameter values
		for _, b := range fn.Blocks {
			for _, in := range b.Instrs {
				ia, ok := in.(*ssa.IndexAddr)
				if !ok {
					continue
				}
				if _, isArr := ia.X.Type().Underlying().(*types.Pointer); isArr {
					continue
				}
				if !isInt(ia.Index.Type()) {
					continue
				}
				if _, isC := ConstInt(ia.Index); isC {
					continue
				}
				if p := derivedFromParam(ia.Index); p != nil {
					if _, isRaw := ri.raw[p]; isRaw {
						continue // summarised, checked at the callers
					}
				}
				if !taintedInt(ia.Index, map[ssa.Value]bool{}) {
					continue
				}
				n++
				ord["[]"]++
				key := fmt.Sprintf("%s/index#%d", ShortName(fn), ord["[]"])
				ok2, why := ri.sanitised(ia.Index, b, map[ssa.Value]bool{})
				if ok2 {
					if lo, whyLo := nonNegative(ia.Index, b, map[ssa.Value]bool{}); !lo {
						ok2, why = false, whyLo+": a negative index crashes the program"
					}
				}
				if ok2 {
					c.Pass(rule, key, c.Prog.Pos(ia.Pos()), "")
				} else {
					c.Fail(rule, key, c.Prog.Pos(ia.Pos()), why)
				}
			}
		}
	}
	return n
}

// ---------------------------------------------------------------- E10(b)

// checkNilFuncFields: a call through a function-typed field of
// consoleui.Command that some command literal leaves unset needs a
// dominating nil check.
func checkNilFuncFields(c *Ctx, rule string) int {
	cmds := findCommands(c)
	unset := map[string]string{}
	for _, cl := range cmds {
		for _, f := range []string{"Action", "OptionalArgs"} {
			if !cl.FieldSet[f] {
				if _, ok := unset[f]; !ok {
					unset[f] = cmdKey(cl)
				}
			}
		}
	}
	n := 0
	for _, fn := range uiFuncs(c) {
		for _, cs := range Calls(fn) {
			if cs.Common().IsInvoke() {
				continue
			}
			v := cs.Common().Value
			var field *types.Var
			switch x := Unwrap(v).(type) {
			case *ssa.UnOp:
				if fa, ok := x.X.(*ssa.FieldAddr); ok {
					field = FieldOf(fa)
				}
			case *ssa.Field:
				field = FieldOf(x)
			}
			if field == nil {
				continue
			}
			if _, isFunc := field.Type().Underlying().(*types.Signature); !isFunc {
				continue
			}
			owner := ""
			if field.Pkg() != nil {
				owner = field.Pkg().Path()
			}
			if owner != ModulePath+"/"+pkgUI {
				continue
			}
			n++
			key := ShortName(fn) + "/call-of-" + field.Name()
			who, isUnset := unset[field.Name()]
			if !isUnset {
				c.Pass(rule, key, c.Prog.Pos(cs.Pos()), "every command literal sets "+field.Name())
				continue
			}
			guarded := false
			for _, g := range GuardsOf(cs.Block()) {
				x, nn, ok := NilCheck(g.Cond)
				if ok && nn == g.Outcome && SameValue(x, v) {
					guarded = true
				}
			}
			if guarded {
				c.Pass(rule, key, c.Prog.Pos(cs.Pos()), "")
			} else {
				c.Fail(rule, key, c.Prog.Pos(cs.Pos()), "Command."+field.Name()+" is called without a nil check although "+who+" (and others) leave it unset: the call crashes")
			}
		}
	}
	return n
}

// ---------------------------------------------------------------- E10(f)

// checkMaybeNilFields: pointer fields that a constructor assigns a possibly
// nil value need a nil check before a method is called through them.
func checkMaybeNilFields(c *Ctx, rule string, scope func(*ssa.Function) bool) int {
	maybeNil := map[*types.Var]string{}
	for _, fn := range uiFuncs(c) {
		for _, b := range fn.Blocks {
			for _, in := range b.Instrs {
				st, ok := in.(*ssa.Store)
				if !ok {
					continue
				}
				fa, ok := st.Addr.(*ssa.FieldAddr)
				if !ok {
					continue
				}
				f := FieldOf(fa)
				if f == nil {
					continue
				}
				if _, isPtr := f.Type().Underlying().(*types.Pointer); !isPtr {
					continue
				}
				canBeNil := false
				var visit func(v ssa.Value, seen map[ssa.Value]bool)
				visit = func(v ssa.Value, seen map[ssa.Value]bool) {
					if seen[v] {
						return
					}
					seen[v] = true
					if IsNilConst(v) {
						canBeNil = true
					}
					if ph, ok := v.(*ssa.Phi); ok {
						for _, e := range ph.Edges {
							visit(e, seen)
						}
					}
				}
				visit(st.Val, map[ssa.Value]bool{})
				if canBeNil {
					maybeNil[f.Origin()] = c.Prog.Pos(st.Pos())
				}
			}
		}
	}
	var names []string
	for f, w := range maybeNil {
		names = append(names, NameOf(f)+" (may be nil since "+w+")")
	}
	sort.Strings(names)
	c.Extra["possibly_nil_pointer_fields"] = names
	// one obligation per pointer field through which methods are called
	type use struct {
		fn   *ssa.Function
		cs   CallSite
		name string
		m    string
	}
	uses := map[*types.Var][]use{}
	var fields []*types.Var
	for _, fn := range uiFuncs(c) {
		if !scope(fn) {
			continue
		}
		for _, cs := range Calls(fn) {
			if cs.Common().IsInvoke() || len(cs.Common().Args) == 0 {
				continue
			}
			f := Callee(cs.Common())
			if f == nil || f.Signature.Recv() == nil {
				continue
			}
			recv := cs.Common().Args[0]
			// value receivers are called on the dereferenced pointer
			if u, ok := recv.(*ssa.UnOp); ok && u.Op == token.MUL {
				if _, _, isF := FieldNameOfLoad(u.X); isF {
					recv = u.X
				}
			}
			name, _, ok := FieldNameOfLoad(recv)
			if !ok {
				continue
			}
			u := Unwrap(recv).(*ssa.UnOp)
			fv := FieldOf(u.X)
			if fv == nil {
				continue
			}
			if _, isPtr := fv.Type().Underlying().(*types.Pointer); !isPtr {
				continue
			}
			fo := fv.Origin()
			if _, seen := uses[fo]; !seen {
				fields = append(fields, fo)
			}
			uses[fo] = append(uses[fo], use{fn: fn, cs: CallSite{Fn: fn, Instr: cs.Instr}, name: name, m: NameOf(f)})
		}
	}
	sort.Slice(fields, func(i, j int) bool { return fields[i].Pos() < fields[j].Pos() })
	n := 0
	for _, fo := range fields {
		n++
		owner := ""
		if fo.Pkg() != nil {
			owner = strings.TrimPrefix(fo.Pkg().Path(), ModulePath+"/")
		}
		key := owner + "." + fo.Name() + "/method-calls"
		where, mn := maybeNil[fo]
		if !mn {
			c.Pass(rule, key, c.Prog.Pos(fo.Pos()), fmt.Sprintf("never assigned nil (%d calls)", len(uses[fo])))
			continue
		}
		bad := ""
		for _, u := range uses[fo] {
			recv := u.cs.Common().Args[0]
			if d, ok := recv.(*ssa.UnOp); ok && d.Op == token.MUL {
				if _, _, isF := FieldNameOfLoad(d.X); isF {
					recv = d.X
				}
			}
			guarded := false
			for _, g := range GuardsOf(u.cs.Block()) {
				x, nn, isNil := NilCheck(g.Cond)
				if isNil && nn == g.Outcome && SameValue(x, recv) {
					guarded = true
				}
			}
			if !guarded && bad == "" {
				bad = "method " + u.m + " is called through field " + u.name + " in " + ShortName(u.fn) + " at " + c.Prog.Pos(u.cs.Pos()) + ", but its constructor leaves the field nil in some cases (" + where + ") and no nil check dominates the call: nil pointer dereference"
			}
		}
		c.Oblige(rule, key, c.Prog.Pos(fo.Pos()), bad == "", bad)
	}
	return n
}
