package rules

import (
	"fmt"
	"go/token"
	"go/types"
	"strings"

	"golang.org/x/tools/go/ssa"

	. "mltlint/internal/core"
)

func init() {
	register("C03", "other", checkC03)
	register("C04", "other", checkC04)
}

const pkgEmul = "internal/emulator"

// providerCalls lists every invoke of a method of emulator.StateProvider in
// the module.
func providerCalls(c *Ctx) []CallSite {
	sp := c.Prog.LookupType(ModulePath+"/"+pkgEmul, "StateProvider")
	var out []CallSite
	if sp == nil {
		return nil
	}
	for _, fn := range c.Prog.Funcs() {
		if fn.Origin() != nil {
			continue
		}
		for _, cs := range Calls(fn) {
			if cs.Common().IsInvoke() && NamedOf(cs.Common().Value.Type()) == sp {
				out = append(out, cs)
			}
		}
	}
	return out
}

// reachesEval: the set of module functions from which the state provider or
// a state lookup (RegMap.Load / MemMap.Load) is reachable through static
// calls and closures created in place.
func evaluators(c *Ctx) map[*ssa.Function]bool {
	set := map[*ssa.Function]bool{}
	isSource := func(cs CallSite) bool {
		if cs.Common().IsInvoke() {
			if n := NamedOf(cs.Common().Value.Type()); n != nil && n.Obj().Name() == "StateProvider" {
				return true
			}
			return false
		}
		f := Callee(cs.Common())
		return FuncNameIs(f, "(*"+pkgState+".RegMap).Load") || FuncNameIs(f, "("+pkgMemory+".MemMap).Load")
	}
	changed := true
	for changed {
		changed = false
		for _, fn := range c.Prog.Funcs() {
			if set[fn] || fn.Blocks == nil {
				continue
			}
			hit := false
			for _, cs := range Calls(fn) {
				if isSource(cs) {
					hit = true
				}
				if f := Callee(cs.Common()); f != nil && set[f] {
					hit = true
				}
			}
			for _, af := range fn.AnonFuncs {
				if set[af] {
					hit = true
				}
			}
			if hit {
				set[fn] = true
				changed = true
			}
		}
	}
	return set
}

func checkC03Const(c *Ctx) {
	// --- unchecked assertions to expr.Const
	c.Rule("C03.const", "an unchecked type assertion to expr.Const in package emulator is applied only to a value that is a constant by construction: the result of ConstFold, of RegMap.Load (SetWidth of a stored constant is NewConst, C12.setwidth), or a field of an effect that Step has already evaluated; the result of a Memory.Load is an expression assembled from pieces and has to be folded first")
	nAssert := 0
	for _, fn := range c.Prog.FuncsIn(ModulePath + "/" + pkgEmul) {
		if fn.Origin() != nil || fn.Blocks == nil {
			continue
		}
		ord := 0
		for _, b := range fn.Blocks {
			for _, in := range b.Instrs {
				ta, ok := in.(*ssa.TypeAssert)
				if !ok || ta.CommaOk || !TypeNameIs(ta.AssertedType, "pkg/expr.Const") {
					continue
				}
				nAssert++
				ord++
				k := fmt.Sprintf("%s/.(Const)#%d", ShortName(fn), ord)
				x := Unwrap(ta.X)
				why := ""
				switch {
				case matches(x, CallTo(pkgXform+".ConstFold", Any())):
				case matches(x, ExtractN(0, CallTo("(*"+pkgState+".RegMap).Load", Any()))):
				case NameOf(fn) == "recordOutput" && (matches(x, Method("Addr", Any())) || matches(x, Method("Value", Any()))):
				case matches(x, ExtractN(0, Method("Load", Any()))):
					why = "the result of a memory Load is asserted to be a constant without constant folding: a read that is assembled from more than one stored piece (two adjacent stores, a read inside a wider store, a read across the program image's end) is an unfolded expression and the assertion panics"
				default:
					why = "asserted value is not a constant by construction"
				}
				c.Oblige("C03.const", k, c.Prog.Pos(ta.Pos()), why == "", why)
			}
		}
	}
	c.RequireCount("C03.const unchecked assertions to expr.Const in package emulator", nAssert, 6)

}

func checkC03Layering(c *Ctx) {
	// anywhere in package main (function, closure or method): the memory
	// installed under riscv.MemoryKey
	mainFns := c.Prog.FuncsIn(ModulePath + "/cmd/mltwist")
	var all []*ssa.Function
	var add func(fn *ssa.Function)
	add = func(fn *ssa.Function) {
		if fn == nil || fn.Blocks == nil {
			return
		}
		all = append(all, fn)
		for _, af := range fn.AnonFuncs {
			add(af)
		}
	}
	for _, fn := range mainFns {
		if fn.Parent() == nil {
			add(fn)
		}
	}
	if len(all) == 0 {
		c.Undecide("C03.lay: package cmd/mltwist has no functions")
		return
	}
	found := false
	for _, fn := range all {
		for _, b := range fn.Blocks {
			for _, in := range b.Instrs {
				mu, ok := in.(*ssa.MapUpdate)
				if !ok {
					continue
				}
				if k, isC := Unwrap(mu.Key).(*ssa.Const); !isC || k.Value == nil || strings.Trim(k.Value.ExactString(), "\"") != "memory" {
					continue
				}
				if !TypeNameIs(mu.Map.Type(), pkgMemory+".MemMap") {
					continue
				}
				found = true
				bd, ok := Match(mu.Value, CallTo(pkgMemory+".NewOverlay", Capture("base", Any()), CallTo(pkgMemory+".NewSparse")))
				why := ""
				if !ok {
					why = "the memory installed under riscv.MemoryKey is not NewOverlay(base, NewSparse())"
				} else if !DependsOn(bd.M["base"], func(v ssa.Value) bool {
					call, isCall := v.(*ssa.Call)
					if isCall && FuncNameIs(call.Call.StaticCallee(), pkgMemory+".NewBytes") {
						return true
					}
					// a field / captured variable holding the byte memory
					t := v.Type()
					if pt, isPtr := t.Underlying().(*types.Pointer); isPtr {
						t = pt.Elem()
					}
					return TypeNameIs(t, pkgMemory+".Bytes")
				}) {
					why = "the base layer is not the byte memory built from the ELF image"
				}
				c.Oblige("C03.lay", "cmd/mltwist/memory", c.Prog.Pos(mu.Pos()), why == "", why)
			}
		}
	}
	if !found {
		c.Fail("C03.lay", "cmd/mltwist/memory", c.Prog.FuncPos(all[0]), "no memory is installed under riscv.MemoryKey")
	}
	// riscv.MemoryKey really is "memory"
	if rp := c.Prog.SSAPkg[ModulePath+"/"+pkgRiscv]; rp == nil || rp.Const("MemoryKey") == nil || strings.Trim(rp.Const("MemoryKey").Value.Value.ExactString(), "\"") != "memory" {
		c.Undecide("C03.lay: riscv.MemoryKey does not resolve to the expected key")
	}
	// the byte memory is built from every block of the ELF memory image
	nbOK := false
	for _, fn := range all {
		for _, cs := range Calls(fn) {
			if !FuncNameIs(Callee(cs.Common()), pkgMemory+".NewBytes") {
				continue
			}
			for _, l := range RangeLoops(fn) {
				if LoadOfField(l.Over, "Blocks", func(v ssa.Value) bool { return true }) && TypeNameIs(l.Over.Type(), "") == false {
					nbOK = true
				}
			}
		}
	}
	c.Oblige("C03.lay", "cmd/mltwist/image-blocks", c.Prog.FuncPos(all[0]), nbOK, "the byte memory is not built from every block of the ELF memory image")
}

// lastArgClosure returns the function of a closure passed as the last argument.
func lastArgClosure(cs CallSite) (*ssa.Function, bool) {
	a := cs.Common().Args
	if len(a) == 0 {
		return nil, false
	}
	if mc, ok := Unwrap(a[len(a)-1]).(*ssa.MakeClosure); ok {
		f, ok := mc.Fn.(*ssa.Function)
		return f, ok
	}
	return nil, false
}

func extractOf(call *ssa.Call, idx int) ssa.Value {
	if refs := call.Referrers(); refs != nil {
		for _, r := range *refs {
			if e, ok := r.(*ssa.Extract); ok && e.Index == idx {
				return e
			}
		}
	}
	return nil
}

func reachable(from ssa.Instruction, to ssa.Instruction) bool {
	r := false
	ReachableFromInstr(from, func(x ssa.Instruction) {
		if x == to {
			r = true
		}
	})
	return r
}

// jumpedFlagOK: the boolean phi is false initially and becomes true only on
// an edge guarded by (ef.(RegStore) ok) && (that.Key() == IPKey) of ef.
func jumpedFlagOK(flag *ssa.Phi, ef ssa.Value, isIP func(ssa.Value) bool) (bool, string) {
	seen := map[*ssa.Phi]bool{}
	sawTrue := false
	var rec func(p *ssa.Phi) (bool, string)
	rec = func(p *ssa.Phi) (bool, string) {
		if seen[p] {
			return true, ""
		}
		seen[p] = true
		for i, e := range p.Edges {
			if q, ok := e.(*ssa.Phi); ok {
				if ok2, why := rec(q); !ok2 {
					return false, why
				}
				continue
			}
			if matches(e, BoolPat(false)) {
				continue
			}
			if !matches(e, BoolPat(true)) {
				return false, "the jump flag is computed from something other than constants"
			}
			sawTrue = true
			pred := p.Block().Preds[i]
			gs := append(GuardsOf(pred), guardOfEdge(pred, p.Block())...)
			assertOK, keyOK := false, false
			var rs ssa.Value
			for _, g := range gs {
				if ex, ok := g.Cond.(*ssa.Extract); ok && ex.Index == 1 && g.Outcome {
					if ta, ok := ex.Tuple.(*ssa.TypeAssert); ok && TypeNameIs(ta.AssertedType, "pkg/expr.RegStore") && ta.X == ef {
						assertOK = true
						rs = extractOfTA(ta, 0)
					}
				}
			}
			for _, g := range gs {
				if bo, ok := g.Cond.(*ssa.BinOp); ok && (bo.Op == token.EQL || bo.Op == token.NEQ) && (bo.Op == token.EQL) == g.Outcome {
					if rs != nil && accessorCallOn(bo.X, rs, "Key") && isIP(bo.Y) {
						keyOK = true
					}
				}
			}
			if !assertOK || !keyOK {
				return false, "the jump flag is set without the applied effect being a RegStore to expr.IPKey"
			}
		}
		return true, ""
	}
	ok, why := rec(flag)
	if ok && !sawTrue {
		return false, "the jump flag is never set: every instruction would fall through"
	}
	return ok, why
}

func extractOfTA(ta *ssa.TypeAssert, idx int) ssa.Value {
	if refs := ta.Referrers(); refs != nil {
		for _, r := range *refs {
			if e, ok := r.(*ssa.Extract); ok && e.Index == idx {
				return e
			}
		}
	}
	return nil
}

// --------------------------------------------------------------------- C04

func checkC04(c *Ctx) {
	c.Rule("C04.callers", "the state provider is invoked only from Emulator.regValue and Emulator.memValue")
	c.Rule("C04.miss", "every provider call is dominated by the miss edge of RegMap.Load / MemMap.Load for the same key (address, width)")
	c.Rule("C04.arg", "memory: the (address, width) asked for are Begin() and Len() of an element of MemMap.Missing(key, addr, w).Intervals() of the same request, in a loop over all of them")
	c.Rule("C04.memo", "every provider answer is stored (RegMap.Store / MemMap.Store under the same key and the asked address/width) before the function returns")
	c.Rule("C04.set", "set algebra by truth table: Overlay.Missing = base.Missing ∩ overlay.Missing; MemMap.Missing of an unknown space is the whole requested range")

	sites := providerCalls(c)
	c.RequireCount("C04 provider call sites", len(sites), 2)
	// C04.req: the functions that ask the provider read the state for the request
	// they were given: every RegMap.Load / MemMap.Load / MemMap.Missing in them is
	// handed the function's own parameters (not a variable a loop may have changed)
	c.Rule("C04.req", "the functions that ask the state provider read and re-read the state for the request they were given: RegMap.Load, MemMap.Load and MemMap.Missing in them receive the function's own key / address / width parameters unchanged")
	{
		seenFn := map[*ssa.Function]bool{}
		nReq := 0
		for _, cs := range sites {
			fn := cs.Fn
			if seenFn[fn] {
				continue
			}
			seenFn[fn] = true
			ord := map[string]int{}
			for _, rd := range Calls(fn) {
				f := Callee(rd.Common())
				if !(FuncNameIs(f, "(*"+pkgState+".RegMap).Load") || FuncNameIs(f, "("+pkgMemory+".MemMap).Load") || FuncNameIs(f, "("+pkgMemory+".MemMap).Missing")) {
					continue
				}
				nReq++
				ord[NameOf(f)]++
				bad := ""
				for i, a := range rd.Common().Args {
					if i == 0 {
						continue // the map itself
					}
					if p, ok := Unwrap(a).(*ssa.Parameter); !ok || p.Parent() != fn {
						bad = fmt.Sprintf("argument %d is not the function's own parameter", i)
					}
				}
				c.Oblige("C04.req", fmt.Sprintf("%s/%s#%d", ShortName(fn), NameOf(f), ord[NameOf(f)]), c.Prog.Pos(rd.Pos()), bad == "", "the state is read for something else than the request ("+bad+"): the value handed back, or the set of missing bytes, is that of another key, address or width")
			}
		}
		c.RequireCount("C04.req state reads in the provider-calling functions", nReq, 4)
	}
	for _, cs := range sites {
		fn := cs.Fn
		m := cs.Common().Method.Name()
		key := ShortName(fn) + "/" + m
		pos := c.Prog.Pos(cs.Pos())
		allowed := map[string]string{"Register": "regValue", "Memory": "memValue"}
		c.Oblige("C04.callers", key, pos, NameOf(fn) == allowed[m] && PkgPathOf(fn) == ModulePath+"/"+pkgEmul, "the provider is asked from "+ShortName(fn))
		call, _ := cs.Instr.(*ssa.Call)
		if call == nil {
			c.Fail("C04.miss", key, pos, "provider called in a go/defer statement")
			continue
		}
		a := cs.Common().Args
		switch m {
		case "Register":
			// miss edge of Regs.Load(key, w)
			missOK := false
			for _, g := range GuardsOf(cs.Block()) {
				if bd, ok := Match(g.Cond, ExtractN(1, CallTo("(*"+pkgState+".RegMap).Load", Any(), Capture("k", Any()), Capture("w", Any())))); ok && !g.Outcome {
					if SameValue(bd.M["k"], a[0]) && SameValue(bd.M["w"], a[1]) {
						missOK = true
					}
				}
			}
			c.Oblige("C04.miss", key, pos, missOK, "the provider is asked for a register without RegMap.Load(same key, same width) having missed: known state would be asked for again")
			// memoising store on all paths to return
			okMemo, _ := MustPassBefore(call, func(in ssa.Instruction) bool {
				st, ok := in.(*ssa.Call)
				if !ok || !FuncNameIs(st.Call.StaticCallee(), "(*"+pkgState+".RegMap).Store") {
					return false
				}
				return SameValue(st.Call.Args[1], a[0]) && DependsOn(st.Call.Args[2], func(v ssa.Value) bool { return v == ssa.Value(call) }) && SameValue(st.Call.Args[3], a[1])
			}, func(b *ssa.BasicBlock) bool { return BlockExit(b) == ExitReturn })
			c.Oblige("C04.memo", key, pos, okMemo, "the supplied register value is not stored under the same key before returning: the provider would be asked again")
		case "Memory":
			missOK := false
			var reqKey, reqAddr, reqW ssa.Value
			for _, g := range GuardsOf(cs.Block()) {
				if bd, ok := Match(g.Cond, ExtractN(1, CallTo("("+pkgMemory+".MemMap).Load", Any(), Capture("k", Any()), Capture("a", Any()), Capture("w", Any())))); ok && !g.Outcome {
					reqKey, reqAddr, reqW = bd.M["k"], bd.M["a"], bd.M["w"]
					if SameValue(reqKey, a[0]) {
						missOK = true
					}
				}
			}
			c.Oblige("C04.miss", key, pos, missOK, "the provider is asked for memory without MemMap.Load(same key, ...) having missed")
			// args from Missing(...).Intervals() element
			argOK, why := false, "the asked range is not an element of MemMap.Missing(key, addr, w).Intervals()"
			for _, l := range RangeLoops(fn) {
				missing := CallTo("("+pkgMemory+".MemMap).Missing", Any(), Capture("k", Any()), Capture("a", Any()), Capture("w", Any()))
				bd, ok := Match(l.Over, Method("Intervals", missing))
				if !ok && l.Coll {
					// for i := 0; i < m.Len(); i++ { m.Index(i) } over the same collection
					bd, ok = Match(l.Over, missing)
				}
				if !ok || !LoopBlocks(l.Header)[cs.Block()] {
					continue
				}
				if !(SameValue(bd.M["k"], reqKey) && SameValue(bd.M["a"], reqAddr) && SameValue(bd.M["w"], reqW)) {
					why = "Missing is asked about a different request than the Load that missed"
					continue
				}
				isElem := func(v ssa.Value, _ *Bind) bool { return l.IsElem(v) }
				if matches(a[1], Method("Begin", isElem)) && matches(a[2], Conv(Method("Len", isElem))) {
					argOK = true
				} else {
					why = "the asked address/width are not Begin()/Len() of the missing interval"
				}
			}
			c.Oblige("C04.arg", key, pos, argOK, why)
			okMemo, _ := MustPassBefore(call, func(in ssa.Instruction) bool {
				st, ok := in.(*ssa.Call)
				if !ok || !FuncNameIs(st.Call.StaticCallee(), "("+pkgMemory+".MemMap).Store") {
					return false
				}
				return SameValue(st.Call.Args[1], a[0]) && SameValue(st.Call.Args[2], a[1]) &&
					DependsOn(st.Call.Args[3], func(v ssa.Value) bool { return v == ssa.Value(call) }) && SameValue(st.Call.Args[4], a[2])
			}, func(b *ssa.BasicBlock) bool {
				// the next iteration or the loop exit
				for _, l := range RangeLoops(fn) {
					if b == l.Header {
						return true
					}
				}
				return BlockExit(b) == ExitReturn
			})
			c.Oblige("C04.memo", key, pos, okMemo, "the supplied bytes are not stored at the asked address/width under the same key before going on")
		}
	}
	// hit returns the stored value without asking
	for _, name := range []string{"regValue", "memValue"} {
		fn := anchor(c, "(*"+pkgEmul+".Emulator)."+name)
		if fn == nil {
			continue
		}
		// from the hit edge of a Load a return is reached without passing a
		// provider call, and what is returned derives from a value found by Load
		hitOK := false
		isLoad := func(v ssa.Value) *ssa.Call {
			call, ok := v.(*ssa.Call)
			if ok && call.Call.StaticCallee() != nil && NameOf(call.Call.StaticCallee()) == "Load" {
				return call
			}
			return nil
		}
		asksProvider := func(b *ssa.BasicBlock) bool {
			for _, in := range b.Instrs {
				if call, ok := in.(ssa.CallInstruction); ok && call.Common().IsInvoke() {
					if n := NamedOf(call.Common().Value.Type()); n != nil && n.Obj().Name() == "StateProvider" {
						return true
					}
				}
			}
			return false
		}
		for _, b := range fn.Blocks {
			iff, ok := b.Instrs[len(b.Instrs)-1].(*ssa.If)
			if !ok {
				continue
			}
			ex, isEx := iff.Cond.(*ssa.Extract)
			hitSucc := 0
			if !isEx {
				// `!ok` form
				if un, isUn := iff.Cond.(*ssa.UnOp); isUn && un.Op == token.NOT {
					ex, isEx = un.X.(*ssa.Extract)
					hitSucc = 1
				}
			}
			if !isEx || ex.Index != 1 || isLoad(ex.Tuple) == nil {
				continue
			}
			seen := map[*ssa.BasicBlock]bool{}
			var walk func(x *ssa.BasicBlock)
			walk = func(x *ssa.BasicBlock) {
				if seen[x] || asksProvider(x) {
					return
				}
				seen[x] = true
				if ret, isRet := x.Instrs[len(x.Instrs)-1].(*ssa.Return); isRet {
					if DependsOn(ret.Results[0], func(v ssa.Value) bool {
						e, ok := v.(*ssa.Extract)
						return ok && e.Index == 0 && isLoad(e.Tuple) != nil
					}) {
						hitOK = true
					}
				}
				for _, sx := range x.Succs {
					walk(sx)
				}
			}
			walk(b.Succs[hitSucc])
		}
		c.Oblige("C04.miss", ShortName(fn)+"/hit-returns-stored", c.Prog.FuncPos(fn), hitOK, "a hit does not return the value found in the state")
	}

	// --- set algebra
	checkSetTerm(c, "C04.set", "(*"+pkgMemory+".Overlay).Missing", []string{"base.Missing", "overlay.Missing"},
		func(a map[string]bool) bool { return a["base.Missing"] && a["overlay.Missing"] }, "base.Missing ∩ overlay.Missing")
	if mm := anchor(c, "("+pkgMemory+".MemMap).Missing"); mm != nil {
		// miss branch returns whole range; hit branch delegates
		okWhole, okDeleg := false, false
		for _, b := range mm.Blocks {
			ret, ok := b.Instrs[len(b.Instrs)-1].(*ssa.Return)
			if !ok {
				continue
			}
			if IsWholeRange(ret.Results[0], mm.Params[2], mm.Params[3]) {
				for _, g := range GuardsOf(b) {
					if ex, isEx := g.Cond.(*ssa.Extract); isEx && ex.Index == 1 && !g.Outcome {
						if lk, isLk := ex.Tuple.(*ssa.Lookup); isLk && lk.Index == ssa.Value(mm.Params[1]) {
							okWhole = true
						}
					}
				}
			}
			if matches(ret.Results[0], Invoke("Missing", Any(), ParamN(2), ParamN(3))) {
				okDeleg = true
			}
		}
		c.Oblige("C04.set", ShortName(mm), c.Prog.FuncPos(mm), okWhole && okDeleg, "MemMap.Missing must return the whole [addr, addr+w) for an unknown space and delegate otherwise")
	}
}

// checkSetTerm evaluates the (single) returned interval.Map of a method by
// truth table against a specification.
func checkSetTerm(c *Ctx, rule, fnName string, atoms []string, spec func(map[string]bool) bool, specText string) {
	fn := anchor(c, fnName)
	if fn == nil {
		return
	}
	n := 0
	for _, b := range fn.Blocks {
		ret, ok := b.Instrs[len(b.Instrs)-1].(*ssa.Return)
		if !ok || len(ret.Results) != 1 {
			continue
		}
		n++
		t, err := SetTermOf(ret.Results[0], layerAtom(fn))
		key := ShortName(fn)
		if err != nil {
			c.Fail(rule, key, c.Prog.Pos(ret.Pos()), "not a set-algebra term: "+err.Error())
			continue
		}
		for _, a := range t.Atoms {
			found := false
			for _, b := range atoms {
				if a == b {
					found = true
				}
			}
			if !found {
				c.Fail(rule, key, c.Prog.Pos(ret.Pos()), "unexpected operand "+a+" in "+t.Text)
				return
			}
		}
		if ok, cex := t.Equivalent(atoms, spec); ok {
			c.Pass(rule, key, c.Prog.Pos(ret.Pos()), t.Text)
		} else {
			c.Fail(rule, key, c.Prog.Pos(ret.Pos()), fmt.Sprintf("computes %s, specified %s; they differ for an address with %v", t.Text, specText, cex))
		}
	}
	if n != 1 {
		c.Undecide("%s: %s is expected to have one return", rule, fnName)
	}
}

// layerAtom names the leaves of set terms inside memory methods:
// o.base.X(addr, w) / o.overlay.X(...) with the method's own addr and w,
// "whole" for NewMap(New(addr, addr+w)), "blocks" for b.intervalMap().
func layerAtom(fn *ssa.Function) func(v ssa.Value) string {
	return func(v ssa.Value) string {
		call, ok := v.(*ssa.Call)
		if !ok {
			return ""
		}
		if call.Call.IsInvoke() {
			name, base, isField := FieldNameOfLoad(call.Call.Value)
			if !isField || base != ssa.Value(fn.Params[0]) {
				return ""
			}
			// arguments must be the method's own parameters in order
			for i, a := range call.Call.Args {
				if i+1 >= len(fn.Params) || a != ssa.Value(fn.Params[i+1]) {
					return ""
				}
			}
			return name + "." + call.Call.Method.Name()
		}
		if len(fn.Params) >= 3 && IsWholeRange(v, fn.Params[1], fn.Params[2]) {
			return "whole"
		}
		if f := call.Call.StaticCallee(); f != nil && NameOf(f) == "intervalMap" && len(call.Call.Args) == 1 && call.Call.Args[0] == ssa.Value(fn.Params[0]) {
			return "blocks"
		}
		return ""
	}
}

var _ = types.Typ
