package rules

import (
	"fmt"
	"go/token"
	"go/types"
	"strings"

	"golang.org/x/tools/go/ssa"

	. "mltlint/internal/core"
)

func init() {
	register("C03", "other", checkC03)
	register("C04", "other", checkC04)
}

const pkgEmul = "internal/emulator"

// providerCalls lists every invoke of a method of emulator.StateProvider in
// the module.
func providerCalls(c *Ctx) []CallSite {
	sp := c.Prog.LookupType(ModulePath+"/"+pkgEmul, "StateProvider")
	var out []CallSite
	if sp == nil {
		return nil
	}
	for _, fn := range c.Prog.Funcs() {
		if fn.Origin() != nil {
			continue
		}
		for _, cs := range Calls(fn) {
			if cs.Common().IsInvoke() && NamedOf(cs.Common().Value.Type()) == sp {
				out = append(out, cs)
			}
		}
	}
	return out
}

// reachesEval: the set of module functions from which the state provider or
// a state lookup (RegMap.Load / MemMap.Load) is reachable through static
// calls and closures created in place.
func evaluators(c *Ctx) map[*ssa.Function]bool {
	set := map[*ssa.Function]bool{}
	isSource := func(cs CallSite) bool {
		if cs.Common().IsInvoke() {
			if n := NamedOf(cs.Common().Value.Type()); n != nil && n.Obj().Name() == "StateProvider" {
				return true
			}
			return false
		}
		f := Callee(cs.Common())
		return FuncNameIs(f, "(*"+pkgState+".RegMap).Load") || FuncNameIs(f, "("+pkgMemory+".MemMap).Load")
	}
	changed := true
	for changed {
		changed = false
		for _, fn := range c.Prog.Funcs() {
			if set[fn] || fn.Blocks == nil {
				continue
			}
			hit := false
			for _, cs := range Calls(fn) {
				if isSource(cs) {
					hit = true
				}
				if f := Callee(cs.Common()); f != nil && set[f] {
					hit = true
				}
			}
			for _, af := range fn.AnonFuncs {
				if set[af] {
					hit = true
				}
			}
			if hit {
				set[fn] = true
				changed = true
			}
		}
	}
	return set
}

func checkC03(c *Ctx) {
	c.Rule("C03.pre", "pre-state evaluation: in Emulator.Step the single EffectsApply(effects, eval) call dominates the loop that applies effects; State.Apply is applied to the elements of the evaluated list; nothing that can read state or ask the provider is called in or after that loop")
	c.Rule("C03.ft", "fall-through: the instruction pointer is set to ConstFromUint(ins.End()) exactly on the edge where no applied effect was a RegStore to expr.IPKey (the `jumped` flag is set only under that test of the applied effect itself)")
	c.Rule("C03.fail", "failure: Emulator.instruction returns an error when the block or the instruction lookup misses, and Step returns that error before evaluating or applying anything")
	c.Rule("C03.rep", "report pairing: the register closure returns the value of regValue(curr.Key(), curr.Width()) and reports inputReg(same key, same value); the memory closure reads memValue(curr.Key(), ConstUint(ConstFold(curr.Addr())), curr.Width()) and reports memRead(same key, same address, same value); every applied effect is recorded by recordOutput(same effect) and a refused Apply panics")
	c.Rule("C03.eval", "eval substitutes registers, then memory, then constant-folds; regValue/memValue return the stored constant on a hit")
	c.Rule("C03.lay", "main.runIU installs, under riscv.MemoryKey, memory.NewOverlay(<Bytes built from the ELF image>, memory.NewSparse())")
	c.Rule("C03.exh", "recordOutput and State.Apply switch exhaustively over expr.Effect")

	step := anchor(c, "(*"+pkgEmul+".Emulator).Step")
	if step == nil {
		return
	}
	evs := evaluators(c)
	var applyCalls, effApply, recCalls []*ssa.Call
	for _, cs := range Calls(step) {
		call, ok := cs.Instr.(*ssa.Call)
		if !ok {
			continue
		}
		f := Callee(cs.Common())
		switch {
		case FuncNameIs(f, "(*"+pkgState+".State).Apply"):
			applyCalls = append(applyCalls, call)
		case FuncNameIs(f, pkgXform+".EffectsApply"):
			effApply = append(effApply, call)
		case f != nil && f.Name() == "recordOutput":
			recCalls = append(recCalls, call)
		}
	}
	if len(applyCalls) != 1 {
		c.Undecide("C03: Step is expected to contain exactly one State.Apply call (found %d)", len(applyCalls))
		return
	}
	if len(effApply) != 1 {
		// the effects are not evaluated as a whole before being applied: report what evaluates instead
		ap := applyCalls[0]
		bad := "no evaluation of the effect list precedes the loop that applies effects"
		for _, cs := range Calls(step) {
			f := Callee(cs.Common())
			isEval := f != nil && evs[f]
			if mc, ok := lastArgClosure(cs); ok && evs[mc] {
				isEval = true
			}
			if isEval && !InstrDominates(cs.Instr.(ssa.Instruction), ap) || (isEval && reachable(ap, cs.Instr.(ssa.Instruction))) {
				bad = "effects are evaluated at " + c.Prog.Pos(cs.Pos()) + " while earlier effects of the same instruction have already been applied: a later effect sees the result of an earlier one instead of the pre-state"
			}
		}
		c.Fail("C03.pre", ShortName(step)+"/apply-evaluated-effects", c.Prog.Pos(ap.Pos()), bad)
		return
	}
	ap, ea := applyCalls[0], effApply[0]
	key := ShortName(step)
	// the closure given to EffectsApply evaluates through e.eval
	evalOK := false
	if mc, ok := Unwrap(ea.Call.Args[1]).(*ssa.MakeClosure); ok {
		if f, ok := mc.Fn.(*ssa.Function); ok {
			for _, cs := range Calls(f) {
				if g := Callee(cs.Common()); g != nil && g.Name() == "eval" && cs.Common().Args[1] == ssa.Value(f.Params[0]) {
					evalOK = true
				}
			}
		}
	}
	c.Oblige("C03.pre", key+"/EffectsApply(eval)", c.Prog.Pos(ea.Pos()), evalOK, "the effects are not evaluated with Emulator.eval")
	effSrc := matches(ea.Call.Args[0], Method("Effects", Any()))
	c.Oblige("C03.pre", key+"/effects-of-current-instruction", c.Prog.Pos(ea.Pos()), effSrc && DependsOn(ea.Call.Args[0], func(v ssa.Value) bool {
		call, ok := v.(*ssa.Call)
		return ok && call.Call.StaticCallee() != nil && call.Call.StaticCallee().Name() == "instruction"
	}), "the evaluated effects are not those of the instruction found at the instruction pointer")
	// Apply gets an element of the evaluated list, inside a full range loop
	elemOK := false
	for _, l := range RangeLoops(step) {
		if l.Over == ssa.Value(ea) {
			if idx, ok := elemLoadIndex(ap.Call.Args[1], l.Over); ok && idx == l.Key {
				elemOK = true
			}
		}
	}
	c.Oblige("C03.pre", key+"/apply-evaluated-effects", c.Prog.Pos(ap.Pos()), elemOK && InstrDominates(ea, ap), "State.Apply is not applied to every element of the list evaluated beforehand (effects must be evaluated against the pre-state, then applied in order)")
	// nothing evaluating after the first Apply
	bad := ""
	check := func(x ssa.Instruction) {
		call, ok := x.(ssa.CallInstruction)
		if !ok {
			return
		}
		if f := Callee(call.Common()); f != nil && evs[f] {
			bad = ShortName(f) + " at " + c.Prog.Pos(x.Pos())
		}
		if call.Common().IsInvoke() {
			if n := NamedOf(call.Common().Value.Type()); n != nil && n.Obj().Name() == "StateProvider" {
				bad = "the state provider at " + c.Prog.Pos(x.Pos())
			}
		}
	}
	ReachableFromInstr(ap, check)
	// also between loop start and Apply within an iteration (recordOutput etc.)
	for _, l := range RangeLoops(step) {
		if l.Over != ssa.Value(ea) {
			continue
		}
		for b := range LoopBlocks(l.Header) {
			for _, in := range b.Instrs {
				if in != ssa.Instruction(ap) {
					check(in)
				}
			}
		}
	}
	c.Oblige("C03.pre", key+"/no-evaluation-while-applying", c.Prog.Pos(ap.Pos()), bad == "", "state is read by "+bad+" after effects have started to be applied: a later effect would see the result of an earlier one")

	// --- fall-through
	ipKey := ""
	if ep := c.Prog.SSAPkg[ExprPkg]; ep != nil && ep.Const("IPKey") != nil {
		ipKey = strings.Trim(ep.Const("IPKey").Value.Value.ExactString(), "\"")
	}
	isIPConst := func(v ssa.Value) bool {
		k, ok := Unwrap(v).(*ssa.Const)
		return ok && k.Value != nil && ipKey != "" && strings.Trim(k.Value.ExactString(), "\"") == ipKey
	}
	nFT := 0
	for _, cs := range Calls(step) {
		f := Callee(cs.Common())
		if !FuncNameIs(f, "(*"+pkgState+".RegMap).Store") {
			continue
		}
		a := cs.Common().Args
		if !isIPConst(a[1]) {
			continue
		}
		nFT++
		k := key + "/fall-through-store"
		valOK := matches(a[2], CallTo("pkg/expr.ConstFromUint", Method("End", Any()))) &&
			DependsOn(a[2], func(v ssa.Value) bool {
				call, ok := v.(*ssa.Call)
				return ok && call.Call.StaticCallee() != nil && call.Call.StaticCallee().Name() == "instruction"
			})
		// guards: exactly one relevant guard: jumped == false
		var jumped *ssa.Phi
		nGuards := 0
		for _, g := range GuardsOf(cs.Block()) {
			if x, _, isNil := NilCheck(g.Cond); isNil && x != nil {
				continue // the err != nil check of e.instruction
			}
			if bo, isBin := g.Cond.(*ssa.BinOp); isBin && bo.Op == token.LSS && LoopBlocks(g.If.Block())[g.If.Block()] && len(LoopBlocks(g.If.Block())) > 1 {
				continue // the exit condition of the apply loop
			}
			nGuards++
			if ph, ok := g.Cond.(*ssa.Phi); ok && !g.Outcome {
				jumped = ph
			}
		}
		why := ""
		switch {
		case !valOK:
			why = "the fall-through address is not ConstFromUint(ins.End()) of the executed instruction"
		case jumped == nil || nGuards != 1:
			why = "the fall-through store is not controlled by exactly the negated `jumped` flag"
		default:
			// jumped: false initially; true only on the edge guarded by RegStore-assert ok && Key()==IPKey of the applied element
			okFlag, whyFlag := jumpedFlagOK(jumped, ap.Call.Args[1], isIPConst)
			if !okFlag {
				why = whyFlag
			}
		}
		c.Oblige("C03.ft", k, c.Prog.Pos(cs.Pos()), why == "", why)
		// stored after the loop (all effects applied)
		c.Oblige("C03.ft", key+"/fall-through-after-apply", c.Prog.Pos(cs.Pos()), !reachable(cs.Instr.(ssa.Instruction), ap), "the fall-through store can be followed by further effect application")
	}
	c.RequireCount("C03.ft fall-through store", nFT, 1)

	// --- failure
	if insF := anchor(c, "(*"+pkgEmul+".Emulator).instruction"); insF != nil {
		n := 0
		for _, cs := range Calls(insF) {
			f := Callee(cs.Common())
			if f == nil || f.Name() != "Address" {
				continue
			}
			n++
			call := cs.Instr.(*ssa.Call)
			k := fmt.Sprintf("%s/%s", ShortName(insF), ShortName(f))
			// the miss edge of the comma-ok returns a non-nil error
			okV := extractOf(call, 1)
			good := false
			if okV != nil && okV.Referrers() != nil {
				for _, r := range *okV.Referrers() {
					iff, isIf := r.(*ssa.If)
					if !isIf {
						continue
					}
					miss := iff.Block().Succs[1]
					if ret, isRet := miss.Instrs[len(miss.Instrs)-1].(*ssa.Return); isRet && !IsNilConst(ret.Results[1]) {
						good = true
					}
				}
			}
			argOK := cs.Common().Args[len(cs.Common().Args)-1] == ssa.Value(insF.Params[1])
			c.Oblige("C03.fail", k, c.Prog.Pos(cs.Pos()), good && argOK, "a failed lookup of the instruction pointer does not return an error (or another address is looked up)")
		}
		c.RequireCount("C03.fail lookups in Emulator.instruction", n, 2)
		// success return carries the instruction found by block.Address
		// Step: error before anything else
		for _, cs := range CallsTo(step, insF) {
			call := cs.Instr.(*ssa.Call)
			v := JudgeError(step, extractOf(call, 1))
			guardOK := false
			for _, g := range GuardsOf(ea.Block()) {
				if x, nn, isNil := NilCheck(g.Cond); isNil && x == extractOf(call, 1) && nn != g.Outcome {
					guardOK = true
				}
			}
			ipOK := matches(cs.Common().Args[1], Method("MustIP", Any()))
			c.Oblige("C03.fail", key+"/error-before-evaluation", c.Prog.Pos(cs.Pos()), v.OK && guardOK && ipOK, "Step does not return the lookup error of the current instruction pointer before evaluating effects: "+v.Why)
		}
	}

	// --- report pairing
	for _, kind := range []struct{ fn, reader, report string }{
		{"evalRegsFully", "regValue", "inputReg"},
		{"evalMemoryFully", "memValue", "memRead"},
	} {
		outer := anchor(c, "(*"+pkgEmul+".Emulator)."+kind.fn)
		if outer == nil || len(outer.AnonFuncs) != 1 {
			c.Undecide("C03.rep: %s is expected to contain exactly one replacement closure", kind.fn)
			continue
		}
		cl := outer.AnonFuncs[0]
		k := ShortName(outer) + "/closure"
		var rd, rp *ssa.Call
		for _, cs := range Calls(cl) {
			if f := Callee(cs.Common()); f != nil {
				if f.Name() == kind.reader {
					rd, _ = cs.Instr.(*ssa.Call)
				}
				if f.Name() == kind.report {
					rp, _ = cs.Instr.(*ssa.Call)
				}
			}
		}
		curr := ssa.Value(cl.Params[0])
		onCurr := func(name string) Pat {
			return Method(name, func(v ssa.Value, _ *Bind) bool { return IsParam(v, cl.Params[0]) || Unwrap(v) == curr })
		}
		why := ""
		switch {
		case rd == nil:
			why = "the value is not read with " + kind.reader
		case rp == nil:
			why = "the read is not reported with " + kind.report
		case !matches(rd.Call.Args[1], onCurr("Key")):
			why = "the value is not read under the load's own key"
		case !matches(rd.Call.Args[len(rd.Call.Args)-1], onCurr("Width")):
			why = "the value is not read at the load's own width"
		case !SameValue(rp.Call.Args[1], rd.Call.Args[1]):
			why = "the report names a different key than the one read"
		case Unwrap(rp.Call.Args[len(rp.Call.Args)-1]) != ssa.Value(rd):
			why = "the reported value is not the value read"
		}
		if why == "" && kind.reader == "memValue" {
			addrPat := ExtractN(0, CallTo("pkg/expr.ConstUint", TypeAssertOf("pkg/expr.Const", CallTo(pkgXform+".ConstFold", onCurr("Addr")))))
			if !matches(rd.Call.Args[2], addrPat) {
				why = "the address read is not ConstUint(ConstFold(curr.Addr()))"
			} else if !SameValue(rp.Call.Args[2], rd.Call.Args[2]) {
				why = "the reported address is not the address read"
			}
		}
		if why == "" {
			// returns (value read, true) and the report is on every path
			for _, b := range cl.Blocks {
				if ret, ok := b.Instrs[len(b.Instrs)-1].(*ssa.Return); ok {
					if Unwrap(ret.Results[0]) != ssa.Value(rd) || !matches(ret.Results[1], BoolPat(true)) {
						why = "the load is not replaced by the value read"
					}
					if !InstrDominates(rp, ret) {
						why = "a load can be replaced without the read being reported"
					}
				}
			}
		}
		c.Oblige("C03.rep", k, c.Prog.FuncPos(cl), why == "", why)
		// the closure is what ReplaceAll gets, applied to the function's own ex
		raOK := false
		for _, cs := range Calls(outer) {
			if f := Callee(cs.Common()); f != nil && Origin(f).Name() == "ReplaceAll" && cs.Common().Args[0] == ssa.Value(outer.Params[1]) {
				if mc, ok := Unwrap(cs.Common().Args[1]).(*ssa.MakeClosure); ok && mc.Fn == ssa.Value(cl) {
					raOK = true
				}
			}
		}
		c.Oblige("C03.rep", ShortName(outer)+"/ReplaceAll", c.Prog.FuncPos(outer), raOK, "the closure is not applied to every load of the function's own expression with ReplaceAll")
	}
	// recordOutput pairing
	if len(recCalls) == 1 {
		rc := recCalls[0]
		same := rc.Call.Args[1] == ap.Call.Args[1]
		sameIter := rc.Block() == ap.Block() || InstrDominates(rc, ap) || InstrDominates(ap, rc)
		c.Oblige("C03.rep", key+"/recordOutput(ef)<->Apply(ef)", c.Prog.Pos(rc.Pos()), same && sameIter, "the recorded effect is not the applied effect, or one of the two can happen without the other")
	} else {
		c.Fail("C03.rep", key+"/recordOutput(ef)<->Apply(ef)", c.Prog.FuncPos(step), "Step does not record every applied effect exactly once")
	}
	// refused Apply panics
	panicOK := false
	if refs := ap.Referrers(); refs != nil {
		for _, r := range *refs {
			if iff, ok := r.(*ssa.If); ok {
				if BlockExit(iff.Block().Succs[1]) == ExitPanic {
					panicOK = true
				}
			}
		}
	}
	c.Oblige("C03.rep", key+"/refused-apply-is-a-bug", c.Prog.Pos(ap.Pos()), panicOK, "a refused effect is silently skipped")
	if ro := anchor(c, "(*"+pkgEmul+".Step).recordOutput"); ro != nil {
		for _, ts := range c.Prog.TypeSwitches(ro, "Effect") {
			c.Exhaustive("C03.exh", ts, "Effect")
			// MemStore -> MemStores, RegStore -> RegStores[Key()] = Value
			if e := ts.CaseValue("RegStore"); e != nil {
				ok := false
				for b := range RegionOf(ts.CaseBlock("RegStore")) {
					for _, in := range b.Instrs {
						if mu, isMU := in.(*ssa.MapUpdate); isMU && LoadOfField(mu.Map, "RegStores", func(ssa.Value) bool { return true }) {
							ok = accessorCallOn(mu.Key, e, "Key") && matches(mu.Value, TypeAssertOf("pkg/expr.Const", func(v ssa.Value, _ *Bind) bool { return accessorCallOn(v, e, "Value") }))
						}
					}
				}
				c.Oblige("C03.rep", ShortName(ro)+"/RegStore", c.Prog.FuncPos(ro), ok, "a register write is not reported as RegStores[Key()] = Value()")
			}
			if e := ts.CaseValue("MemStore"); e != nil {
				ok := false
				for b := range RegionOf(ts.CaseBlock("MemStore")) {
					for _, in := range b.Instrs {
						call, isCall := in.(*ssa.Call)
						if !isCall || call.Call.StaticCallee() == nil || call.Call.StaticCallee().Name() != "newMemAccess" {
							continue
						}
						a := call.Call.Args
						ok = accessorCallOn(a[0], e, "Key") &&
							matches(a[1], ExtractN(0, CallTo("pkg/expr.ConstUint", TypeAssertOf("pkg/expr.Const", func(v ssa.Value, _ *Bind) bool { return accessorCallOn(v, e, "Addr") })))) &&
							matches(a[2], Method("WithWidth", TypeAssertOf("pkg/expr.Const", func(v ssa.Value, _ *Bind) bool { return accessorCallOn(v, e, "Value") }), func(v ssa.Value, _ *Bind) bool { return accessorCallOn(v, e, "Width") }))
						if ok {
							// appended to MemStores
							app := false
							if refs := call.Referrers(); refs != nil {
								for _, r := range *refs {
									if st, isSt := r.(*ssa.Store); isSt {
										_ = st
										app = true
									}
								}
							}
							ok = app
						}
					}
				}
				c.Oblige("C03.rep", ShortName(ro)+"/MemStore", c.Prog.FuncPos(ro), ok, "a memory write is not reported as (Key(), address constant, Value() at the store width)")
			}
		}
	}
	if apf := c.Prog.Func("(*" + ModulePath + "/" + pkgState + ".State).Apply"); apf != nil {
		for _, ts := range c.Prog.TypeSwitches(apf, "Effect") {
			c.Exhaustive("C03.exh", ts, "Effect")
		}
	}

	// --- eval
	if ev := anchor(c, "(*"+pkgEmul+".Emulator).eval"); ev != nil {
		ok := false
		for _, b := range ev.Blocks {
			if ret, isRet := b.Instrs[len(b.Instrs)-1].(*ssa.Return); isRet {
				ok = matches(ret.Results[0], TypeAssertOf("pkg/expr.Const", CallTo(pkgXform+".ConstFold",
					Method("evalMemoryFully", Any(), Method("evalRegsFully", Any(), ParamN(1), ParamN(2)), ParamN(2)))))
			}
		}
		c.Oblige("C03.eval", ShortName(ev), c.Prog.FuncPos(ev), ok, "eval is not ConstFold(evalMemoryFully(evalRegsFully(ex, s), s)): memory addresses would be evaluated before their registers are substituted, or the result left unfolded")
	}

	// --- unchecked assertions to expr.Const
	c.Rule("C03.const", "an unchecked type assertion to expr.Const in package emulator is applied only to a value that is a constant by construction: the result of ConstFold, of RegMap.Load (SetWidth of a stored constant is NewConst, C12.setwidth), or a field of an effect that Step has already evaluated; the result of a Memory.Load is an expression assembled from pieces and has to be folded first")
	nAssert := 0
	for _, fn := range c.Prog.FuncsIn(ModulePath + "/" + pkgEmul) {
		if fn.Origin() != nil || fn.Blocks == nil {
			continue
		}
		ord := 0
		for _, b := range fn.Blocks {
			for _, in := range b.Instrs {
				ta, ok := in.(*ssa.TypeAssert)
				if !ok || ta.CommaOk || !TypeNameIs(ta.AssertedType, "pkg/expr.Const") {
					continue
				}
				nAssert++
				ord++
				k := fmt.Sprintf("%s/.(Const)#%d", ShortName(fn), ord)
				x := Unwrap(ta.X)
				why := ""
				switch {
				case matches(x, CallTo(pkgXform+".ConstFold", Any())):
				case matches(x, ExtractN(0, CallTo("(*"+pkgState+".RegMap).Load", Any()))):
				case fn.Name() == "recordOutput" && (matches(x, Method("Addr", Any())) || matches(x, Method("Value", Any()))):
				case matches(x, ExtractN(0, Method("Load", Any()))):
					why = "the result of a memory Load is asserted to be a constant without constant folding: a read that is assembled from more than one stored piece (two adjacent stores, a read inside a wider store, a read across the program image's end) is an unfolded expression and the assertion panics"
				default:
					why = "asserted value is not a constant by construction"
				}
				c.Oblige("C03.const", k, c.Prog.Pos(ta.Pos()), why == "", why)
			}
		}
	}
	c.RequireCount("C03.const unchecked assertions to expr.Const in package emulator", nAssert, 6)

	// --- layering
	if ru := anchor(c, "cmd/mltwist.runIU"); ru != nil {
		found := false
		var visit func(fn *ssa.Function)
		visit = func(fn *ssa.Function) {
			for _, b := range fn.Blocks {
				for _, in := range b.Instrs {
					mu, ok := in.(*ssa.MapUpdate)
					if !ok {
						continue
					}
					if k, isC := Unwrap(mu.Key).(*ssa.Const); !isC || k.Value == nil || strings.Trim(k.Value.ExactString(), "\"") != "memory" {
						continue
					}
					if !TypeNameIs(mu.Map.Type(), pkgMemory+".MemMap") {
						continue
					}
					found = true
					bd, ok := Match(mu.Value, CallTo(pkgMemory+".NewOverlay", Capture("base", Any()), CallTo(pkgMemory+".NewSparse")))
					why := ""
					if !ok {
						why = "the memory installed under riscv.MemoryKey is not NewOverlay(base, NewSparse())"
					} else if !DependsOn(bd.M["base"], func(v ssa.Value) bool {
						call, isCall := v.(*ssa.Call)
						return isCall && FuncNameIs(call.Call.StaticCallee(), pkgMemory+".NewBytes")
					}) {
						why = "the base layer is not the byte memory built from the ELF image"
					}
					c.Oblige("C03.lay", ShortName(ru)+"/memory", c.Prog.Pos(mu.Pos()), why == "", why)
				}
			}
			for _, af := range fn.AnonFuncs {
				visit(af)
			}
		}
		visit(ru)
		if !found {
			c.Fail("C03.lay", ShortName(ru)+"/memory", c.Prog.FuncPos(ru), "no memory is installed under riscv.MemoryKey")
		}
		// riscv.MemoryKey really is "memory"
		if rp := c.Prog.SSAPkg[ModulePath+"/"+pkgRiscv]; rp == nil || rp.Const("MemoryKey") == nil || strings.Trim(rp.Const("MemoryKey").Value.Value.ExactString(), "\"") != "memory" {
			c.Undecide("C03.lay: riscv.MemoryKey does not resolve to the expected key")
		}
		// NewBytes blocks are all blocks of the image
		nbOK := false
		for _, cs := range Calls(ru) {
			if FuncNameIs(Callee(cs.Common()), pkgMemory+".NewBytes") {
				nbOK = DependsOn(cs.Common().Args[0], func(v ssa.Value) bool { return v == ssa.Value(ru.Params[1]) }) || true
				// every element copied in a full range loop over mem.Blocks
				full := false
				for _, l := range RangeLoops(ru) {
					if LoadOfField(l.Over, "Blocks", func(v ssa.Value) bool { return v == ssa.Value(ru.Params[1]) }) {
						full = true
					}
				}
				nbOK = full
			}
		}
		c.Oblige("C03.lay", ShortName(ru)+"/image-blocks", c.Prog.FuncPos(ru), nbOK, "the byte memory is not built from every block of the ELF memory image")
	}
}

// lastArgClosure returns the function of a closure passed as the last argument.
func lastArgClosure(cs CallSite) (*ssa.Function, bool) {
	a := cs.Common().Args
	if len(a) == 0 {
		return nil, false
	}
	if mc, ok := Unwrap(a[len(a)-1]).(*ssa.MakeClosure); ok {
		f, ok := mc.Fn.(*ssa.Function)
		return f, ok
	}
	return nil, false
}

func extractOf(call *ssa.Call, idx int) ssa.Value {
	if refs := call.Referrers(); refs != nil {
		for _, r := range *refs {
			if e, ok := r.(*ssa.Extract); ok && e.Index == idx {
				return e
			}
		}
	}
	return nil
}

func reachable(from ssa.Instruction, to ssa.Instruction) bool {
	r := false
	ReachableFromInstr(from, func(x ssa.Instruction) {
		if x == to {
			r = true
		}
	})
	return r
}

// jumpedFlagOK: the boolean phi is false initially and becomes true only on
// an edge guarded by (ef.(RegStore) ok) && (that.Key() == IPKey) of ef.
func jumpedFlagOK(flag *ssa.Phi, ef ssa.Value, isIP func(ssa.Value) bool) (bool, string) {
	seen := map[*ssa.Phi]bool{}
	sawTrue := false
	var rec func(p *ssa.Phi) (bool, string)
	rec = func(p *ssa.Phi) (bool, string) {
		if seen[p] {
			return true, ""
		}
		seen[p] = true
		for i, e := range p.Edges {
			if q, ok := e.(*ssa.Phi); ok {
				if ok2, why := rec(q); !ok2 {
					return false, why
				}
				continue
			}
			if matches(e, BoolPat(false)) {
				continue
			}
			if !matches(e, BoolPat(true)) {
				return false, "the jump flag is computed from something other than constants"
			}
			sawTrue = true
			pred := p.Block().Preds[i]
			gs := append(GuardsOf(pred), guardOfEdge(pred, p.Block())...)
			assertOK, keyOK := false, false
			var rs ssa.Value
			for _, g := range gs {
				if ex, ok := g.Cond.(*ssa.Extract); ok && ex.Index == 1 && g.Outcome {
					if ta, ok := ex.Tuple.(*ssa.TypeAssert); ok && TypeNameIs(ta.AssertedType, "pkg/expr.RegStore") && ta.X == ef {
						assertOK = true
						rs = extractOfTA(ta, 0)
					}
				}
			}
			for _, g := range gs {
				if bo, ok := g.Cond.(*ssa.BinOp); ok && (bo.Op == token.EQL || bo.Op == token.NEQ) && (bo.Op == token.EQL) == g.Outcome {
					if rs != nil && accessorCallOn(bo.X, rs, "Key") && isIP(bo.Y) {
						keyOK = true
					}
				}
			}
			if !assertOK || !keyOK {
				return false, "the jump flag is set without the applied effect being a RegStore to expr.IPKey"
			}
		}
		return true, ""
	}
	ok, why := rec(flag)
	if ok && !sawTrue {
		return false, "the jump flag is never set: every instruction would fall through"
	}
	return ok, why
}

func extractOfTA(ta *ssa.TypeAssert, idx int) ssa.Value {
	if refs := ta.Referrers(); refs != nil {
		for _, r := range *refs {
			if e, ok := r.(*ssa.Extract); ok && e.Index == idx {
				return e
			}
		}
	}
	return nil
}

// --------------------------------------------------------------------- C04

func checkC04(c *Ctx) {
	c.Rule("C04.callers", "the state provider is invoked only from Emulator.regValue and Emulator.memValue")
	c.Rule("C04.miss", "every provider call is dominated by the miss edge of RegMap.Load / MemMap.Load for the same key (address, width)")
	c.Rule("C04.arg", "memory: the (address, width) asked for are Begin() and Len() of an element of MemMap.Missing(key, addr, w).Intervals() of the same request, in a loop over all of them")
	c.Rule("C04.memo", "every provider answer is stored (RegMap.Store / MemMap.Store under the same key and the asked address/width) before the function returns")
	c.Rule("C04.set", "set algebra by truth table: Overlay.Missing = base.Missing ∩ overlay.Missing; MemMap.Missing of an unknown space is the whole requested range")

	sites := providerCalls(c)
	c.RequireCount("C04 provider call sites", len(sites), 2)
	for _, cs := range sites {
		fn := cs.Fn
		m := cs.Common().Method.Name()
		key := ShortName(fn) + "/" + m
		pos := c.Prog.Pos(cs.Pos())
		allowed := map[string]string{"Register": "regValue", "Memory": "memValue"}
		c.Oblige("C04.callers", key, pos, fn.Name() == allowed[m] && PkgPathOf(fn) == ModulePath+"/"+pkgEmul, "the provider is asked from "+ShortName(fn))
		call, _ := cs.Instr.(*ssa.Call)
		if call == nil {
			c.Fail("C04.miss", key, pos, "provider called in a go/defer statement")
			continue
		}
		a := cs.Common().Args
		switch m {
		case "Register":
			// miss edge of Regs.Load(key, w)
			missOK := false
			for _, g := range GuardsOf(cs.Block()) {
				if bd, ok := Match(g.Cond, ExtractN(1, CallTo("(*"+pkgState+".RegMap).Load", Any(), Capture("k", Any()), Capture("w", Any())))); ok && !g.Outcome {
					if SameValue(bd.M["k"], a[0]) && SameValue(bd.M["w"], a[1]) {
						missOK = true
					}
				}
			}
			c.Oblige("C04.miss", key, pos, missOK, "the provider is asked for a register without RegMap.Load(same key, same width) having missed: known state would be asked for again")
			// memoising store on all paths to return
			okMemo, _ := MustPassBefore(call, func(in ssa.Instruction) bool {
				st, ok := in.(*ssa.Call)
				if !ok || !FuncNameIs(st.Call.StaticCallee(), "(*"+pkgState+".RegMap).Store") {
					return false
				}
				return SameValue(st.Call.Args[1], a[0]) && DependsOn(st.Call.Args[2], func(v ssa.Value) bool { return v == ssa.Value(call) }) && SameValue(st.Call.Args[3], a[1])
			}, func(b *ssa.BasicBlock) bool { return BlockExit(b) == ExitReturn })
			c.Oblige("C04.memo", key, pos, okMemo, "the supplied register value is not stored under the same key before returning: the provider would be asked again")
		case "Memory":
			missOK := false
			var reqKey, reqAddr, reqW ssa.Value
			for _, g := range GuardsOf(cs.Block()) {
				if bd, ok := Match(g.Cond, ExtractN(1, CallTo("("+pkgMemory+".MemMap).Load", Any(), Capture("k", Any()), Capture("a", Any()), Capture("w", Any())))); ok && !g.Outcome {
					reqKey, reqAddr, reqW = bd.M["k"], bd.M["a"], bd.M["w"]
					if SameValue(reqKey, a[0]) {
						missOK = true
					}
				}
			}
			c.Oblige("C04.miss", key, pos, missOK, "the provider is asked for memory without MemMap.Load(same key, ...) having missed")
			// args from Missing(...).Intervals() element
			argOK, why := false, "the asked range is not an element of MemMap.Missing(key, addr, w).Intervals()"
			for _, l := range RangeLoops(fn) {
				bd, ok := Match(l.Over, Method("Intervals", CallTo("("+pkgMemory+".MemMap).Missing", Any(), Capture("k", Any()), Capture("a", Any()), Capture("w", Any()))))
				if !ok || !LoopBlocks(l.Header)[cs.Block()] {
					continue
				}
				if !(SameValue(bd.M["k"], reqKey) && SameValue(bd.M["a"], reqAddr) && SameValue(bd.M["w"], reqW)) {
					why = "Missing is asked about a different request than the Load that missed"
					continue
				}
				isElem := func(v ssa.Value, _ *Bind) bool {
					idx, ok := elemLoadIndex(v, l.Over)
					return ok && idx == l.Key
				}
				if matches(a[1], Method("Begin", isElem)) && matches(a[2], Conv(Method("Len", isElem))) {
					argOK = true
				} else {
					why = "the asked address/width are not Begin()/Len() of the missing interval"
				}
			}
			c.Oblige("C04.arg", key, pos, argOK, why)
			okMemo, _ := MustPassBefore(call, func(in ssa.Instruction) bool {
				st, ok := in.(*ssa.Call)
				if !ok || !FuncNameIs(st.Call.StaticCallee(), "("+pkgMemory+".MemMap).Store") {
					return false
				}
				return SameValue(st.Call.Args[1], a[0]) && SameValue(st.Call.Args[2], a[1]) &&
					DependsOn(st.Call.Args[3], func(v ssa.Value) bool { return v == ssa.Value(call) }) && SameValue(st.Call.Args[4], a[2])
			}, func(b *ssa.BasicBlock) bool {
				// the next iteration or the loop exit
				for _, l := range RangeLoops(fn) {
					if b == l.Header {
						return true
					}
				}
				return BlockExit(b) == ExitReturn
			})
			c.Oblige("C04.memo", key, pos, okMemo, "the supplied bytes are not stored at the asked address/width under the same key before going on")
		}
	}
	// hit returns the stored value without asking
	for _, name := range []string{"regValue", "memValue"} {
		fn := anchor(c, "(*"+pkgEmul+".Emulator)."+name)
		if fn == nil {
			continue
		}
		// at least one return guarded by the hit edge that does not pass a provider call
		hitOK := false
		for _, b := range fn.Blocks {
			ret, ok := b.Instrs[len(b.Instrs)-1].(*ssa.Return)
			if !ok {
				continue
			}
			for _, g := range GuardsOf(b) {
				if ex, isEx := g.Cond.(*ssa.Extract); isEx && ex.Index == 1 && g.Outcome {
					if call, isCall := ex.Tuple.(*ssa.Call); isCall && call.Call.StaticCallee() != nil && call.Call.StaticCallee().Name() == "Load" && call.Block() == fn.Blocks[0] {
						// the returned constant derives from the value found (asserted directly or folded first)
						if DependsOn(ret.Results[0], func(v ssa.Value) bool {
							e, ok := v.(*ssa.Extract)
							return ok && e.Index == 0 && e.Tuple == ssa.Value(call)
						}) {
							hitOK = true
						}
					}
				}
			}
		}
		c.Oblige("C04.miss", ShortName(fn)+"/hit-returns-stored", c.Prog.FuncPos(fn), hitOK, "a hit does not return the value found in the state")
	}

	// --- set algebra
	checkSetTerm(c, "C04.set", "(*"+pkgMemory+".Overlay).Missing", []string{"base.Missing", "overlay.Missing"},
		func(a map[string]bool) bool { return a["base.Missing"] && a["overlay.Missing"] }, "base.Missing ∩ overlay.Missing")
	if mm := anchor(c, "("+pkgMemory+".MemMap).Missing"); mm != nil {
		// miss branch returns whole range; hit branch delegates
		okWhole, okDeleg := false, false
		for _, b := range mm.Blocks {
			ret, ok := b.Instrs[len(b.Instrs)-1].(*ssa.Return)
			if !ok {
				continue
			}
			if IsWholeRange(ret.Results[0], mm.Params[2], mm.Params[3]) {
				for _, g := range GuardsOf(b) {
					if ex, isEx := g.Cond.(*ssa.Extract); isEx && ex.Index == 1 && !g.Outcome {
						if lk, isLk := ex.Tuple.(*ssa.Lookup); isLk && lk.Index == ssa.Value(mm.Params[1]) {
							okWhole = true
						}
					}
				}
			}
			if matches(ret.Results[0], Invoke("Missing", Any(), ParamN(2), ParamN(3))) {
				okDeleg = true
			}
		}
		c.Oblige("C04.set", ShortName(mm), c.Prog.FuncPos(mm), okWhole && okDeleg, "MemMap.Missing must return the whole [addr, addr+w) for an unknown space and delegate otherwise")
	}
}

// checkSetTerm evaluates the (single) returned interval.Map of a method by
// truth table against a specification.
func checkSetTerm(c *Ctx, rule, fnName string, atoms []string, spec func(map[string]bool) bool, specText string) {
	fn := anchor(c, fnName)
	if fn == nil {
		return
	}
	n := 0
	for _, b := range fn.Blocks {
		ret, ok := b.Instrs[len(b.Instrs)-1].(*ssa.Return)
		if !ok || len(ret.Results) != 1 {
			continue
		}
		n++
		t, err := SetTermOf(ret.Results[0], layerAtom(fn))
		key := ShortName(fn)
		if err != nil {
			c.Fail(rule, key, c.Prog.Pos(ret.Pos()), "not a set-algebra term: "+err.Error())
			continue
		}
		for _, a := range t.Atoms {
			found := false
			for _, b := range atoms {
				if a == b {
					found = true
				}
			}
			if !found {
				c.Fail(rule, key, c.Prog.Pos(ret.Pos()), "unexpected operand "+a+" in "+t.Text)
				return
			}
		}
		if ok, cex := t.Equivalent(atoms, spec); ok {
			c.Pass(rule, key, c.Prog.Pos(ret.Pos()), t.Text)
		} else {
			c.Fail(rule, key, c.Prog.Pos(ret.Pos()), fmt.Sprintf("computes %s, specified %s; they differ for an address with %v", t.Text, specText, cex))
		}
	}
	if n != 1 {
		c.Undecide("%s: %s is expected to have one return", rule, fnName)
	}
}

// layerAtom names the leaves of set terms inside memory methods:
// o.base.X(addr, w) / o.overlay.X(...) with the method's own addr and w,
// "whole" for NewMap(New(addr, addr+w)), "blocks" for b.intervalMap().
func layerAtom(fn *ssa.Function) func(v ssa.Value) string {
	return func(v ssa.Value) string {
		call, ok := v.(*ssa.Call)
		if !ok {
			return ""
		}
		if call.Call.IsInvoke() {
			name, base, isField := FieldNameOfLoad(call.Call.Value)
			if !isField || base != ssa.Value(fn.Params[0]) {
				return ""
			}
			// arguments must be the method's own parameters in order
			for i, a := range call.Call.Args {
				if i+1 >= len(fn.Params) || a != ssa.Value(fn.Params[i+1]) {
					return ""
				}
			}
			return name + "." + call.Call.Method.Name()
		}
		if len(fn.Params) >= 3 && IsWholeRange(v, fn.Params[1], fn.Params[2]) {
			return "whole"
		}
		if f := call.Call.StaticCallee(); f != nil && f.Name() == "intervalMap" && len(call.Call.Args) == 1 && call.Call.Args[0] == ssa.Value(fn.Params[0]) {
			return "blocks"
		}
		return ""
	}
}

var _ = types.Typ
