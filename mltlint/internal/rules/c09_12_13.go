package rules

import (
	"fmt"
	"go/token"
	"go/types"
	"sort"
	"strings"

	"golang.org/x/tools/go/ssa"

	. "mltlint/internal/core"
)

func init() {
	register("C09", "other", checkC09)
	register("C12", "other", checkC12)
	register("C13", "other", checkC13)
}

const pkgTools = "pkg/expr/exprtools"

// constAssertOf: v is (the value of) a comma-ok assertion to expr.Const of a
// value whose origin is the transformed child `acc`; returns the ok value.
func constAssertOf(oc *OriginCtx, v ssa.Value, acc string) (okVal ssa.Value, good bool) {
	e, isExtract := Unwrap(v).(*ssa.Extract)
	if !isExtract || e.Index != 0 {
		return nil, false
	}
	ta, isTA := e.Tuple.(*ssa.TypeAssert)
	if !isTA || !TypeNameIs(ta.AssertedType, "pkg/expr.Const") {
		return nil, false
	}
	o := oc.Origins(ta.X)
	if info, has := o[acc]; !has || len(o) != 1 || !info.Transformed {
		return nil, false
	}
	if refs := ta.Referrers(); refs != nil {
		for _, r := range *refs {
			if ex, ok := r.(*ssa.Extract); ok && ex.Index == 1 {
				return ex, true
			}
		}
	}
	return nil, false
}

// guardsExactly: the guards of block b, restricted to those whose If lies in
// the region, are exactly the given values with outcome true.
func guardsExactly(b *ssa.BasicBlock, region map[*ssa.BasicBlock]bool, want ...ssa.Value) (bool, string) {
	got := map[ssa.Value]bool{}
	for _, g := range GuardsOf(b) {
		if !region[g.If.Block()] {
			continue
		}
		if !g.Outcome {
			return false, "an extra negative condition guards the evaluation"
		}
		got[g.Cond] = true
	}
	for _, w := range want {
		if !got[w] {
			return false, "not guarded by both operands being constants"
		}
		delete(got, w)
	}
	if len(got) > 0 {
		return false, "evaluation of an all-constant operation is subject to an additional condition, so such an operation can remain unfolded"
	}
	return true, ""
}

// checkAllConst: C09.allconst for the Binary and Less cases.
func checkAllConst(c *Ctx, cf *ssa.Function, ts *TypeSwitch, model map[string]*NodeModel, group map[*ssa.Function]bool) {
	for _, name := range []string{"Binary", "Less"} {
		body := ts.CaseBody(name)
		if body == nil {
			c.Fail("C09.allconst", ShortName(cf)+"/case "+name, c.Prog.FuncPos(cf), "constFold has no case for "+name)
			continue
		}
		e := body.E
		grp := map[*ssa.Function]bool{}
		for k, v := range group {
			grp[k] = v
		}
		grp[Origin(body.Fn)] = true
		oc := &OriginCtx{E: e, Model: model[name], Group: grp}
		if !body.Extracted {
			oc.X = ts.X
		}
		evalName := map[string]string{"Binary": "binaryEval", "Less": "lessEval"}[name]
		enter := func(g *ssa.Function) bool {
			if g == nil || g.Blocks == nil || PkgPathOf(g) != PkgPathOf(cf) || grp[Origin(g)] {
				return false
			}
			switch NameOf(g) {
			case "binaryEval", "lessEval", "SetWidth", "setWidth":
				return false
			}
			return true
		}
		for mask := 0; mask < 16; mask++ {
			k1, k2, chg, lt := mask&1 != 0, mask&2 != 0, mask&4 != 0, mask&8 != 0
			if name == "Binary" && lt {
				continue
			}
			var evalCalls, ctorCalls []*ssa.Call
			var evalArgs [][]ssa.Value
			var vl *Valuation
			operand := func(ta *ssa.TypeAssert) string {
				o := oc.Origins(vl.Root(ta.X))
				if len(o) != 1 {
					return ""
				}
				for k, info := range o {
					if info.Transformed {
						return k
					}
				}
				return ""
			}
			vl = &Valuation{
				Enter: enter,
				Bool: func(v ssa.Value) (bool, bool) {
					switch x := v.(type) {
					case *ssa.Extract:
						if ta, ok := x.Tuple.(*ssa.TypeAssert); ok && x.Index == 1 && TypeNameIs(ta.AssertedType, "pkg/expr.Const") {
							switch operand(ta) {
							case "Arg1":
								return k1, true
							case "Arg2":
								return k2, true
							}
						}
						if call, ok := x.Tuple.(*ssa.Call); ok && x.Index == 1 && grp[Origin(call.Call.StaticCallee())] {
							return chg, true
						}
					case *ssa.Call:
						if FuncNameIs(x.Call.StaticCallee(), pkgXform+".lessEval") {
							return lt, true
						}
					}
					return false, false
				},
			}
			vl.Visit = func(in ssa.Instruction) {
				call, ok := in.(*ssa.Call)
				if !ok {
					return
				}
				f := call.Call.StaticCallee()
				switch {
				case FuncNameIs(f, pkgXform+"."+evalName):
					evalCalls = append(evalCalls, call)
					var as []ssa.Value
					for _, a := range call.Call.Args {
						as = append(as, vl.Root(a))
					}
					evalArgs = append(evalArgs, as)
				case f != nil && PkgPathOf(f) == ExprPkg && strings.HasPrefix(NameOf(f), "New"):
					ctorCalls = append(ctorCalls, call)
				}
			}
			res := vl.Walk(body.Entry, nil)
			key := fmt.Sprintf("%s/case %s/%s(arg1 const=%v, arg2 const=%v, changed=%v", ShortName(cf), name, evalName, k1, k2, chg)
			if name == "Less" {
				key += fmt.Sprintf(", less=%v", lt)
			}
			key += ")"
			pos := c.Prog.Pos(body.Entry.Instrs[0].Pos())
			if !res.OK {
				c.Fail("C09.allconst", key, pos, "the case cannot be followed: "+res.Why)
				continue
			}
			ret, isRet := res.End.(*ssa.Return)
			if !isRet {
				c.Fail("C09.allconst", key, pos, "the case panics")
				continue
			}
			_ = ret
			why := ""
			constOperand := func(v ssa.Value, acc string) bool {
				ex, ok := Unwrap(v).(*ssa.Extract)
				if !ok || ex.Index != 0 {
					return false
				}
				ta, ok := ex.Tuple.(*ssa.TypeAssert)
				return ok && TypeNameIs(ta.AssertedType, "pkg/expr.Const") && operand(ta) == acc
			}
			switch {
			case !(k1 && k2):
				if len(evalCalls) > 0 {
					why = "the operation is evaluated although an operand is not a constant"
				}
			case len(evalCalls) != 1:
				why = fmt.Sprintf("with both operands constant the operation is evaluated %d times (an all-constant operation can remain unfolded)", len(evalCalls))
			case len(ctorCalls) > 0:
				why = "with both operands constant the node is rebuilt instead of folded"
			case name == "Binary":
				a := evalArgs[0]
				switch {
				case !accessorCallOn(a[0], e, "Op") || !accessorCallOn(a[3], e, "Width"):
					why = "binaryEval is not given the node's own Op() and Width()"
				case !constOperand(a[1], "Arg1") || !constOperand(a[2], "Arg2"):
					why = "binaryEval operands are not (folded Arg1).(Const), (folded Arg2).(Const) in this order"
				case Unwrap(res.RetVal[0]) != ssa.Value(evalCalls[0]):
					why = "the evaluated constant is not what the case returns"
				}
			case name == "Less":
				a := evalArgs[0]
				switch {
				case !constOperand(a[0], "Arg1") || !constOperand(a[1], "Arg2") || !accessorCallOn(a[2], e, "Width"):
					why = "lessEval is not given (folded Arg1).(Const), (folded Arg2).(Const), e.Width() in this order"
				default:
					sw, ok := Unwrap(res.RetVal[0]).(*ssa.Call)
					if !ok || !FuncNameIs(sw.Call.StaticCallee(), fnSetWidth) {
						why = "the selected branch is not returned through SetWidth(·, e.Width())"
					} else if !accessorCallOn(vl.Root(sw.Call.Args[1]), e, "Width") {
						why = "the selected branch is not re-widthed to e.Width()"
					} else {
						o := oc.Origins(vl.Root(sw.Call.Args[0]))
						want := "ExprFalse"
						if lt {
							want = "ExprTrue"
						}
						if info, has := o[want]; !has || len(o) != 1 || !info.Transformed {
							why = fmt.Sprintf("when the comparison is %v the result derives from %s, expected the folded %s", lt, OriginNames(o), want)
						}
					}
				}
			}
			c.Oblige("C09.allconst", key, pos, why == "", why)
		}
	}
}

func checkC09(c *Ctx) {
	c.Rule("C09.exh", "constFold's type switch has a case for every expr.Expr implementer")
	c.Rule("C09.rebuild", "constFold rebuilds Binary, Less and MemLoad homomorphically from all folded children with the node's own operator/key/width")
	c.Rule("C09.allconst", "Binary: when both folded operands are constants (and only then, with no further condition) the result is binaryEval(e.Op(), c1, c2, e.Width()); Less: lessEval(c1, c2, e.Width()) selects the folded ExprTrue on true and ExprFalse on false and the result is SetWidth(res, e.Width())")
	c.Rule("C09.width", "every value constFold returns is the input itself, a node rebuilt at e.Width(), binaryEval(..., e.Width()) or SetWidth(·, e.Width())")
	c.Rule("C09.ops", "binaryEvalFunc has a case for every declared expr.BinaryOp and never maps an operator to the evaluator named after a different operator; binaryEval/lessEval pass their operands and width on in order")
	c.Rule("C09.own", "ownership (E5) in packages exprtransform and expreval: the bytes of a constant being folded (Const.Bytes(), the Value wrapping them) are never written, directly or through a helper that writes its argument: folding leaves its input expression intact")
	ownRule(c, "C09.own", pkgScope(pkgEval, pkgXform))
	c.Rule("C09.purge", "ConstFold returns PurgeWidthGadgets of the folded tree")

	cf := anchor(c, pkgXform+".constFold")
	if cf == nil {
		return
	}
	tss := c.Prog.TypeSwitches(cf, "Expr")
	if len(tss) != 1 {
		c.Undecide("C09: expected one type switch in constFold, found %d", len(tss))
		return
	}
	ts := tss[0]
	c.Exhaustive("C09.exh", ts, "Expr")
	n := checkRebuild(c, "C09.rebuild", cf, "Expr", nil)
	c.RequireCount("C09.rebuild constructor calls", n, 3)
	model := c.Prog.ExprModel()
	group := c.Prog.RecursionGroup(cf)

	// --- all-constant evaluation, walked concretely (E7) through the case body
	// (and any helper it uses) for every combination of "folded operand is a
	// constant" and both outcomes of the comparison
	checkAllConst(c, cf, ts, model, group)
	// --- width of every returned value (of constFold and of the helpers its
	// cases were extracted into)
	nRet := 0
	bodies := map[*ssa.Function]ssa.Value{cf: cf.Params[0]}
	fnOrder := []*ssa.Function{cf}
	for name := range ts.Cases {
		if body := ts.CaseBody(name); body != nil && body.Extracted {
			if _, dup := bodies[body.Fn]; !dup {
				bodies[body.Fn] = body.E
				fnOrder = append(fnOrder, body.Fn)
			}
		}
	}
	sort.Slice(fnOrder[1:], func(i, j int) bool { return fnOrder[1+i].Name() < fnOrder[1+j].Name() })
	for _, fn := range fnOrder {
		self := bodies[fn]
		for _, b := range fn.Blocks {
			ret, ok := b.Instrs[len(b.Instrs)-1].(*ssa.Return)
			if !ok {
				continue
			}
			v := Unwrap(ret.Results[0])
			if ex, isEx := v.(*ssa.Extract); isEx {
				v = ex.Tuple
			}
			if call, isCall := v.(*ssa.Call); isCall {
				if _, isBody := bodies[call.Call.StaticCallee()]; isBody && call.Call.StaticCallee() != cf {
					continue // the helper's own returns are judged
				}
			}
			nRet++
			key := fmt.Sprintf("%s/return#%d", ShortName(cf), nRet)
			v = Unwrap(ret.Results[0])
			okw := false
			switch x := v.(type) {
			case *ssa.Parameter:
				okw = ssa.Value(x) == self
			case *ssa.Call:
				f := x.Call.StaticCallee()
				var wArg ssa.Value
				switch {
				case f != nil && PkgPathOf(f) == ExprPkg && strings.HasPrefix(NameOf(f), "New"):
					okw = true // width pairing decided by C09.rebuild
				case FuncNameIs(f, pkgXform+".binaryEval"):
					wArg = x.Call.Args[3]
				case FuncNameIs(f, fnSetWidth):
					wArg = x.Call.Args[1]
				}
				if wArg != nil {
					if call, isCall := Unwrap(wArg).(*ssa.Call); isCall && call.Call.StaticCallee() != nil && NameOf(call.Call.StaticCallee()) == "Width" {
						okw = true
					}
				}
			}
			c.Oblige("C09.width", key, c.Prog.Pos(ret.Pos()), okw, "constFold returns a value whose width is not tied to e.Width()")
		}
	}
	c.RequireCount("C09.width returns", nRet, 8)

	// --- binaryEvalFunc
	if bef := anchor(c, pkgXform+".binaryEvalFunc"); bef != nil {
		ep := c.Prog.ByPath[ExprPkg]
		bop := c.Prog.LookupType(ExprPkg, "BinaryOp")
		var ops []*types.Const
		if ep != nil && bop != nil {
			sc := ep.Types.Scope()
			for _, nm := range sc.Names() {
				if k, ok := sc.Lookup(nm).(*types.Const); ok && types.Identical(k.Type(), bop) {
					ops = append(ops, k)
				}
			}
		}
		c.RequireCount("C09.ops BinaryOp constants", len(ops), 6)
		opNames := map[string]bool{}
		for _, k := range ops {
			opNames[k.Name()] = true
		}
		for _, k := range ops {
			key := ShortName(bef) + "/case " + k.Name()
			kv, _ := constInt64(k)
			// binaryEvalFunc walked concretely (E7) with op = this operator: the
			// function it returns, whether it is selected by a switch, an if chain
			// or a lookup in a package-level table
			var ret *ssa.Function
			found := false
			opParam := bef.Params[0]
			vl := &Valuation{
				Int: func(v ssa.Value) (int64, bool) {
					if v == ssa.Value(opParam) {
						return kv, true
					}
					return 0, false
				},
				Enter: SamePackage(bef),
			}
			res := vl.Walk(bef.Blocks[0], nil)
			if !res.OK {
				c.Undecide("C09.ops: %s cannot be walked for expr.%s: %s", ShortName(bef), k.Name(), res.Why)
				continue
			}
			if _, isRet := res.End.(*ssa.Return); isRet && len(res.RetVal) > 0 && !IsNilConst(res.RetVal[0]) {
				found = true
				if f, _ := ResolveFunc(res.RetVal[0]); f != nil {
					ret = f
				}
			}
			switch {
			case !found:
				c.Fail("C09.ops", key, c.Prog.FuncPos(bef), "no case for expr."+k.Name())
			case ret == nil:
				c.Fail("C09.ops", key, c.Prog.FuncPos(bef), "case does not return an evaluator function")
			case NameOf(ret) != k.Name() && opNames[NameOf(ret)]:
				c.Fail("C09.ops", key, c.Prog.FuncPos(bef), "expr."+k.Name()+" is evaluated by "+ShortName(ret))
			default:
				c.Pass("C09.ops", key, c.Prog.FuncPos(bef), ShortName(ret))
			}
		}
	}
	if be := anchor(c, pkgXform+".binaryEval"); be != nil {
		// f(ParseConst(c1), ParseConst(c2), w).Const(w)
		ok := false
		for _, cs := range Calls(be) {
			call, isCall := cs.Instr.(*ssa.Call)
			if !isCall || cs.Common().IsInvoke() {
				continue
			}
			if _, dyn := cs.Common().Value.(*ssa.Function); dyn {
				continue
			}
			if _, isB := cs.Common().Value.(*ssa.Builtin); isB {
				continue
			}
			a := call.Call.Args
			if len(a) == 3 && matches(a[0], CallTo("internal/exprtransform/internal/expreval.ParseConst", ParamN(1))) &&
				matches(a[1], CallTo("internal/exprtransform/internal/expreval.ParseConst", ParamN(2))) && matches(a[2], ParamN(3)) &&
				matches(cs.Common().Value, CallTo(pkgXform+".binaryEvalFunc", ParamN(0))) {
				ok = true
			}
		}
		c.Oblige("C09.ops", ShortName(be)+"/operand-order", c.Prog.FuncPos(be), ok, "binaryEval does not call binaryEvalFunc(op)(ParseConst(c1), ParseConst(c2), w) with its own operands in order")
	}
	if le := anchor(c, pkgXform+".lessEval"); le != nil {
		ok := false
		for _, cs := range Calls(le) {
			if f := Callee(cs.Common()); f != nil && NameOf(f) == "Ltu" {
				a := cs.Common().Args
				if matches(a[0], CallTo("internal/exprtransform/internal/expreval.ParseConst", ParamN(0))) &&
					matches(a[1], CallTo("internal/exprtransform/internal/expreval.ParseConst", ParamN(1))) && matches(a[2], ParamN(2)) {
					ok = true
				}
			}
		}
		c.Oblige("C09.ops", ShortName(le)+"/operand-order", c.Prog.FuncPos(le), ok, "lessEval does not call expreval.Ltu(ParseConst(c1), ParseConst(c2), w) with its own operands in order")
	}
	// --- ConstFold
	if cF := anchor(c, pkgXform+".ConstFold"); cF != nil {
		ok := false
		for _, b := range cF.Blocks {
			if ret, isRet := b.Instrs[len(b.Instrs)-1].(*ssa.Return); isRet {
				ok = matches(ret.Results[0], CallTo(pkgXform+".PurgeWidthGadgets", ExtractN(0, CallTo(pkgXform+".constFold", ParamN(0)))))
			}
		}
		c.Oblige("C09.purge", ShortName(cF), c.Prog.FuncPos(cF), ok, "ConstFold does not return PurgeWidthGadgets(constFold(ex))")
	}
}

func constInt64(k *types.Const) (int64, bool) {
	v := k.Val()
	if v == nil {
		return 0, false
	}
	s := v.ExactString()
	var n int64
	_, err := fmt.Sscan(s, &n)
	return n, err == nil
}

// --------------------------------------------------------------------- C12

func checkC12(c *Ctx) {
	c.Rule("C12.ord", "dropUselessWidthGadget, walked under all 13 weak orderings of (context width w, gadget width, argument width), drops the gadget exactly when gadget >= min(argument, w) - i.e. when truncating/extending twice equals doing it once - and never reaches its panic")
	c.Rule("C12.keep", "purgeWidthGadgetsKeepWidth, walked concretely for chains of up to two top-level gadgets (is a gadget / argument has the same width), drops exactly the leading gadgets whose argument has the same width, returns the last argument (or the purged expression itself) and reports whether anything changed")
	c.Rule("C12.ctx", "every pruneUselessWidthGadgets(x, w) call prunes a child of a Binary/Less node in the context e.Width() of that node; the address of a MemLoad keeps its own width and is never pruned in a narrowing context")
	c.Rule("C12.rebuild", "purgeWidthGadgets rebuilds Binary, Less and MemLoad homomorphically from all purged children")
	c.Rule("C12.setwidth", "setWidth, walked per node type under the 3 orderings of (w, e.Width()): returns the node itself when equal; Const is re-made with NewConst(e.Bytes(), w); RegLoad is re-made with NewRegLoad(e.Key(), w) only when w < e.Width(); Binary/Less/MemLoad (and a widened RegLoad) fall back; SetWidth falls back to NewWidthGadget(ex, w)")
	c.Rule("C12.gadget", "NewWidthGadget builds NewBinary(Add, e, Zero, w) and WidthGadgetArg recognises exactly that shape and returns Arg1")
	c.Rule("C12.exh", "type switches of setWidth and purgeWidthGadgets are exhaustive")

	// --- C12.ord
	if d := anchor(c, pkgXform+".dropUselessWidthGadget"); d != nil {
		var argV, okV ssa.Value
		for _, cs := range Calls(d) {
			if FuncNameIs(Callee(cs.Common()), pkgTools+".WidthGadgetArg") && cs.Common().Args[0] == ssa.Value(d.Params[0]) {
				if refs := cs.Instr.(*ssa.Call).Referrers(); refs != nil {
					for _, r := range *refs {
						if ex, ok := r.(*ssa.Extract); ok {
							if ex.Index == 0 {
								argV = ex
							} else {
								okV = ex
							}
						}
					}
				}
			}
		}
		if argV == nil || okV == nil {
			c.Undecide("C12.ord: dropUselessWidthGadget does not obtain its argument from exprtools.WidthGadgetArg(ex)")
		} else {
			ords := WeakOrderings(3)
			for _, o := range ords {
				W, G, A := o[0], o[1], o[2]
				val := &Valuation{
					Int: func(v ssa.Value) (int64, bool) {
						if v == ssa.Value(d.Params[1]) {
							return W, true
						}
						if call, ok := v.(*ssa.Call); ok && call.Call.IsInvoke() && call.Call.Method.Name() == "Width" {
							switch call.Call.Value {
							case ssa.Value(d.Params[0]):
								return G, true
							case argV:
								return A, true
							}
						}
						return 0, false
					},
					Bool: func(v ssa.Value) (bool, bool) {
						if v == okV {
							return true, true
						}
						return false, false
					},
				}
				res := val.Walk(d.Blocks[0], nil)
				key := fmt.Sprintf("%s/order(w=%d,gadget=%d,arg=%d)", ShortName(d), W, G, A)
				minAW := A
				if W < minAW {
					minAW = W
				}
				wantDrop := G >= minAW
				switch {
				case !res.OK:
					c.Fail("C12.ord", key, c.Prog.FuncPos(d), "decision not computable: "+res.Why)
				default:
					switch end := res.End.(type) {
					case *ssa.Panic:
						c.Fail("C12.ord", key, c.Prog.Pos(end.Pos()), "the 'unreachable' panic is reachable for this ordering of widths")
					case *ssa.Return:
						dropped := matches(end.Results[1], BoolPat(true))
						retArg := Unwrap(end.Results[0]) == argV
						switch {
						case dropped && !retArg:
							c.Fail("C12.ord", key, c.Prog.Pos(end.Pos()), "reports a drop but does not return the gadget's argument")
						case dropped != wantDrop && wantDrop:
							c.Fail("C12.ord", key, c.Prog.Pos(end.Pos()), "keeps a gadget that is redundant in this context (gadget >= min(arg, w))")
						case dropped != wantDrop:
							c.Fail("C12.ord", key, c.Prog.Pos(end.Pos()), "drops a gadget that truncates bits the context still uses (gadget < arg and gadget < w): the value changes")
						default:
							c.Pass("C12.ord", key, c.Prog.Pos(end.Pos()), "")
						}
					}
				}
			}
			// not-a-gadget path
			val := &Valuation{Bool: func(v ssa.Value) (bool, bool) {
				if v == okV {
					return false, true
				}
				return false, false
			}}
			res := val.Walk(d.Blocks[0], nil)
			ok := false
			if ret, isRet := res.End.(*ssa.Return); isRet && res.OK {
				ok = matches(ret.Results[1], BoolPat(false))
			}
			c.Oblige("C12.ord", ShortName(d)+"/not-a-gadget", c.Prog.FuncPos(d), ok, "an expression that is not a width gadget is reported as dropped")
		}
	}

	// --- C12.keep: walked concretely for chains of top-level gadgets
	if k := anchor(c, pkgXform+".purgeWidthGadgetsKeepWidth"); k != nil {
		type round struct{ ok, eq bool }
		scenarios := [][]round{
			{{false, false}},
			{{true, false}},
			{{true, true}, {false, false}},
			{{true, true}, {true, false}},
			{{true, true}, {true, true}, {false, false}},
		}
		isWGA := func(v ssa.Value) *ssa.Call {
			call, ok := v.(*ssa.Call)
			if ok && FuncNameIs(call.Call.StaticCallee(), pkgTools+".WidthGadgetArg") {
				return call
			}
			return nil
		}
		n := 0
		for si, sc := range scenarios {
			for _, nested := range []bool{false, true} {
				calls := 0
				var vl *Valuation
				cur := func() round {
					if calls >= 1 && calls <= len(sc) {
						return sc[calls-1]
					}
					return round{}
				}
				vl = &Valuation{Bool: func(v ssa.Value) (bool, bool) {
					switch x := v.(type) {
					case *ssa.Extract:
						if call, ok := x.Tuple.(*ssa.Call); ok && x.Index == 1 {
							if isWGA(call) != nil {
								return cur().ok, true
							}
							if f := call.Call.StaticCallee(); f != nil && NameOf(f) == "purgeWidthGadgets" {
								return nested, true
							}
						}
					case *ssa.BinOp:
						if x.Op == token.EQL || x.Op == token.NEQ {
							isW := func(v ssa.Value) bool {
								call, ok := v.(*ssa.Call)
								return ok && call.Call.IsInvoke() && call.Call.Method.Name() == "Width"
							}
							if isW(x.X) && isW(x.Y) {
								return cur().eq == (x.Op == token.EQL), true
							}
						}
					}
					return false, false
				}}
				vl.Visit = func(in ssa.Instruction) {
					if v, ok := in.(ssa.Value); ok && isWGA(v) != nil {
						calls++
					}
				}
				res := vl.Walk(k.Blocks[0], nil)
				n++
				drops := 0
				for _, r := range sc {
					if r.ok && r.eq {
						drops++
					} else {
						break
					}
				}
				key := fmt.Sprintf("%s/chain#%d(nested=%v)", ShortName(k), si, nested)
				why := ""
				switch {
				case !res.OK:
					why = "the function cannot be followed: " + res.Why
				case calls != drops+1:
					why = fmt.Sprintf("%d top-level gadgets with an argument of the same width are followed by one that is not: the argument is asked for %d times, expected %d", drops, calls, drops+1)
				default:
					root := Unwrap(res.RetVal[0])
					var fromWGA bool
					if ex, ok := root.(*ssa.Extract); ok {
						fromWGA = isWGA(ex.Tuple) != nil
					}
					if fromWGA != (drops > 0) {
						if drops > 0 {
							why = "a top-level gadget whose argument has the same width is not dropped"
						} else {
							why = "the top-level expression is replaced by a gadget argument although it is not a gadget of the same width (the expression's width changes)"
						}
					} else if ch, known := res.RetBool[1]; !known || ch != (drops > 0 || nested) {
						why = "the reported `changed` flag does not say whether anything was dropped"
					}
				}
				c.Oblige("C12.keep", key, c.Prog.FuncPos(k), why == "", why)
			}
		}
		c.RequireCount("C12.keep chains walked", n, 10)
	}

	// --- C12.ctx / rebuild / exh
	pg := anchor(c, pkgXform+".purgeWidthGadgets")
	prune := anchor(c, pkgXform+".pruneUselessWidthGadgets")
	if pg != nil && prune != nil {
		nr := checkRebuild(c, "C12.rebuild", pg, "Expr", nil)
		c.RequireCount("C12.rebuild constructor calls", nr, 3)
		model := c.Prog.ExprModel()
		group := c.Prog.RecursionGroup(pg)
		n := 0
		for _, fn := range c.Prog.FuncsIn(ModulePath + "/" + pkgXform) {
			if fn.Origin() != nil {
				continue
			}
			sites := CallsTo(fn, prune)
			if len(sites) == 0 {
				continue
			}
			tss := c.Prog.TypeSwitches(fn, "Expr")
			for si, cs := range sites {
				n++
				key := fmt.Sprintf("%s/prune#%d", ShortName(fn), si+1)
				// which case region?
				var caseName string
				var e ssa.Value
				var tsw *TypeSwitch
				for _, ts := range tss {
					for name := range ts.Cases {
						cb := ts.CaseBlock(name)
						if cb != nil && cb.Dominates(cs.Block()) {
							caseName, e, tsw = name, ts.CaseValue(name), ts
						}
					}
				}
				if e == nil {
					c.Fail("C12.ctx", key, c.Prog.Pos(cs.Pos()), "gadget pruning outside a node case: the consuming context is unknown")
					continue
				}
				oc := &OriginCtx{E: e, X: tsw.X, Model: model[caseName], Group: group}
				o := oc.Origins(cs.Common().Args[0])
				var child string
				for k2 := range o {
					child = k2
				}
				key = fmt.Sprintf("%s/case %s/prune(%s)", ShortName(fn), caseName, strings.Join(sortedKeys(o), "+"))
				switch {
				case len(o) != 1 || !model[caseName].Child[child]:
					c.Fail("C12.ctx", key, c.Prog.Pos(cs.Pos()), "pruned value is not a single child of the node: "+OriginNames(o))
				case child == "Addr":
					c.Fail("C12.ctx", key, c.Prog.Pos(cs.Pos()), "the address of a "+caseName+" keeps its own width (it is not consumed at the load width), but its width gadgets are pruned as if it were truncated to the context width: a truncating gadget on the address is dropped and the address value changes")
				case !accessorCallOn(cs.Common().Args[1], e, "Width"):
					c.Fail("C12.ctx", key, c.Prog.Pos(cs.Pos()), "operands of "+caseName+" are consumed at the node's width, but the pruning context is not e.Width()")
				default:
					c.Pass("C12.ctx", key, c.Prog.Pos(cs.Pos()), "")
				}
			}
		}
		c.RequireCount("C12.ctx prune call sites", n, 6)
		for _, ts := range c.Prog.TypeSwitches(pg, "Expr") {
			c.Exhaustive("C12.exh", ts, "Expr")
		}
	}

	// --- C12.setwidth
	if sw := anchor(c, pkgXform+".setWidth"); sw != nil {
		tss := c.Prog.TypeSwitches(sw, "Expr")
		if len(tss) != 1 {
			c.Undecide("C12.setwidth: expected one type switch in setWidth")
		} else {
			ts := tss[0]
			c.Exhaustive("C12.exh", ts, "Expr")
			impl := c.Prog.Implementers("Expr")
			for _, nt := range impl {
				name := nt.Obj().Name()
				for _, o := range WeakOrderings(2) {
					W, E := o[0], o[1]
					val := &Valuation{
						Int: func(v ssa.Value) (int64, bool) {
							if v == ssa.Value(sw.Params[1]) {
								return W, true
							}
							if call, ok := v.(*ssa.Call); ok {
								if call.Call.IsInvoke() && call.Call.Method.Name() == "Width" && call.Call.Value == ssa.Value(sw.Params[0]) {
									return E, true
								}
								if f := call.Call.StaticCallee(); f != nil && NameOf(f) == "Width" && len(call.Call.Args) == 1 {
									return E, true
								}
							}
							return 0, false
						},
						Bool: func(v ssa.Value) (bool, bool) {
							if ex, ok := v.(*ssa.Extract); ok && ex.Index == 1 {
								if ta, ok := ex.Tuple.(*ssa.TypeAssert); ok && ta.X == ts.X {
									if an, ok := ta.AssertedType.(*types.Named); ok {
										return an.Obj().Name() == name, true
									}
								}
							}
							return false, false
						},
					}
					res := val.Walk(sw.Blocks[0], nil)
					key := fmt.Sprintf("%s/%s/order(w=%d,e=%d)", ShortName(sw), name, W, E)
					if !res.OK {
						c.Fail("C12.setwidth", key, c.Prog.FuncPos(sw), "decision not computable: "+res.Why)
						continue
					}
					ret, isRet := res.End.(*ssa.Return)
					if !isRet {
						c.Fail("C12.setwidth", key, c.Prog.FuncPos(sw), "setWidth panics for a known node type")
						continue
					}
					okRes := matches(ret.Results[1], BoolPat(true))
					e := ts.CaseValue(name)
					bad := ""
					switch {
					case W == E:
						if !okRes || Unwrap(ret.Results[0]) != ssa.Value(sw.Params[0]) {
							bad = "equal widths must return the expression itself"
						}
					case name == "Const":
						if !okRes || e == nil || !matches(ret.Results[0], CallTo("pkg/expr.NewConst", Method("Bytes", func(v ssa.Value, _ *Bind) bool { return Unwrap(v) == e }), ParamN(1))) {
							bad = "a constant must be re-made with expr.NewConst(e.Bytes(), w)"
						}
					case name == "RegLoad" && W < E:
						if !okRes || e == nil || !matches(ret.Results[0], CallTo("pkg/expr.NewRegLoad", Method("Key", func(v ssa.Value, _ *Bind) bool { return Unwrap(v) == e }), ParamN(1))) {
							bad = "a narrowed register load must be re-made with expr.NewRegLoad(e.Key(), w)"
						}
					default:
						if okRes {
							bad = "must fall back to the width gadget: a " + name + " cannot be re-made at another width without changing its value (a register can hold non-zero bytes above its load width; a load's width is part of its meaning)"
						}
					}
					c.Oblige("C12.setwidth", key, c.Prog.Pos(ret.Pos()), bad == "", bad)
				}
			}
		}
	}
	if SW := anchor(c, pkgXform+".SetWidth"); SW != nil {
		nRet, bad := 0, ""
		for _, b := range SW.Blocks {
			ret, ok := b.Instrs[len(b.Instrs)-1].(*ssa.Return)
			if !ok {
				continue
			}
			nRet++
			isDirect := matches(ret.Results[0], ExtractN(0, CallTo(pkgXform+".setWidth", ParamN(0), ParamN(1))))
			isGadget := matches(ret.Results[0], CallTo(pkgTools+".NewWidthGadget", ParamN(0), ParamN(1)))
			if !isDirect && !isGadget {
				bad = "SetWidth returns something other than setWidth(ex, w) or NewWidthGadget(ex, w)"
			}
			if isDirect {
				g := false
				for _, gd := range GuardsOf(b) {
					if matches(gd.Cond, ExtractN(1, CallTo(pkgXform+".setWidth", ParamN(0), ParamN(1)))) && gd.Outcome {
						g = true
					}
				}
				if !g {
					bad = "setWidth's result is used although it reported failure"
				}
			}
		}
		if nRet < 2 {
			bad = "SetWidth lacks the gadget fallback"
		}
		c.Oblige("C12.setwidth", ShortName(SW), c.Prog.FuncPos(SW), bad == "", bad)
	}

	// --- C12.gadget
	nwg := anchor(c, pkgTools+".NewWidthGadget")
	wga := anchor(c, pkgTools+".WidthGadgetArg")
	if nwg != nil && wga != nil {
		ep := c.Prog.SSAPkg[ExprPkg]
		addV := int64(-1)
		if ep != nil && ep.Const("Add") != nil {
			addV = ep.Const("Add").Value.Int64()
		}
		isZero := func(v ssa.Value, _ *Bind) bool {
			u, ok := Unwrap(v).(*ssa.UnOp)
			if !ok || u.Op != token.MUL {
				return false
			}
			g, ok := u.X.(*ssa.Global)
			return ok && NameOf(g) == "Zero" && g.Pkg.Pkg.Path() == ExprPkg
		}
		okBuild := false
		for _, b := range nwg.Blocks {
			if ret, ok := b.Instrs[len(b.Instrs)-1].(*ssa.Return); ok {
				okBuild = matches(ret.Results[0], CallTo("pkg/expr.NewBinary", IntPat(addV), ParamN(0), isZero, ParamN(1)))
			}
		}
		c.Oblige("C12.gadget", ShortName(nwg), c.Prog.FuncPos(nwg), okBuild && addV >= 0, "NewWidthGadget is not NewBinary(Add, e, Zero, w): adding zero at width w is what makes it a pure width change")
		// WidthGadgetArg (with the helpers it calls), walked concretely over the
		// 16 combinations of: is a Binary, its operator is Add, its second
		// argument is a constant, that constant equals Zero. It reports a gadget
		// - and returns the Binary's first argument - exactly when all four hold.
		nw := 0
		for mask := 0; mask < 16; mask++ {
			isBin, opAdd, isConst, isZ := mask&1 != 0, mask&2 != 0, mask&4 != 0, mask&8 != 0
			var vl *Valuation
			vl = &Valuation{
				Enter: SamePackage(wga),
				Int: func(v ssa.Value) (int64, bool) {
					if call, ok := v.(*ssa.Call); ok && call.Call.StaticCallee() != nil && NameOf(call.Call.StaticCallee()) == "Op" {
						if opAdd {
							return addV, true
						}
						return addV + 1, true
					}
					return 0, false
				},
				Bool: func(v ssa.Value) (bool, bool) {
					switch x := v.(type) {
					case *ssa.Extract:
						if ta, ok := x.Tuple.(*ssa.TypeAssert); ok && x.Index == 1 {
							switch {
							case TypeNameIs(ta.AssertedType, "pkg/expr.Binary"):
								return isBin, true
							case TypeNameIs(ta.AssertedType, "pkg/expr.Const"):
								return isConst, true
							}
						}
					case *ssa.Call:
						if f := x.Call.StaticCallee(); f != nil && NameOf(f) == "Equal" && len(x.Call.Args) == 2 && (isZero(x.Call.Args[1], nil) || isZero(x.Call.Args[0], nil)) {
							return isZ, true
						}
					}
					return false, false
				},
			}
			res := vl.Walk(wga.Blocks[0], nil)
			nw++
			key := fmt.Sprintf("%s/(binary=%v, op is Add=%v, arg2 constant=%v, arg2 is Zero=%v)", ShortName(wga), isBin, opAdd, isConst, isZ)
			want := isBin && opAdd && isConst && isZ
			why := ""
			got, known := res.RetBool[1]
			switch {
			case !res.OK:
				why = "the function cannot be followed: " + res.Why
			case func() bool { _, p := res.End.(*ssa.Panic); return p }():
				why = "the function panics"
			case !known:
				why = "the result cannot be evaluated"
			case got != want:
				why = fmt.Sprintf("reported as a width gadget: %v, expected %v (it would drop operations that are not width gadgets, or miss the ones NewWidthGadget builds)", got, want)
			case want && !matches(vl.Root(res.RetVal[0]), Method("Arg1", func(x ssa.Value, _ *Bind) bool {
				return DependsOn(x, func(y ssa.Value) bool {
					ta, ok := y.(*ssa.TypeAssert)
					return ok && TypeNameIs(ta.AssertedType, "pkg/expr.Binary")
				})
			})):
				why = "the argument returned is not Arg1() of the gadget"
			}
			c.Oblige("C12.gadget", key, c.Prog.FuncPos(wga), why == "", why)
		}
		c.RequireCount("C12.gadget combinations walked", nw, 16)
	}
}

func sortedKeys(m map[string]*OInfo) []string {
	var k []string
	for x := range m {
		k = append(k, x)
	}
	sort.Strings(k)
	return k
}

// --------------------------------------------------------------------- C13

func checkC13(c *Ctx) {
	c.Rule("C13.exh", "Possibilities' type switch has a case for every expr.Expr implementer")
	c.Rule("C13.rebuild", "Binary and MemLoad are rebuilt homomorphically from the possibilities of every child, ranging over whole slices (no sub-slicing)")
	c.Rule("C13.less", "the Less case returns exactly the possibilities of ExprTrue and of ExprFalse, each through SetWidth(·, e.Width())")
	c.Rule("C13.leaf", "Const and RegLoad return the expression itself")
	c.Rule("C13.noless", "no expr.NewLess is reachable from Possibilities in the static call graph (alternatives contain no conditional)")

	ps := anchor(c, pkgXform+".Possibilities")
	if ps == nil {
		return
	}
	tss := c.Prog.TypeSwitches(ps, "Expr")
	if len(tss) != 1 {
		c.Undecide("C13: expected one type switch in Possibilities, found %d", len(tss))
		return
	}
	ts := tss[0]
	c.Exhaustive("C13.exh", ts, "Expr")
	n := checkRebuild(c, "C13.rebuild", ps, "Expr", map[string]string{"Less": "conditions are dropped by design; decided by C13.less"})
	c.RequireCount("C13.rebuild constructor calls", n, 2)
	model := c.Prog.ExprModel()
	group := c.Prog.RecursionGroup(ps)

	// returned slices per case
	for _, name := range []string{"Binary", "MemLoad"} {
		e, cb := ts.CaseValue(name), ts.CaseBlock(name)
		if e == nil || cb == nil {
			continue
		}
		oc := &OriginCtx{E: e, X: ts.X, Model: model[name], Group: group}
		for b := range RegionOf(cb) {
			if ret, ok := b.Instrs[len(b.Instrs)-1].(*ssa.Return); ok {
				o := oc.Origins(ret.Results[0])
				delete(o, "<const>")
				_, hasNew := o["<new>"]
				c.Oblige("C13.rebuild", ShortName(ps)+"/case "+name+"/result", c.Prog.Pos(ret.Pos()), hasNew && len(o) == 1, "the case returns something other than the rebuilt nodes: "+OriginNames(o))
			}
		}
	}
	if e, cb := ts.CaseValue("Less"), ts.CaseBlock("Less"); e != nil && cb != nil {
		oc := &OriginCtx{E: e, X: ts.X, Model: model["Less"], Group: group}
		region := RegionOf(cb)
		nRet := 0
		for _, b := range ps.Blocks {
			if !region[b] {
				continue
			}
			ret, ok := b.Instrs[len(b.Instrs)-1].(*ssa.Return)
			if !ok {
				continue
			}
			nRet++
			o := oc.Origins(ret.Results[0])
			delete(o, "<const>")
			bad := ""
			for _, want := range []string{"ExprTrue", "ExprFalse"} {
				info, has := o[want]
				switch {
				case !has:
					bad = "the possibilities of " + want + " are not part of the result: an outcome of the condition is not covered"
				case !info.Transformed:
					bad = want + " is returned without expanding its own conditionals"
				case info.Partial:
					bad = "only a sub-slice of the possibilities of " + want + " is returned"
				case !info.Via["SetWidth"]:
					bad = "the possibilities of " + want + " are not brought to the node's width with SetWidth"
				}
			}
			if len(o) != 2 && bad == "" {
				bad = "the result also contains values derived from " + OriginNames(o)
			}
			c.Oblige("C13.less", ShortName(ps)+"/case Less/result", c.Prog.Pos(ret.Pos()), bad == "", bad)
		}
		c.RequireCount("C13.less returns in case Less", nRet, 1)
		nSW := 0
		for _, b := range ps.Blocks {
			if !region[b] {
				continue
			}
			for _, in := range b.Instrs {
				if call, ok := in.(*ssa.Call); ok && FuncNameIs(call.Call.StaticCallee(), fnSetWidth) {
					nSW++
					c.Oblige("C13.less", fmt.Sprintf("%s/case Less/SetWidth#%d", ShortName(ps), nSW), c.Prog.Pos(call.Pos()),
						accessorCallOn(call.Call.Args[1], e, "Width"), "alternative is not re-widthed to the conditional's own width e.Width()")
				}
			}
		}
		c.RequireCount("C13.less SetWidth calls", nSW, 1) // (both branches may go through one call in a loop over the two lists; that each is re-widthed is decided per origin above)
	}
	// leaves
	for _, name := range []string{"Const", "RegLoad"} {
		ta := ts.Cases[name]
		if ta == nil {
			continue
		}
		okv := ts.OkValue(name)
		var cb *ssa.BasicBlock
		if okv != nil && okv.Referrers() != nil {
			for _, r := range *okv.Referrers() {
				if iff, ok := r.(*ssa.If); ok {
					cb = iff.Block().Succs[0]
				}
			}
		}
		if cb == nil {
			continue
		}
		oc := &OriginCtx{E: nil, X: ts.X, Model: model[name], Group: group}
		ok := false
		if ret, isRet := cb.Instrs[len(cb.Instrs)-1].(*ssa.Return); isRet {
			o := oc.Origins(ret.Results[0])
			_, self := o["<self>"]
			ok = self && len(o) == 1
		}
		c.Oblige("C13.leaf", ShortName(ps)+"/case "+name, c.Prog.Pos(ta.Pos()), ok, "a leaf expression must be its own single possibility")
	}
	// no NewLess reachable
	seen := map[*ssa.Function]bool{}
	var reach func(f *ssa.Function) *ssa.Function
	reach = func(f *ssa.Function) *ssa.Function {
		f = Origin(f)
		if f == nil || seen[f] || PkgPathOf(f) == "" {
			return nil
		}
		seen[f] = true
		if FuncNameIs(f, "pkg/expr.NewLess") {
			return f
		}
		for _, cs := range Calls(f) {
			if g := Callee(cs.Common()); g != nil {
				if r := reach(g); r != nil {
					return r
				}
			}
		}
		return nil
	}
	bad := reach(ps)
	c.Oblige("C13.noless", ShortName(ps), c.Prog.FuncPos(ps), bad == nil, "expr.NewLess is reachable from Possibilities: an alternative can contain a conditional")
	c.Extra["functions_reachable_from_Possibilities"] = len(seen)
}
