package rules

import (
	"fmt"
	"go/token"
	"go/types"
	"os"

	"golang.org/x/tools/go/ssa"

	. "mltlint/internal/core"
)

func init() { register("C19", "other", checkC19) }

const pkgOpcode = "internal/opcode"

// C19: opcode matching is unambiguous and exact. What is decided (level
// "other", structural necessary conditions - not the whole property):
//
//   - C19.dep: wherever an ambiguity between two patterns is reported, the
//     decision depends on the bytes AND the mask of both patterns. Whether two
//     patterns share a byte string is a function of all four; a decision that
//     never reads one of them is wrong for some pattern set.
//   - C19.pairs: the inter-group check visits every pair of groups and every
//     pattern of both groups.
//   - C19.conflict: a function that decides the conflict of two patterns uses
//     bytes only through bitwise operators and (in)equality, and - walked for
//     all 1- and 2-byte patterns over a 2-bit (1-bit) universe - answers
//     "conflict" exactly when the patterns agree on every bit both masks select
//     over the shorter length.
//   - C19.order: byteLT / byteEQ, walked over all pairs of byte strings of
//     length <= 2 over three values (they only compare), are a strict total
//     order and its equality.
//   - C19.valid: Opcode.Validate, walked over the length/last-mask-byte
//     combinations, rejects exactly empty patterns, length mismatches and a
//     zero last mask byte.
//   - C19.match: matchInstruction answers "found" only under the equality of
//     the masked input prefix with the candidate's masked bytes, its binary
//     search predicate is "masked input <= candidate" in byteLT's order, inputs
//     shorter than the mask are refused; Match tries every group.
//   - C19.group: patterns are sorted by mask and split where the mask changes;
//     inside a group they are sorted by masked bytes and adjacent equal ones
//     are an error.
func checkC19(c *Ctx) {
	c.Rule("C19.dep", "every decision that reports two patterns as ambiguous depends on the bytes and on the mask of both patterns")
	c.Rule("C19.pairs", "the check between groups of different masks visits every pair of groups and every pattern of both")
	c.Rule("C19.conflict", "a two-pattern conflict predicate touches bytes only bitwise and, walked over all small patterns, holds exactly when the patterns agree on every bit selected by both masks over the shorter length")
	c.Rule("C19.order", "byteLT is a strict total order on byte strings and byteEQ its equality (walked over all pairs of strings of length <= 2 over three values)")
	c.Rule("C19.valid", "Opcode.Validate rejects exactly: no bytes, bytes and mask of different lengths, a zero last mask byte")
	c.Rule("C19.match", "matchInstruction: refused when the input is shorter than the mask; found only under equality of the masked prefix with the candidate; the search predicate is masked <= candidate; Matcher.Match tries every group")
	c.Rule("C19.group", "group sorts by mask with byteLT and cuts where the mask changes; newMaskGroup sorts by masked bytes and reports adjacent equal patterns")

	opkg := ModulePath + "/" + pkgOpcode
	pk := c.Prog.ByPath[opkg]
	if pk == nil {
		c.Undecide("C19: package %s not loaded", opkg)
		return
	}
	inPkg := func(f *ssa.Function) bool { return f != nil && PkgPathOf(f) == opkg }
	enter := func(f *ssa.Function) bool {
		return inPkg(f) && (f.Blocks != nil || Origin(f).Blocks != nil)
	}
	var fns []*ssa.Function
	seenFn := map[*ssa.Function]bool{}
	for _, fn := range c.Prog.Funcs() {
		// generic functions are analysed once, in their generic form (some are
		// listed only through their instances)
		if o := Origin(fn); inPkg(fn) && o != nil && o.Blocks != nil && !seenFn[o] {
			seenFn[o] = true
			fns = append(fns, o)
		}
	}

	// ---- the order relations
	lt, eq := c.Prog.Func(opkg+".byteLT"), c.Prog.Func(opkg+".byteEQ")
	if lt == nil || eq == nil || lt.Blocks == nil || eq.Blocks == nil {
		c.Undecide("C19.order: byteLT/byteEQ not found")
		return
	}
	checkByteOrder(c, lt, eq)

	// ---- Validate
	if vf := c.Prog.Func("(" + opkg + ".Opcode).Validate"); vf != nil && vf.Blocks != nil {
		checkOpcodeValidate(c, vf)
	} else {
		c.Undecide("C19.valid: Opcode.Validate not found")
	}

	// ---- ambiguity sites: calls of the error constructor that takes two patterns
	// the internal pattern record, by shape: a struct of the package that embeds
	// an Opcode value (whatever the record is called)
	isPattern := func(t types.Type) bool {
		n, ok := t.(*types.Named)
		if !ok || n.Obj().Pkg() == nil || n.Obj().Pkg().Path() != opkg {
			return false
		}
		st, ok := n.Underlying().(*types.Struct)
		if !ok {
			return false
		}
		for i := 0; i < st.NumFields(); i++ {
			if fn, ok := st.Field(i).Type().(*types.Named); ok && fn.Obj().Name() == "Opcode" && fn.Obj().Pkg() != nil && fn.Obj().Pkg().Path() == opkg {
				return true
			}
		}
		return false
	}
	nSites := 0
	for _, fn := range fns {
		for _, cs := range Calls(fn) {
			f := Callee(cs.Common())
			if !inPkg(f) || len(cs.Common().Args) != 2 || !isPattern(cs.Common().Args[0].Type()) || !isPattern(cs.Common().Args[1].Type()) {
				continue
			}
			if f.Signature.Results().Len() != 1 || f.Signature.Results().At(0).Type().String() != "error" {
				continue
			}
			nSites++
			checkAmbiguitySite(c, fn, cs, nSites, enter, lt, eq)
		}
	}
	c.RequireCount("C19.dep sites reporting two ambiguous patterns", nSites, 2)

	// ---- a pair predicate, when the package has one
	nPred := 0
	defer func() { c.Saw("conflict_predicates", fmt.Sprintf("%d", nPred)) }()
	for _, fn := range fns {
		if len(fn.Params) != 2 || fn.Signature.Results().Len() != 1 || fn.Signature.Recv() != nil {
			continue
		}
		if b, ok := fn.Signature.Results().At(0).Type().Underlying().(*types.Basic); !ok || b.Kind() != types.Bool {
			continue
		}
		// two patterns: Opcode values or the package's records around one
		isOpc := func(t types.Type) bool {
			n, ok := t.(*types.Named)
			return ok && n.Obj().Name() == "Opcode" && n.Obj().Pkg() != nil && n.Obj().Pkg().Path() == opkg
		}
		if (isOpc(fn.Params[0].Type()) || isPattern(fn.Params[0].Type())) && types.Identical(fn.Params[0].Type(), fn.Params[1].Type()) {
			if fn.Blocks == nil {
				continue
			}
			nPred++
			checkConflictPredicate(c, fn)
		}
	}

	// the pattern record's cached masked bytes
	if pk := c.Prog.ByPath[opkg]; pk != nil {
		sc := pk.Types.Scope()
		for _, n := range sc.Names() {
			tn, ok := sc.Lookup(n).(*types.TypeName)
			if !ok || !isPattern(tn.Type()) {
				continue
			}
			st, ok := tn.Type().Underlying().(*types.Struct)
			if !ok {
				continue
			}
			field, nb := "", 0
			for i := 0; i < st.NumFields(); i++ {
				if isByteSliceT(st.Field(i).Type()) {
					field = st.Field(i).Name()
					nb++
				}
			}
			if nb == 1 {
				checkMaskedField(c, opkg, tn.Type(), field)
			}
		}
	}
	checkMatchInstruction(c, opkg, enter, lt, eq)
	checkGrouping(c, opkg, lt, eq)
}

// bsMachine: a valuation for code that reads byte strings. bind classifies a
// rooted []byte value as one of the concrete strings of the scenario.
type bsMachine struct {
	vl    *Valuation
	bind  func(v ssa.Value) ([]int64, bool)
	crash string
}

func newBSMachine(enter func(*ssa.Function) bool, bind func(v ssa.Value) ([]int64, bool)) *bsMachine {
	m := &bsMachine{bind: bind}
	m.vl = &Valuation{Typed: true, Enter: enter}
	cmpStrings := func(a, b []int64) int64 {
		for i := 0; i < len(a) && i < len(b); i++ {
			if a[i] != b[i] {
				if a[i] < b[i] {
					return -1
				}
				return 1
			}
		}
		switch {
		case len(a) < len(b):
			return -1
		case len(a) > len(b):
			return 1
		}
		return 0
	}
	libArgs := func(call *ssa.Call) (a, b []int64, ok bool) {
		if len(call.Call.Args) != 2 {
			return nil, nil, false
		}
		a, ok1 := m.bind(m.vl.Root(call.Call.Args[0]))
		b, ok2 := m.bind(m.vl.Root(call.Call.Args[1]))
		return a, b, ok1 && ok2
	}
	m.vl.Bool = func(v ssa.Value) (bool, bool) {
		if call, ok := v.(*ssa.Call); ok && call.Call.StaticCallee() != nil && call.Call.StaticCallee().String() == "bytes.Equal" {
			if a, b, ok := libArgs(call); ok {
				return cmpStrings(a, b) == 0, true
			}
		}
		return false, false
	}
	m.vl.Int = func(v ssa.Value) (int64, bool) {
		switch y := v.(type) {
		case *ssa.Call:
			if f := y.Call.StaticCallee(); f != nil && f.String() == "bytes.Compare" {
				if a, b, ok := libArgs(y); ok {
					return cmpStrings(a, b), true
				}
			}
			if bi, ok := y.Call.Value.(*ssa.Builtin); ok && bi.Name() == "len" {
				if s, ok := m.bind(m.vl.Root(y.Call.Args[0])); ok {
					return int64(len(s)), true
				}
			}
		case *ssa.UnOp:
			if ia, ok := y.X.(*ssa.IndexAddr); ok && y.Op == token.MUL {
				if s, ok := m.bind(m.vl.Root(ia.X)); ok {
					i, iok := m.vl.EvalInt(ia.Index, nil)
					if !iok {
						return 0, false
					}
					if i < 0 || i >= int64(len(s)) {
						if m.crash == "" {
							m.crash = fmt.Sprintf("index %d of a byte string of length %d", i, len(s))
						}
						return 0, true
					}
					return s[i], true
				}
			}
		}
		return 0, false
	}
	return m
}

// fieldOfParam: v reads field `name` of (a local copy of) parameter p.
func fieldOfParam(v ssa.Value) (p *ssa.Parameter, name string, ok bool) {
	switch x := v.(type) {
	case *ssa.Field:
		if q, isP := x.X.(*ssa.Parameter); isP {
			return q, fieldNameOf(x), true
		}
	case *ssa.UnOp:
		fa, isFA := x.X.(*ssa.FieldAddr)
		if x.Op != token.MUL || !isFA {
			return nil, "", false
		}
		if q, isP := fa.X.(*ssa.Parameter); isP {
			return q, fieldNameOf(fa), true
		}
		if al, isAl := fa.X.(*ssa.Alloc); isAl && al.Referrers() != nil {
			var q *ssa.Parameter
			n := 0
			for _, r := range *al.Referrers() {
				if st, isSt := r.(*ssa.Store); isSt && st.Addr == ssa.Value(al) {
					n++
					q, _ = st.Val.(*ssa.Parameter)
				}
			}
			if n == 1 && q != nil {
				return q, fieldNameOf(fa), true
			}
		}
	}
	return nil, "", false
}

// fieldPathOfParam: v reads p.f1.f2...; the field names from the parameter on.
func fieldPathOfParam(v ssa.Value) (p *ssa.Parameter, path []string, ok bool) {
	switch x := v.(type) {
	case *ssa.Parameter:
		return x, nil, true
	case *ssa.Field:
		q, pp, ok := fieldPathOfParam(x.X)
		if !ok {
			return nil, nil, false
		}
		return q, append(pp, fieldNameOf(x)), true
	case *ssa.UnOp:
		if x.Op != token.MUL {
			return nil, nil, false
		}
		switch a := x.X.(type) {
		case *ssa.FieldAddr:
			q, pp, ok := fieldPathOfAddr(a.X)
			if !ok {
				return nil, nil, false
			}
			return q, append(pp, fieldNameOf(a)), true
		case *ssa.Alloc:
			return fieldPathOfAddr(a)
		}
	}
	return nil, nil, false
}

// fieldPathOfAddr: the address of p.f1.f2... where p is a parameter spilled to a local.
func fieldPathOfAddr(v ssa.Value) (*ssa.Parameter, []string, bool) {
	switch a := v.(type) {
	case *ssa.FieldAddr:
		q, pp, ok := fieldPathOfAddr(a.X)
		if !ok {
			return nil, nil, false
		}
		return q, append(pp, fieldNameOf(a)), true
	case *ssa.Alloc:
		if a.Referrers() == nil {
			return nil, nil, false
		}
		var q *ssa.Parameter
		n := 0
		for _, r := range *a.Referrers() {
			if st, isSt := r.(*ssa.Store); isSt && st.Addr == ssa.Value(a) {
				n++
				q, _ = st.Val.(*ssa.Parameter)
			}
		}
		if n == 1 && q != nil {
			return q, nil, true
		}
	case *ssa.Parameter:
		if _, isPtr := a.Type().Underlying().(*types.Pointer); isPtr {
			return a, nil, true
		}
	}
	return nil, nil, false
}

func allByteStrings(maxLen int, vals int64) [][]int64 {
	out := [][]int64{{}}
	prev := [][]int64{{}}
	for l := 1; l <= maxLen; l++ {
		var cur [][]int64
		for _, p := range prev {
			for v := int64(0); v < vals; v++ {
				cur = append(cur, append(append([]int64(nil), p...), v))
			}
		}
		out = append(out, cur...)
		prev = cur
	}
	return out
}

func checkByteOrder(c *Ctx, lt, eq *ssa.Function) {
	strs := allByteStrings(2, 3)
	table := func(fn *ssa.Function) (map[[2]int]bool, string) {
		res := map[[2]int]bool{}
		for i, a := range strs {
			for j, b := range strs {
				a, b := a, b
				m := newBSMachine(nil, func(v ssa.Value) ([]int64, bool) {
					switch v {
					case ssa.Value(fn.Params[0]):
						return a, true
					case ssa.Value(fn.Params[1]):
						return b, true
					}
					return nil, false
				})
				w := m.vl.Walk(fn.Blocks[0], nil)
				r, known := w.RetBool[0]
				if m.crash != "" || !w.OK || !known {
					return nil, fmt.Sprintf("%v vs %v: not computable (%s%s)", a, b, m.crash, w.Why)
				}
				res[[2]int{i, j}] = r
			}
		}
		return res, ""
	}
	ltT, why1 := table(lt)
	eqT, why2 := table(eq)
	if why1 != "" || why2 != "" {
		c.Fail("C19.order", ShortName(lt), c.Prog.FuncPos(lt), why1+why2)
		return
	}
	same := func(a, b []int64) bool {
		if len(a) != len(b) {
			return false
		}
		for i := range a {
			if a[i] != b[i] {
				return false
			}
		}
		return true
	}
	bad := ""
	for i, a := range strs {
		for j, b := range strs {
			if eqT[[2]int{i, j}] != same(a, b) {
				bad = fmt.Sprintf("byteEQ(%v, %v) = %v", a, b, eqT[[2]int{i, j}])
			}
			n := 0
			for _, t := range []bool{ltT[[2]int{i, j}], ltT[[2]int{j, i}], same(a, b)} {
				if t {
					n++
				}
			}
			if n != 1 {
				bad = fmt.Sprintf("byteLT is not a strict total order: for %v and %v, less=%v, greater=%v, equal=%v", a, b, ltT[[2]int{i, j}], ltT[[2]int{j, i}], same(a, b))
			}
			for k := range strs {
				if ltT[[2]int{i, j}] && ltT[[2]int{j, k}] && !ltT[[2]int{i, k}] {
					bad = fmt.Sprintf("byteLT is not transitive on %v, %v, %v", a, b, strs[k])
				}
			}
		}
	}
	c.Oblige("C19.order", ShortName(lt)+"+"+ShortName(eq), c.Prog.FuncPos(lt), bad == "", bad)
	c.Saw("byte_string_pairs", fmt.Sprintf("%d", len(strs)*len(strs)))
}

func checkOpcodeValidate(c *Ctx, vf *ssa.Function) {
	recv := vf.Params[0]
	for _, sc := range []struct {
		lb, lm int
		last   int64
	}{{0, 0, 0}, {0, 1, 1}, {1, 0, 0}, {1, 2, 1}, {2, 1, 1}, {1, 1, 0}, {1, 1, 1}, {2, 2, 0}, {2, 2, 128}, {4, 4, 255}, {4, 4, 0}} {
		sc := sc
		bytes := make([]int64, sc.lb)
		mask := make([]int64, sc.lm)
		for i := range mask {
			mask[i] = 1
		}
		if sc.lm > 0 {
			mask[sc.lm-1] = sc.last
		}
		var m *bsMachine
		m = newBSMachine(SamePackage(vf), func(v ssa.Value) ([]int64, bool) {
			// a field of the pattern, also when it was handed to a helper
			if p, name, ok := fieldOfParam(v); ok && (p == recv || m.vl.Root(p) == ssa.Value(recv) || IsParam(m.vl.Root(p), recv)) {
				switch name {
				case "Bytes":
					return bytes, true
				case "Mask":
					return mask, true
				}
			}
			return nil, false
		})
		w := m.vl.Walk(vf.Blocks[0], nil)
		key := fmt.Sprintf("%s/bytes=%d,mask=%d,last-mask-byte=%d", ShortName(vf), sc.lb, sc.lm, sc.last)
		want := sc.lb == 0 || sc.lb != sc.lm || sc.last == 0
		isNil, known := w.RetNil[0]
		switch {
		case m.crash != "" && !want:
			c.Fail("C19.valid", key, c.Prog.FuncPos(vf), "Validate crashes: "+m.crash)
		case m.crash != "":
			c.Fail("C19.valid", key, c.Prog.FuncPos(vf), "Validate crashes instead of returning an error: "+m.crash)
		case !w.OK || !known:
			c.Fail("C19.valid", key, c.Prog.FuncPos(vf), "not computable: "+w.Why)
		default:
			c.Oblige("C19.valid", key, c.Prog.FuncPos(vf), isNil == !want, fmt.Sprintf("accepted=%v, expected %v", isNil, !want))
		}
	}
}

// checkAmbiguitySite: rules C19.dep and C19.pairs at one call of the
// two-pattern error constructor.
func checkAmbiguitySite(c *Ctx, fn *ssa.Function, cs CallSite, n int, enter func(*ssa.Function) bool, lt, eq *ssa.Function) {
	pos := c.Prog.Pos(cs.Pos())
	fieldRead := func(names ...string) func(ssa.Value) bool {
		return func(v ssa.Value) bool {
			switch v.(type) {
			case *ssa.FieldAddr, *ssa.Field:
				nm := fieldNameOf(v)
				for _, x := range names {
					if nm == x {
						return true
					}
				}
			}
			return false
		}
	}
	// the object an argument stands for: the cell (or element address) it is loaded from
	baseOf := func(v ssa.Value) ssa.Value {
		if ld, ok := Unwrap(v).(*ssa.UnOp); ok && ld.Op == token.MUL {
			return ld.X
		}
		return nil
	}
	var conds []ssa.Value
	for _, g := range GuardsOf(cs.Block()) {
		conds = append(conds, g.Cond)
	}
	for ai, arg := range cs.Common().Args {
		base := baseOf(arg)
		key := fmt.Sprintf("%s/ambiguity#%d/pattern-%d", ShortName(fn), n, ai+1)
		if base == nil {
			// handed out by a lookup (not a pattern this function iterates over):
			// nothing to anchor the dependence on
			c.Pass("C19.dep", key, pos, "pattern obtained from a lookup")
			continue
		}
		isBase := func(v ssa.Value) bool {
			if v == base || SameValue(v, base) {
				return true
			}
			a, ok1 := v.(*ssa.IndexAddr)
			b, ok2 := base.(*ssa.IndexAddr)
			return ok1 && ok2 && (a.X == b.X || SameValue(a.X, b.X)) && (a.Index == b.Index || SameValue(a.Index, b.Index))
		}
		reaches := func(barrier func(ssa.Value) bool) bool {
			for _, cond := range conds {
				if DependsOnViaCtl(nil, cond, enter, isBase, barrier) {
					return true
				}
			}
			return false
		}
		why := ""
		switch {
		case !reaches(fieldRead("Mask", "opcoder")):
			why = "the decision never reads the bytes of this pattern"
		case !reaches(fieldRead("Bytes", "opcoder")):
			why = "the decision never reads the mask of this pattern (only its raw bytes): patterns whose masks overlap partially are not told apart from conflicting ones"
		}
		c.Oblige("C19.dep", key, pos, why == "", why)
	}
	// C19.lookup: between patterns of different masks a conflict cannot be found
	// by looking one pattern's bytes up among the others (the lookup compares
	// under the other group's mask only); it takes a predicate of both patterns
	if len(fn.Params) == 1 {
		for _, cond := range conds {
			viaLookup := DependsOnViaCtl(nil, cond, nil, func(v ssa.Value) bool {
				call, ok := v.(*ssa.Call)
				if !ok || call.Call.StaticCallee() == nil || PkgPathOf(call.Call.StaticCallee()) != PkgPathOf(fn) {
					return false
				}
				g := Origin(call.Call.StaticCallee())
				if g == lt || g == eq || g.Blocks == nil {
					return false
				}
				// a function that searches (sort.Search or a loop over patterns) for a byte string
				takesBytes := false
				for _, p := range g.Params {
					if isByteSliceT(p.Type()) {
						takesBytes = true
					}
				}
				searches := false
				for _, cs := range Calls(g) {
					if f := Callee(cs.Common()); f != nil && f.String() == "sort.Search" {
						searches = true
					}
				}
				for _, b := range g.Blocks {
					if inAnyLoop(b) {
						searches = true
					}
				}
				return takesBytes && searches && g.Signature.Results().Len() == 2
			}, nil)
			if viaLookup {
				c.Fail("C19.dep", fmt.Sprintf("%s/ambiguity#%d/by-lookup", ShortName(fn), n), pos, "the conflict between patterns of different masks is decided by looking one pattern up among the others: the lookup compares under one mask only, bits that only the probing pattern's mask selects are treated as fixed (or ignored)")
			}
		}
	}
	// C19.pairs, for sites outside the single-group constructor: both patterns
	// come from loops over the pattern lists of two groups, the groups from two
	// loops over the same group list
	loops := RangeLoops(fn)
	var inLoops []*RangeLoop
	for _, l := range loops {
		if LoopBlocks(l.Header)[cs.Block()] && l.FixedTrips && !l.IsMap {
			inLoops = append(inLoops, l)
		}
	}
	if len(fn.Params) == 1 && len(inLoops) >= 2 {
		groupLoops, patLoops := 0, 0
		for _, l := range inLoops {
			if DependsOn(l.Over, func(v ssa.Value) bool { return v == ssa.Value(fn.Params[0]) }) && !DependsOn(l.Over, fieldRead("opcodes")) {
				groupLoops++
			}
			if DependsOn(l.Over, fieldRead("opcodes")) {
				patLoops++
			}
		}
		c.Oblige("C19.pairs", fmt.Sprintf("%s/ambiguity#%d", ShortName(fn), n), pos, groupLoops >= 2 && patLoops >= 2,
			fmt.Sprintf("the site is inside %d loop(s) over the groups and %d loop(s) over the patterns of a group; every pattern of every pair of groups has to be compared (2 and 2)", groupLoops, patLoops))
	}
}

// checkConflictPredicate: rule C19.conflict for fn(o1, o2 Opcode) bool.
func checkConflictPredicate(c *Ctx, fn *ssa.Function) {
	// bytes are touched bitwise only
	for _, b := range fn.Blocks {
		for _, in := range b.Instrs {
			bo, ok := in.(*ssa.BinOp)
			if !ok {
				continue
			}
			bt, isB := bo.X.Type().Underlying().(*types.Basic)
			if !isB || bt.Kind() != types.Uint8 {
				continue
			}
			switch bo.Op {
			case token.AND, token.OR, token.XOR, token.AND_NOT, token.EQL, token.NEQ:
			default:
				c.Fail("C19.conflict", ShortName(fn)+"/bitwise-only", c.Prog.Pos(bo.Pos()), "a byte is used with "+bo.Op.String()+": the answer for wide bytes does not follow from the answer per bit")
				return
			}
		}
	}
	type scen struct{ b1, m1, b2, m2 []int64 }
	var scens []scen
	for v := 0; v < 256; v++ { // one byte each, two bits per byte
		scens = append(scens, scen{[]int64{int64(v & 3)}, []int64{int64(v >> 2 & 3)}, []int64{int64(v >> 4 & 3)}, []int64{int64(v >> 6 & 3)}})
	}
	bits := func(v, n int) []int64 {
		out := make([]int64, n)
		for i := range out {
			out[i] = int64(v >> i & 1)
		}
		return out
	}
	for _, ls := range [][2]int{{1, 2}, {2, 1}, {2, 2}} { // one bit per byte
		n := 2 * (ls[0] + ls[1])
		for v := 0; v < 1<<n; v++ {
			s := scen{bits(v, ls[0]), bits(v>>ls[0], ls[0]), bits(v>>(2*ls[0]), ls[1]), bits(v>>(2*ls[0]+ls[1]), ls[1])}
			scens = append(scens, s)
		}
	}
	// the cached masked bytes of a pattern record: its only []byte field
	maskedField, usesMasked := "", false
	if st, ok := fn.Params[0].Type().Underlying().(*types.Struct); ok {
		for i := 0; i < st.NumFields(); i++ {
			if isByteSliceT(st.Field(i).Type()) {
				if maskedField != "" {
					maskedField = "?"
				} else {
					maskedField = st.Field(i).Name()
				}
			}
		}
	}
	bad, walked := "", 0
	for _, s := range scens {
		s := s
		if len(s.b1) != len(s.m1) || len(s.b2) != len(s.m2) {
			continue
		}
		m := newBSMachine(SamePackage(fn), func(v ssa.Value) ([]int64, bool) {
			if p, path, ok := fieldPathOfParam(v); ok && len(path) > 0 && (p == fn.Params[0] || p == fn.Params[1]) {
				b, mk := s.b1, s.m1
				if p == fn.Params[1] {
					b, mk = s.b2, s.m2
				}
				switch name := path[len(path)-1]; {
				case name == "Bytes":
					return b, true
				case name == "Mask":
					return mk, true
				case len(path) == 1 && name == maskedField:
					// the record's cached masked bytes (C19.conflict/masked-field)
					usesMasked = true
					out := make([]int64, len(mk))
					for i := range mk {
						if i < len(b) {
							out[i] = b[i] & mk[i]
						}
					}
					return out, true
				}
			}
			return nil, false
		})
		w := m.vl.Walk(fn.Blocks[0], nil)
		got, known := w.RetBool[0]
		at := fmt.Sprintf("for bytes %v mask %v and bytes %v mask %v", s.b1, s.m1, s.b2, s.m2)
		if m.crash != "" {
			bad = at + ": " + m.crash
			break
		}
		if !w.OK || !known {
			bad = at + ": not computable: " + w.Why
			break
		}
		walked++
		want := true
		for i := 0; i < len(s.b1) && i < len(s.b2); i++ {
			if (s.b1[i]^s.b2[i])&s.m1[i]&s.m2[i] != 0 {
				want = false
			}
		}
		if got != want {
			bad = fmt.Sprintf("%s the answer is conflict=%v, but a common byte string %s", at, got, map[bool]string{true: "exists", false: "does not exist"}[want])
			break
		}
	}
	c.Oblige("C19.conflict", ShortName(fn), c.Prog.FuncPos(fn), bad == "", bad)
	c.Saw("conflict_scenarios", fmt.Sprintf("%s: %d", ShortName(fn), walked))
	_ = usesMasked // the field's content is decided for every tree: C19.match .../<field>
}

// checkMaskedField: the predicate read the pattern record's cached masked bytes
// and was walked with them equal to bytes & mask; that is what the record must
// hold: every store to the field is g(o.Bytes, o.Mask) of the Opcode o the
// record is built around, and g, walked over small strings, is the bytewise
// conjunction over the mask's length.
func checkMaskedField(c *Ctx, pkgPath string, rec types.Type, field string) {
	key := "internal/opcode." + NamedOf(rec).Obj().Name() + "/" + field
	nStores := 0
	bad := ""
	var maskFn *ssa.Function
	for _, f := range c.Prog.FuncsIn(pkgPath) {
		for _, b := range f.Blocks {
			for _, in := range b.Instrs {
				st, ok := in.(*ssa.Store)
				if !ok {
					continue
				}
				fa, ok := st.Addr.(*ssa.FieldAddr)
				if !ok || fieldNameOf(fa) != field || !sameNamedOrigin(derefT(fa.X.Type()), rec) {
					continue
				}
				nStores++
				call, ok := st.Val.(*ssa.Call)
				if !ok || call.Call.StaticCallee() == nil || len(call.Call.Args) != 2 {
					bad = c.Prog.Pos(st.Pos()) + ": not a call g(bytes, mask)"
					continue
				}
				n0, o0, ok0 := FieldNameOfRead(call.Call.Args[0])
				n1, o1, ok1 := FieldNameOfRead(call.Call.Args[1])
				if !ok0 || !ok1 || n0 != "Bytes" || n1 != "Mask" || !SameValue(o0, o1) {
					bad = c.Prog.Pos(st.Pos()) + ": the arguments are not the Bytes and the Mask of one Opcode"
					continue
				}
				// that Opcode is the one stored in the same record
				same := false
				if fa.X.Referrers() != nil {
					for _, r := range *fa.X.Referrers() {
						if fa2, ok := r.(*ssa.FieldAddr); ok && fa2.Referrers() != nil {
							for _, rr := range *fa2.Referrers() {
								if st2, ok := rr.(*ssa.Store); ok && st2.Addr == ssa.Value(fa2) {
									if st2.Val == o0 || SameValue(st2.Val, o0) {
										same = true
									}
									// the Opcode lives in a local: the record gets a load of it
									if ld, isLd := st2.Val.(*ssa.UnOp); isLd && ld.Op == token.MUL && ld.X == o0 {
										same = true
									}
								}
							}
						}
					}
				}
				if !same {
					bad = c.Prog.Pos(st.Pos()) + ": the masked bytes are those of another Opcode than the record's"
				}
				maskFn = Origin(call.Call.StaticCallee())
			}
		}
	}
	if nStores == 0 {
		bad = "no construction of the pattern record found"
	}
	if bad == "" && maskFn != nil && maskFn.Blocks != nil && len(maskFn.Params) == 2 {
		strs := allByteStrings(2, 4)
		for _, mk := range strs {
			for _, b := range strs {
				if len(b) < len(mk) || bad != "" {
					continue
				}
				h := newByteHeap(maskFn, nil, 0)
				bb, mm := append([]int64(nil), b...), append([]int64(nil), mk...)
				h.slices = map[*ssa.Parameter]*[]int64{maskFn.Params[0]: &bb, maskFn.Params[1]: &mm}
				res, why := h.walk()
				if why != "" {
					bad = fmt.Sprintf("%s for bytes %v mask %v: %s", ShortName(maskFn), b, mk, why)
					break
				}
				vw, ok := h.viewOf(res.End.(*ssa.Return).Results[0])
				if !ok {
					bad = ShortName(maskFn) + ": the result cannot be evaluated"
					break
				}
				got := vw.bytes()
				if int64(len(mk)) != vw.n {
					bad = fmt.Sprintf("%s(%v, %v) has %d bytes, the mask has %d", ShortName(maskFn), b, mk, vw.n, len(mk))
					break
				}
				for i := range mk {
					if got[i] != b[i]&mk[i] {
						bad = fmt.Sprintf("%s(%v, %v) = %v, not the bytewise conjunction", ShortName(maskFn), b, mk, got)
					}
				}
			}
		}
	} else if bad == "" {
		bad = "the function computing the masked bytes cannot be followed"
	}
	c.Oblige("C19.match", key, "-", bad == "", "the cached masked bytes of a pattern record must equal bytes & mask (the lookup and, where it reads them, the conflict predicate rely on it): "+bad)
}

// sameNamedOrigin: the same named type, whatever its type arguments.
func sameNamedOrigin(a, b types.Type) bool {
	na, ok1 := a.(*types.Named)
	nb, ok2 := b.(*types.Named)
	return ok1 && ok2 && na.Origin().Obj() == nb.Origin().Obj()
}

func derefT(t types.Type) types.Type {
	if p, ok := t.Underlying().(*types.Pointer); ok {
		return p.Elem()
	}
	return t
}

// orderAtoms: Bool atoms for calls of byteLT/byteEQ whose operands are
// classified by cls as the symbols "M" (the masked input) and "C" (the
// candidate), under the outcome rel of comparing M with C (-1, 0, +1).
func orderAtoms(lt, eq *ssa.Function, cls func(ssa.Value) string, rel int) func(ssa.Value) (bool, bool) {
	return func(v ssa.Value) (bool, bool) {
		call, ok := v.(*ssa.Call)
		if !ok || len(call.Call.Args) != 2 {
			return false, false
		}
		f := call.Call.StaticCallee()
		if f != lt && f != eq {
			return false, false
		}
		a, b := cls(call.Call.Args[0]), cls(call.Call.Args[1])
		r := 0
		switch {
		case a == "M" && b == "C":
			r = rel
		case a == "C" && b == "M":
			r = -rel
		case a != "" && a == b:
			r = 0
		default:
			return false, false
		}
		if f == eq {
			return r == 0, true
		}
		return r < 0, true
	}
}

func checkMatchInstruction(c *Ctx, opkg string, enter func(*ssa.Function) bool, lt, eq *ssa.Function) {
	var mi *ssa.Function
	for _, fn := range c.Prog.Funcs() {
		// by role: the function of the package that is given a byte string and
		// answers with (pattern, found) - (a generic method may be listed only
		// through its instances)
		if o := Origin(fn); PkgPathOf(fn) == opkg && o != nil && o.Blocks != nil && o.Parent() == nil && o.Signature.Results().Len() == 2 {
			r0, isN := o.Signature.Results().At(0).Type().(*types.Named)
			r1, isB := o.Signature.Results().At(1).Type().Underlying().(*types.Basic)
			takesBytes := false
			for _, p := range o.Params {
				if isByteSliceT(p.Type()) {
					takesBytes = true
				}
			}
			if isN && isB && r1.Kind() == types.Bool && r0.Obj().Pkg() != nil && r0.Obj().Pkg().Path() == opkg && takesBytes {
				mi = o
			}
		}
	}
	if mi == nil || mi.Blocks == nil {
		c.Undecide("C19.match: matchInstruction not found")
		return
	}
	key := ShortName(mi)
	// the masked input: applyMask(bytes[:len(g.mask)], g.mask)
	var masked ssa.Value
	for _, cs := range Calls(mi) {
		if f := Callee(cs.Common()); f != nil && NameOf(f) == "applyMask" && len(cs.Common().Args) == 2 {
			a := cs.Common().Args
			isMask := func(v ssa.Value) bool { n, _, ok := FieldNameOfLoad(v); return ok && n == "mask" }
			sl, isSl := Unwrap(a[0]).(*ssa.Slice)
			if isMask(a[1]) && isSl && sl.Low == nil && sl.High != nil && DependsOn(sl.X, func(v ssa.Value) bool { return v == ssa.Value(mi.Params[1]) }) &&
				matches(sl.High, func(v ssa.Value, _ *Bind) bool {
					call, ok := v.(*ssa.Call)
					return ok && isBuiltin(call, "len") && isMask(call.Call.Args[0])
				}) {
				masked = cs.Value()
			}
		}
	}
	c.Oblige("C19.match", key+"/masked-prefix", c.Prog.FuncPos(mi), masked != nil, "the input is not compared as applyMask(bytes[:len(mask)], mask)")
	if masked == nil {
		return
	}
	// too short input refused before the prefix is taken
	short := false
	for _, b := range mi.Blocks {
		if ret, ok := b.Instrs[len(b.Instrs)-1].(*ssa.Return); ok && matches(ret.Results[1], BoolPat(false)) {
			for _, g := range GuardsOf(b) {
				if bo, ok := g.Cond.(*ssa.BinOp); ok && (bo.Op == token.GTR || bo.Op == token.LSS) && g.Outcome {
					short = true
				}
			}
		}
	}
	c.Oblige("C19.match", key+"/short-input", c.Prog.FuncPos(mi), short, "an input shorter than the mask is not refused before its prefix is taken")
	cls := func(v ssa.Value) string {
		v = Unwrap(v)
		if v == masked {
			return "M"
		}
		if fv, ok := v.(*ssa.FreeVar); ok {
			// the closure's captured masked input
			_ = fv
			return "M"
		}
		if ld, ok := v.(*ssa.UnOp); ok && ld.Op == token.MUL {
			if al, ok := ld.X.(*ssa.Alloc); ok && al.Referrers() != nil {
				// a captured cell holding the masked input, or a local holding the candidate's bytes
				for _, r := range *al.Referrers() {
					if st, ok := r.(*ssa.Store); ok && st.Addr == ssa.Value(al) {
						if st.Val == masked {
							return "M"
						}
						if n, _, ok := FieldNameOfLoad(st.Val); ok && n == "masked" {
							return "C"
						}
					}
				}
			}
			if _, isFV := ld.X.(*ssa.FreeVar); isFV {
				return "M"
			}
		}
		if n, _, ok := FieldNameOfLoad(v); ok && n == "masked" {
			return "C"
		}
		return ""
	}
	// found only under equality
	nFound := 0
	for _, b := range mi.Blocks {
		ret, ok := b.Instrs[len(b.Instrs)-1].(*ssa.Return)
		if !ok || !matches(ret.Results[1], BoolPat(true)) {
			continue
		}
		nFound++
		okEq := false
		for _, g := range GuardsOf(b) {
			for _, rel := range []int{0} {
				at := orderAtoms(lt, eq, cls, rel)
				// the guard holds when M == C and fails when M != C
				vl0 := &Valuation{Bool: at}
				vlLt := &Valuation{Bool: orderAtoms(lt, eq, cls, -1)}
				vlGt := &Valuation{Bool: orderAtoms(lt, eq, cls, +1)}
				b0, k0 := vl0.EvalBool(g.Cond, nil)
				b1, k1 := vlLt.EvalBool(g.Cond, nil)
				b2, k2 := vlGt.EvalBool(g.Cond, nil)
				if k0 && k1 && k2 && b0 == g.Outcome && b1 != g.Outcome && b2 != g.Outcome {
					okEq = true
				}
			}
		}
		c.Oblige("C19.match", fmt.Sprintf("%s/found-only-if-equal#%d", key, nFound), c.Prog.Pos(ret.Pos()), okEq, "a pattern is returned as found without the masked input having been compared equal to its masked bytes")
	}
	c.RequireCount("C19.match found returns of matchInstruction", nFound, 1)
	// the search predicate: true iff masked <= candidate
	nSearch := 0
	for _, cs := range Calls(mi) {
		f := Callee(cs.Common())
		if f == nil || f.String() != "sort.Search" {
			continue
		}
		nSearch++
		pred, _ := ResolveFunc(cs.Common().Args[1])
		why := ""
		if pred == nil || pred.Blocks == nil {
			why = "the search predicate cannot be resolved"
		} else {
			for _, rel := range []int{-1, 0, 1} {
				vl := &Valuation{Bool: orderAtoms(lt, eq, cls, rel)}
				w := vl.Walk(pred.Blocks[0], nil)
				got, known := w.RetBool[0]
				if !w.OK || !known {
					why = "the search predicate cannot be evaluated: " + w.Why
					break
				}
				if want := rel <= 0; got != want {
					why = fmt.Sprintf("the search predicate is %v when the masked input is %s the candidate; a lower-bound search needs %v", got, map[int]string{-1: "less than", 0: "equal to", 1: "greater than"}[rel], want)
					break
				}
			}
		}
		c.Oblige("C19.match", key+"/search-predicate", c.Prog.Pos(cs.Pos()), why == "", why)
	}
	if nSearch == 0 {
		// a hand-written binary search: the comparison that steers it, evaluated
		// under the three outcomes of the order, is "input <= candidate" (upper
		// half discarded) or "input > candidate" (lower half discarded)
		evalIf := func(b *ssa.BasicBlock, rel int) (bool, bool) {
			iff, ok := b.Instrs[len(b.Instrs)-1].(*ssa.If)
			if !ok {
				return false, false
			}
			vl := &Valuation{Bool: orderAtoms(lt, eq, cls, rel)}
			return vl.EvalBool(iff.Cond, nil)
		}
		isOrderIf := func(b *ssa.BasicBlock) bool {
			for _, rel := range []int{-1, 0, 1} {
				if _, ok := evalIf(b, rel); !ok {
					return false
				}
			}
			return true
		}
		for _, b := range mi.Blocks {
			if !inAnyLoop(b) || !isOrderIf(b) {
				continue
			}
			// the head of a (short-circuit) decision: not reached from another part of one
			head := true
			for _, p := range b.Preds {
				if isOrderIf(p) {
					head = false
				}
			}
			if !head {
				continue
			}
			// where the decision leads for input <, ==, > candidate
			var dest [3]*ssa.BasicBlock
			for i, rel := range []int{-1, 0, 1} {
				cur := b
				for steps := 0; steps < 8 && isOrderIf(cur); steps++ {
					v, _ := evalIf(cur, rel)
					if v {
						cur = cur.Succs[0]
					} else {
						cur = cur.Succs[1]
					}
				}
				dest[i] = cur
			}
			nSearch++
			okTT := dest[0] == dest[1] && dest[1] != dest[2]
			c.Oblige("C19.match", key+"/search-step", c.Prog.FuncPos(mi), okTT, "the comparison steering the hand-written search does not separate input <= candidate from input > candidate: a lower-bound search needs exactly that")
		}
	}
	c.RequireCount("C19.match binary search in matchInstruction", nSearch, 1)
	// Match tries every group
	var mf *ssa.Function
	for _, fn := range c.Prog.Funcs() {
		if os.Getenv("MLTLINT_DEBUG") == "c19" && PkgPathOf(fn) == opkg {
			fmt.Fprintf(os.Stderr, "c19: %s name=%s blocks=%v origin=%v recv=%v\n", fn, NameOf(fn), fn.Blocks != nil, fn.Origin() != nil, fn.Signature.Recv() != nil)
		}
		if o := Origin(fn); PkgPathOf(fn) == opkg && o != nil && o.Blocks != nil && NameOf(o) == "Match" && o.Signature.Recv() != nil {
			mf = o // (the generic method is listed only through its instances)
		}
	}
	if mf != nil {
		all := false
		for _, l := range RangeLoops(mf) {
			if n, _, ok := FieldNameOfLoad(l.Over); ok && n == "groups" && l.FixedTrips {
				for _, cs := range Calls(mf) {
					if f := Callee(cs.Common()); f != nil && Origin(f) == mi && LoopBlocks(l.Header)[cs.Block()] {
						all = true
					}
				}
			}
		}
		c.Oblige("C19.match", ShortName(mf)+"/every-group", c.Prog.FuncPos(mf), all, "Match does not try matchInstruction on every group")
	} else {
		c.Undecide("C19.match: Matcher.Match not found")
	}
}

func checkGrouping(c *Ctx, opkg string, lt, eq *ssa.Function) {
	// comparator: sort.Slice(x, func(i, j) bool { return byteLT(key(x[i]), key(x[j])) })
	sortsBy := func(cc *ssa.CallCommon, field string) bool {
		f := Callee(cc)
		if f == nil || (f.String() != "sort.Slice" && f.String() != "sort.SliceStable") {
			return false
		}
		cmp, bound := ResolveFunc(cc.Args[1])
		if cmp == nil || cmp.Blocks == nil {
			return false
		}
		ps := cmp.Params
		if bound && len(ps) == 3 {
			ps = ps[1:]
		}
		if len(ps) != 2 {
			return false
		}
		n := 0
		for _, b := range cmp.Blocks {
			ret, isRet := b.Instrs[len(b.Instrs)-1].(*ssa.Return)
			if !isRet {
				continue
			}
			n++
			call, ok := Unwrap(ret.Results[0]).(*ssa.Call)
			if !ok || call.Call.StaticCallee() != lt || len(call.Call.Args) != 2 {
				return false
			}
			isKey := func(v ssa.Value, p *ssa.Parameter, other *ssa.Parameter) bool {
				nm, _, ok := FieldNameOfLoad(v)
				uses := func(q *ssa.Parameter) bool { return DependsOn(v, func(x ssa.Value) bool { return x == ssa.Value(q) }) }
				return ok && nm == field && uses(p) && !uses(other)
			}
			if !isKey(call.Call.Args[0], ps[0], ps[1]) || !isKey(call.Call.Args[1], ps[1], ps[0]) {
				return false
			}
		}
		return n == 1
	}
	byName := func(name string) *ssa.Function {
		for _, fn := range c.Prog.Funcs() {
			if o := Origin(fn); PkgPathOf(fn) == opkg && o != nil && o.Blocks != nil && o.Parent() == nil && NameOf(o) == name && o.Signature.Recv() == nil {
				return o
			}
		}
		return nil
	}
	if g := byName("group"); g != nil {
		sorted := false
		for _, cs := range Calls(g) {
			if sortsBy(cs.Common(), "Mask") {
				sorted = true
			}
		}
		c.Oblige("C19.group", ShortName(g)+"/sorted-by-mask", c.Prog.FuncPos(g), sorted, "the patterns are not sorted by mask (byteLT) before being cut into groups")
		// the cut: the first index whose mask differs from the first pattern's
		cut := false
		for _, cs := range Calls(g) {
			if f := Callee(cs.Common()); f != nil && f.String() == "sort.Search" {
				if pred, _ := ResolveFunc(cs.Common().Args[1]); pred != nil && pred.Blocks != nil {
					for _, b := range pred.Blocks {
						if ret, ok := b.Instrs[len(b.Instrs)-1].(*ssa.Return); ok {
							if not, isNot := Unwrap(ret.Results[0]).(*ssa.UnOp); isNot && not.Op == token.NOT {
								if call, isCall := not.X.(*ssa.Call); isCall && call.Call.StaticCallee() == eq {
									cut = true
								}
							}
						}
					}
				}
			}
		}
		c.Oblige("C19.group", ShortName(g)+"/cut-where-mask-changes", c.Prog.FuncPos(g), cut, "a group does not end at the first pattern whose mask is not byteEQ to the group's mask")
	} else {
		c.Undecide("C19.group: group not found")
	}
	if ng := byName("newMaskGroup"); ng != nil {
		sorted := false
		for _, cs := range Calls(ng) {
			if sortsBy(cs.Common(), "masked") {
				sorted = true
			}
		}
		c.Oblige("C19.group", ShortName(ng)+"/sorted-by-masked-bytes", c.Prog.FuncPos(ng), sorted, "the patterns of a group are not sorted by their masked bytes (byteLT): the binary search and the duplicate check rely on it")
		// adjacent duplicates
		dup := false
		for _, cs := range Calls(ng) {
			if f := Callee(cs.Common()); f != eq || len(cs.Common().Args) != 2 {
				continue
			}
			idx := func(v ssa.Value) (ssa.Value, bool) {
				var out ssa.Value
				ok := DependsOn(v, func(x ssa.Value) bool {
					if ia, isIA := x.(*ssa.IndexAddr); isIA {
						out = ia.Index
						return true
					}
					return false
				})
				return out, ok
			}
			i1, ok1 := idx(cs.Common().Args[0])
			i2, ok2 := idx(cs.Common().Args[1])
			if !ok1 || !ok2 {
				continue
			}
			isNext := func(a, b ssa.Value) bool {
				bo, ok := b.(*ssa.BinOp)
				if !ok || bo.Op != token.ADD {
					return false
				}
				k, isC := ConstInt(bo.Y)
				return isC && k == 1 && bo.X == a
			}
			if isNext(i1, i2) || isNext(i2, i1) {
				// an error is returned on the equal outcome
				for _, b := range ng.Blocks {
					if ret, ok := b.Instrs[len(b.Instrs)-1].(*ssa.Return); ok && !IsNilConst(ret.Results[len(ret.Results)-1]) {
						for _, gd := range GuardsOf(b) {
							if gd.Cond == cs.Value() && gd.Outcome {
								dup = true
							}
						}
					}
				}
			}
		}
		c.Oblige("C19.group", ShortName(ng)+"/adjacent-duplicates", c.Prog.FuncPos(ng), dup, "two patterns with equal masked bytes (neighbours after sorting) are not reported")
	} else {
		c.Undecide("C19.group: newMaskGroup not found")
	}
}
