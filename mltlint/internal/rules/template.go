package rules

import (
	"go/types"
	"strings"

	"mltlint/internal/absint"
)

// Helpers over effect templates (term trees produced by absint).

type term = absint.TermV

func asTerm(v absint.Value) (term, bool) {
	t, ok := absint.UnwrapV(v).(term)
	return t, ok
}

func isExprPkgType(t types.Type, names ...string) bool {
	n, ok := t.(*types.Named)
	if !ok || n.Obj().Pkg() == nil || n.Obj().Pkg().Path() != "mltwist/pkg/expr" {
		return false
	}
	for _, x := range names {
		if n.Obj().Name() == x {
			return true
		}
	}
	return false
}

// exprArgIdx lists the argument positions of t that are expression operands.
func exprArgIdx(t term) []int {
	var out []int
	if t.Sig == nil {
		return nil
	}
	ps := t.Sig.Params()
	for i := 0; i < ps.Len() && i < len(t.Args); i++ {
		if isExprPkgType(ps.At(i).Type(), "Expr", "Const", "Binary", "Less", "MemLoad", "RegLoad") {
			out = append(out, i)
		}
	}
	return out
}

// widthOf returns the byte width of a term node: its expr.Width argument, or
// the size of the integer for ConstFrom*, 1 for Zero/One.
func widthOf(in *absint.Interp, t term) (int, bool) {
	switch t.Fn {
	case "global expr.Zero", "global expr.One":
		return 1, true
	case "expr.ConstFromInt", "expr.ConstFromUint":
		if len(t.Args) == 1 {
			if iv, ok := t.Args[0].(absint.IntV); ok {
				return in.ByteWidth(iv), true
			}
		}
		return 0, false
	}
	if t.Sig == nil {
		return 0, false
	}
	ps := t.Sig.Params()
	idx := -1
	for i := 0; i < ps.Len() && i < len(t.Args); i++ {
		if isExprPkgType(ps.At(i).Type(), "Width") {
			if idx >= 0 {
				return 0, false // more than one width parameter
			}
			idx = i
		}
	}
	if idx < 0 {
		return 0, false
	}
	iv, ok := t.Args[idx].(absint.IntV)
	if !ok || !iv.Known() {
		return 0, false
	}
	return int(iv.V), true
}

// walkTerms visits every term node below v (pre-order) with its parent.
func walkTerms(v absint.Value, parent *term, argIdx int, f func(t term, parent *term, argIdx int)) {
	switch x := absint.UnwrapV(v).(type) {
	case term:
		f(x, parent, argIdx)
		for i, a := range x.Args {
			walkTerms(a, &x, i, f)
		}
	case absint.SliceV:
		for i := 0; i < x.Len(); i++ {
			walkTerms(x.At(i), parent, argIdx, f)
		}
	case absint.TupleV:
		for _, a := range x {
			walkTerms(a, parent, argIdx, f)
		}
	}
}

// regLoadKeys collects the key dependence sets of the RegLoad leaves below v;
// RegLoads inside the address of a MemLoad are included only if intoLoads.
func regLoadKeys(v absint.Value, intoLoads bool) []absint.Dep {
	var out []absint.Dep
	var rec func(v absint.Value)
	rec = func(v absint.Value) {
		t, ok := asTerm(v)
		if !ok {
			return
		}
		switch t.Fn {
		case "expr.NewRegLoad":
			out = append(out, absint.DepsOf(t.Args[0]))
			return
		case "expr.NewMemLoad":
			if !intoLoads {
				return
			}
		}
		for _, a := range t.Args {
			rec(a)
		}
	}
	rec(v)
	return out
}

// constDeps collects the dependences of constant leaves (everything that is
// not a RegLoad key) below v.
func constDeps(v absint.Value) absint.Dep {
	var d absint.Dep
	var rec func(v absint.Value)
	rec = func(v absint.Value) {
		t, ok := asTerm(v)
		if !ok {
			d |= absint.DepsOf(v)
			return
		}
		if t.Fn == "expr.NewRegLoad" {
			return
		}
		for _, a := range t.Args {
			rec(a)
		}
	}
	rec(v)
	return d
}

const (
	fieldRd  absint.Dep = 0x1f << 7
	fieldRs1 absint.Dep = 0x1f << 15
	fieldRs2 absint.Dep = 0x1f << 20
	fieldCSR absint.Dep = 0xfff << 20
)

func roleOf(d absint.Dep) string {
	switch d {
	case fieldRd:
		return "rd"
	case fieldRs1:
		return "rs1"
	case fieldRs2:
		return "rs2"
	case fieldCSR:
		return "csr"
	}
	return ""
}

func isGadget(t term) bool { return strings.HasPrefix(t.Fn, "exprtools.") }

func shortFn(t term) string {
	return strings.TrimPrefix(strings.TrimPrefix(t.Fn, "expr."), "exprtools.")
}
