package rules

import (
	"fmt"
	"go/token"
	"sort"

	"golang.org/x/tools/go/ssa"

	. "mltlint/internal/core"
)

// C14.keep: what a write leaves of an interval it overlaps. Sparse.Store
// compares the four addresses (addr, end of the write; Low, High of an
// overlapping interval) and nothing else about them, so its bookkeeping is
// determined by their order. It is walked (E7) with one overlapping interval
// under every weak ordering of the four that is consistent with "the write is
// not empty, the interval is not empty, they overlap", and the intervals put
// into the tree are compared with the specification: the part of the old
// interval in front of the write when Low < addr, the part behind it when
// end < High, both when both hold, and the written range itself.
func checkSparseKeep(c *Ctx) {
	c.Rule("C14.keep", "Sparse.Store, walked with one overlapping interval under every consistent order of (addr, end, Low, High), puts back into the tree exactly [Low, addr) when Low < addr and [end, High) when end < High, and adds [addr, end)")
	st := anchor(c, "(*"+pkgMemory+".Sparse).Store")
	if st == nil || len(st.Params) < 4 {
		return
	}
	// the end of the written range: addr + Addr(w), wherever it is spelled
	isEnd := func(bo *ssa.BinOp) bool {
		return bo.Op == token.ADD && Unwrap(bo.X) == ssa.Value(st.Params[1]) && DependsOn(bo.Y, func(v ssa.Value) bool { return v == ssa.Value(st.Params[3]) })
	}
	nEnd := 0
	for _, b := range st.Blocks {
		for _, in := range b.Instrs {
			if bo, ok := in.(*ssa.BinOp); ok && isEnd(bo) {
				nEnd++
			}
		}
	}
	if nEnd == 0 {
		c.Undecide("C14.keep: the end of the written range (addr + w) not found in Sparse.Store")
		return
	}
	walked := 0
	bad := ""
	for _, ord := range WeakOrderings(4) {
		addr, end, lo, hi := ord[0], ord[1], ord[2], ord[3]
		if !(addr < end && lo < hi && lo < end && addr < hi) {
			continue
		}
		type piece struct{ a, b int64 }
		var got []piece
		unknown := ""
		var vl *Valuation
		vl = &Valuation{
			Int: func(v ssa.Value) (int64, bool) {
				switch x := v.(type) {
				case *ssa.Parameter:
					if x == st.Params[1] {
						return addr, true
					}
				case *ssa.BinOp:
					if isEnd(x) {
						return end, true
					}
				case *ssa.Call:
					if isBuiltin(x, "len") {
						return 1, true // one overlapping interval
					}
				}
				if n, _, ok := FieldNameOfRead(v); ok {
					switch n {
					case "Low":
						return lo, true
					case "High":
						return hi, true
					}
				}
				return 0, false
			},
		}
		vl.Visit = func(in ssa.Instruction) {
			call, ok := in.(*ssa.Call)
			if !ok || call.Call.StaticCallee() == nil || len(call.Call.Args) != 4 {
				return
			}
			// an insertion into the tree: (tree, low, high, value)
			if n := NameOf(Origin(call.Call.StaticCallee())); n != "Add" && n != "Put" {
				return
			}
			a, ok1 := vl.EvalInt(call.Call.Args[1], nil)
			b, ok2 := vl.EvalInt(call.Call.Args[2], nil)
			if !ok1 || !ok2 {
				unknown = "the bounds of an interval put into the tree cannot be evaluated"
				return
			}
			got = append(got, piece{a, b})
		}
		res := vl.Walk(st.Blocks[0], nil)
		at := fmt.Sprintf("for the order addr=%d end=%d Low=%d High=%d (ranks)", addr, end, lo, hi)
		if !res.OK {
			bad = at + ": the write cannot be followed: " + res.Why
			break
		}
		if unknown != "" {
			bad = at + ": " + unknown
			break
		}
		if _, isRet := res.End.(*ssa.Return); !isRet {
			bad = at + ": the write panics"
			break
		}
		walked++
		want := []piece{{addr, end}}
		if lo < addr {
			want = append(want, piece{lo, addr})
		}
		if end < hi {
			want = append(want, piece{end, hi})
		}
		less := func(p []piece) func(i, j int) bool {
			return func(i, j int) bool { return p[i].a < p[j].a || (p[i].a == p[j].a && p[i].b < p[j].b) }
		}
		sort.Slice(got, less(got))
		sort.Slice(want, less(want))
		if fmt.Sprint(got) != fmt.Sprint(want) {
			bad = fmt.Sprintf("%s the tree receives the intervals %v, specified %v: bytes of the old interval outside the write are lost or kept twice", at, got, want)
			break
		}
	}
	c.Oblige("C14.keep", ShortName(st), c.Prog.FuncPos(st), bad == "", bad)
	c.Saw("store_orderings", fmt.Sprintf("%d", walked))
	c.RequireCount("C14.keep consistent orders walked", walked, 9)
}
