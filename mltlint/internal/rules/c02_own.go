package rules

import (
	"fmt"
	"go/constant"
	"go/token"
	"go/types"
	"sort"
	"strings"

	"golang.org/x/tools/go/ssa"

	. "mltlint/internal/core"
)

// checkParserOwnsMatcher decides C02.own.
func checkParserOwnsMatcher(c *Ctx, np *ssa.Function) {
	key := ShortName(np) + "/returned-matcher"
	var built ssa.Value // the matcher NewMatcher returns in this call
	for _, cs := range Calls(np) {
		if f := Callee(cs.Common()); f != nil && strings.Contains(Origin(f).String(), "internal/opcode.NewMatcher") {
			if call, ok := cs.Instr.(*ssa.Call); ok {
				built = extractOf(call, 0)
			}
		}
	}
	if built == nil {
		return // reported by C02.len
	}
	// every value stored into a Parser's matcher field, anywhere in the package
	n := 0
	for _, fn := range c.Prog.Funcs() {
		if PkgPathOf(fn) != PkgPathOf(np) {
			continue
		}
		for _, b := range fn.Blocks {
			for _, in := range b.Instrs {
				st, ok := in.(*ssa.Store)
				if !ok {
					continue
				}
				fa, ok := st.Addr.(*ssa.FieldAddr)
				if !ok || FieldOf(fa) == nil || FieldOf(fa).Name() != "matcher" {
					continue
				}
				n++
				pos := c.Prog.Pos(st.Pos())
				if fn != np {
					c.Fail("C02.own", ShortName(fn)+"/matcher=", pos, "a Parser's matcher is set outside NewParser")
					continue
				}
				why := ""
				var srcs []ssa.Value
				var collect func(v ssa.Value, depth int)
				collect = func(v ssa.Value, depth int) {
					v = Unwrap(v)
					if ph, ok := v.(*ssa.Phi); ok && depth < 6 {
						for _, e := range ph.Edges {
							collect(e, depth+1)
						}
						return
					}
					srcs = append(srcs, v)
				}
				collect(st.Val, 0)
				for _, src := range srcs {
					if src == built {
						continue
					}
					ex, isEx := src.(*ssa.Extract)
					lk, isLk := src.(*ssa.Lookup)
					if isEx {
						lk, isLk = ex.Tuple.(*ssa.Lookup)
					}
					g := (*ssa.Global)(nil)
					if isLk {
						g = GlobalOfLoad(lk.X)
					}
					if g == nil {
						why = "the returned parser's matcher is not the matcher built in this call"
						break
					}
					if w := cacheIsSound(c, np, g, lk, built); w != "" {
						why = "the returned parser's matcher is taken from " + g.Name() + ": " + w
						break
					}
				}
				c.Oblige("C02.own", key+fmt.Sprintf("#%d", n), pos, why == "", why)
			}
		}
	}
	c.RequireCount("C02.own writes of Parser.matcher", n, 1)
}

// cacheIsSound: a matcher read from the package-level map g with lk is the
// matcher of the same configuration. Returns "" or the reason it is not.
func cacheIsSound(c *Ctx, np *ssa.Function, g *ssa.Global, lk *ssa.Lookup, built ssa.Value) string {
	// the only writes of g: in NewParser, g[sameKey] = built
	for _, fn := range c.Prog.Funcs() {
		if PkgPathOf(fn) != PkgPathOf(np) {
			continue
		}
		for _, b := range fn.Blocks {
			for _, in := range b.Instrs {
				mu, ok := in.(*ssa.MapUpdate)
				if !ok || GlobalOfLoad(mu.Map) != g {
					continue
				}
				if fn != np {
					return "the cache is also written by " + ShortName(fn)
				}
				if !(mu.Key == lk.Index || SameValue(mu.Key, lk.Index)) {
					return "a matcher is stored under a different key than it is looked up with"
				}
				if Unwrap(mu.Value) != built {
					return "the cache is filled with something else than the matcher built in this call"
				}
			}
		}
	}
	// the key: a helper of the package applied to NewParser's own parameters
	call, ok := Unwrap(lk.Index).(*ssa.Call)
	if !ok || call.Call.StaticCallee() == nil || call.Call.StaticCallee().Blocks == nil {
		return "the cache key is not computed by a helper from NewParser's parameters (not decidable here)"
	}
	kf := call.Call.StaticCallee()
	vIdx, eIdx := -1, -1
	for i, a := range call.Call.Args {
		switch Unwrap(a) {
		case ssa.Value(np.Params[0]):
			vIdx = i
		case ssa.Value(np.Params[1]):
			eIdx = i
		}
	}
	if vIdx < 0 || eIdx < 0 || len(call.Call.Args) != 2 {
		return "the cache key does not take both the variant and the extensions"
	}
	// declared variants and optional extensions
	pk := c.Prog.ByPath[PkgPathOf(np)]
	constsOf := func(typeName string) []int64 {
		var out []int64
		sc := pk.Types.Scope()
		for _, nm := range sc.Names() {
			k, ok := sc.Lookup(nm).(*types.Const)
			if !ok || !k.Exported() {
				continue
			}
			if n, ok := k.Type().(*types.Named); ok && n.Obj().Name() == typeName {
				if v, exact := constant.Int64Val(k.Val()); exact {
					out = append(out, v)
				}
			}
		}
		sort.Slice(out, func(i, j int) bool { return out[i] < out[j] })
		return out
	}
	variants, exts := constsOf("Variant"), constsOf("Extension")
	if len(variants) < 2 || len(exts) < 2 {
		return "the declared variants/extensions cannot be enumerated"
	}
	// every ordered selection without repetition
	var sels [][]int64
	var rec func(cur []int64, used map[int64]bool)
	rec = func(cur []int64, used map[int64]bool) {
		sels = append(sels, append([]int64(nil), cur...))
		for _, e := range exts {
			if !used[e] {
				used[e] = true
				rec(append(cur, e), used)
				used[e] = false
			}
		}
	}
	rec(nil, map[int64]bool{})
	keyOf := map[int64]string{}
	for _, v := range variants {
		for _, sel := range sels {
			v, sel := v, sel
			var vl *Valuation
			vl = &Valuation{Typed: true, Enter: SamePackage(kf), Int: func(x ssa.Value) (int64, bool) {
				if x == ssa.Value(kf.Params[vIdx]) {
					return v, true
				}
				switch y := x.(type) {
				case *ssa.Call:
					if bi, ok := y.Call.Value.(*ssa.Builtin); ok && bi.Name() == "len" && vl.Root(y.Call.Args[0]) == ssa.Value(kf.Params[eIdx]) {
						return int64(len(sel)), true
					}
				case *ssa.UnOp:
					if ia, ok := y.X.(*ssa.IndexAddr); ok && y.Op == token.MUL && vl.Root(ia.X) == ssa.Value(kf.Params[eIdx]) {
						if i, ok := vl.EvalInt(ia.Index, nil); ok && i >= 0 && i < int64(len(sel)) {
							return sel[i], true
						}
					}
				}
				return 0, false
			}}
			res := vl.Walk(kf.Blocks[0], nil)
			k, known := res.RetInt[0]
			if !res.OK || !known {
				return "the cache key cannot be evaluated: " + res.Why
			}
			set := append([]int64(nil), sel...)
			sort.Slice(set, func(i, j int) bool { return set[i] < set[j] })
			cfg := fmt.Sprintf("variant %d with extensions %v", v, set)
			if other, has := keyOf[k]; has && other != cfg {
				return fmt.Sprintf("%s and %s share the key %d: whichever is built first is handed to the other", other, cfg, k)
			}
			keyOf[k] = cfg
		}
	}
	return ""
}
