package rules

import (
	"fmt"
	"go/token"
	"go/types"
	"os"
	"sort"
	"strings"

	"golang.org/x/tools/go/ssa"

	. "mltlint/internal/core"
)

func init() {
	register("C08", "other", checkC08)
	register("C21", "other", checkC21)
	register("C26", "other", checkC26)
}

const (
	pkgBB     = "internal/deps/internal/basicblock"
	pkgParser = "internal/parser"
	pkgElf    = "internal/elf"
)

// checkCompaction applies E9 to fn: returns the number of compaction loops.
func checkCompaction(c *Ctx, rule string, fn *ssa.Function) int {
	cps := FindCompactions(fn)
	for i, cp := range cps {
		key := fmt.Sprintf("%s/compaction#%d", ShortName(fn), i+1)
		good, bad := cp.UsesAfterLoop()
		switch {
		case len(bad) > 0:
			c.Fail(rule, key, c.Prog.Pos(bad[0].Pos()), "after compacting the slice in place (write index lagging behind the read index) the whole slice is used instead of s[:j]: dropped/merged elements reappear at the tail")
		case len(good) == 0:
			c.Fail(rule, key, c.Prog.Pos(cp.Store.Pos()), "the compacted slice is never resliced to the write index")
		default:
			c.Pass(rule, key, c.Prog.Pos(good[0].Pos()), "")
		}
	}
	if len(cps) == 0 {
		// the other way to drop elements: the kept ones are appended to a list of
		// their own (possibly the prefix of the input's array) and that list is
		// returned - nothing dropped can reappear
		n := 0
		for _, b := range fn.Blocks {
			ret, ok := b.Instrs[len(b.Instrs)-1].(*ssa.Return)
			if !ok || len(ret.Results) == 0 {
				continue
			}
			if _, isSlice := ret.Results[0].Type().Underlying().(*types.Slice); !isSlice || IsNilConst(ret.Results[0]) {
				continue
			}
			built := DependsOn(ret.Results[0], func(v ssa.Value) bool {
				call, ok := v.(*ssa.Call)
				if !ok {
					return false
				}
				bi, isB := call.Call.Value.(*ssa.Builtin)
				_, accIsPhi := call.Call.Args[0].(*ssa.Phi)
				return isB && bi.Name() == "append" && accIsPhi && types.Identical(call.Type(), ret.Results[0].Type())
			})
			if built {
				n++
				c.Pass(rule, fmt.Sprintf("%s/kept-list#%d", ShortName(fn), n), c.Prog.Pos(ret.Pos()), "the kept elements are appended to the list that is returned")
			}
		}
		return n
	}
	return len(cps)
}

func checkC08(c *Ctx) {
	c.Rule("C08.err", "every error produced while building the code model (packages deps and basicblock) is returned to the caller")
	c.Rule("C08.jumps", "deps.jumps: targets are the Possibilities of the value of each RegStore to the instruction pointer, constant-folded before being inspected; a target is dropped only on the edge where it folded to a constant equal to ins.End(); the result is resliced to the write index")
	c.Rule("C08.iter", "no loop of packages deps/basicblock whose trip count is fixed on entry (range, hoisted length) walks the contents of a slice variable while its body inserts into that same variable: the elements moved or added beyond the fixed count would never be visited")
	c.Rule("C08.split", "basicblock: Parse chains sort -> pipelineApply(splitByAddress, splitByJumps) -> splitByJumpTargets -> split(entrypoint) and returns the resulting blocks; splitByAddress cuts exactly where End() != next.Begin(); splitByJumps cuts after an instruction with jump targets; splitByJumpTargets splits at every constant target that fits an address (the split call is under no condition other than is-a-constant, fits, and the loops over blocks, instructions and jumps); block.split rejects addresses outside the block or not at an instruction start")
	n := checkErrflow(c, "C08.err", []string{pkgDeps, pkgBB}, nil)
	c.RequireCount("C08.err calls returning an error", n, 6)

	if j := anchor(c, pkgDeps+".jumps"); j != nil {
		checkJumpsWalk(c, j)
		// whatever the form: the loop over the possibilities is left only when they are exhausted
		for _, l := range possibilityLoops(j) {
			early := ""
			for b := range l {
				for _, s := range b.Succs {
					if !l[s] && !isLoopHeaderOf(b, l) {
						early = c.Prog.Pos(firstPos(b))
					}
				}
			}
			c.Oblige("C08.jumps", ShortName(j)+"/all-possibilities-visited", c.Prog.FuncPos(j), early == "", "the loop over the possible targets can be left early (at "+early+"): the remaining targets of the instruction are lost")
		}
	}

	// --- basicblock
	if p := anchor(c, pkgBB+".Parse"); p != nil {
		var pa, sjt, split *ssa.Call
		for _, cs := range Calls(p) {
			f := Callee(cs.Common())
			if f == nil {
				continue
			}
			call, _ := cs.Instr.(*ssa.Call)
			switch NameOf(Origin(f)) {
			case "pipelineApply":
				pa = call
			case "splitByJumpTargets":
				sjt = call
			}
			if isBlockListSplitter(f) {
				split = call
			}
		}
		okChain := pa != nil && sjt != nil && split != nil
		why := "a stage of the splitting pipeline is missing"
		if okChain {
			// pipelineApply gets both split functions
			var fs []string
			DependsOn(pa.Call.Args[1], func(v ssa.Value) bool {
				if f, ok := v.(*ssa.Function); ok {
					fs = append(fs, NameOf(Origin(f)))
				}
				return false
			})
			has := func(n string) bool {
				for _, x := range fs {
					if x == n {
						return true
					}
				}
				return false
			}
			switch {
			case !has("splitByAddress") || !has("splitByJumps"):
				okChain, why = false, "pipelineApply is not given splitByAddress and splitByJumps"
			case !DependsOn(pa.Call.Args[0], func(v ssa.Value) bool { return v == ssa.Value(p.Params[1]) }):
				okChain, why = false, "the pipeline does not start from Parse's own instruction sequence"
			case !DependsOn(sjt.Call.Args[0], func(v ssa.Value) bool { return v == ssa.Value(pa) }):
				okChain, why = false, "splitByJumpTargets does not consume the pipeline's output"
			case split.Call.Args[len(split.Call.Args)-1] != ssa.Value(p.Params[0]):
				okChain, why = false, "the entry point is not split off"
			case !InstrDominates(sjt, split):
				okChain, why = false, "the entry-point split does not follow the jump-target split"
			}
			// receiver of split holds splitByJumpTargets' result
			if okChain {
				recv := split.Call.Args[0]
				// (a splitter working on a pointer gets the variable holding the
				// list; one that returns the new list gets the list itself)
				stored := DependsOn(recv, func(v ssa.Value) bool { return v == ssa.Value(sjt) })
				if refs := recv.Referrers(); refs != nil && !stored {
					for _, r := range *refs {
						if st, ok := r.(*ssa.Store); ok && st.Addr == recv && DependsOn(st.Val, func(v ssa.Value) bool { return v == ssa.Value(sjt) }) {
							stored = true
						}
					}
				}
				byValue := split.Type() != nil && split.Call.Signature().Results().Len() == 2
				if !stored {
					okChain, why = false, "the entry-point split is applied to something other than the jump-target split's result"
				}
				// returned sequences come from that same variable
				for _, b := range p.Blocks {
					if ret, ok := b.Instrs[len(b.Instrs)-1].(*ssa.Return); ok && IsNilConst(ret.Results[1]) {
						src := recv
						if byValue {
							src = ssa.Value(split) // the list the splitter hands back
						}
						if !DependsOn(ret.Results[0], func(v ssa.Value) bool { return v == src }) || !InstrDominates(split, ret) {
							okChain, why = false, "the returned blocks are not the ones left after the entry-point split"
						}
					}
				}
			}
		}
		c.Oblige("C08.split", ShortName(p)+"/pipeline", c.Prog.FuncPos(p), okChain, why)
	}
	checkShifts(c, "C08.split", pkgBB) // blocks.split opens the slot for the second half by a shift loop or by copy (overlap-safe)
	if sa := anchor(c, pkgBB+".splitByAddress"); sa != nil {
		// an append of a sub-sequence inside the loop happens only on End() != Begin()
		n, bad := 0, ""
		loops := RangeLoops(sa)
		for _, cs := range Calls(sa) {
			bi, ok := cs.Common().Value.(*ssa.Builtin)
			if !ok || bi.Name() != "append" {
				continue
			}
			_ = loops
			inLoop := inAnyLoop(cs.Block()) // whatever the loop's form
			if !inLoop {
				continue
			}
			n++
			g := false
			for _, gd := range GuardsOf(cs.Block()) {
				if bo, ok := gd.Cond.(*ssa.BinOp); ok && (bo.Op == token.EQL || bo.Op == token.NEQ) {
					l, r := "", ""
					if call, ok := Unwrap(bo.X).(*ssa.Call); ok && call.Call.IsInvoke() {
						l = call.Call.Method.Name()
					}
					if call, ok := Unwrap(bo.Y).(*ssa.Call); ok && call.Call.IsInvoke() {
						r = call.Call.Method.Name()
					}
					if ((l == "End" && r == "Begin") || (l == "Begin" && r == "End")) && (bo.Op == token.NEQ) == gd.Outcome {
						g = true
					}
				}
			}
			if !g {
				bad = c.Prog.Pos(cs.Pos())
			}
		}
		c.Oblige("C08.split", ShortName(sa), c.Prog.FuncPos(sa), n >= 1 && bad == "", "a cut is made at "+bad+" without an address gap (End() != next.Begin()), or no cut is ever made")
	}
	if sj := anchor(c, pkgBB+".splitByJumps"); sj != nil {
		n, bad := 0, ""
		loops := RangeLoops(sj)
		for _, cs := range Calls(sj) {
			bi, ok := cs.Common().Value.(*ssa.Builtin)
			if !ok || bi.Name() != "append" {
				continue
			}
			_ = loops
			inLoop := inAnyLoop(cs.Block()) // whatever the loop's form
			if !inLoop {
				continue
			}
			n++
			g := false
			for _, gd := range GuardsOf(cs.Block()) {
				if bo, ok := gd.Cond.(*ssa.BinOp); ok {
					if matches(bo.X, lenOf2(func(v ssa.Value) bool { return matches(v, Invoke("Jumps", Any())) })) {
						if z, isZ := ConstInt(bo.Y); isZ && z == 0 && ((bo.Op == token.GTR && gd.Outcome) || (bo.Op == token.NEQ && gd.Outcome) || (bo.Op == token.EQL && !gd.Outcome) || (bo.Op == token.LEQ && !gd.Outcome)) {
							g = true
						}
					}
				}
			}
			if !g {
				bad = c.Prog.Pos(cs.Pos())
			}
		}
		c.Oblige("C08.split", ShortName(sj), c.Prog.FuncPos(sj), n >= 1 && bad == "", "a cut is made at "+bad+" although the instruction has no jump targets, or no cut is ever made")
	}
	if st := anchor(c, pkgBB+".splitByJumpTargets"); st != nil {
		n := 0
		for _, cs := range Calls(st) {
			f := Callee(cs.Common())
			if f == nil || !isBlockListSplitter(f) {
				continue
			}
			n++
			addr := cs.Common().Args[len(cs.Common().Args)-1]
			constOK, fitOK := false, false
			enterBB := InModulePkg(st)
			isConstOK := func(v ssa.Value) bool {
				ex, ok := v.(*ssa.Extract)
				if !ok || ex.Index != 1 {
					return false
				}
				ta, ok := ex.Tuple.(*ssa.TypeAssert)
				return ok && TypeNameIs(ta.AssertedType, "pkg/expr.Const")
			}
			isFit := func(idx int) func(ssa.Value) bool {
				return func(v ssa.Value) bool {
					ex, ok := v.(*ssa.Extract)
					if !ok || ex.Index != idx {
						return false
					}
					call, ok := ex.Tuple.(*ssa.Call)
					return ok && FuncNameIs(call.Call.StaticCallee(), "pkg/expr.ConstUint")
				}
			}
			// the address is what ConstUint made of a constant, and the split is
			// conditional on both "is a constant" and "fits an address" (written in
			// place or in a helper predicate)
			headers := map[*ssa.BasicBlock]bool{}
			for _, l := range RangeLoops(st) {
				headers[l.Header] = true
			}
			foreign := ""
			for _, gd := range GuardsOf(cs.Block()) {
				mine := false
				if DependsOnVia(nil, gd.Cond, enterBB, isConstOK, nil) || helperTrueImplies(gd.Cond, enterBB, isConstOK) {
					constOK, mine = true, true
				}
				if DependsOnVia(nil, gd.Cond, enterBB, isFit(1), nil) {
					fitOK, mine = true, true
				}
				// any other condition on the way (the loops' own apart) lets a constant
				// target go without a cut
				if !mine && !headers[gd.If.Block()] {
					foreign = c.Prog.Pos(gd.If.Pos())
				}
			}
			if foreign != "" {
				c.Fail("C08.split", ShortName(st)+"/split-at-every-constant-target", c.Prog.Pos(cs.Pos()), "the split is skipped under a further condition ("+foreign+"): a constant jump target may stay inside a block")
			} else {
				c.Pass("C08.split", ShortName(st)+"/split-at-every-constant-target", c.Prog.Pos(cs.Pos()), "")
			}
			if !DependsOnVia(nil, addr, enterBB, isFit(0), nil) {
				fitOK = false
			}
			c.Oblige("C08.split", ShortName(st)+"/split-at-constant-targets", c.Prog.Pos(cs.Pos()), constOK && fitOK, "blocks are split at something that is not a constant jump target fitting an address")
		}
		c.RequireCount("C08.split split call in splitByJumpTargets", n, 1)
		// every instruction of every block, every jump
		nl := 0
		for _, l := range RangeLoops(st) {
			_ = l
			nl++
		}
		checkNoGrowthWhileRanging(c, "C08.iter", []string{pkgBB, pkgDeps})
		c.Oblige("C08.split", ShortName(st)+"/walks-blocks-instructions-jumps", c.Prog.FuncPos(st), nl >= 3, "splitByJumpTargets does not range over blocks, their instructions and their jumps")
	}
}

// --------------------------------------------------------------------- C21

func checkC21(c *Ctx) {
	c.Rule("C21.walk", "parser.Parse ranges over every block of the image; inside a block the address starts at block.Begin(), advances by the parsed instruction's Len() and stops at block.End(); parsed instructions are appended in order")
	c.Rule("C21.same", "wherever parser.Parse (or a helper) decodes, it decodes p.Parse(addr, b) with b = block.Address(addr) of the current block and builds newInstruction(ins, addr, b) from the decoded instruction, the same address and the same bytes, after the decode and ins.Validate() succeeded")
	c.Rule("C21.fresh", "no instruction appended to the result of parser.Parse derives from an element already in a list of instructions: every one is lifted for its own address")
	c.Rule("C21.order", "the instructions Parse returns stay in walk (address) order: where package parser sorts, the comparator decides with comparison operators; a comparator that returns a (converted) difference of addresses has the wrong sign for operands 2^63 or more apart")
	checkNoSubtractingComparators(c, "C21.order", []string{ModulePath + "/" + pkgParser})
	c.Rule("C21.ins", "parser.newInstruction: Bytes = bytes[:ins.ByteLen], Addr = addr, Type/Details copied, Effects = EffectsApply(ins.Effects, ConstFold) and nothing else; Len() is len(Bytes)")
	c.Rule("C21.err", "decode and validation errors abort Parse (error propagation in package parser)")
	n := checkErrflow(c, "C21.err", []string{pkgParser}, nil)
	c.RequireCount("C21.err calls returning an error", n, 3)

	if p := anchor(c, pkgParser+".Parse"); p != nil {
		key := ShortName(p)
		enter := InModulePkg(p)
		// the loop over all blocks of the image, in Parse itself
		var blocks *RangeLoop
		for _, l := range RangeLoops(p) {
			if LoadOfField(l.Over, "Blocks", func(v ssa.Value) bool { return v == ssa.Value(p.Params[0]) }) {
				blocks = l
			}
		}
		isBlock := func(v ssa.Value, chain []*ssa.Call) bool {
			return blocks != nil && DependsOnVia(chain, v, nil, func(x ssa.Value) bool {
				idx, ok := elemLoadIndex(x, blocks.Over)
				return ok && idx == blocks.Key
			}, nil)
		}
		// the platform parser, called on the bytes at the walk address
		decodes := DeepInstrs(p, enter, func(in ssa.Instruction) bool {
			call, ok := in.(*ssa.Call)
			return ok && call.Call.IsInvoke() && call.Call.Method.Name() == "Parse"
		})
		builds := DeepInstrs(p, enter, func(in ssa.Instruction) bool {
			call, ok := in.(*ssa.Call)
			return ok && call.Call.StaticCallee() != nil && NameOf(call.Call.StaticCallee()) == "newInstruction"
		})
		c.RequireCount("C21.walk platform Parse calls reached from parser.Parse", len(decodes), 1)
		c.RequireCount("C21.same newInstruction calls reached from parser.Parse", len(builds), 1)
		for di, s := range decodes {
			call := s.Instr.(*ssa.Call)
			addrArg, bytesArg := call.Call.Args[0], call.Call.Args[1]
			// the walk variable: the address translated up to where it is a phi
			walk, rest := Up(s.Chain, addrArg)
			addr, isPhi := Unwrap(walk).(*ssa.Phi)
			bad := ""
			switch {
			case Unwrap(s.UpRoot(call.Call.Value)) != ssa.Value(p.Params[1]):
				bad = "the bytes are not decoded with Parse's own platform parser"
			case blocks == nil:
				bad = "Parse does not range over m.Blocks: some block of the image is skipped"
			case !isPhi:
				bad = "the address is not a loop variable"
			}
			if bad == "" {
				// bytes = block.Address(addr) of the current block and the same address
				// (the Address call may sit in the decoding helper or at its call site:
				// both sides are compared where the walk variable lives)
				sameAddr := func(v ssa.Value) bool {
					if SameValue(v, addrArg) || v == addrArg {
						return true
					}
					r, _ := UpFrom(s.Chain, v)
					return Unwrap(r) == Unwrap(walk)
				}
				isBlockAt := func(v ssa.Value) bool {
					if isBlock(v, s.Chain) {
						return true
					}
					r, rest := UpFrom(s.Chain, v)
					return isBlock(r, rest)
				}
				okBytes := DependsOnVia(s.Chain, bytesArg, enter, func(v ssa.Value) bool {
					ac, ok := v.(*ssa.Call)
					return ok && ac.Call.StaticCallee() != nil && NameOf(ac.Call.StaticCallee()) == "Address" && len(ac.Call.Args) == 2 &&
						sameAddr(ac.Call.Args[1]) && isBlockAt(ac.Call.Args[0])
				}, nil)
				if !okBytes {
					bad = "the bytes decoded are not block.Address(addr) of the current block at the walk address"
				}
			}
			if bad == "" {
				initOK, stepOK := false, false
				for _, e := range addr.Edges {
					if matches(e, Method("Begin", func(v ssa.Value, _ *Bind) bool { return isBlock(v, rest) })) {
						initOK = true
					}
					if bo, ok := e.(*ssa.BinOp); ok && bo.Op == token.ADD && bo.X == ssa.Value(addr) {
						if matches(bo.Y, Method("Len", func(v ssa.Value, _ *Bind) bool {
							return DependsOnVia(rest, v, enter, func(x ssa.Value) bool {
								nc, ok := x.(*ssa.Call)
								return ok && nc.Call.StaticCallee() != nil && NameOf(nc.Call.StaticCallee()) == "newInstruction"
							}, nil)
						})) {
							stepOK = true
						}
					}
				}
				condOK := false
				if iff, ok := addr.Block().Instrs[len(addr.Block().Instrs)-1].(*ssa.If); ok {
					if bo, ok := iff.Cond.(*ssa.BinOp); ok && bo.Op == token.LSS && bo.X == ssa.Value(addr) &&
						matches(bo.Y, Method("End", func(v ssa.Value, _ *Bind) bool { return isBlock(v, rest) })) {
						condOK = true
					}
				}
				switch {
				case !initOK:
					bad = "the walk does not start at block.Begin()"
				case !stepOK:
					bad = "the address does not advance by the Len() of the instruction just parsed (instructions would overlap or leave gaps)"
				case !condOK:
					bad = "the walk does not continue while addr < block.End()"
				}
			}
			k := key + "/address-walk"
			if di > 0 {
				k = fmt.Sprintf("%s#%d", k, di+1)
			}
			c.Oblige("C21.walk", k, c.Prog.Pos(call.Pos()), bad == "", bad)
			// the instruction built: from what was decoded, at the same address, from the same bytes, after both checks
			for bi, bs := range builds {
				nb := bs.Instr.(*ssa.Call)
				bad := ""
				var valCall *ssa.Call
				for _, cs := range Calls(bs.Fn) {
					if f := Callee(cs.Common()); f != nil && NameOf(f) == "Validate" {
						valCall, _ = cs.Instr.(*ssa.Call)
					}
				}
				sameUp := func(x ssa.Value, xs Site, y ssa.Value, ys Site) bool {
					a, b := Unwrap(xs.UpRoot(x)), Unwrap(ys.UpRoot(y))
					return a == b || SameValue(a, b) || (xs.Fn == ys.Fn && (x == y || SameValue(x, y)))
				}
				switch {
				case !sameUp(nb.Call.Args[1], bs, addrArg, s) || !sameUp(nb.Call.Args[2], bs, bytesArg, s):
					bad = "newInstruction does not receive the same addr and bytes that were parsed"
				case !DependsOnVia(bs.Chain, nb.Call.Args[0], enter, func(v ssa.Value) bool { return v == ssa.Value(call) }, nil):
					bad = "newInstruction does not receive the parsed instruction"
				case valCall == nil:
					bad = "the parsed instruction model is not validated"
				default:
					okBoth := 0
					for _, g := range bs.Guards() {
						x, nn, isNil := NilCheck(g.Cond)
						if !isNil || nn == g.Outcome {
							continue
						}
						if DependsOn(x, func(v ssa.Value) bool { return v == ssa.Value(call) || v == ssa.Value(valCall) }) {
							okBoth++
						}
					}
					if okBoth < 2 {
						bad = "the instruction is built without both the decode and the validation having succeeded"
					}
				}
				k := key + "/built-from-what-was-decoded"
				if bi > 0 || di > 0 {
					k = fmt.Sprintf("%s#%d.%d", k, di+1, bi+1)
				}
				c.Oblige("C21.same", k, c.Prog.Pos(nb.Pos()), bad == "", bad)
				// appended in order
				appended := false
				for _, as := range DeepInstrs(p, enter, func(in ssa.Instruction) bool {
					ac, ok := in.(*ssa.Call)
					if !ok {
						return false
					}
					b, isBi := ac.Call.Value.(*ssa.Builtin)
					return isBi && b.Name() == "append"
				}) {
					ac := as.Instr.(*ssa.Call)
					if DependsOnVia(as.Chain, ac.Call.Args[1], enter, func(v ssa.Value) bool { return v == ssa.Value(nb) }, nil) {
						appended = true
					}
				}
				c.Oblige("C21.walk", key+"/append-in-order", c.Prog.Pos(nb.Pos()), appended, "the parsed instruction is not appended to the result")
			}
		}
	}
	// --- C21.fresh: nothing that is appended to a list of instructions derives
	// from an element of such a list (an instruction lifted for another address)
	if p := c.Prog.Func(ModulePath + "/" + pkgParser + ".Parse"); p != nil {
		enter := InModulePkg(p)
		isInsSlice := func(t types.Type) bool {
			sl, ok := t.Underlying().(*types.Slice)
			return ok && TypeNameIs(sl.Elem(), pkgParser+".Instruction")
		}
		nApp := 0
		for _, as := range DeepInstrs(p, enter, func(in ssa.Instruction) bool {
			ac, ok := in.(*ssa.Call)
			if !ok {
				return false
			}
			b, isBi := ac.Call.Value.(*ssa.Builtin)
			return isBi && b.Name() == "append" && isInsSlice(ac.Type())
		}) {
			ac := as.Instr.(*ssa.Call)
			nApp++
			stale := DependsOnVia(as.Chain, ac.Call.Args[1], enter, func(v ssa.Value) bool {
				ld, ok := v.(*ssa.UnOp)
				if !ok || ld.Op != token.MUL {
					return false
				}
				ia, ok := ld.X.(*ssa.IndexAddr)
				return ok && isInsSlice(ia.X.Type())
			}, func(v ssa.Value) bool {
				// addresses and lengths may well come from the previous instruction
				// (the walk advances by its length); only data flow counts
				b, isBasic := v.Type().Underlying().(*types.Basic)
				return isBasic && b.Info()&types.IsInteger != 0
			})
			k := ShortName(as.Fn) + "/appended-instruction-is-fresh"
			if nApp > 1 {
				k = fmt.Sprintf("%s#%d", k, nApp)
			}
			c.Oblige("C21.fresh", k, c.Prog.Pos(ac.Pos()), !stale, "an instruction put into the result derives from another element of the instruction list: its effects were lifted for a different address")
		}
		c.RequireCount("C21.fresh appends to the instruction list", nApp, 1)
	}
	if ni := anchor(c, pkgParser+".newInstruction"); ni != nil {
		key := ShortName(ni)
		insP, addrP, bytesP := ni.Params[0], ni.Params[1], ni.Params[2]
		fieldVal := map[string]ssa.Value{}
		for _, b := range ni.Blocks {
			for _, in := range b.Instrs {
				if st, ok := in.(*ssa.Store); ok {
					if fa, ok := st.Addr.(*ssa.FieldAddr); ok {
						if f := FieldOf(fa); f != nil && TypeNameIs(fa.X.Type(), "*"+pkgParser+".Instruction") {
							fieldVal[NameOf(f)] = st.Val
						}
					}
				}
			}
		}
		insField := func(name string) Pat {
			return FieldVal(name, func(v ssa.Value, _ *Bind) bool { return IsParam(v, insP) || isLocalCopyOf(v, insP) })
		}
		check := func(field string, ok bool, why string) {
			c.Oblige("C21.ins", key+"/"+field, c.Prog.FuncPos(ni), ok, why)
		}
		check("Addr", fieldVal["Addr"] == ssa.Value(addrP), "Addr is not the address the instruction was parsed at")
		bytesOK := false
		if sl, ok := fieldVal["Bytes"].(*ssa.Slice); ok && sl.X == ssa.Value(bytesP) && sl.Low == nil && sl.High != nil {
			bytesOK = matches(sl.High, Conv(insField("ByteLen")))
		}
		check("Bytes", bytesOK, "Bytes is not bytes[:ins.ByteLen]: the instruction would not carry exactly its own encoding (and Len() would be wrong)")
		effOK := false
		if fieldVal["Effects"] != nil {
			if call, ok := Unwrap(fieldVal["Effects"]).(*ssa.Call); ok && FuncNameIs(call.Call.StaticCallee(), pkgXform+".EffectsApply") {
				fnArg := Unwrap(call.Call.Args[1])
				if mi, ok := fnArg.(*ssa.ChangeType); ok {
					fnArg = mi.X
				}
				f, isF := fnArg.(*ssa.Function)
				effOK = matches(call.Call.Args[0], insField("Effects")) && isF && FuncNameIs(f, pkgXform+".ConstFold")
			}
		}
		check("Effects", effOK, "Effects is not EffectsApply(ins.Effects, ConstFold): the stored effects would not be equivalent to the front end's lifting")
		check("Type", fieldVal["Type"] != nil && matches(fieldVal["Type"], insField("Type")), "Type is not copied from the parsed instruction")
		check("Details", fieldVal["Details"] != nil && matches(fieldVal["Details"], insField("Details")), "Details is not copied from the parsed instruction")
	}
	if ln := anchor(c, "("+pkgParser+".Instruction).Len"); ln != nil {
		ok := false
		for _, b := range ln.Blocks {
			if ret, isRet := b.Instrs[len(b.Instrs)-1].(*ssa.Return); isRet {
				ok = matches(ret.Results[0], Conv(lenOf2(func(v ssa.Value) bool {
					n, _, isF := FieldNameOfLoad(v)
					if isF && n == "Bytes" {
						return true
					}
					f, isField := Unwrap(v).(*ssa.Field)
					return isField && FieldOf(f) != nil && FieldOf(f).Name() == "Bytes"
				})))
			}
		}
		c.Oblige("C21.ins", ShortName(ln), c.Prog.FuncPos(ln), ok, "Len() is not len(Bytes)")
	}
}

// isLocalCopyOf: v is the address of a local copy of parameter p (value
// parameters of struct type are spilled by go/ssa).
func isLocalCopyOf(v ssa.Value, p *ssa.Parameter) bool {
	a, ok := v.(*ssa.Alloc)
	if !ok {
		return false
	}
	refs := a.Referrers()
	if refs == nil {
		return false
	}
	for _, r := range *refs {
		if st, ok := r.(*ssa.Store); ok && st.Addr == ssa.Value(a) && st.Val == ssa.Value(p) {
			return true
		}
	}
	return false
}

// --------------------------------------------------------------------- C26

func checkC26(c *Ctx) {
	c.Rule("C26.err", "error propagation: every call that returns an error in cmd/mltwist, elf, parser, deps and basicblock is either returned (possibly wrapped) or checked against nil with the failure branch returning a non-nil error / terminating")
	c.Rule("C26.exit", "main prints a non-nil error of run() to os.Stderr and calls os.Exit with a non-zero constant; run() rejects argument vectors whose length is not 2 before touching the file")
	c.Rule("C26.alloc", "an allocation whose size derives from an ELF header field (Prog.Memsz/Filesz, Section.Size) is dominated by an upper bound on that size")
	c.Rule("C26.pre", "length preconditions: a slice length that a function relies on without checking (constant index/reslice, panic guarded by len(p) < k, or a callee's such need) is established at every call site; functions reached through an interface (riscv Parser.Parse) or used as a function value (the cutters handed to pipelineApply) with a slice of any length rely on nothing unchecked")
	c.Rule("C26.index", "in the packages that load, decode and model the program (cmd/mltwist, elf, parser, riscv, opcode, deps, basicblock, expr, exprtools, exprtransform, expreval, state, memory, interval) a fixed-size array indexed with a computed value is indexed below its length: the bound follows from the index's type, a mask / remainder / shift by a constant, being the key of a range over an array of that length, or a guarding comparison")
	ni := checkArrayIndexBounds(c, "C26.index", []string{"cmd/mltwist", pkgElf, pkgParser, pkgRiscv, "internal/opcode", pkgDeps, pkgBB, "pkg/expr", "pkg/expr/exprtools", "internal/exprtransform", pkgEval, pkgState, pkgMemory, pkgInterval})
	c.Saw("array_index_sites", fmt.Sprintf("%d", ni))
	np := checkLenPre(c, "C26.pre", []string{pkgRiscv, pkgParser, pkgElf, pkgDeps, pkgBB, "internal/opcode"}, map[string]string{
		"internal/deps.NewCode/newBlock(arg1)#1": "the sequences are the blocks basicblock.Parse returns, and its cutters only produce non-empty pieces (seq[begin:i+1] with i >= begin, the tail only when begin < end; block.split rejects an address at a block's first instruction and addresses that are not instruction starts)",
	})
	c.RequireCount("C26.pre call sites and entry points with a length precondition", np, 2)
	exc := map[string]string{
		"cmd/mltwist.parseElf/(*internal/elf.Parser).Close#1": "deferred Close of a file that was only read: its error cannot change the loaded image",
	}
	n := checkErrflow(c, "C26.err", []string{"cmd/mltwist", pkgElf, pkgParser, pkgDeps, pkgBB}, exc)
	c.RequireCount("C26.err calls returning an error", n, 20)

	if m := anchor(c, "cmd/mltwist.main"); m != nil {
		var runCall *ssa.Call
		for _, cs := range Calls(m) {
			if f := Callee(cs.Common()); f != nil && NameOf(f) == "run" {
				runCall, _ = cs.Instr.(*ssa.Call)
			}
		}
		bad := ""
		if runCall == nil {
			bad = "main does not call run()"
		} else {
			exitOK, printOK := false, false
			for _, cs := range Calls(m) {
				f := Callee(cs.Common())
				if f == nil {
					continue
				}
				guarded := false
				for _, g := range GuardsOf(cs.Block()) {
					x, nn, isNil := NilCheck(g.Cond)
					if isNil && x == ssa.Value(runCall) && nn == g.Outcome {
						guarded = true
					}
				}
				if !guarded {
					continue
				}
				switch f.String() {
				case "os.Exit":
					if k, ok := ConstInt(cs.Common().Args[0]); ok && k != 0 {
						exitOK = true
					}
				case "fmt.Fprintf", "fmt.Fprintln", "fmt.Fprint":
					if u, ok := Unwrap(cs.Common().Args[0]).(*ssa.UnOp); ok {
						if g, ok := u.X.(*ssa.Global); ok && NameOf(g) == "Stderr" {
							printOK = true
						}
					}
				}
			}
			switch {
			case !printOK:
				bad = "a start-up error is not printed to os.Stderr"
			case !exitOK:
				bad = "a start-up error does not end in os.Exit with a non-zero constant status"
			}
		}
		c.Oblige("C26.exit", ShortName(m), c.Prog.FuncPos(m), bad == "", bad)
	}
	if r := anchor(c, "cmd/mltwist.run"); r != nil {
		// os.Args[1] is read only under len(os.Args) == 2
		bad := ""
		n := 0
		for _, b := range r.Blocks {
			for _, in := range b.Instrs {
				ia, ok := in.(*ssa.IndexAddr)
				if !ok {
					continue
				}
				u, ok := ia.X.(*ssa.UnOp)
				if !ok {
					continue
				}
				g, ok := u.X.(*ssa.Global)
				if !ok || NameOf(g) != "Args" {
					continue
				}
				n++
				k, _ := ConstInt(ia.Index)
				have := int64(0)
				for _, gd := range GuardsOf(b) {
					bo, ok := gd.Cond.(*ssa.BinOp)
					if !ok {
						continue
					}
					isLenArgs := func(v ssa.Value) bool {
						return matches(v, lenOf2(func(x ssa.Value) bool {
							uu, ok := Unwrap(x).(*ssa.UnOp)
							if !ok {
								return false
							}
							gg, ok := uu.X.(*ssa.Global)
							return ok && gg.Name() == "Args"
						}))
					}
					if !isLenArgs(bo.X) {
						continue
					}
					kk, isC := ConstInt(bo.Y)
					if !isC {
						continue
					}
					switch {
					case bo.Op == token.NEQ && !gd.Outcome, bo.Op == token.EQL && gd.Outcome:
						have = kk
					case bo.Op == token.LSS && !gd.Outcome, bo.Op == token.GEQ && gd.Outcome:
						if kk > have {
							have = kk
						}
					}
				}
				if have <= k {
					bad = fmt.Sprintf("os.Args[%d] is read with only len(os.Args) >= %d established", k, have)
				}
			}
		}
		c.Oblige("C26.exit", ShortName(r)+"/argument-count", c.Prog.FuncPos(r), bad == "" && n >= 1, bad)
	}

	// --- C26.alloc
	nAlloc := 0
	// keyed by the exported entry point from which the allocation is reached,
	// so that the same allocation keeps its identity when the code around it is
	// moved into or out of helpers
	var entries []*ssa.Function
	for _, fn := range c.Prog.FuncsIn(ModulePath + "/" + pkgElf) {
		if fn.Origin() == nil && fn.Blocks != nil && fn.Parent() == nil && token.IsExported(NameOf(fn)) {
			entries = append(entries, fn)
		}
	}
	sort.Slice(entries, func(i, j int) bool { return entries[i].String() < entries[j].String() })
	seenAlloc := map[ssa.Instruction]bool{}
	for _, entry := range entries {
		for _, st := range DeepInstrs(entry, InModulePkg(entry), func(in ssa.Instruction) bool { _, ok := in.(*ssa.MakeSlice); return ok }) {
			ms := st.Instr.(*ssa.MakeSlice)
			if seenAlloc[ms] {
				continue
			}
			var field string
			if !DependsOnVia(st.Chain, ms.Len, nil, func(v ssa.Value) bool {
				n, _, ok := FieldNameOfLoad(v)
				if ok && (n == "Memsz" || n == "Filesz" || n == "Size") {
					field = n
					return true
				}
				return false
			}, nil) {
				continue
			}
			seenAlloc[ms] = true
			nAlloc++
			key := fmt.Sprintf("%s/make(%s)", ShortName(entry), field)
			bounded := false
			for _, gd := range st.Guards() {
				bo, ok := gd.Cond.(*ssa.BinOp)
				if !ok {
					continue
				}
				// an upper bound: size <= K / size < K true, size > K false ...
				dep := func(v ssa.Value) bool {
					return DependsOn(v, func(x ssa.Value) bool { n, _, ok := FieldNameOfLoad(x); return ok && n == field })
				}
				if dep(bo.X) && !dep(bo.Y) && ((bo.Op == token.LEQ || bo.Op == token.LSS) == gd.Outcome) && (bo.Op == token.LEQ || bo.Op == token.LSS || bo.Op == token.GTR || bo.Op == token.GEQ) {
					// `missing > 0` is a lower bound only: require the non-dependent side to be non-constant-zero
					if k, isK := ConstInt(bo.Y); !(isK && k == 0) {
						bounded = true
					}
				}
			}
			if bounded {
				c.Pass("C26.alloc", key, c.Prog.Pos(ms.Pos()), "")
			} else {
				c.Fail("C26.alloc", key, c.Prog.Pos(ms.Pos()), "allocation of a size taken from the ELF header field "+field+" without an upper bound: a corrupt header crashes the program with an out-of-memory/len-out-of-range panic instead of an error message")
			}
		}
	}
	c.Extra["header_sized_allocations"] = nAlloc
}

// possibilityLoops returns the block sets of the loops of fn that read
// elements of a slice returned by exprtransform.Possibilities.
func possibilityLoops(fn *ssa.Function) []map[*ssa.BasicBlock]bool {
	var out []map[*ssa.BasicBlock]bool
	seen := map[*ssa.BasicBlock]bool{}
	for _, b := range fn.Blocks {
		for _, in := range b.Instrs {
			ia, ok := in.(*ssa.IndexAddr)
			if !ok || !matches(ia.X, CallTo(pkgXform+".Possibilities", Any())) {
				continue
			}
			// innermost loop header dominating b from which b loops back
			var header *ssa.BasicBlock
			for _, h := range fn.Blocks {
				if h.Dominates(b) && LoopBlocks(h)[b] && len(LoopBlocks(h)) > 1 {
					if header == nil || header.Dominates(h) {
						header = h
					}
				}
			}
			if header != nil && !seen[header] {
				seen[header] = true
				out = append(out, LoopBlocks(header))
			}
		}
	}
	return out
}

// isLoopHeaderOf: b is the block of the loop whose exit is the normal one:
// the block that dominates every other block of the set.
func isLoopHeaderOf(b *ssa.BasicBlock, loop map[*ssa.BasicBlock]bool) bool {
	for x := range loop {
		if !b.Dominates(x) {
			return false
		}
	}
	return true
}

// checkJumpsAppendForm decides deps.jumps when it is written as a loop that
// appends the kept targets: every iteration either appends the folded
// possibility or skips it under (folded to a constant) && (== ins.End()).
// checkJumpsWalk follows deps.jumps concretely (E7) for an instruction with
// one effect: when the effect is not a register store to the instruction
// pointer nothing is a jump target; otherwise, for two possible targets and
// every combination of "folds to a constant" and "equals ins.End()", exactly
// the targets that are constants equal to ins.End() are dropped. The form of
// the filtering (in-place compaction, appending, helper predicates) is free.
func checkJumpsWalk(c *Ctx, j *ssa.Function) {
	ipKey := ""
	if ep := c.Prog.SSAPkg[ExprPkg]; ep != nil && ep.Const("IPKey") != nil {
		ipKey = strings.Trim(ep.Const("IPKey").Value.Value.ExactString(), "\"")
	}
	isIPConst := func(v ssa.Value) bool {
		k, ok := Unwrap(v).(*ssa.Const)
		return ok && k.Value != nil && ipKey != "" && strings.Trim(k.Value.ExactString(), "\"") == ipKey
	}
	isCallTo := func(v ssa.Value, name string) *ssa.Call {
		call, ok := Unwrap(v).(*ssa.Call)
		if !ok || call.Call.StaticCallee() == nil || NameOf(Origin(call.Call.StaticCallee())) != name {
			return nil
		}
		return call
	}
	n := 0
	for mask := 0; mask < 64; mask++ {
		isRS, isIP := mask&1 != 0, mask&2 != 0
		konst := [2]bool{mask&4 != 0, mask&8 != 0}
		eq := [2]bool{mask&16 != 0, mask&32 != 0}
		if (!isRS || !isIP) && mask >= 4 {
			continue
		}
		cur := int64(-1)
		var possCall *ssa.Call
		kept := int64(-1)
		appended := int64(0)
		why := ""
		var vl *Valuation
		isPoss := func(v ssa.Value) bool {
			call := isCallTo(vl.Root(v), "Possibilities")
			return call != nil
		}
		vl = &Valuation{
			Enter: SamePackage(j),
			Int: func(v ssa.Value) (int64, bool) {
				if call, ok := v.(*ssa.Call); ok {
					if bi, isBi := call.Call.Value.(*ssa.Builtin); isBi && bi.Name() == "len" {
						if isPoss(call.Call.Args[0]) {
							return 2, true
						}
						if n, _, isF := FieldNameOfLoad(vl.Root(call.Call.Args[0])); isF && n == "Effects" {
							return 1, true
						}
					}
				}
				return 0, false
			},
			Bool: func(v ssa.Value) (bool, bool) {
				switch x := v.(type) {
				case *ssa.Extract:
					if ta, ok := x.Tuple.(*ssa.TypeAssert); ok && x.Index == 1 {
						switch {
						case TypeNameIs(ta.AssertedType, "pkg/expr.RegStore"):
							return isRS, true
						case TypeNameIs(ta.AssertedType, "pkg/expr.Const"):
							if isCallTo(vl.Root(ta.X), "ConstFold") != nil && cur >= 0 && cur < 2 {
								return konst[cur], true
							}
						}
					}
				case *ssa.BinOp:
					if x.Op == token.EQL || x.Op == token.NEQ {
						if isIPConst(vl.Root(x.X)) || isIPConst(vl.Root(x.Y)) {
							return isIP == (x.Op == token.EQL), true
						}
						isEnd := func(v ssa.Value) bool {
							return isCallTo(vl.Root(v), "End") != nil || func() bool { _, p := vl.Root(v).(*ssa.Parameter); return p }()
						}
						isAddr := func(v ssa.Value) bool {
							r := vl.Root(v)
							if ex, ok := r.(*ssa.Extract); ok {
								r = ex.Tuple
							}
							return isCallTo(r, "ConstUint") != nil
						}
						if (isAddr(x.X) && isEnd(x.Y)) || (isAddr(x.Y) && isEnd(x.X)) {
							if cur >= 0 && cur < 2 {
								return eq[cur] == (x.Op == token.EQL), true
							}
						}
					}
				}
				return false, false
			},
		}
		vl.Visit = func(in ssa.Instruction) {
			switch x := in.(type) {
			case *ssa.Call:
				if call := isCallTo(x, "Possibilities"); call != nil {
					possCall = call
					// the value of a RegStore: decided by the source obligation below
				}
				if call := isCallTo(x, "ConstFold"); call != nil {
					// which possibility is being looked at
					cur = -1
					if ld, ok := vl.Root(call.Call.Args[0]).(*ssa.UnOp); ok {
						if ia, ok := ld.X.(*ssa.IndexAddr); ok && isPoss(ia.X) {
							if i, ok := vl.EvalInt(ia.Index, nil); ok {
								cur = i
							}
						}
					}
					if cur < 0 {
						why = "a possibility is constant-folded that is not an element of Possibilities(...)"
					}
				}
				if bi, ok := x.Call.Value.(*ssa.Builtin); ok && bi.Name() == "append" && len(x.Call.Args) == 2 {
					// append(kept, a): one folded target is kept
					if sl, ok := vl.Root(x.Call.Args[1]).(*ssa.Slice); ok {
						if al, isAl := sl.X.(*ssa.Alloc); isAl && al.Referrers() != nil {
							for _, r := range *al.Referrers() {
								if ia, ok := r.(*ssa.IndexAddr); ok && ia.Referrers() != nil {
									for _, r2 := range *ia.Referrers() {
										if st, ok := r2.(*ssa.Store); ok && isCallTo(vl.Root(st.Val), "ConstFold") != nil {
											appended++
										}
									}
								}
							}
						} else if isPoss(sl.X) && sl.High != nil {
							// append(jumpAddrs, addrs[:j]...): j targets are kept
							if k, ok := vl.EvalInt(sl.High, nil); ok {
								kept = k
							}
						}
					}
				}
			}
		}
		res := vl.Walk(j.Blocks[0], nil)
		n++
		key := fmt.Sprintf("%s/walk(RegStore=%v, IPKey=%v", ShortName(j), isRS, isIP)
		want := int64(0)
		if isRS && isIP {
			key += fmt.Sprintf(", constant=%v, equals End()=%v", konst, eq)
			for k := 0; k < 2; k++ {
				if !(konst[k] && eq[k]) {
					want++
				}
			}
		}
		key += ")"
		got := kept
		if got < 0 {
			got = appended
		}
		switch {
		case why != "":
		case !res.OK:
			why = "the function cannot be followed: " + res.Why
		case !(isRS && isIP) && possCall != nil:
			why = "possible targets are taken from an effect that is not a register store to the instruction pointer"
		case isRS && isIP && possCall == nil:
			why = "the possible values of the instruction pointer are not enumerated with Possibilities"
		case got != want:
			why = fmt.Sprintf("%d targets are kept, expected %d (a target is dropped exactly when it folds to a constant equal to ins.End())", got, want)
		}
		if why == "" && possCall != nil {
			// Possibilities(e.Value()) of the asserted RegStore
			if !DependsOn(possCall.Call.Args[0], func(v ssa.Value) bool {
				call, ok := v.(*ssa.Call)
				return ok && call.Call.StaticCallee() != nil && NameOf(call.Call.StaticCallee()) == "Value" && TypeNameIs(call.Call.Args[0].Type(), "pkg/expr.RegStore")
			}) {
				why = "the possibilities are not those of the stored value e.Value()"
			}
		}
		c.Oblige("C08.jumps", key, c.Prog.FuncPos(j), why == "", why)
	}
	c.RequireCount("C08.jumps combinations walked", n, 19)
}

// helperTrueImplies: cond is the k-th (boolean) result of a call to an entered
// helper, and every return of the helper that does not return the constant
// false in that position is reached only over an edge on which a condition
// satisfying pred holds (or returns something derived from such a condition).
func helperTrueImplies(cond ssa.Value, enter func(*ssa.Function) bool, pred func(ssa.Value) bool) bool {
	if un, ok := cond.(*ssa.UnOp); ok && un.Op == token.NOT {
		cond = un.X
	}
	ex, ok := cond.(*ssa.Extract)
	if !ok {
		return false
	}
	call, ok := ex.Tuple.(*ssa.Call)
	if !ok {
		return false
	}
	g := call.Call.StaticCallee()
	if g != nil && g.Blocks == nil {
		g = Origin(g)
	}
	if g == nil || g.Blocks == nil || !enter(g) {
		return false
	}
	found := false
	for _, b := range g.Blocks {
		ret, isRet := b.Instrs[len(b.Instrs)-1].(*ssa.Return)
		if !isRet || ex.Index >= len(ret.Results) {
			continue
		}
		if matches(ret.Results[ex.Index], BoolPat(false)) {
			continue
		}
		ok := DependsOn(ret.Results[ex.Index], pred)
		for _, gd := range GuardsOf(b) {
			if gd.Outcome && pred(gd.Cond) {
				ok = true
			}
			if un, isNot := gd.Cond.(*ssa.UnOp); isNot && un.Op == token.NOT && !gd.Outcome && pred(un.X) {
				ok = true
			}
		}
		if !ok {
			return false
		}
		found = true
	}
	return found
}

func checkJumpsAppendForm(c *Ctx, j *ssa.Function) {
	loops := possibilityLoops(j)
	if len(loops) != 1 {
		c.Undecide("C08.jumps: deps.jumps has neither the in-place compaction form nor a single loop over Possibilities(...)")
		return
	}
	loop := loops[0]
	var header *ssa.BasicBlock
	for b := range loop {
		if isLoopHeaderOf(b, loop) {
			header = b
		}
	}
	// keep = append whose appended element derives from ConstFold(<element of the possibilities>)
	var folded ssa.Value
	isKeep := func(in ssa.Instruction) bool {
		call, ok := in.(*ssa.Call)
		if !ok {
			return false
		}
		bi, ok := call.Call.Value.(*ssa.Builtin)
		if !ok || bi.Name() != "append" {
			return false
		}
		return DependsOn(call.Call.Args[1], func(v ssa.Value) bool {
			if matches(v, CallTo(pkgXform+".ConstFold", Any())) {
				folded = v
				return true
			}
			return false
		})
	}
	body := header.Succs[0]
	nKeep := 0
	for b := range loop {
		for _, in := range b.Instrs {
			if isKeep(in) {
				nKeep++
			}
		}
	}
	c.Oblige("C08.jumps", ShortName(j)+"/fold-before-test", c.Prog.FuncPos(j), nKeep >= 1, "no constant-folded possibility is ever kept as a jump target")
	if nKeep == 0 {
		return
	}
	// blocks that go back to the header without having kept the element
	for b := range loop {
		goesBack := false
		for _, s := range b.Succs {
			if s == header {
				goesBack = true
			}
		}
		if !goesBack || b == header {
			continue
		}
		// is there a path body -> b avoiding keep (b itself without keep)?
		avoid := false
		seen := map[*ssa.BasicBlock]bool{}
		var rec func(x *ssa.BasicBlock)
		rec = func(x *ssa.BasicBlock) {
			if seen[x] || !loop[x] || x == header {
				return
			}
			seen[x] = true
			for _, in := range x.Instrs {
				if isKeep(in) {
					return
				}
			}
			if x == b {
				avoid = true
				return
			}
			for _, s := range x.Succs {
				rec(s)
			}
		}
		rec(body)
		if !avoid {
			continue
		}
		constOK, eqEnd := false, false
		for _, g := range GuardsOf(b) {
			if ex, ok := g.Cond.(*ssa.Extract); ok && ex.Index == 1 && g.Outcome {
				if ta, ok := ex.Tuple.(*ssa.TypeAssert); ok && TypeNameIs(ta.AssertedType, "pkg/expr.Const") && matches(ta.X, CallTo(pkgXform+".ConstFold", Any())) {
					constOK = true
				}
			}
			if cmp, ok := g.Cond.(*ssa.BinOp); ok && (cmp.Op == token.NEQ || cmp.Op == token.EQL) && (cmp.Op == token.EQL) == g.Outcome {
				isAddr := func(v ssa.Value) bool { return matches(v, ExtractN(0, CallTo("pkg/expr.ConstUint", Any()))) }
				isEnd := func(v ssa.Value) bool {
					return matches(v, Method("End", func(x ssa.Value, _ *Bind) bool {
						return IsParam(x, j.Params[0]) || isLocalCopyOf(x, j.Params[0]) || true
					}))
				}
				if (isAddr(cmp.X) && isEnd(cmp.Y)) || (isAddr(cmp.Y) && isEnd(cmp.X)) {
					eqEnd = true
				}
			}
		}
		key := ShortName(j) + "/drop-guard"
		switch {
		case !constOK:
			c.Fail("C08.jumps", key, c.Prog.Pos(firstPos(b)), "a possible target is dropped although it did not fold to a constant")
		case !eqEnd:
			c.Fail("C08.jumps", key, c.Prog.Pos(firstPos(b)), "a constant target is dropped without being equal to ins.End(): a real jump target is lost")
		default:
			c.Pass("C08.jumps", key, c.Prog.Pos(firstPos(b)), "")
		}
	}
	_ = folded
}

// checkNoGrowthWhileRanging: see rule C08.iter.
func checkNoGrowthWhileRanging(c *Ctx, rule string, pkgs []string) {
	// grows(f, i): f stores a longer slice through its i-th (pointer) parameter
	grows := func(f *ssa.Function, i int) bool {
		g := f
		if g.Blocks == nil {
			g = Origin(g)
		}
		if g == nil || g.Blocks == nil || i >= len(g.Params) {
			return false
		}
		for _, b := range g.Blocks {
			for _, in := range b.Instrs {
				if st, ok := in.(*ssa.Store); ok && IsParam(st.Addr, g.Params[i]) {
					if DependsOn(st.Val, func(v ssa.Value) bool {
						call, ok := v.(*ssa.Call)
						if !ok {
							return false
						}
						bi, ok := call.Call.Value.(*ssa.Builtin)
						return ok && bi.Name() == "append"
					}) {
						return true
					}
				}
			}
		}
		return false
	}
	n := 0
	for _, fn := range c.Prog.Funcs() {
		in := false
		for _, p := range pkgs {
			if PkgPathOf(fn) == ModulePath+"/"+p {
				in = true
			}
		}
		if !in || fn.Blocks == nil {
			continue
		}
		for _, l := range RangeLoops(fn) {
			if l.IsMap || !l.FixedTrips {
				continue
			}
			n++
			if os.Getenv("MLTLINT_DEBUG") == "iter" {
				fmt.Fprintf(os.Stderr, "iter: %s over %v (%T)\n", fn, l.Over, l.Over)
			}
			ld, ok := Unwrap(l.Over).(*ssa.UnOp)
			if !ok || ld.Op != token.MUL {
				continue
			}
			cell, ok := ld.X.(*ssa.Alloc)
			if !ok {
				continue
			}
			bad := ""
			for b := range LoopBlocks(l.Header) {
				for _, in := range b.Instrs {
					switch x := in.(type) {
					case *ssa.Store:
						if x.Addr == ssa.Value(cell) && DependsOn(x.Val, func(v ssa.Value) bool {
							call, ok := v.(*ssa.Call)
							if !ok {
								return false
							}
							bi, ok := call.Call.Value.(*ssa.Builtin)
							return ok && bi.Name() == "append"
						}) {
							bad = c.Prog.Pos(x.Pos())
						}
					case ssa.CallInstruction:
						f := x.Common().StaticCallee()
						if f == nil {
							continue
						}
						for i, a := range x.Common().Args {
							if a == ssa.Value(cell) && grows(f, i) {
								bad = c.Prog.Pos(x.Pos())
							}
						}
					}
				}
			}
			if bad != "" {
				c.Fail(rule, fmt.Sprintf("%s/loop-over-%s", ShortName(fn), cell.Comment), c.Prog.FuncPos(fn), "the loop's trip count is fixed on entry but its body inserts into the ranged slice at "+bad+": elements moved beyond the count are never visited")
			}
		}
	}
	c.Oblige(rule, "loops-with-fixed-trip-count", "", true, "")
	c.RequireCount(rule+" fixed-trip loops over slices in deps/basicblock", n, 10)
}

// inAnyLoop: b lies in some natural loop of its function.
func inAnyLoop(b *ssa.BasicBlock) bool {
	for _, h := range b.Parent().Blocks {
		isHeader := false
		for _, p := range h.Preds {
			if h.Dominates(p) {
				isHeader = true
			}
		}
		if isHeader && LoopBlocks(h)[b] {
			return true
		}
	}
	return false
}

// isBlockListSplitter: by role, the function of package basicblock that
// splits the block containing an address: its first parameter is the list of
// blocks (or a pointer to it), its last one the address.
func isBlockListSplitter(f *ssa.Function) bool {
	f = Origin(f)
	if f == nil || PkgPathOf(f) != ModulePath+"/"+pkgBB || len(f.Params) != 2 {
		return false
	}
	t := f.Params[0].Type()
	if p, ok := t.(*types.Pointer); ok {
		t = p.Elem()
	}
	n, ok := t.(*types.Named)
	if !ok {
		return false
	}
	if _, isSlice := n.Underlying().(*types.Slice); !isSlice {
		return false
	}
	a, ok := f.Params[1].Type().(*types.Named)
	return ok && a.Obj().Name() == "Addr"
}

// checkNoSubtractingComparators: see rule C21.order.
func checkNoSubtractingComparators(c *Ctx, rule string, pkgs []string) {
	nFn := 0
	for _, fn := range c.Prog.Funcs() {
		in := false
		for _, p := range pkgs {
			if PkgPathOf(fn) == p {
				in = true
			}
		}
		if !in || fn.Blocks == nil {
			continue
		}
		nFn++
		for _, cs := range Calls(fn) {
			f := Callee(cs.Common())
			if f == nil {
				continue
			}
			name := Origin(f).String()
			if !strings.HasSuffix(name, "slices.SortFunc") && !strings.HasSuffix(name, "slices.SortStableFunc") && !strings.HasSuffix(name, "slices.BinarySearchFunc") {
				continue
			}
			cmp, _ := ResolveFunc(cs.Common().Args[len(cs.Common().Args)-1])
			key := fmt.Sprintf("%s/%s", ShortName(fn), Origin(f).Name())
			if cmp == nil || cmp.Blocks == nil {
				c.Fail(rule, key, c.Prog.Pos(cs.Pos()), "the comparator cannot be resolved")
				continue
			}
			bad := ""
			for _, b := range cmp.Blocks {
				ret, ok := b.Instrs[len(b.Instrs)-1].(*ssa.Return)
				if !ok || len(ret.Results) != 1 {
					continue
				}
				if DependsOn(ret.Results[0], func(v ssa.Value) bool {
					bo, ok := v.(*ssa.BinOp)
					return ok && bo.Op == token.SUB
				}) {
					bad = c.Prog.Pos(ret.Pos())
				}
			}
			c.Oblige(rule, key, c.Prog.Pos(cs.Pos()), bad == "", "the comparator returns a difference (at "+bad+"): for operands far apart the sign is wrong and the list is put out of address order")
		}
	}
	c.RequireCount(rule+" functions of package parser inspected", nFn, 3)
}
