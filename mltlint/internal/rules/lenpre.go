package rules

import (
	"fmt"
	"go/types"
	"sort"

	"golang.org/x/tools/go/ssa"

	. "mltlint/internal/core"
)

// Length preconditions (Engler-style "callee checks, so callers must").
//
// need(f, p) is the least length of the slice parameter p that f relies on
// without establishing it itself: a constant index p[k] or slice p[:k] that no
// dominating guard covers, a panic guarded by len(p) < k, or a call g(p) with
// need(g, q) = k that f does not guard. The needs are propagated to callers
// until a call site passes something that is not the caller's own parameter;
// there the argument must be long enough by construction (guard, constant
// reslice, make with constant length). A function that can be reached with an
// arbitrary slice (an implementation of an interface method that is invoked
// through the interface) must need nothing.

type lenPre struct {
	need  map[*ssa.Parameter]int64
	where map[*ssa.Parameter]string
}

func isByteSlice(t types.Type) bool {
	sl, ok := t.Underlying().(*types.Slice)
	if !ok {
		return false
	}
	b, ok := sl.Elem().Underlying().(*types.Basic)
	return ok && b.Kind() == types.Uint8
}

func isAnySlice(t types.Type) bool {
	_, ok := t.Underlying().(*types.Slice)
	return ok
}

// paramRoot: v is the parameter itself or a phi / reslice p[lo:] (lo const)
// of it whose length is at least len(p) - shrink. Returns the parameter and
// how much shorter v may be.
func paramRoot(v ssa.Value, seen map[ssa.Value]bool) (*ssa.Parameter, int64, bool) {
	if seen[v] {
		return nil, 0, false
	}
	seen[v] = true
	switch x := v.(type) {
	case *ssa.Parameter:
		return x, 0, true
	case *ssa.Slice:
		if x.High == nil && x.Max == nil {
			lo := int64(0)
			if x.Low != nil {
				k, ok := ConstInt(x.Low)
				if !ok {
					return nil, 0, false
				}
				lo = k
			}
			p, s, ok := paramRoot(x.X, seen)
			return p, s + lo, ok
		}
	}
	return nil, 0, false
}

// knownMinLen: the length v certainly has, from its construction alone.
func knownMinLen(v ssa.Value, at *ssa.BasicBlock, seen map[ssa.Value]bool) int64 {
	if seen[v] {
		return 1 << 30
	}
	seen[v] = true
	best := minLenAt(at, v)
	switch x := v.(type) {
	case *ssa.Slice:
		if x.High != nil {
			hi, ok1 := ConstInt(x.High)
			lo := int64(0)
			ok2 := true
			if x.Low != nil {
				lo, ok2 = ConstInt(x.Low)
			}
			if ok1 && ok2 && hi-lo > best {
				best = hi - lo // the slice expression itself panics (checked as a use) when x.X is shorter
			}
		}
		if arr, ok := x.X.Type().Underlying().(*types.Pointer); ok && x.High == nil && x.Low == nil {
			if a, ok := arr.Elem().Underlying().(*types.Array); ok && a.Len() > best {
				best = a.Len()
			}
		}
	case *ssa.MakeSlice:
		if k, ok := ConstInt(x.Len); ok && k > best {
			best = k
		}
	case *ssa.Phi:
		m := int64(1 << 30)
		for i, e := range x.Edges {
			if l := knownMinLen(e, x.Block().Preds[i], seen); l < m {
				m = l
			}
		}
		if m != 1<<30 && m > best {
			best = m
		}
	}
	return best
}

func newLenPre(c *Ctx, fns []*ssa.Function) *lenPre {
	lp := &lenPre{need: map[*ssa.Parameter]int64{}, where: map[*ssa.Parameter]string{}}
	raise := func(p *ssa.Parameter, k int64, where string) bool {
		if k > lp.need[p] {
			lp.need[p] = k
			lp.where[p] = where
			return true
		}
		return false
	}
	// local needs
	for _, fn := range fns {
		for _, b := range fn.Blocks {
			for _, in := range b.Instrs {
				var base ssa.Value
				var k int64
				switch x := in.(type) {
				case *ssa.IndexAddr:
					if kk, ok := ConstInt(x.Index); ok {
						base, k = x.X, kk+1
					}
				case *ssa.Slice:
					if x.High != nil {
						if kk, ok := ConstInt(x.High); ok {
							base, k = x.X, kk
						}
					} else if x.Low != nil {
						if kk, ok := ConstInt(x.Low); ok {
							base, k = x.X, kk
						}
					}
				}
				if base == nil || !isAnySlice(base.Type()) {
					continue
				}
				p, shrink, ok := paramRoot(base, map[ssa.Value]bool{})
				if !ok || p.Parent() != fn {
					continue
				}
				if minLenAt(b, base) >= k || minLenAt(b, p) >= k+shrink {
					continue
				}
				raise(p, k+shrink, c.Prog.Pos(in.Pos()))
			}
			// a panic guarded by len(p) < k
			if BlockExit(b) == ExitPanic {
				for _, g := range GuardsOf(b) {
					for _, p := range fn.Params {
						if !isAnySlice(p.Type()) {
							continue
						}
						// the panic is reached when len(p) >= k is NOT established: find k
						// such that the negated guard gives len >= k
						ng := g
						ng.Outcome = !g.Outcome
						if k, ok := lenGuard(ng, p); ok {
							raise(p, k, c.Prog.Pos(b.Instrs[len(b.Instrs)-1].Pos()))
						}
					}
				}
			}
		}
	}
	// propagate through calls that pass the caller's own parameter on
	for changed := true; changed; {
		changed = false
		for _, fn := range fns {
			for _, cs := range Calls(fn) {
				f := Callee(cs.Common())
				if f == nil || f.Blocks == nil {
					continue
				}
				for i, a := range cs.Common().Args {
					if i >= len(f.Params) {
						continue
					}
					k := lp.need[f.Params[i]]
					if k == 0 {
						continue
					}
					p, shrink, ok := paramRoot(a, map[ssa.Value]bool{})
					if !ok || p.Parent() != fn {
						continue
					}
					if minLenAt(cs.Block(), a) >= k || minLenAt(cs.Block(), p) >= k+shrink {
						continue
					}
					if raise(p, k+shrink, c.Prog.Pos(cs.Pos())+" -> "+lp.where[f.Params[i]]) {
						changed = true
					}
				}
			}
		}
	}
	return lp
}

// checkLenPre emits the obligations of the rule over the functions of the
// given packages and returns the number of call-site obligations.
func checkLenPre(c *Ctx, rule string, pkgs []string, exc map[string]string) int {
	var fns []*ssa.Function
	for _, p := range pkgs {
		for _, fn := range c.Prog.FuncsIn(ModulePath + "/" + p) {
			if fn.Blocks != nil {
				fns = append(fns, fn)
			}
		}
	}
	lp := newLenPre(c, fns)
	var summary []string
	for p, k := range lp.need {
		summary = append(summary, fmt.Sprintf("%s(%s) needs len >= %d (%s)", ShortName(p.Parent()), p.Name(), k, lp.where[p]))
	}
	sort.Strings(summary)
	c.Extra["length_preconditions"] = summary
	// interface methods invoked somewhere in the module
	invoked := map[string]bool{}
	for _, fn := range c.Prog.Funcs() {
		for _, cs := range Calls(fn) {
			if cs.Common().IsInvoke() {
				invoked[cs.Common().Method.Name()] = true
			}
		}
	}
	n := 0
	// entry points must need nothing
	for p, k := range lp.need {
		fn := p.Parent()
		if fn.Signature.Recv() == nil || !invoked[NameOf(fn)] || fn.Synthetic != "" {
			continue
		}
		n++
		c.Fail(rule, ShortName(fn)+"("+p.Name()+")/any-length", c.Prog.FuncPos(fn),
			fmt.Sprintf("%s is called through an interface with a slice of any length but relies on len(%s) >= %d without checking it (%s): a shorter input panics", NameOf(fn), p.Name(), k, lp.where[p]))
	}
	// a function whose value is taken (handed to a pipeline, stored in a table) is
	// called where this rule cannot see its argument: it must need nothing
	taken := map[*ssa.Function]string{}
	for _, fn := range c.Prog.Funcs() {
		if fn.Blocks == nil {
			continue
		}
		for _, b := range fn.Blocks {
			for _, in := range b.Instrs {
				for _, op := range in.Operands(nil) {
					g, ok := (*op).(*ssa.Function)
					if !ok || g == nil {
						continue
					}
					if ci, isCall := in.(ssa.CallInstruction); isCall && ci.Common().Value == ssa.Value(g) {
						continue // the callee of a static call
					}
					taken[Origin(g)] = c.Prog.Pos(in.Pos())
					taken[g] = c.Prog.Pos(in.Pos())
				}
			}
		}
	}
	reported := map[string]bool{}
	for p, k := range lp.need {
		fn := p.Parent()
		if key := ShortName(Origin(fn)) + "(" + p.Name() + ")"; reported[key] || fn.Synthetic != "" {
			continue
		}
		at, isTaken := taken[fn]
		if !isTaken {
			at, isTaken = taken[Origin(fn)]
		}
		if !isTaken || (fn.Signature.Recv() != nil && invoked[NameOf(fn)]) {
			continue
		}
		n++
		reported[ShortName(Origin(fn))+"("+p.Name()+")"] = true
		c.Fail(rule, ShortName(Origin(fn))+"("+p.Name()+")/any-length", c.Prog.FuncPos(fn),
			fmt.Sprintf("%s is used as a function value (%s) and so called with a slice of any length, but relies on len(%s) >= %d without checking it (%s): a shorter input panics", NameOf(fn), at, p.Name(), k, lp.where[p]))
	}
	// call sites passing something else than the caller's own parameter
	for _, fn := range fns {
		if fn.Synthetic != "" {
			continue // instantiation wrappers and the like only hand their parameters on
		}
		ord := map[string]int{}
		for _, cs := range Calls(fn) {
			f := Callee(cs.Common())
			if f == nil || f.Blocks == nil {
				continue
			}
			for i, a := range cs.Common().Args {
				if i >= len(f.Params) {
					continue
				}
				k := lp.need[f.Params[i]]
				if k == 0 {
					continue
				}
				if p, _, ok := paramRoot(a, map[ssa.Value]bool{}); ok && p.Parent() == fn {
					if _, propagated := lp.need[p]; propagated || minLenAt(cs.Block(), a) >= k || minLenAt(cs.Block(), p) >= k {
						// guarded here, or the caller's own precondition (checked at its callers)
						n++
						ord[NameOf(f)]++
						c.Pass(rule, fmt.Sprintf("%s/%s(arg%d)#%d", ShortName(fn), NameOf(Origin(f)), i, ord[NameOf(f)]), c.Prog.Pos(cs.Pos()), "")
						continue
					}
				}
				n++
				ord[NameOf(f)]++
				key := fmt.Sprintf("%s/%s(arg%d)#%d", ShortName(fn), NameOf(Origin(f)), i, ord[NameOf(f)])
				got := knownMinLen(a, cs.Block(), map[ssa.Value]bool{})
				if why, isExc := exc[key]; isExc && got < k {
					c.Note("%s exception %s: %s", rule, key, why)
					c.Pass(rule, key, c.Prog.Pos(cs.Pos()), "exception: "+why)
					continue
				}
				c.Oblige(rule, key, c.Prog.Pos(cs.Pos()), got >= k,
					fmt.Sprintf("%s relies on len >= %d (%s) but the argument is only known to have len >= %d here", ShortName(f), k, lp.where[f.Params[i]], got))
			}
		}
	}
	// entry functions that satisfy themselves: record them as discharged
	for _, fn := range fns {
		if fn.Signature.Recv() == nil || !invoked[NameOf(fn)] || fn.Synthetic != "" {
			continue
		}
		for _, p := range fn.Params {
			if isByteSlice(p.Type()) && lp.need[p] == 0 {
				n++
				c.Pass(rule, ShortName(fn)+"("+p.Name()+")/any-length", c.Prog.FuncPos(fn), "")
			}
		}
	}
	return n
}
