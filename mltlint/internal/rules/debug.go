package rules

import (
	"fmt"
	"os"

	. "mltlint/internal/core"
)

// dbgCalls prints the callees of fn when MLTLINT_DEBUG is set.
func dbgCalls(c *Ctx, name string) {
	if os.Getenv("MLTLINT_DEBUG") == "" {
		return
	}
	f := anchor(c, name)
	if f == nil {
		return
	}
	for _, cs := range Calls(f) {
		cal := Callee(cs.Common())
		o := ""
		if cal != nil {
			o = Origin(cal).String()
		}
		fmt.Fprintf(os.Stderr, "DBG %s: call %v callee=%v origin=%s\n", name, cs.Common(), cal, o)
	}
}
