package rules

import (
	"fmt"
	"go/token"
	"go/types"
	"sort"
	"strings"

	"golang.org/x/tools/go/ssa"

	. "mltlint/internal/core"
)

func init() { register("C07", "other", checkC07) }

type endpoint struct {
	P   *ssa.Parameter
	Off int64
}

func (e endpoint) String() string {
	if e.P == nil {
		return "?"
	}
	if e.Off == 0 {
		return e.P.Name()
	}
	return fmt.Sprintf("%s%+d", e.P.Name(), e.Off)
}

type ival struct{ Lo, Hi endpoint }

// loopRange derives the closed interval of values a counting loop variable
// takes inside the loop body.
func loopRange(ph *ssa.Phi) (ival, bool) {
	var init *ssa.Parameter
	step := int64(0)
	for _, e := range ph.Edges {
		switch x := e.(type) {
		case *ssa.Parameter:
			init = x
		case *ssa.BinOp:
			if x.X == ssa.Value(ph) {
				if k, ok := ConstInt(x.Y); ok && k == 1 {
					if x.Op == token.ADD {
						step = 1
					} else if x.Op == token.SUB {
						step = -1
					}
				}
			}
		}
	}
	if init == nil || step == 0 {
		return ival{}, false
	}
	iff, ok := ph.Block().Instrs[len(ph.Block().Instrs)-1].(*ssa.If)
	if !ok {
		return ival{}, false
	}
	bo, ok := iff.Cond.(*ssa.BinOp)
	if !ok || bo.X != ssa.Value(ph) {
		return ival{}, false
	}
	bp, ok := bo.Y.(*ssa.Parameter)
	if !ok {
		return ival{}, false
	}
	switch {
	case step == 1 && bo.Op == token.LSS:
		return ival{endpoint{init, 0}, endpoint{bp, -1}}, true
	case step == 1 && bo.Op == token.LEQ:
		return ival{endpoint{init, 0}, endpoint{bp, 0}}, true
	case step == -1 && bo.Op == token.GTR:
		return ival{endpoint{bp, 1}, endpoint{init, 0}}, true
	case step == -1 && bo.Op == token.GEQ:
		return ival{endpoint{bp, 0}, endpoint{init, 0}}, true
	}
	return ival{}, false
}

// coversExactly: do the intervals tile [lo,hi] exactly once (adjacent, no
// overlap)? Intervals are symbolic; adjacency is decided on equal parameters.
func coversExactly(ivs []ival, lo, hi *ssa.Parameter) (bool, string) {
	if len(ivs) == 0 {
		return false, "nothing covered"
	}
	// order: the interval starting at lo first, then follow adjacency
	used := make([]bool, len(ivs))
	cur := endpoint{lo, 0}
	for n := 0; n < len(ivs); n++ {
		found := false
		for i, iv := range ivs {
			if used[i] {
				continue
			}
			if iv.Lo == cur {
				used[i] = true
				cur = endpoint{iv.Hi.P, iv.Hi.Off + 1}
				found = true
				break
			}
		}
		if !found {
			var s []string
			for _, iv := range ivs {
				s = append(s, "["+iv.Lo.String()+","+iv.Hi.String()+"]")
			}
			return false, "covered " + strings.Join(s, " ∪ ") + ", expected exactly [" + lo.Name() + "," + hi.Name() + "]"
		}
	}
	if cur != (endpoint{hi, 1}) {
		var s []string
		for _, iv := range ivs {
			s = append(s, "["+iv.Lo.String()+","+iv.Hi.String()+"]")
		}
		return false, "covered " + strings.Join(s, " ∪ ") + ", expected exactly [" + lo.Name() + "," + hi.Name() + "]"
	}
	return true, ""
}

func indexInterval(idx ssa.Value) (ival, bool) {
	switch x := idx.(type) {
	case *ssa.Parameter:
		return ival{endpoint{x, 0}, endpoint{x, 0}}, true
	case *ssa.Phi:
		return loopRange(x)
	}
	return ival{}, false
}

// elemLoadIndex: v is a load of arr[idx]; returns idx.
func elemLoadIndex(v ssa.Value, arr ssa.Value) (ssa.Value, bool) {
	ld, ok := Unwrap(v).(*ssa.UnOp)
	if !ok || ld.Op != token.MUL {
		return nil, false
	}
	ia, ok := ld.X.(*ssa.IndexAddr)
	if !ok || ia.X != arr {
		return nil, false
	}
	return ia.Index, true
}

// slotOf: the slot of arr whose element recv denotes where `at` executes: the
// slot it has been stored into (when that store dominates `at`: the element
// was read from its old slot into a local, stored into the new slot, and is
// then used through the local), otherwise the slot it was loaded from.
func slotOf(recv ssa.Value, arr ssa.Value, at ssa.Instruction) (idx ssa.Value, storedHere bool, ok bool) {
	r := Unwrap(recv)
	if refs := r.Referrers(); refs != nil {
		for _, ref := range *refs {
			st, isSt := ref.(*ssa.Store)
			if !isSt || Unwrap(st.Val) != r {
				continue
			}
			if ia, isIA := st.Addr.(*ssa.IndexAddr); isIA && ia.X == arr && InstrDominates(st, at) {
				return ia.Index, true, true
			}
		}
	}
	i, ok := elemLoadIndex(recv, arr)
	return i, false, ok
}

func checkMoveFunc(c *Ctx, fn *ssa.Function, fwd bool) {
	key := ShortName(fn)
	arr := ssa.Value(fn.Params[0])
	from, to := fn.Params[1], fn.Params[2]
	lo, hi := from, to
	if !fwd {
		lo, hi = to, from
	}
	// the moved element: load of arr[from] in the entry block, before any store
	var moved ssa.Value
	for _, in := range fn.Blocks[0].Instrs {
		if _, isStore := in.(*ssa.Store); isStore {
			break
		}
		if v, ok := in.(ssa.Value); ok {
			if idx, ok := elemLoadIndex(v, arr); ok && idx == ssa.Value(from) {
				moved = v
			}
		}
	}
	if moved == nil {
		c.Fail("C07.pair", key+"/moved-element", c.Prog.FuncPos(fn), "the moved element arr[from] is not read before the shifting starts")
		return
	}
	var storeIv, idxIv, addrIv []ival
	bad := ""
	var setAddrArgs []ssa.Value
	for _, b := range fn.Blocks {
		for _, in := range b.Instrs {
			switch x := in.(type) {
			case *ssa.Store:
				ia, ok := x.Addr.(*ssa.IndexAddr)
				if !ok || ia.X != arr {
					continue
				}
				iv, ok := indexInterval(ia.Index)
				if !ok {
					bad = "store into arr at an index that is neither a parameter nor a counting loop variable"
					continue
				}
				storeIv = append(storeIv, iv)
				// stored value: the neighbour (shift by one) inside a loop, the moved element at the end
				if _, isPhi := ia.Index.(*ssa.Phi); isPhi {
					src, ok := elemLoadIndex(x.Val, arr)
					want := token.ADD
					if !fwd {
						want = token.SUB
					}
					if !ok || !matches(src, Bin(want, func(v ssa.Value, _ *Bind) bool { return v == ia.Index }, IntPat(1))) {
						bad = "a slot is not filled from its neighbour (instructions in between are not shifted by one)"
					}
				} else if x.Val != moved {
					bad = "the target slot does not receive the moved element"
				} else if ia.Index != ssa.Value(to) {
					bad = "the moved element is not stored at index `to`"
				}
			case *ssa.Call:
				if !x.Call.IsInvoke() {
					continue
				}
				switch x.Call.Method.Name() {
				case "setIndex":
					arg := x.Call.Args[0]
					iv, ok := indexInterval(arg)
					if !ok {
						bad = "setIndex with an argument that is neither a parameter nor a counting loop variable"
						continue
					}
					idxIv = append(idxIv, iv)
					// receiver is the element living at that slot
					if x.Call.Value == moved {
						if arg != ssa.Value(to) {
							bad = "the moved element gets an index other than `to`"
						}
					} else if ridx, stored, ok := slotOf(x.Call.Value, arr, x); ok {
						if ridx != arg {
							bad = "setIndex(i) is called on the element of a different slot"
						} else if !stored && !storedBefore(x, arr, arg) {
							bad = "setIndex(i) is applied to slot i before the slot received its new element"
						}
					} else {
						bad = "setIndex receiver is neither arr[i] nor the moved element"
					}
				case "setAddr":
					setAddrArgs = append(setAddrArgs, x.Call.Args[0])
					if x.Call.Value == moved {
						addrIv = append(addrIv, ival{endpoint{to, 0}, endpoint{to, 0}})
					} else if ridx, _, ok := slotOf(x.Call.Value, arr, x); ok {
						iv, ok := indexInterval(ridx)
						if !ok {
							bad = "setAddr on a slot that is neither a parameter nor a counting loop variable"
							continue
						}
						addrIv = append(addrIv, iv)
					} else {
						bad = "setAddr receiver is neither arr[i] nor the moved element"
					}
				}
			}
		}
	}
	if bad != "" {
		c.Fail("C07.pair", key+"/slot-pairing", c.Prog.FuncPos(fn), bad)
	} else {
		c.Pass("C07.pair", key+"/slot-pairing", c.Prog.FuncPos(fn), "")
	}
	for _, cov := range []struct {
		name string
		iv   []ival
	}{{"stores", storeIv}, {"setIndex", idxIv}, {"setAddr", addrIv}} {
		ok, why := coversExactly(cov.iv, lo, hi)
		c.Oblige("C07.pair", key+"/"+cov.name+"-cover-[lo,hi]", c.Prog.FuncPos(fn), ok, cov.name+": "+why)
	}
	// address chain: every setAddr argument is the running address: a phi of
	// {Begin() of the element at the low end read before any store, End() of
	// the element whose address was just set}
	chainOK, why := true, ""
	for _, a := range setAddrArgs {
		ph, ok := a.(*ssa.Phi)
		if !ok {
			chainOK, why = false, "setAddr argument is not the running address"
			break
		}
		for _, e := range ph.Edges {
			call, ok := e.(*ssa.Call)
			if !ok || !call.Call.IsInvoke() {
				chainOK, why = false, "running address has a source that is neither Begin() nor End()"
				continue
			}
			switch call.Call.Method.Name() {
			case "Begin":
				idx, ok := elemLoadIndex(call.Call.Value, arr)
				if !ok || idx != ssa.Value(lo) {
					chainOK, why = false, "the running address does not start at the address of the lowest affected slot"
				}
				// read before any store into arr
				for _, b := range fn.Blocks {
					for _, in := range b.Instrs {
						if st, ok := in.(*ssa.Store); ok {
							if ia, ok := st.Addr.(*ssa.IndexAddr); ok && ia.X == arr {
								if !InstrDominates(call, st) {
									chainOK, why = false, "the start address is read after slots have been overwritten"
								}
							}
						}
					}
				}
			case "End":
				// End() of the slot that has just got its address
				idx, _, ok := slotOf(call.Call.Value, arr, call)
				if !ok {
					chainOK, why = false, "End() is not taken from a slot of arr"
					continue
				}
				prevSet := false
				for _, in := range call.Block().Instrs {
					if in == ssa.Instruction(call) {
						break
					}
					if sc, ok := in.(*ssa.Call); ok && sc.Call.IsInvoke() && sc.Call.Method.Name() == "setAddr" {
						if ridx, _, ok := slotOf(sc.Call.Value, arr, sc); ok && ridx == idx {
							prevSet = true
						}
					}
				}
				if !prevSet {
					chainOK, why = false, "the next address is not the End() of the element whose address was just assigned"
				}
			default:
				chainOK, why = false, "running address has a source that is neither Begin() nor End()"
			}
		}
	}
	if len(setAddrArgs) == 0 {
		chainOK, why = false, "no address is ever assigned"
	}
	c.Oblige("C07.pair", key+"/address-chain", c.Prog.FuncPos(fn), chainOK, why)
}

// storedBefore: within the block of `at`, a store into arr[idx] precedes it.
func storedBefore(at ssa.Instruction, arr, idx ssa.Value) bool {
	for _, in := range at.Block().Instrs {
		if in == at {
			return false
		}
		if st, ok := in.(*ssa.Store); ok {
			if ia, ok := st.Addr.(*ssa.IndexAddr); ok && ia.X == arr && ia.Index == idx {
				return true
			}
		}
	}
	return false
}

func checkC07(c *Ctx) {
	c.Rule("C07.gate", "block.Move and Code.Move rotate only on the edge where the admission check returned nil; a rejected move returns the error without touching the sequence")
	c.Rule("C07.ord", "decision tables by path enumeration over weak orderings: validateArrayIndex accepts exactly 0 <= val < l; checkFromToIndex validates from and to against the same length; checkMove accepts exactly valid indices with (from<to => to <= UpperBound(from)) and (from>to => LowerBound(from) <= to); move dispatches to moveFwd/moveBack/nothing by the order of from and to")
	c.Rule("C07.wr", "only-writers: instruction.blockIdx/currAddr, block.idx/seq/begin/end, Code.blocks/blocksByAddr are written only by their constructors and setIndex/setAddr; setIndex/setAddr are called only by the constructors and moveFwd/moveBack; move only by block.Move/Code.Move")
	c.Rule("C07.pair", "moveFwd/moveBack: every slot of [lo,hi] is written exactly once from its neighbour (the moved element last, at `to`), every slot gets setIndex(i) of its own index after it was filled, every slot gets an address, and addresses chain a = first.Begin() (read before shifting), next = previous.End()")
	c.Rule("C07.lookup", "Code.Address searches blocksByAddr (never the movable order), which NewCode builds as a copy; Code.Move permutes Code.blocks only; block.Address searches seq by current Begin()")
	c.Rule("C07.bnd", "LowerBound/UpperBound/findBound as in C05.bnd")

	if n := checkShifts(c, "C07.pair", pkgDeps); true {
		c.RequireCount("C07.pair in-place shifts (moveFwd, moveBack)", n, 2)
	}
	// --- gate
	for _, g := range []struct{ fn, check, arr string }{
		{"(*" + pkgDeps + ".block).Move", "checkMove", "seq"},
		{"(*" + pkgDeps + ".Code).Move", "checkFromToIndex", "blocks"},
	} {
		fn := anchor(c, g.fn)
		if fn == nil {
			continue
		}
		n := 0
		for _, cs := range Calls(fn) {
			f := Callee(cs.Common())
			if f == nil || NameOf(Origin(f)) != "move" {
				continue
			}
			n++
			key := ShortName(fn) + "/move"
			ok := false
			for _, gd := range GuardsOf(cs.Block()) {
				x, nn, isNil := NilCheck(gd.Cond)
				if !isNil || nn == gd.Outcome {
					continue
				}
				if call, isCall := x.(*ssa.Call); isCall {
					if cf := call.Call.StaticCallee(); cf != nil && NameOf(cf) == g.check {
						a := call.Call.Args
						// from/to forwarded in order
						if len(a) >= 2 && a[len(a)-2] == ssa.Value(fn.Params[1]) && a[len(a)-1] == ssa.Value(fn.Params[2]) {
							ok = true
						} else if g.check == "checkFromToIndex" && len(a) == 3 && a[0] == ssa.Value(fn.Params[1]) && a[1] == ssa.Value(fn.Params[2]) {
							ok = matches(a[2], lenOf2(func(v ssa.Value) bool {
								return LoadOfField(v, g.arr, func(b ssa.Value) bool { return b == ssa.Value(fn.Params[0]) })
							}))
						}
					}
				}
			}
			a := cs.Common().Args
			argsOK := LoadOfField(unwrapCT(a[0]), g.arr, func(b ssa.Value) bool { return b == ssa.Value(fn.Params[0]) }) && a[1] == ssa.Value(fn.Params[1]) && a[2] == ssa.Value(fn.Params[2])
			switch {
			case !ok:
				c.Fail("C07.gate", key, c.Prog.Pos(cs.Pos()), "the rotation is not dominated by the nil result of "+g.check+"(from, to): a rejected move can change the order")
			case !argsOK:
				c.Fail("C07.gate", key, c.Prog.Pos(cs.Pos()), "the rotation is not applied to the receiver's own "+g.arr+" with the checked from/to")
			default:
				c.Pass("C07.gate", key, c.Prog.Pos(cs.Pos()), "")
			}
		}
		c.RequireCount("C07.gate move call in "+g.fn, n, 1)
		// error path returns non-nil, success returns nil after the move
		for _, b := range fn.Blocks {
			ret, ok := b.Instrs[len(b.Instrs)-1].(*ssa.Return)
			if !ok {
				continue
			}
			if IsNilConst(ret.Results[0]) {
				moved := false
				for _, cs := range Calls(fn) {
					if f := Callee(cs.Common()); f != nil && NameOf(Origin(f)) == "move" && (cs.Block() == b || cs.Block().Dominates(b)) {
						moved = true
					}
				}
				c.Oblige("C07.gate", ShortName(fn)+"/success-implies-moved", c.Prog.Pos(ret.Pos()), moved, "Move reports success without having rotated the sequence")
			}
		}
	}

	// --- decision tables
	if v := anchor(c, pkgDeps+".validateArrayIndex"); v != nil {
		for _, o := range WeakOrderings(3) {
			val, zero, l := o[0]-o[1], int64(0), o[2]-o[1]
			_ = zero
			vl := &Valuation{Int: func(x ssa.Value) (int64, bool) {
				switch x {
				case ssa.Value(v.Params[1]):
					return val, true
				case ssa.Value(v.Params[2]):
					return l, true
				}
				return 0, false
			}}
			res := vl.Walk(v.Blocks[0], nil)
			key := fmt.Sprintf("%s/order(val=%d,l=%d)", ShortName(v), val, l)
			ret, isRet := res.End.(*ssa.Return)
			if !res.OK || !isRet {
				c.Fail("C07.ord", key, c.Prog.FuncPos(v), "decision not computable: "+res.Why)
				continue
			}
			accepted := IsNilConst(ret.Results[0])
			want := val >= 0 && val < l
			c.Oblige("C07.ord", key, c.Prog.Pos(ret.Pos()), accepted == want, fmt.Sprintf("index %d for length %d: accepted=%v, expected %v", val, l, accepted, want))
		}
	}
	if cf := anchor(c, pkgDeps+".checkFromToIndex"); cf != nil {
		var calls []*ssa.Call
		for _, cs := range Calls(cf) {
			if f := Callee(cs.Common()); f != nil && NameOf(f) == "validateArrayIndex" {
				calls = append(calls, cs.Instr.(*ssa.Call))
			}
		}
		argOK := len(calls) == 2
		if argOK {
			seen := map[ssa.Value]bool{}
			for _, call := range calls {
				seen[call.Call.Args[1]] = true
				if call.Call.Args[2] != ssa.Value(cf.Params[2]) {
					argOK = false
				}
			}
			argOK = argOK && seen[ssa.Value(cf.Params[0])] && seen[ssa.Value(cf.Params[1])]
		}
		c.Oblige("C07.ord", ShortName(cf)+"/validates-from-and-to", c.Prog.FuncPos(cf), argOK, "checkFromToIndex does not validate both from and to against the same length")
		// walked concretely together with validateArrayIndex: accepted exactly
		// when both indices lie in [0, l)
		for _, from := range []int64{-1, 0, 2, 3} {
			for _, to := range []int64{-1, 0, 2, 3} {
				const l = 3
				var vl *Valuation
				vl = &Valuation{Enter: SamePackage(cf), Int: func(x ssa.Value) (int64, bool) {
					switch vl.Root(x) {
					case ssa.Value(cf.Params[0]):
						return from, true
					case ssa.Value(cf.Params[1]):
						return to, true
					case ssa.Value(cf.Params[2]):
						return l, true
					}
					return 0, false
				}}
				res := vl.Walk(cf.Blocks[0], nil)
				key := fmt.Sprintf("%s/indices(from=%d,to=%d,l=%d)", ShortName(cf), from, to, l)
				isNil, known := res.RetNil[0]
				if _, isRet := res.End.(*ssa.Return); !res.OK || !isRet || !known {
					c.Fail("C07.ord", key, c.Prog.FuncPos(cf), "decision not computable: "+res.Why)
					continue
				}
				want := from >= 0 && from < l && to >= 0 && to < l
				c.Oblige("C07.ord", key, c.Prog.FuncPos(cf), isNil == want, "accepts although an index is invalid, or rejects valid indices")
			}
		}
	}
	if cm := anchor(c, "(*"+pkgDeps+".block).checkMove"); cm != nil {
		var idxCall, ubCall, lbCall *ssa.Call
		for _, cs := range Calls(cm) {
			f := Callee(cs.Common())
			if f == nil {
				continue
			}
			call := cs.Instr.(*ssa.Call)
			switch NameOf(f) {
			case "checkFromToIndex":
				idxCall = call
			case "UpperBound":
				ubCall = call
			case "LowerBound":
				lbCall = call
			}
		}
		if idxCall == nil || ubCall == nil || lbCall == nil {
			c.Fail("C07.ord", ShortName(cm), c.Prog.FuncPos(cm), "checkMove does not consult checkFromToIndex, UpperBound and LowerBound")
		} else {
			from, to := cm.Params[1], cm.Params[2]
			argsOK := ubCall.Call.Args[1] == ssa.Value(from) && lbCall.Call.Args[1] == ssa.Value(from) &&
				idxCall.Call.Args[0] == ssa.Value(from) && idxCall.Call.Args[1] == ssa.Value(to) &&
				matches(idxCall.Call.Args[2], lenOf2(func(v ssa.Value) bool {
					return LoadOfField(v, "seq", func(b ssa.Value) bool { return b == ssa.Value(cm.Params[0]) })
				}))
			c.Oblige("C07.ord", ShortName(cm)+"/bounds-of-from", c.Prog.FuncPos(cm), argsOK, "checkMove must validate (from, to, len(b.seq)) and ask for the bounds of `from`")
			nOrd := 0
			for _, o := range WeakOrderings(4) {
				for _, idxOK := range []bool{true, false} {
					nOrd++
					F, T, U, L := o[0], o[1], o[2], o[3]
					vl := &Valuation{
						Int: func(x ssa.Value) (int64, bool) {
							switch x {
							case ssa.Value(from):
								return F, true
							case ssa.Value(to):
								return T, true
							case ssa.Value(ubCall):
								return U, true
							case ssa.Value(lbCall):
								return L, true
							}
							return 0, false
						},
						Bool: func(x ssa.Value) (bool, bool) {
							y, nn, ok := NilCheck(x)
							if ok && y == ssa.Value(idxCall) {
								return (!idxOK) == nn, true
							}
							return false, false
						},
					}
					res := vl.Walk(cm.Blocks[0], nil)
					key := fmt.Sprintf("%s/order(from=%d,to=%d,upper=%d,lower=%d,idxok=%v)", ShortName(cm), F, T, U, L, idxOK)
					ret, isRet := res.End.(*ssa.Return)
					if !res.OK || !isRet {
						c.Fail("C07.ord", key, c.Prog.FuncPos(cm), "decision not computable: "+res.Why)
						continue
					}
					accepted := IsNilConst(ret.Results[0])
					want := idxOK && (!(F < T) || T <= U) && (!(F > T) || L <= T)
					if accepted != want {
						c.Fail("C07.ord", key, c.Prog.Pos(ret.Pos()), fmt.Sprintf("accepted=%v, expected %v", accepted, want))
					} else {
						c.Pass("C07.ord", key, c.Prog.Pos(ret.Pos()), "")
					}
				}
			}
			c.Extra["checkMove_orderings"] = nOrd
		}
	}
	mv := anchor(c, pkgDeps+".move")
	mf := anchor(c, pkgDeps+".moveFwd")
	mb := anchor(c, pkgDeps+".moveBack")
	if mv != nil && mf != nil && mb != nil {
		for _, o := range WeakOrderings(2) {
			F, T := o[0], o[1]
			vl := &Valuation{Int: func(x ssa.Value) (int64, bool) {
				switch x {
				case ssa.Value(mv.Params[1]):
					return F, true
				case ssa.Value(mv.Params[2]):
					return T, true
				}
				return 0, false
			}}
			res := vl.Walk(mv.Blocks[0], nil)
			key := fmt.Sprintf("%s/order(from=%d,to=%d)", ShortName(mv), F, T)
			var called []string
			argsOK := true
			for _, in := range res.Instrs {
				if call, ok := in.(*ssa.Call); ok {
					if f := call.Call.StaticCallee(); f != nil {
						called = append(called, NameOf(Origin(f)))
						a := call.Call.Args
						if len(a) != 3 || unwrapCT(a[0]) != ssa.Value(mv.Params[0]) || a[1] != ssa.Value(mv.Params[1]) || a[2] != ssa.Value(mv.Params[2]) {
							argsOK = false
						}
					}
				}
			}
			want := "[]"
			if F < T {
				want = "[moveFwd]"
			} else if F > T {
				want = "[moveBack]"
			}
			c.Oblige("C07.ord", key, c.Prog.FuncPos(mv), res.OK && fmt.Sprint(called) == want && argsOK, fmt.Sprintf("dispatches to %v, expected %s with (arr, from, to)", called, want))
		}
		checkMoveFunc(c, mf, true)
		checkMoveFunc(c, mb, false)
	}

	// --- only-writers
	type fieldRule struct {
		typ, field string
		allowed    map[string]bool
	}
	rules := []fieldRule{
		{"instruction", "blockIdx", map[string]bool{"setIndex": true, "newInstruction": true, "newBlock": true}}, // newBlock numbers the instructions of the block it builds (today through setIndex)
		{"instruction", "currAddr", map[string]bool{"setAddr": true, "newInstruction": true}},
		{"block", "idx", map[string]bool{"setIndex": true, "newBlock": true}},
		{"block", "seq", map[string]bool{"newBlock": true}},
		{"block", "begin", map[string]bool{"newBlock": true}},
		{"block", "end", map[string]bool{"newBlock": true}},
		{"Code", "blocks", map[string]bool{"NewCode": true}},
		{"Code", "blocksByAddr", map[string]bool{"NewCode": true}},
	}
	for _, r := range rules {
		named := c.Prog.LookupType(ModulePath+"/"+pkgDeps, r.typ)
		fv := FieldByName(named, r.field)
		key := r.typ + "." + r.field
		if fv == nil {
			c.Undecide("C07.wr: field %s does not resolve", key)
			continue
		}
		bad := ""
		nw := 0
		for _, fn := range c.Prog.Funcs() {
			for _, b := range fn.Blocks {
				for _, in := range b.Instrs {
					var addr ssa.Value
					switch x := in.(type) {
					case *ssa.Store:
						addr = x.Addr
						// element store through the field's slice
						if ia, ok := x.Addr.(*ssa.IndexAddr); ok {
							if n, _, ok := FieldNameOfLoad(ia.X); ok && n == r.field {
								if u, ok := Unwrap(ia.X).(*ssa.UnOp); ok {
									if SameField(FieldOf(u.X), fv) {
										bad = ShortName(fn) + " at " + c.Prog.Pos(x.Pos()) + " (element store)"
									}
								}
							}
						}
					default:
						continue
					}
					fa, ok := addr.(*ssa.FieldAddr)
					if !ok || !SameField(FieldOf(fa), fv) {
						continue
					}
					nw++
					if !r.allowed[NameOf(Origin(fn))] {
						bad = ShortName(fn) + " at " + c.Prog.Pos(in.Pos())
					}
				}
			}
		}
		if nw == 0 {
			c.Undecide("C07.wr: no writer of %s found (constructor literal expected)", key)
		}
		c.Oblige("C07.wr", key, c.Prog.Pos(fv.Pos()), bad == "", "written outside its owners: "+bad)
	}
	// callers
	callerRule := func(callee string, isCallee func(cs CallSite) bool, allowed map[string]bool) {
		bad := ""
		n := 0
		for _, fn := range c.Prog.Funcs() {
			if fn.Origin() != nil || fn.Synthetic != "" {
				continue // instantiation wrappers, promoted-method wrappers
			}
			for _, cs := range Calls(fn) {
				if !isCallee(cs) {
					continue
				}
				n++
				if !allowed[NameOf(fn)] {
					bad = ShortName(fn) + " at " + c.Prog.Pos(cs.Pos())
				}
			}
		}
		if n == 0 {
			c.Undecide("C07.wr: no call of %s found", callee)
		}
		c.Oblige("C07.wr", "callers-of-"+callee, "-", bad == "", callee+" is called from "+bad)
	}
	inDeps := func(cs CallSite) bool { return PkgPathOf(cs.Fn) == ModulePath+"/"+pkgDeps }
	callerRule("setIndex", func(cs CallSite) bool {
		if !inDeps(cs) {
			return false
		}
		if cs.Common().IsInvoke() {
			return cs.Common().Method.Name() == "setIndex"
		}
		f := Callee(cs.Common())
		return f != nil && NameOf(f) == "setIndex"
	}, map[string]bool{"moveFwd": true, "moveBack": true, "newBlock": true})
	callerRule("setAddr", func(cs CallSite) bool {
		if !inDeps(cs) {
			return false
		}
		if cs.Common().IsInvoke() {
			return cs.Common().Method.Name() == "setAddr"
		}
		f := Callee(cs.Common())
		return f != nil && NameOf(f) == "setAddr"
	}, map[string]bool{"moveFwd": true, "moveBack": true})
	callerRule("move", func(cs CallSite) bool {
		f := Callee(cs.Common())
		return f != nil && inDeps(cs) && NameOf(Origin(f)) == "move" && PkgPathOf(f) == ModulePath+"/"+pkgDeps
	}, map[string]bool{"Move": true})
	callerRule("moveFwd/moveBack", func(cs CallSite) bool {
		f := Callee(cs.Common())
		return f != nil && inDeps(cs) && (NameOf(Origin(f)) == "moveFwd" || NameOf(Origin(f)) == "moveBack")
	}, map[string]bool{"move": true})

	// --- lookups
	if ca := anchor(c, "(*"+pkgDeps+".Code).Address"); ca != nil {
		usesBlocks, usesByAddr := false, false
		var scan func(fn *ssa.Function)
		scan = func(fn *ssa.Function) {
			for _, b := range fn.Blocks {
				for _, in := range b.Instrs {
					if fa, ok := in.(*ssa.FieldAddr); ok {
						if f := FieldOf(fa); f != nil && TypeNameIs(types.NewPointer(namedOfField(c, "Code")), types.TypeString(fa.X.Type(), nil)) {
							switch NameOf(f) {
							case "blocks":
								usesBlocks = true
							case "blocksByAddr":
								usesByAddr = true
							}
						}
					}
				}
			}
			for _, af := range fn.AnonFuncs {
				scan(af)
			}
		}
		scan(ca)
		c.Oblige("C07.lookup", ShortName(ca), c.Prog.FuncPos(ca), usesByAddr && !usesBlocks, "Code.Address must binary-search blocksByAddr (address order), never Code.blocks (which block moves permute)")
	}
	if nc := anchor(c, pkgDeps+".NewCode"); nc != nil {
		// value stored in blocksByAddr: a make()d slice that is the destination of copy(·, blocks)
		var byAddrVal, blocksVal ssa.Value
		for _, b := range nc.Blocks {
			for _, in := range b.Instrs {
				if st, ok := in.(*ssa.Store); ok {
					if fa, ok := st.Addr.(*ssa.FieldAddr); ok {
						if f := FieldOf(fa); f != nil {
							switch NameOf(f) {
							case "blocksByAddr":
								byAddrVal = st.Val
							case "blocks":
								blocksVal = st.Val
							}
						}
					}
				}
			}
		}
		ok := false
		if ms, isMake := byAddrVal.(*ssa.MakeSlice); isMake && blocksVal != nil && byAddrVal != blocksVal {
			for _, cs := range Calls(nc) {
				if bi, isB := cs.Common().Value.(*ssa.Builtin); isB && bi.Name() == "copy" {
					if cs.Common().Args[0] == ssa.Value(ms) && cs.Common().Args[1] == blocksVal {
						ok = true
					}
				}
			}
			// or filled slot by slot together with blocks: in one loop, slot i of
			// both fresh slices (of the same length) receives the same block
			lenArg := func(v ssa.Value) ssa.Value {
				if ln, isLen := Unwrap(v).(*ssa.Call); isLen && len(ln.Call.Args) == 1 {
					if bi, isB := ln.Call.Value.(*ssa.Builtin); isB && bi.Name() == "len" {
						return ln.Call.Args[0]
					}
				}
				return nil
			}
			if bms, isMake := blocksVal.(*ssa.MakeSlice); isMake && !ok && lenArg(ms.Len) != nil && lenArg(bms.Len) != nil && SameValue(lenArg(ms.Len), lenArg(bms.Len)) {
				slotStores := func(arr ssa.Value) map[ssa.Value]ssa.Value { // index -> stored value
					out := map[ssa.Value]ssa.Value{}
					for _, r := range *arr.Referrers() {
						if ia, isIA := r.(*ssa.IndexAddr); isIA && ia.X == arr && ia.Referrers() != nil {
							for _, r2 := range *ia.Referrers() {
								if st, isSt := r2.(*ssa.Store); isSt && st.Addr == ssa.Value(ia) {
									out[ia.Index] = st.Val
								}
							}
						}
					}
					return out
				}
				a, b := slotStores(ms), slotStores(bms)
				for _, l := range RangeLoops(nc) {
					if va, has := a[l.Key]; has && len(a) == 1 && len(b) == 1 && SameValue(va, b[l.Key]) && b[l.Key] != nil {
						if SameValue(lenArg(ms.Len), l.Over) {
							ok = true
						}
					}
				}
			}
		}
		c.Oblige("C07.lookup", ShortName(nc)+"/blocksByAddr-is-a-copy", c.Prog.FuncPos(nc), ok, "blocksByAddr must be an independent copy of blocks (a shared backing array would be permuted by block moves and break address lookup)")
	}
	if ba := anchor(c, "(*"+pkgDeps+".block).Address"); ba != nil {
		// the search predicate compares seq[i].Begin() with a; a hit is returned only when Begin() == a
		ok := false
		for _, af := range ba.AnonFuncs {
			for _, cs := range Calls(af) {
				if f := Callee(cs.Common()); f != nil && NameOf(f) == "Begin" {
					ok = true
				}
			}
		}
		eq := false
		for _, b := range ba.Blocks {
			ret, isRet := b.Instrs[len(b.Instrs)-1].(*ssa.Return)
			if !isRet || !matches(ret.Results[1], BoolPat(true)) {
				continue
			}
			for _, g := range GuardsOf(b) {
				if bo, isBin := g.Cond.(*ssa.BinOp); isBin && (bo.Op == token.NEQ || bo.Op == token.EQL) {
					if matches(bo.X, Method("Begin", Any())) && IsParam(bo.Y, ba.Params[1]) && (bo.Op == token.EQL) == g.Outcome {
						eq = true
					}
				}
			}
		}
		c.Oblige("C07.lookup", ShortName(ba), c.Prog.FuncPos(ba), ok && eq, "block.Address must search by the instructions' current Begin() and return only an exact match")
	}
	checkBounds(c, "C07.bnd")
}

func namedOfField(c *Ctx, typ string) types.Type {
	n := c.Prog.LookupType(ModulePath+"/"+pkgDeps, typ)
	if n == nil {
		return types.Typ[types.Invalid]
	}
	return n
}

func unwrapCT(v ssa.Value) ssa.Value { return Unwrap(v) }

func lenOf2(pred func(ssa.Value) bool) Pat {
	return func(v ssa.Value, _ *Bind) bool {
		call, ok := Unwrap(v).(*ssa.Call)
		if !ok {
			return false
		}
		bi, ok := call.Call.Value.(*ssa.Builtin)
		return ok && bi.Name() == "len" && len(call.Call.Args) == 1 && pred(call.Call.Args[0])
	}
}

var _ = sort.Strings
