package rules

import (
	"fmt"
	"go/token"
	"sort"
	"strings"

	"golang.org/x/tools/go/ssa"

	. "mltlint/internal/core"
)

// E8: ghost-interval refinement for memory.cutExpr. A cutExpr value carries
// (in the checker only) the address interval [lo,hi) it covers, as linear
// forms over symbolic atoms; obligations are linear identities decided under
// the comparison facts of the dominating branches. No solver, no execution.

type lin struct {
	c map[string]int64
	k int64
}

func linConst(k int64) lin { return lin{map[string]int64{}, k} }
func linAtom(a string) lin { return lin{map[string]int64{a: 1}, 0} }
func (a lin) add(b lin, s int64) lin {
	r := lin{map[string]int64{}, a.k + s*b.k}
	for k, v := range a.c {
		r.c[k] += v
	}
	for k, v := range b.c {
		r.c[k] += s * v
	}
	for k, v := range r.c {
		if v == 0 {
			delete(r.c, k)
		}
	}
	return r
}
func (a lin) scale(s int64) lin {
	r := lin{map[string]int64{}, a.k * s}
	for k, v := range a.c {
		if v*s != 0 {
			r.c[k] = v * s
		}
	}
	return r
}
func (a lin) isZero() bool  { return len(a.c) == 0 && a.k == 0 }
func (a lin) eq(b lin) bool { return a.add(b, -1).isZero() }
func (a lin) String() string {
	var ks []string
	for k := range a.c {
		ks = append(ks, k)
	}
	sort.Strings(ks)
	var parts []string
	for _, k := range ks {
		v := a.c[k]
		switch v {
		case 1:
			parts = append(parts, "+"+k)
		case -1:
			parts = append(parts, "-"+k)
		default:
			parts = append(parts, fmt.Sprintf("%+d*%s", v, k))
		}
	}
	if a.k != 0 || len(parts) == 0 {
		parts = append(parts, fmt.Sprintf("%+d", a.k))
	}
	return strings.TrimPrefix(strings.Join(parts, ""), "+")
}

// fact: d REL 0
type fact struct {
	d   lin
	rel string // "<", "<=", "==", "!=", ">=", ">"
}

type gctx struct {
	c  *Ctx
	fn *ssa.Function
}

// kvAtom names field `f` of the interval-tree KV element reached by v
// (a load of &S[I], or a field address on &S[I]).
func kvBase(v ssa.Value) (string, bool) {
	switch x := v.(type) {
	case *ssa.UnOp:
		if x.Op == token.MUL {
			if ia, ok := x.X.(*ssa.IndexAddr); ok {
				return kvName(ia), true
			}
		}
	case *ssa.IndexAddr:
		return kvName(x), true
	case *ssa.Alloc:
		// a local copy of the element (range variable): exactly one store of &S[I]
		var name string
		n := 0
		if refs := x.Referrers(); refs != nil {
			for _, r := range *refs {
				if st, ok := r.(*ssa.Store); ok && st.Addr == ssa.Value(x) {
					n++
					if b, ok := kvBase(st.Val); ok {
						name = b
					}
				}
			}
		}
		if n == 1 && name != "" {
			return name, true
		}
	}
	return "", false
}

func kvName(ia *ssa.IndexAddr) string {
	idx := ia.Index.Name()
	if k, ok := ConstInt(ia.Index); ok {
		idx = fmt.Sprint(k)
	}
	return fmt.Sprintf("%s[%s]", ia.X.Name(), idx)
}

func (g *gctx) lin(v ssa.Value) (lin, bool) {
	v = Unwrap(v)
	switch x := v.(type) {
	case *ssa.Const:
		if k, ok := ConstInt(x); ok {
			return linConst(k), true
		}
		return lin{}, false
	case *ssa.Convert:
		return g.lin(x.X)
	case *ssa.Parameter:
		return linAtom(x.Name()), true
	case *ssa.BinOp:
		switch x.Op {
		case token.ADD, token.SUB:
			a, ok1 := g.lin(x.X)
			b, ok2 := g.lin(x.Y)
			if !ok1 || !ok2 {
				return lin{}, false
			}
			if x.Op == token.ADD {
				return a.add(b, 1), true
			}
			return a.add(b, -1), true
		case token.MUL:
			if k, ok := ConstInt(x.Y); ok {
				a, ok2 := g.lin(x.X)
				return a.scale(k), ok2
			}
			if k, ok := ConstInt(x.X); ok {
				a, ok2 := g.lin(x.Y)
				return a.scale(k), ok2
			}
		}
		return linAtom(x.Name()), true
	case *ssa.Field:
		if base, ok := kvBase(x.X); ok {
			if f := FieldOf(x); f != nil {
				return linAtom(base + "." + NameOf(f)), true
			}
		}
		// field of a receiver struct value (c.begin)
		if f := FieldOf(x); f != nil {
			if p, ok := x.X.(*ssa.Parameter); ok {
				return linAtom(p.Name() + "." + NameOf(f)), true
			}
		}
		return linAtom(x.Name()), true
	case *ssa.UnOp:
		if x.Op == token.MUL {
			if fa, ok := x.X.(*ssa.FieldAddr); ok {
				if base, ok := kvBase(fa.X); ok {
					if f := FieldOf(fa); f != nil {
						return linAtom(base + "." + NameOf(f)), true
					}
				}
				if f := FieldOf(fa); f != nil {
					// field of a spilled receiver/local struct
					if al, ok := fa.X.(*ssa.Alloc); ok {
						if refs := al.Referrers(); refs != nil {
							for _, r := range *refs {
								if st, ok := r.(*ssa.Store); ok && st.Addr == ssa.Value(al) {
									if p, ok := st.Val.(*ssa.Parameter); ok {
										return linAtom(p.Name() + "." + NameOf(f)), true
									}
								}
							}
						}
					}
				}
			}
		}
		return linAtom(x.Name()), true
	case *ssa.Call:
		// v.width() of a cutExpr value: a named atom that the ghost of v
		// resolves to hi - lo (see ghosts)
		if f := x.Call.StaticCallee(); f != nil && !x.Call.IsInvoke() && NameOf(f) == "width" && len(x.Call.Args) == 1 {
			return linAtom("width(" + x.Call.Args[0].Name() + ")"), true
		}
		return linAtom(x.Name()), true
	}
	return linAtom(v.Name()), true
}

func (g *gctx) factsOfGuards(gs []Guard) []fact {
	var out []fact
	for _, gd := range gs {
		bo, ok := gd.Cond.(*ssa.BinOp)
		if !ok {
			continue
		}
		a, ok1 := g.lin(bo.X)
		b, ok2 := g.lin(bo.Y)
		if !ok1 || !ok2 {
			continue
		}
		d := a.add(b, -1)
		rel := ""
		switch bo.Op {
		case token.LSS:
			rel = "<"
		case token.LEQ:
			rel = "<="
		case token.GTR:
			rel = ">"
		case token.GEQ:
			rel = ">="
		case token.EQL:
			rel = "=="
		case token.NEQ:
			rel = "!="
		default:
			continue
		}
		if !gd.Outcome {
			rel = map[string]string{"<": ">=", "<=": ">", ">": "<=", ">=": "<", "==": "!=", "!=": "=="}[rel]
		}
		out = append(out, fact{d, rel})
	}
	return out
}

// sign knowledge about a linear form from the facts: returns whether
// d <= 0 / d >= 0 / d == 0 is implied (by a single fact on ±d).
func implied(d lin, facts []fact) (le, ge bool) {
	if d.isZero() {
		return true, true
	}
	for _, f := range facts {
		sgn := int64(0)
		if f.d.eq(d) {
			sgn = 1
		} else if f.d.eq(d.scale(-1)) {
			sgn = -1
		} else {
			continue
		}
		rel := f.rel
		if sgn < 0 {
			rel = map[string]string{"<": ">", "<=": ">=", ">": "<", ">=": "<=", "==": "==", "!=": "!="}[rel]
		}
		switch rel {
		case "<", "<=":
			le = true
		case ">", ">=":
			ge = true
		case "==":
			le, ge = true, true
		}
	}
	return
}

// equalUnder: a == b given the facts (identity, or difference equal to a
// form known to be zero).
func equalUnder(a, b lin, facts []fact) bool {
	d := a.add(b, -1)
	if d.isZero() {
		return true
	}
	le, ge := implied(d, facts)
	return le && ge
}

type ghost struct {
	lo, hi lin
	kv     string // root KV element ("" for a literal)
	lit    bool
	litW   lin
	facts  []fact
	why    string
}

// ghosts returns the alternatives of the interval covered by a cutExpr value.
func (g *gctx) ghosts(v ssa.Value, depth int) []ghost {
	if depth > 12 {
		return []ghost{{why: "too deep"}}
	}
	switch x := v.(type) {
	case *ssa.Phi:
		var out []ghost
		for i, e := range x.Edges {
			pred := x.Block().Preds[i]
			fs := g.factsOfGuards(append(GuardsOf(pred), guardOfEdge(pred, x.Block())...))
			for _, a := range g.ghosts(e, depth+1) {
				a.facts = append(append([]fact(nil), a.facts...), fs...)
				out = append(out, a)
			}
		}
		return out
	case *ssa.Field:
		if f := FieldOf(x); f != nil && NameOf(f) == "Val" {
			if base, ok := kvBase(x.X); ok {
				return []ghost{{lo: linAtom(base + ".Low"), hi: linAtom(base + ".High"), kv: base}}
			}
		}
	case *ssa.UnOp:
		if x.Op == token.MUL {
			if fa, ok := x.X.(*ssa.FieldAddr); ok {
				if f := FieldOf(fa); f != nil && NameOf(f) == "Val" {
					if base, ok := kvBase(fa.X); ok {
						return []ghost{{lo: linAtom(base + ".Low"), hi: linAtom(base + ".High"), kv: base}}
					}
				}
			}
			if al, ok := x.X.(*ssa.Alloc); ok {
				// composite literal cutExpr{ex, begin, end}
				var b, e lin
				hb, he := false, false
				if refs := al.Referrers(); refs != nil {
					for _, r := range *refs {
						fa, ok := r.(*ssa.FieldAddr)
						if !ok {
							continue
						}
						f := FieldOf(fa)
						if rr := fa.Referrers(); rr != nil && f != nil {
							for _, r2 := range *rr {
								if st, ok := r2.(*ssa.Store); ok && st.Addr == ssa.Value(fa) {
									l, okl := g.lin(st.Val)
									switch NameOf(f) {
									case "begin":
										b, hb = l, okl
									case "end":
										e, he = l, okl
									}
								}
							}
						}
					}
				}
				if !hb {
					b, hb = linConst(0), true
				}
				if he {
					return []ghost{{lit: true, litW: e.add(b, -1)}}
				}
			}
		}
	case *ssa.Call:
		f := x.Call.StaticCallee()
		if f != nil && !x.Call.IsInvoke() && (NameOf(f) == "cutBegin" || NameOf(f) == "cutEnd") && len(x.Call.Args) == 2 {
			L, ok := g.lin(x.Call.Args[1])
			if !ok {
				return []ghost{{why: "cut length is not linear"}}
			}
			fs := g.factsOfGuards(GuardsOf(x.Block()))
			var out []ghost
			for _, a := range g.ghosts(x.Call.Args[0], depth+1) {
				if a.why != "" || a.lit {
					out = append(out, ghost{why: "cut of a value with unknown interval"})
					continue
				}
				n := a
				n.facts = append(append([]fact(nil), a.facts...), fs...)
				// width() of the value being cut is hi - lo of this alternative
				L := L
				wa := "width(" + x.Call.Args[0].Name() + ")"
				if k, has := L.c[wa]; has {
					rest := lin{map[string]int64{}, L.k}
					for kk, vv := range L.c {
						if kk != wa {
							rest.c[kk] = vv
						}
					}
					L = rest.add(a.hi.add(a.lo, -1), k)
				}
				if NameOf(f) == "cutBegin" {
					n.lo = a.hi.add(L, -1)
				} else {
					n.hi = a.lo.add(L, 1)
				}
				out = append(out, n)
			}
			return out
		}
	}
	return []ghost{{why: "value is not a tree element, a cut of one, or a cutExpr literal"}}
}

func checkGhost(c *Ctx) {
	st := anchor(c, "(*"+pkgMemory+".Sparse).Store")
	ld := anchor(c, "(*"+pkgMemory+".Sparse).Load")
	if st == nil || ld == nil {
		return
	}
	// --- Store: every Add/Put(lo, hi, v)
	g := &gctx{c, st}
	n := 0
	for _, cs := range Calls(st) {
		f := Callee(cs.Common())
		if f == nil || PkgPathOf(f) != "" {
			if f == nil {
				continue
			}
		}
		name := NameOf(Origin(f))
		if (name != "Add" && name != "Put") || len(cs.Common().Args) != 4 {
			continue
		}
		n++
		a := cs.Common().Args
		lo, ok1 := g.lin(a[1])
		hi, ok2 := g.lin(a[2])
		key := fmt.Sprintf("%s/%s#%d", ShortName(st), name, n)
		if !ok1 || !ok2 {
			c.Fail("C14.cut", key, c.Prog.Pos(cs.Pos()), "interval bounds are not linear in the known quantities")
			continue
		}
		site := g.factsOfGuards(GuardsOf(cs.Block()))
		bad := ""
		for _, alt := range g.ghosts(a[3], 0) {
			fs := append(append([]fact(nil), alt.facts...), site...)
			switch {
			case alt.why != "":
				bad = alt.why
			case alt.lit:
				if !equalUnder(alt.litW, hi.add(lo, -1), fs) {
					bad = fmt.Sprintf("a fresh value of %s bytes is stored under an interval of %s bytes", alt.litW, hi.add(lo, -1))
				}
			default:
				if !equalUnder(alt.lo, lo, fs) || !equalUnder(alt.hi, hi, fs) {
					bad = fmt.Sprintf("the kept piece covers [%s, %s) but is stored under [%s, %s)", alt.lo, alt.hi, lo, hi)
				}
			}
		}
		c.Oblige("C14.cut", key, c.Prog.Pos(cs.Pos()), bad == "", bad)
	}
	c.RequireCount("C14.cut tree insertions in Sparse.Store", n, 3)

	// --- Load: every piece
	g = &gctx{c, ld}
	addr := linAtom(ld.Params[1].Name())
	end := addr.add(linAtom(ld.Params[2].Name()), 1)
	np := 0
	for _, cs := range Calls(ld) {
		f := Callee(cs.Common())
		if f == nil || NameOf(f) != "expr" || f.Signature.Recv() == nil || len(cs.Common().Args) != 1 {
			continue
		}
		call := cs.Instr.(*ssa.Call)
		np++
		key := fmt.Sprintf("%s/piece#%d", ShortName(ld), np)
		site := g.factsOfGuards(GuardsOf(cs.Block()))
		bad := ""
		var pieceLo *lin
		for _, alt := range g.ghosts(cs.Common().Args[0], 0) {
			if alt.why != "" || alt.lit {
				bad = "piece of unknown origin: " + alt.why
				continue
			}
			fs := append(append([]fact(nil), alt.facts...), site...)
			low, high := linAtom(alt.kv+".Low"), linAtom(alt.kv+".High")
			// structural assumptions established by wholeInterval: the first
			// overlap starts at or before addr, later ones after it
			if strings.HasSuffix(alt.kv, "[0]") {
				fs = append(fs, fact{low.add(addr, -1), "<="})
			} else {
				fs = append(fs, fact{low.add(addr, -1), ">="})
			}
			// target low = max(addr, o.Low)
			le, ge := implied(low.add(addr, -1), fs)
			var tlo lin
			switch {
			case le && ge, le:
				tlo = addr
			case ge:
				tlo = low
			}
			// target high = min(end, o.High)
			hle, hge := implied(high.add(end, -1), fs)
			var thi lin
			decided := true
			switch {
			case hle:
				thi = high
			case hge:
				thi = end
			default:
				decided = false
			}
			switch {
			case !decided:
				bad = fmt.Sprintf("the piece taken from %s is used without establishing whether the interval ends before or after the end of the read: it may extend past addr+w", alt.kv)
			case !equalUnder(alt.lo, tlo, fs):
				bad = fmt.Sprintf("the piece taken from %s starts at %s, it must start at %s", alt.kv, alt.lo, tlo)
			case !equalUnder(alt.hi, thi, fs):
				bad = fmt.Sprintf("the piece taken from %s ends at %s, it must end at %s", alt.kv, alt.hi, thi)
			}
			t := tlo
			pieceLo = &t
		}
		c.Oblige("C14.cut", key, c.Prog.Pos(cs.Pos()), bad == "", bad)
		// shift of the piece
		if pieceLo != nil && bad == "" {
			sh, found := g.shiftOf(call, map[ssa.Value]bool{})
			want := pieceLo.add(addr, -1).scale(8)
			okShift := false
			if !found {
				okShift = want.isZero()
				if !okShift {
					bad = fmt.Sprintf("the piece is placed at byte offset 0 although it starts %s bits into the read", want)
				}
			} else {
				okShift = sh.eq(want)
				if !okShift {
					bad = fmt.Sprintf("the piece is shifted by %s bits, it starts %s bits into the read", sh, want)
				}
			}
			c.Oblige("C14.cut", key+"/shift", c.Prog.Pos(cs.Pos()), okShift, bad)
		}
	}
	c.RequireCount("C14.cut pieces in Sparse.Load", np, 2)
	// BitOr at width w
	nOr := 0
	for _, cs := range Calls(ld) {
		if FuncNameIs(Callee(cs.Common()), pkgTools+".BitOr") {
			nOr++
			c.Oblige("C14.cut", fmt.Sprintf("%s/or#%d", ShortName(ld), nOr), c.Prog.Pos(cs.Pos()), cs.Common().Args[2] == ssa.Value(ld.Params[2]), "pieces are not combined at the read width w")
		}
	}

	// --- cut.go: the meaning of cutBegin / cutEnd / expr
	for _, m := range []struct{ name, begin, end string }{
		{"cutBegin", "c.end-length", "c.end"},
		{"cutEnd", "c.begin", "c.begin+length"},
	} {
		fn := anchor(c, "("+pkgMemory+".cutExpr)."+m.name)
		if fn == nil {
			continue
		}
		gg := &gctx{c, fn}
		recv, length := fn.Params[0].Name(), fn.Params[1].Name()
		want := map[string]lin{}
		switch m.name {
		case "cutBegin":
			want["begin"] = linAtom(recv+".end").add(linAtom(length), -1)
			want["end"] = linAtom(recv + ".end")
		case "cutEnd":
			want["begin"] = linAtom(recv + ".begin")
			want["end"] = linAtom(recv+".begin").add(linAtom(length), 1)
		}
		got := map[string]lin{}
		exOK := false
		for _, b := range fn.Blocks {
			for _, in := range b.Instrs {
				stI, ok := in.(*ssa.Store)
				if !ok {
					continue
				}
				fa, ok := stI.Addr.(*ssa.FieldAddr)
				if !ok {
					continue
				}
				f := FieldOf(fa)
				if f == nil {
					continue
				}
				if _, isLit := fa.X.(*ssa.Alloc); !isLit {
					continue
				}
				switch NameOf(f) {
				case "begin", "end":
					if l, ok := gg.lin(stI.Val); ok {
						got[NameOf(f)] = l
					}
				case "ex":
					if l, ok := gg.lin(stI.Val); ok && l.eq(linAtom(recv+".ex")) {
						exOK = true
					}
				}
			}
		}
		// a result made by updating a copy of the receiver: the fields that are
		// not written keep the receiver's values
		for _, b := range fn.Blocks {
			ret, isRet := b.Instrs[len(b.Instrs)-1].(*ssa.Return)
			if !isRet || len(ret.Results) != 1 {
				continue
			}
			ld, isLd := Unwrap(ret.Results[0]).(*ssa.UnOp)
			if !isLd {
				continue
			}
			al, isAl := ld.X.(*ssa.Alloc)
			if !isAl || al.Referrers() == nil {
				continue
			}
			for _, r := range *al.Referrers() {
				if st, isSt := r.(*ssa.Store); isSt && st.Addr == ssa.Value(al) && st.Val == ssa.Value(fn.Params[0]) {
					if _, has := got["begin"]; !has {
						got["begin"] = linAtom(recv + ".begin")
					}
					if _, has := got["end"]; !has {
						got["end"] = linAtom(recv + ".end")
					}
					exWritten := false
					for _, r2 := range *al.Referrers() {
						if fa, isFA := r2.(*ssa.FieldAddr); isFA && FieldOf(fa) != nil && NameOf(FieldOf(fa)) == "ex" && fa.Referrers() != nil {
							for _, r3 := range *fa.Referrers() {
								if _, isSt := r3.(*ssa.Store); isSt {
									exWritten = true
								}
							}
						}
					}
					if !exWritten {
						exOK = true
					}
				}
			}
		}
		okB := false
		if gb, has := got["begin"]; has {
			okB = gb.eq(want["begin"])
		} else if m.name == "cutEnd" {
			okB = false
		}
		okE := false
		if ge, has := got["end"]; has {
			okE = ge.eq(want["end"])
		}
		c.Oblige("C14.cut", ShortName(fn), c.Prog.FuncPos(fn), okB && okE && exOK,
			fmt.Sprintf("%s(length) must yield {ex: c.ex, begin: %s, end: %s} (got begin=%s end=%s)", m.name, m.begin, m.end, got["begin"], got["end"]))
	}
	if ex := anchor(c, "("+pkgMemory+".cutExpr).expr"); ex != nil {
		gg := &gctx{c, ex}
		recv := ex.Params[0].Name()
		// Rsh by begin*8 when begin > 0, SetWidth(·, end-begin)
		shiftOK, widthOK := false, false
		for _, cs := range Calls(ex) {
			f := Callee(cs.Common())
			if FuncNameIs(f, "pkg/expr.NewBinary") {
				a := cs.Common().Args
				ep := c.Prog.SSAPkg[ExprPkg]
				if ep != nil && ep.Const("Rsh") != nil {
					if k, ok := ConstInt(a[0]); ok && k == ep.Const("Rsh").Value.Int64() {
						if bd, ok := Match(a[2], CallTo("pkg/expr.ConstFromUint", Capture("amt", Any()))); ok {
							if l, ok := gg.lin(bd.M["amt"]); ok && l.eq(linAtom(recv+".begin").scale(8)) {
								shiftOK = true
							}
						}
					}
				}
			}
			if FuncNameIs(f, fnSetWidth) {
				if l, ok := gg.lin(cs.Common().Args[1]); ok && l.eq(linAtom(recv+".end").add(linAtom(recv+".begin"), -1)) {
					widthOK = true
				}
				// or the receiver's own width(), which is end - begin
				if wc, ok := Unwrap(cs.Common().Args[1]).(*ssa.Call); ok && !wc.Call.IsInvoke() && len(wc.Call.Args) == 1 {
					if wf := wc.Call.StaticCallee(); wf != nil && NameOf(wf) == "width" && wf.Blocks != nil && (IsParam(wc.Call.Args[0], ex.Params[0]) || Unwrap(wc.Call.Args[0]) == ssa.Value(ex.Params[0])) {
						wg := &gctx{c, wf}
						wr := wf.Params[0].Name()
						for _, b := range wf.Blocks {
							if ret, isRet := b.Instrs[len(b.Instrs)-1].(*ssa.Return); isRet && len(ret.Results) == 1 {
								if l, ok := wg.lin(ret.Results[0]); ok && l.eq(linAtom(wr+".end").add(linAtom(wr+".begin"), -1)) {
									widthOK = true
								}
							}
						}
					}
				}
			}
		}
		c.Oblige("C14.cut", ShortName(ex), c.Prog.FuncPos(ex), shiftOK && widthOK, "cutExpr.expr must shift right by begin*8 bits and set the width to end-begin bytes")
		checkCutExprWalk(c, ex)
	}
}

// checkCutExprWalk: expr() walked for concrete (begin, end, width of the
// stored expression): on every path the result is the stored expression
// shifted right by begin*8 bits (unshifted only for begin == 0) and brought to
// end-begin bytes (left as it is only when that is its width already).
func checkCutExprWalk(c *Ctx, ex *ssa.Function) {
	recv := ex.Params[0]
	for _, sc := range [][3]int64{{0, 4, 4}, {0, 2, 4}, {1, 3, 4}, {2, 4, 4}, {2, 4, 2}, {1, 2, 1}, {0, 4, 2}, {3, 5, 2}, {0, 1, 1}, {4, 8, 8}} {
		begin, end, exW := sc[0], sc[1], sc[2]
		var rsh *ssa.Call
		rshAmt, rshOK := int64(-1), false
		var vl *Valuation
		isStored := func(v ssa.Value) bool { // the stored expression c.ex
			if p, n, ok := fieldOfParam(vl.Root(v)); ok && p == recv && n == "ex" {
				return true
			}
			return false
		}
		vl = &Valuation{
			Typed: true,
			Enter: SamePackage(ex),
			Int: func(v ssa.Value) (int64, bool) {
				if p, n, ok := fieldOfParam(v); ok && p.Parent() != nil && len(p.Parent().Params) > 0 && p == p.Parent().Params[0] {
					// a field of the cut (of this method's or of an entered helper's receiver)
					switch n {
					case "begin":
						return begin, true
					case "end":
						return end, true
					}
				}
				if call, ok := v.(*ssa.Call); ok && call.Call.IsInvoke() && call.Call.Method.Name() == "Width" && isStored(call.Call.Value) {
					return exW, true
				}
				return 0, false
			},
		}
		vl.Visit = func(in ssa.Instruction) {
			call, ok := in.(*ssa.Call)
			if !ok || !FuncNameIs(call.Call.StaticCallee(), "pkg/expr.NewBinary") {
				return
			}
			ep := c.Prog.SSAPkg[ExprPkg]
			if k, isC := ConstInt(call.Call.Args[0]); !isC || ep == nil || ep.Const("Rsh") == nil || k != ep.Const("Rsh").Value.Int64() {
				return
			}
			if !isStored(call.Call.Args[1]) {
				return
			}
			rsh = call
			if bd, ok := Match(vl.Root(call.Call.Args[2]), CallTo("pkg/expr.ConstFromUint", Capture("amt", Any()))); ok {
				rshAmt, rshOK = vl.EvalInt(bd.M["amt"], nil)
			}
		}
		res := vl.Walk(ex.Blocks[0], nil)
		key := fmt.Sprintf("%s/begin=%d,end=%d,stored-width=%d", ShortName(ex), begin, end, exW)
		why := ""
		_, isRet := res.End.(*ssa.Return)
		switch {
		case !res.OK || !isRet:
			why = "cannot be followed: " + res.Why
		default:
			r := vl.Root(res.RetVal[0])
			inner := r
			width := int64(-1)
			if call, ok := r.(*ssa.Call); ok && FuncNameIs(call.Call.StaticCallee(), fnSetWidth) {
				inner = vl.Root(call.Call.Args[0])
				width, _ = vl.EvalInt(call.Call.Args[1], nil)
			}
			shifted := rsh != nil && inner == ssa.Value(rsh)
			switch {
			case begin > 0 && (!shifted || !rshOK || rshAmt != begin*8):
				why = fmt.Sprintf("the bytes from offset %d are asked for but the result is not the stored expression shifted right by %d bits", begin, begin*8)
			case begin == 0 && !shifted && !isStored(inner):
				why = "the result is not derived from the stored expression"
			case begin == 0 && shifted:
				why = "the expression is shifted although the cut starts at its first byte"
			case width == -1 && !(begin == 0 && end-begin == exW):
				why = fmt.Sprintf("the result is not brought to %d bytes", end-begin)
			case width != -1 && width != end-begin:
				why = fmt.Sprintf("the result is brought to %d bytes instead of %d", width, end-begin)
			}
		}
		c.Oblige("C14.cut", key, c.Prog.FuncPos(ex), why == "", why)
	}
}

// shiftOf follows the value of a piece to the NewBinary(Lsh, piece, ConstFromUint(amount), w)
// that positions it; found=false when the piece is used unshifted.
func (g *gctx) shiftOf(v ssa.Value, seen map[ssa.Value]bool) (lin, bool) {
	if seen[v] {
		return lin{}, false
	}
	seen[v] = true
	refs := v.Referrers()
	if refs == nil {
		return lin{}, false
	}
	ep := g.c.Prog.SSAPkg[ExprPkg]
	lsh := int64(-1)
	if ep != nil && ep.Const("Lsh") != nil {
		lsh = ep.Const("Lsh").Value.Int64()
	}
	for _, r := range *refs {
		switch x := r.(type) {
		case *ssa.Phi:
			if l, ok := g.shiftOf(x, seen); ok {
				return l, true
			}
		case *ssa.MakeInterface:
			if l, ok := g.shiftOf(x, seen); ok {
				return l, true
			}
		case *ssa.Call:
			if FuncNameIs(x.Call.StaticCallee(), "pkg/expr.NewBinary") && len(x.Call.Args) == 4 {
				if k, ok := ConstInt(x.Call.Args[0]); ok && k == lsh && Unwrap(x.Call.Args[1]) == Unwrap(v) {
					if bd, ok := Match(x.Call.Args[2], CallTo("pkg/expr.ConstFromUint", Capture("amt", Any()))); ok {
						if l, ok := g.lin(bd.M["amt"]); ok {
							return l, true
						}
					}
				}
			}
		}
	}
	return lin{}, false
}
