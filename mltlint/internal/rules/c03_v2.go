package rules

import (
	"fmt"
	"go/token"
	"strings"

	"golang.org/x/tools/go/ssa"

	. "mltlint/internal/core"
)

// C03, second formulation. Every rule below is stated over Emulator.Step
// together with whatever same-package helpers it calls (deep sites, values
// translated along the call chain), so that a rule reads the same whether a
// piece of Step is written in place, in a helper, as a closure or as a method.

func checkC03(c *Ctx) {
	c.Rule("C03.pre", "pre-state evaluation: in no function of package emulator is a call that can read state (RegMap/MemMap Load, the state provider, or anything that reaches them) reachable after a call that can apply an effect (State.Apply or anything that reaches it); what State.Apply is given derives from an EffectsApply/EffectApply evaluation (raw Effects() reach it only through one) done with Emulator.eval; the evaluated effects are those of the instruction looked up at MustIP()")
	c.Rule("C03.ft", "fall-through: a store of the instruction pointer whose value is ConstFromUint(End()) of the looked-up instruction exists, no effect is applied after it, and - walked concretely for a single applied effect - it is executed exactly when that effect is not a RegStore to expr.IPKey")
	c.Rule("C03.fail", "failure: the miss edge of every Address lookup of the current instruction leads, without evaluating or applying anything, to a return of a non-nil error; errors are propagated in package emulator")
	c.Rule("C03.rep", "report pairing: every function given to ReplaceAll by eval reads the value with regValue/memValue from its own load (key, width, folded address), reports that same read, and returns the value read; every applied effect is also given to recordOutput; a refused Apply panics; recordOutput files register and memory writes under the effect's own key/address/value")
	c.Rule("C03.eval", "eval substitutes registers, then memory, then constant-folds")
	c.Rule("C03.lay", "package main installs, under riscv.MemoryKey, memory.NewOverlay(<Bytes built from the ELF image>, memory.NewSparse())")
	c.Rule("C03.exh", "every type switch over expr.Effect in package emulator and State.Apply is exhaustive")

	step := anchor(c, "(*"+pkgEmul+".Emulator).Step")
	if step == nil {
		return
	}
	enter := InModulePkg(step)
	key := ShortName(step)
	evs := evaluators(c)
	emulFns := c.Prog.FuncsIn(ModulePath + "/" + pkgEmul)

	// --- appliers: functions of package emulator from which State.Apply is reachable
	isApply := func(f *ssa.Function) bool { return FuncNameIs(f, "(*"+pkgState+".State).Apply") }
	appliers := map[*ssa.Function]bool{}
	for changed := true; changed; {
		changed = false
		for _, fn := range emulFns {
			if appliers[fn] || fn.Blocks == nil {
				continue
			}
			for _, cs := range Calls(fn) {
				if f := Callee(cs.Common()); f != nil && (isApply(f) || appliers[f]) {
					appliers[fn] = true
					changed = true
				}
			}
		}
	}
	isApplierCall := func(in ssa.Instruction) bool {
		ci, ok := in.(ssa.CallInstruction)
		if !ok {
			return false
		}
		f := Callee(ci.Common())
		return f != nil && (isApply(f) || appliers[f])
	}
	isEvalCall := func(in ssa.Instruction) bool {
		ci, ok := in.(ssa.CallInstruction)
		if !ok {
			return false
		}
		cc := ci.Common()
		if cc.IsInvoke() {
			n := NamedOf(cc.Value.Type())
			return n != nil && n.Obj().Name() == "StateProvider"
		}
		if f := Callee(cc); f != nil && evs[f] && !(appliers[f] && f == step) {
			return true
		}
		for _, a := range cc.Args {
			if f, _ := ResolveFunc(a); f != nil && evs[f] {
				return true
			}
		}
		return false
	}

	// C03.pre/order: nothing reads state after something was applied
	nOrder := 0
	for _, fn := range emulFns {
		if fn.Blocks == nil || fn.Origin() != nil {
			continue
		}
		for _, b := range fn.Blocks {
			for _, in := range b.Instrs {
				if !isApplierCall(in) {
					continue
				}
				nOrder++
				bad := ""
				ReachableFromInstr(in, func(x ssa.Instruction) {
					if isEvalCall(x) {
						bad = c.Prog.Pos(x.Pos())
					}
				})
				// the instruction itself when it lies on a cycle is covered by ReachableFromInstr
				c.Oblige("C03.pre", fmt.Sprintf("%s/no-state-read-after-%s", ShortName(fn), calleeShort(in)), c.Prog.Pos(in.Pos()), bad == "",
					"state is read at "+bad+" after effects have started to be applied: a later effect sees the result of an earlier one instead of the pre-state")
			}
		}
	}
	c.RequireCount("C03.pre calls that apply effects", nOrder, 1)

	// C03.pre/source: what is applied was evaluated
	isEvaluation := func(v ssa.Value) bool {
		call, ok := v.(*ssa.Call)
		if !ok {
			return false
		}
		f := call.Call.StaticCallee()
		if f == nil || PkgPathOf(f) != ModulePath+"/"+pkgXform {
			return false
		}
		n := NameOf(Origin(f))
		return n == "EffectsApply" || n == "EffectApply"
	}
	isRawEffects := func(v ssa.Value) bool {
		call, ok := v.(*ssa.Call)
		if !ok {
			return false
		}
		if call.Call.IsInvoke() {
			return call.Call.Method.Name() == "Effects"
		}
		f := call.Call.StaticCallee()
		return f != nil && NameOf(f) == "Effects"
	}
	applySites := DeepInstrs(step, enter, func(in ssa.Instruction) bool {
		ci, ok := in.(ssa.CallInstruction)
		return ok && isApply(Callee(ci.Common()))
	})
	for i, s := range applySites {
		arg := s.Call().Common().Args[1]
		evaluated := DependsOnVia(s.Chain, arg, enter, isEvaluation, nil)
		raw := DependsOnVia(s.Chain, arg, enter, isRawEffects, isEvaluation)
		why := ""
		switch {
		case !evaluated:
			why = "the effect given to State.Apply does not come out of an EffectsApply/EffectApply evaluation"
		case raw:
			why = "an unevaluated effect (Effects() of the instruction) can reach State.Apply"
		}
		c.Oblige("C03.pre", fmt.Sprintf("%s/apply-evaluated-effects#%d", key, i+1), c.Prog.Pos(s.Instr.Pos()), why == "", why)
	}
	c.RequireCount("C03.pre State.Apply sites reached from Step", len(applySites), 1)

	// C03.pre/eval and /current-instruction: the evaluation itself
	evalSites := DeepInstrs(step, enter, func(in ssa.Instruction) bool {
		v, ok := in.(ssa.Value)
		return ok && isEvaluation(v)
	})
	isAddressLookup := func(v ssa.Value) bool {
		call, ok := v.(*ssa.Call)
		if !ok {
			return false
		}
		f := call.Call.StaticCallee()
		return f != nil && NameOf(f) == "Address" && strings.HasPrefix(PkgPathOf(f), ModulePath+"/"+pkgDeps)
	}
	isMustIP := func(v ssa.Value) bool {
		call, ok := v.(*ssa.Call)
		return ok && call.Call.StaticCallee() != nil && NameOf(call.Call.StaticCallee()) == "MustIP"
	}
	for i, s := range evalSites {
		call := s.Instr.(*ssa.Call)
		evalOK := false
		for _, a := range call.Call.Args {
			f, _ := ResolveFunc(a)
			if f == nil {
				continue
			}
			for _, cs := range DeepCalls(f, enter) {
				if g := Callee(cs.Call().Common()); g != nil && NameOf(g) == "eval" && PkgPathOf(g) == ModulePath+"/"+pkgEmul {
					evalOK = true
				}
			}
		}
		c.Oblige("C03.pre", fmt.Sprintf("%s/evaluated-with-eval#%d", key, i+1), c.Prog.Pos(call.Pos()), evalOK, "the effects are not evaluated with Emulator.eval")
		src := call.Call.Args[0]
		curOK := DependsOnVia(s.Chain, src, enter, func(v ssa.Value) bool {
			if !isRawEffects(v) {
				return false
			}
			rc := v.(*ssa.Call)
			recv := rc.Call.Value
			if !rc.Call.IsInvoke() && len(rc.Call.Args) > 0 {
				recv = rc.Call.Args[0]
			}
			// the instruction whose effects are taken was looked up by address
			return DependsOnVia(s.Chain, recv, enter, isAddressLookup, nil) || DependsOnVia(nil, recv, enter, isAddressLookup, nil)
		}, nil)
		c.Oblige("C03.pre", fmt.Sprintf("%s/effects-of-current-instruction#%d", key, i+1), c.Prog.Pos(call.Pos()), curOK, "the evaluated effects are not those of the instruction found at the instruction pointer")
	}
	c.RequireCount("C03.pre evaluation calls reached from Step", len(evalSites), 1)
	// the lookups: by MustIP()
	lookups := DeepInstrs(step, enter, func(in ssa.Instruction) bool {
		v, ok := in.(ssa.Value)
		return ok && isAddressLookup(v)
	})
	ipOK := false
	for _, s := range lookups {
		call := s.Instr.(*ssa.Call)
		if DependsOnVia(s.Chain, call.Call.Args[len(call.Call.Args)-1], enter, isMustIP, nil) {
			ipOK = true
		}
	}
	c.Oblige("C03.pre", key+"/lookup-at-MustIP", c.Prog.FuncPos(step), ipOK, "the current instruction is not looked up at State.Regs.MustIP()")

	// --- C03.fail: the miss edges
	nMiss := 0
	for i, s := range lookups {
		call := s.Instr.(*ssa.Call)
		okV := extractOf(call, 1)
		if okV == nil || okV.Referrers() == nil {
			continue
		}
		for _, r := range *okV.Referrers() {
			var miss *ssa.BasicBlock
			switch x := r.(type) {
			case *ssa.If:
				miss = x.Block().Succs[1]
			case *ssa.UnOp:
				if x.Op == token.NOT && x.Referrers() != nil {
					for _, r2 := range *x.Referrers() {
						if iff, ok := r2.(*ssa.If); ok {
							miss = iff.Block().Succs[0]
						}
					}
				}
			}
			if miss == nil {
				continue
			}
			nMiss++
			bad := ""
			seen := map[*ssa.BasicBlock]bool{}
			var walk func(b *ssa.BasicBlock)
			walk = func(b *ssa.BasicBlock) {
				if seen[b] {
					return
				}
				seen[b] = true
				for _, in := range b.Instrs {
					if isEvalCall(in) || isApplierCall(in) || func() bool { v, ok := in.(ssa.Value); return ok && isEvaluation(v) }() {
						bad = "effects are evaluated or applied at " + c.Prog.Pos(in.Pos()) + " although the instruction was not found"
					}
				}
				switch t := b.Instrs[len(b.Instrs)-1].(type) {
				case *ssa.Return:
					if len(t.Results) == 0 || IsNilConst(t.Results[len(t.Results)-1]) {
						bad = "the function returns without an error at " + c.Prog.Pos(t.Pos()) + " although the instruction was not found"
					}
				case *ssa.Panic:
				default:
					for _, sx := range b.Succs {
						walk(sx)
					}
				}
			}
			walk(miss)
			c.Oblige("C03.fail", fmt.Sprintf("%s/miss#%d", ShortName(s.Fn), i+1), c.Prog.Pos(call.Pos()), bad == "", bad)
		}
	}
	c.RequireCount("C03.fail lookup miss edges", nMiss, 2)
	checkErrflow(c, "C03.fail", []string{pkgEmul}, nil) // may be empty when the lookups are written in Step itself

	// --- C03.ft
	ipKey := ""
	if ep := c.Prog.SSAPkg[ExprPkg]; ep != nil && ep.Const("IPKey") != nil {
		ipKey = strings.Trim(ep.Const("IPKey").Value.Value.ExactString(), "\"")
	}
	isIPConst := func(v ssa.Value) bool {
		k, ok := Unwrap(v).(*ssa.Const)
		return ok && k.Value != nil && ipKey != "" && strings.Trim(k.Value.ExactString(), "\"") == ipKey
	}
	isRegStoreCall := func(in ssa.Instruction) bool {
		ci, ok := in.(ssa.CallInstruction)
		return ok && FuncNameIs(Callee(ci.Common()), "(*"+pkgState+".RegMap).Store")
	}
	nFT := 0
	var ftSites []Site
	for _, s := range DeepInstrs(step, enter, isRegStoreCall) {
		a := s.Call().Common().Args
		if !isIPConst(s.UpRoot(a[1])) {
			continue
		}
		nFT++
		ftSites = append(ftSites, s)
		valOK := DependsOnVia(s.Chain, a[2], enter, func(v ssa.Value) bool {
			call, ok := v.(*ssa.Call)
			if !ok {
				return false
			}
			name := ""
			var recv ssa.Value
			if call.Call.IsInvoke() {
				name, recv = call.Call.Method.Name(), call.Call.Value
			} else if f := call.Call.StaticCallee(); f != nil && len(call.Call.Args) > 0 {
				name, recv = NameOf(f), call.Call.Args[0]
			}
			return name == "End" && recv != nil && (DependsOnVia(s.Chain, recv, enter, isAddressLookup, nil) || DependsOnVia(nil, recv, enter, isAddressLookup, nil))
		}, nil)
		c.Oblige("C03.ft", fmt.Sprintf("%s/fall-through-address#%d", key, nFT), c.Prog.Pos(s.Instr.Pos()), valOK, "the fall-through address is not derived from End() of the executed instruction")
		// nothing is applied after it (seen from Step)
		var from ssa.Instruction = s.Instr
		if len(s.Chain) > 0 {
			from = s.Chain[0]
		}
		late := ""
		ReachableFromInstr(from, func(x ssa.Instruction) {
			if isApplierCall(x) {
				late = c.Prog.Pos(x.Pos())
			}
		})
		c.Oblige("C03.ft", fmt.Sprintf("%s/fall-through-after-apply#%d", key, nFT), c.Prog.Pos(s.Instr.Pos()), late == "", "the fall-through store can be followed by further effect application at "+late)
	}
	c.RequireCount("C03.ft fall-through store reached from Step", nFT, 1)
	// polarity, walked concretely for one applied effect
	if nFT > 0 {
		for _, hit := range []bool{false, true} {
			stored := false
			var vl *Valuation
			vl = &Valuation{
				Enter: SamePackage(step),
				Int: func(v ssa.Value) (int64, bool) {
					if call, ok := v.(*ssa.Call); ok {
						if bi, isBi := call.Call.Value.(*ssa.Builtin); isBi && bi.Name() == "len" {
							return 1, true
						}
					}
					return 0, false
				},
				Bool: func(v ssa.Value) (bool, bool) {
					if bo, ok := v.(*ssa.BinOp); ok && (bo.Op == token.EQL || bo.Op == token.NEQ) {
						if isIPConst(vl.Root(bo.X)) || isIPConst(vl.Root(bo.Y)) {
							return hit == (bo.Op == token.EQL), true
						}
						// no error occurs; every other pointer / interface is set
						if IsNilConst(bo.X) || IsNilConst(bo.Y) {
							other := bo.X
							if IsNilConst(bo.X) {
								other = bo.Y
							}
							isNil := other.Type().String() == "error"
							return isNil == (bo.Op == token.EQL), true
						}
					}
					if ex, ok := v.(*ssa.Extract); ok && ex.Type().String() == "bool" {
						return true, true // every comma-ok lookup / assertion succeeds
					}
					if call, ok := v.(*ssa.Call); ok && isApply(call.Call.StaticCallee()) {
						return true, true
					}
					return false, false
				},
			}
			vl.Visit = func(in ssa.Instruction) {
				if isRegStoreCall(in) {
					if isIPConst(vl.Root(in.(ssa.CallInstruction).Common().Args[1])) {
						stored = true
					}
				}
			}
			res := vl.Walk(step.Blocks[0], nil)
			k := fmt.Sprintf("%s/fall-through-iff-no-jump(effect writes IP=%v)", key, hit)
			if !res.OK {
				c.Note(fmt.Sprintf("C03.ft %s: the concrete walk is not decidable (%s); polarity not decided on this tree", k, res.Why))
				continue
			}
			c.Oblige("C03.ft", k, c.Prog.FuncPos(step), stored == !hit, fmt.Sprintf("with a single applied effect that %s the instruction pointer the fall-through store is %s",
				map[bool]string{true: "writes", false: "does not write"}[hit], map[bool]string{true: "executed", false: "not executed"}[stored]))
		}
	}

	// --- C03.rep: readers given to ReplaceAll
	if ev := anchor(c, "(*"+pkgEmul+".Emulator).eval"); ev != nil {
		nRep := 0
		for _, s := range DeepCalls(ev, enter) {
			call, ok := s.Instr.(*ssa.Call)
			if !ok {
				continue
			}
			f := call.Call.StaticCallee()
			if f == nil || NameOf(Origin(f)) != "ReplaceAll" {
				continue
			}
			rf, bound := ResolveFunc(call.Call.Args[1])
			if rf == nil {
				c.Fail("C03.rep", fmt.Sprintf("%s/ReplaceAll#%d", ShortName(s.Fn), nRep+1), c.Prog.Pos(call.Pos()), "the replacement function cannot be resolved")
				continue
			}
			nRep++
			cur := rf.Params[0]
			if bound && len(rf.Params) > 1 {
				cur = rf.Params[1]
			}
			k := fmt.Sprintf("%s/reader %s", ShortName(s.Fn), ShortName(rf))
			onCur := func(name string) func(ssa.Value) bool {
				return func(v ssa.Value) bool {
					return matches(v, Method(name, func(x ssa.Value, _ *Bind) bool { return IsParam(x, cur) || Unwrap(x) == ssa.Value(cur) }))
				}
			}
			var rd *ssa.Call
			for _, cs := range Calls(rf) {
				g := Callee(cs.Common())
				if g == nil {
					continue
				}
				switch NameOf(g) {
				case "regValue", "memValue":
					rd, _ = cs.Instr.(*ssa.Call)
				}
			}
			// the report, identified by its effect (wherever it is written: in the
			// reader itself, in a Step method, in a plain helper): an update of
			// Step.RegLoads, or a store of a grown Step.MemLoads
			var rp ssa.Instruction // the instruction of rf that makes the report
			var repKey, repVal func(func(ssa.Value) bool) bool
			var repAddr func(func(ssa.Value) bool) bool
			for _, rs := range DeepInstrs(rf, func(g *ssa.Function) bool { return enter(g) && (rd == nil || g != rd.Call.StaticCallee()) }, func(in ssa.Instruction) bool {
				switch x := in.(type) {
				case *ssa.MapUpdate:
					return LoadOfField(x.Map, "RegLoads", func(ssa.Value) bool { return true })
				case *ssa.Store:
					fa, isFA := x.Addr.(*ssa.FieldAddr)
					return isFA && FieldOf(fa) != nil && FieldOf(fa).Name() == "MemLoads"
				}
				return false
			}) {
				rs := rs
				if len(rs.Chain) > 0 {
					rp = rs.Chain[0]
				} else {
					rp = rs.Instr
				}
				// reached by copying only: arithmetic on the way (addr+1) is not the
				// value that was read
				noArith := func(v ssa.Value) bool {
					_, isB := v.(*ssa.BinOp)
					return isB || (rd != nil && v == ssa.Value(rd))
				}
				via := func(v ssa.Value) func(func(ssa.Value) bool) bool {
					return func(src func(ssa.Value) bool) bool { return DependsOnVia(rs.Chain, v, enter, src, noArith) }
				}
				switch x := rs.Instr.(type) {
				case *ssa.MapUpdate:
					k := rs.UpRoot(x.Key)
					repKey = func(src func(ssa.Value) bool) bool { return src(k) || src(Unwrap(k)) }
					repVal = via(x.Value)
				case *ssa.Store:
					repKey, repAddr, repVal = via(x.Val), via(x.Val), via(x.Val)
				}
			}
			why := ""
			switch {
			case rd == nil:
				why = "the value is not read with regValue/memValue"
			case rp == nil:
				why = "the read is not reported (nothing is filed under Step.RegLoads / Step.MemLoads)"
			case !DependsOn(rd.Call.Args[1], onCur("Key")):
				why = "the value is not read under the load's own key"
			case !DependsOn(rd.Call.Args[len(rd.Call.Args)-1], onCur("Width")):
				why = "the value is not read at the load's own width"
			case !repKey(func(v ssa.Value) bool { return SameValue(v, rd.Call.Args[1]) }):
				why = "the report names a different key than the one read"
			case !repVal(func(v ssa.Value) bool { return v == ssa.Value(rd) }):
				why = "the reported value is not the value read"
			}
			if why == "" && NameOf(rd.Call.StaticCallee()) == "memValue" {
				if !DependsOn(rd.Call.Args[2], func(v ssa.Value) bool {
					return matches(v, CallTo(pkgXform+".ConstFold", func(x ssa.Value, _ *Bind) bool { return onCur("Addr")(x) }))
				}) {
					why = "the address read is not the constant-folded Addr() of the load"
				} else if repAddr == nil || !repAddr(func(v ssa.Value) bool { return SameValue(v, rd.Call.Args[2]) }) {
					why = "the reported address is not the address read"
				}
			}
			if why == "" {
				for _, b := range rf.Blocks {
					if ret, ok := b.Instrs[len(b.Instrs)-1].(*ssa.Return); ok && len(ret.Results) == 2 {
						if matches(ret.Results[1], BoolPat(false)) {
							continue
						}
						if !DependsOn(ret.Results[0], func(v ssa.Value) bool { return v == ssa.Value(rd) }) {
							why = "the load is not replaced by the value read"
						}
						if !InstrDominates(rp, ret) {
							why = "a load can be replaced without the read being reported"
						}
					}
				}
			}
			c.Oblige("C03.rep", k, c.Prog.FuncPos(rf), why == "", why)
		}
		c.RequireCount("C03.rep replacement functions given to ReplaceAll by eval", nRep, 2)
	}
	// recordOutput <-> Apply
	recSites := DeepInstrs(step, enter, func(in ssa.Instruction) bool {
		ci, ok := in.(ssa.CallInstruction)
		if !ok {
			return false
		}
		f := Callee(ci.Common())
		return f != nil && NameOf(f) == "recordOutput"
	})
	for i, s := range applySites {
		ef := s.UpRoot(s.Call().Common().Args[1])
		paired := false
		for _, r := range recSites {
			a := r.Call().Common().Args
			if SameValue(r.UpRoot(a[len(a)-1]), ef) || r.UpRoot(a[len(a)-1]) == ef {
				paired = true
			}
		}
		c.Oblige("C03.rep", fmt.Sprintf("%s/recordOutput(ef)<->Apply(ef)#%d", key, i+1), c.Prog.Pos(s.Instr.Pos()), paired, "the applied effect is not the effect given to recordOutput")
		// refused Apply panics
		panicOK := false
		if call, ok := s.Instr.(*ssa.Call); ok && call.Referrers() != nil {
			var visit func(v ssa.Value, neg bool)
			visit = func(v ssa.Value, neg bool) {
				if v.Referrers() == nil {
					return
				}
				for _, r := range *v.Referrers() {
					switch x := r.(type) {
					case *ssa.If:
						refused := x.Block().Succs[1]
						if neg {
							refused = x.Block().Succs[0]
						}
						if BlockExit(refused) == ExitPanic {
							panicOK = true
						}
					case *ssa.UnOp:
						if x.Op == token.NOT {
							visit(x, !neg)
						}
					}
				}
			}
			visit(call, false)
		}
		c.Oblige("C03.rep", fmt.Sprintf("%s/refused-apply-is-a-bug#%d", key, i+1), c.Prog.Pos(s.Instr.Pos()), panicOK, "a refused effect is silently skipped")
	}
	// recordOutput cases and exhaustiveness
	nTS := 0
	for _, fn := range emulFns {
		if fn.Blocks == nil || fn.Origin() != nil {
			continue
		}
		for _, ts := range c.Prog.TypeSwitches(fn, "Effect") {
			nTS++
			c.Exhaustive("C03.exh", ts, "Effect")
			if NameOf(fn) != "recordOutput" {
				continue
			}
			if e := ts.CaseValue("RegStore"); e != nil {
				ok := false
				for b := range RegionOf(ts.CaseBlock("RegStore")) {
					for _, in := range b.Instrs {
						if mu, isMU := in.(*ssa.MapUpdate); isMU && LoadOfField(mu.Map, "RegStores", func(ssa.Value) bool { return true }) {
							ok = DependsOn(mu.Key, func(v ssa.Value) bool { return accessorCallOn(v, e, "Key") }) &&
								DependsOn(mu.Value, func(v ssa.Value) bool { return accessorCallOn(v, e, "Value") })
						}
					}
				}
				c.Oblige("C03.rep", ShortName(fn)+"/RegStore", c.Prog.FuncPos(fn), ok, "a register write is not reported as RegStores[Key()] = Value()")
			}
			if e := ts.CaseValue("MemStore"); e != nil {
				// something that depends on Key(), Addr(), Value() and Width() of the effect is
				// stored into / appended to MemStores
				ok := false
				for b := range RegionOf(ts.CaseBlock("MemStore")) {
					for _, in := range b.Instrs {
						st, isSt := in.(*ssa.Store)
						if !isSt {
							continue
						}
						fa, isFA := st.Addr.(*ssa.FieldAddr)
						if !isFA || FieldOf(fa) == nil || FieldOf(fa).Name() != "MemStores" {
							continue
						}
						all := true
						for _, acc := range []string{"Key", "Addr", "Value", "Width"} {
							acc := acc
							if !DependsOnVia(nil, st.Val, enter, func(v ssa.Value) bool { return accessorCallOn(v, e, acc) }, nil) {
								all = false
							}
						}
						ok = all
					}
				}
				c.Oblige("C03.rep", ShortName(fn)+"/MemStore", c.Prog.FuncPos(fn), ok, "a memory write is not reported with the effect's own Key(), Addr(), Value() and Width()")
			}
		}
	}
	c.RequireCount("C03.exh type switches over expr.Effect in package emulator", nTS, 1)
	if apf := c.Prog.Func("(*" + ModulePath + "/" + pkgState + ".State).Apply"); apf != nil {
		for _, ts := range c.Prog.TypeSwitches(apf, "Effect") {
			c.Exhaustive("C03.exh", ts, "Effect")
		}
	}

	// --- eval
	if ev := anchor(c, "(*"+pkgEmul+".Emulator).eval"); ev != nil {
		ok := false
		for _, b := range ev.Blocks {
			if ret, isRet := b.Instrs[len(b.Instrs)-1].(*ssa.Return); isRet {
				ok = matches(ret.Results[0], TypeAssertOf("pkg/expr.Const", CallTo(pkgXform+".ConstFold",
					Method("evalMemoryFully", Any(), Method("evalRegsFully", Any(), ParamN(1), ParamN(2)), ParamN(2)))))
			}
		}
		c.Oblige("C03.eval", ShortName(ev), c.Prog.FuncPos(ev), ok, "eval is not ConstFold(evalMemoryFully(evalRegsFully(ex, s), s)): memory addresses would be evaluated before their registers are substituted, or the result left unfolded")
	}

	checkC03Const(c)
	checkC03Layering(c)
}

func calleeShort(in ssa.Instruction) string {
	if ci, ok := in.(ssa.CallInstruction); ok {
		if f := Callee(ci.Common()); f != nil {
			return NameOf(f)
		}
	}
	return "call"
}
