package rules

import (
	"fmt"
	"sort"

	"golang.org/x/tools/go/ssa"

	. "mltlint/internal/core"
)

// checkErrflow applies E11 to every call returning an error inside the given
// packages (short paths). exceptions maps obligation keys to a reason.
func checkErrflow(c *Ctx, rule string, pkgs []string, exceptions map[string]string) int {
	n := 0
	for _, pk := range pkgs {
		fns := c.Prog.FuncsIn(ModulePath + "/" + pk)
		sort.Slice(fns, func(i, j int) bool { return fns[i].String() < fns[j].String() })
		for _, fn := range fns {
			if fn.Origin() != nil || fn.Blocks == nil || fn.Synthetic != "" {
				continue
			}
			ord := map[string]int{}
			for _, cs := range Calls(fn) {
				if !HasErrorResult(cs.Common()) {
					continue
				}
				name := "dynamic"
				if f := Callee(cs.Common()); f != nil {
					name = ShortName(Origin(f))
				} else if cs.Common().IsInvoke() {
					name = "invoke." + cs.Common().Method.Name()
				}
				ord[name]++
				key := fmt.Sprintf("%s/%s#%d", ShortName(fn), name, ord[name])
				// error constructors are sources, not results to be handled
				if name == "fmt.Errorf" || name == "errors.New" {
					continue
				}
				// console output: a failed write to the terminal is not a loading error
				if f := Callee(cs.Common()); f != nil && f.Pkg != nil && f.Pkg.Pkg.Path() == "fmt" {
					continue
				}
				n++
				pos := c.Prog.Pos(cs.Pos())
				if why, ok := exceptions[key]; ok {
					c.Note("%s exception %s: %s", rule, key, why)
					c.Pass(rule, key, pos, "exception: "+why)
					continue
				}
				call, isCall := cs.Instr.(*ssa.Call)
				if !isCall {
					c.Fail(rule, key, pos, "error result of a deferred/go call is dropped")
					continue
				}
				bad := ""
				for _, ev := range ErrorResults(call) {
					if v := JudgeError(fn, ev); !v.OK {
						bad = v.Why
					}
				}
				c.Oblige(rule, key, pos, bad == "", bad)
			}
		}
	}
	return n
}
