package rules

import (
	"encoding/json"
	"fmt"
	"os"
	"path/filepath"
	"sort"
	"strconv"
	"strings"

	"golang.org/x/tools/go/ssa"

	"mltlint/internal/absint"
	. "mltlint/internal/core"
	"mltlint/internal/cube"
)

func init() { register("C02", "proof", checkC02) }

type refEntry struct {
	Name  string `json:"name"`
	Mask  string `json:"mask"`
	Match string `json:"match"`
	Xlen  []int  `json:"xlen"`
	Ext   string `json:"ext"`
}

func loadReference() ([]refEntry, error) {
	b, err := os.ReadFile(filepath.Join(VerifDir(), "spec", "rv_encodings.json"))
	if err != nil {
		// the reference table is data of the checker, not of the analysed tree
		b, err = os.ReadFile("/verif/spec/rv_encodings.json")
		if err != nil {
			return nil, err
		}
	}
	var f struct {
		Entries []refEntry `json:"entries"`
	}
	if err := json.Unmarshal(b, &f); err != nil {
		return nil, err
	}
	return f.Entries, nil
}

func hex32(s string) uint32 {
	v, _ := strconv.ParseUint(strings.TrimPrefix(s, "0x"), 16, 32)
	return uint32(v)
}

func checkC02(c *Ctx) {
	c.Rule("C02.pattern", "every table entry's pattern has equal-length bytes and mask of at most 4 bytes, a non-zero last mask byte and no match bit outside the mask")
	c.Rule("C02.disjoint", "in each of the 8 parser configurations (as evaluated from riscv.instructionSet) the implementation's patterns are pairwise disjoint")
	c.Rule("C02.accept", "in each configuration accept-set(implementation) == accept-set(reference) for all 2^32 words, decided by cube sharp in both directions")
	c.Rule("C02.name", "wherever an implementation pattern intersects a reference pattern the mnemonics are equal")
	c.Rule("C02.own", "the matcher of every Parser that NewParser returns is the one built in that call from instructionSet(v, exts); a matcher taken from package-level state (a cache) is accepted only when it was stored by NewParser itself under a key that, walked for both variants and every ordered selection of extensions, is different for different configurations")
	c.Rule("C02.len", "Parser.Parse rejects inputs shorter than instructionLen before matching; instructionLen equals the longest pattern; newInstruction reads only b[:instructionLen]; NewParser feeds instructionSet(v, exts) to the matcher")
	c.Assume = append(c.Assume,
		"/verif/spec/rv_encodings.json states the RISC-V encodings of the property's reference (written from the unprivileged ISA manual)",
		"opcode.Matcher.Match returns the pattern whose masked bytes equal the input prefix (property C19, assumed)")
	c.Extra["trusted_base"] = []string{"/verif/spec/rv_encodings.json", "mltlint/internal/cube (sharp)", "mltlint/internal/absint (SSA evaluation of riscv.init and instructionSet)", "go/ssa, go/types", "opcode.Matcher semantics (C19)"}

	ri := loadRiscv(c)
	if ri == nil {
		return
	}
	ref, err := loadReference()
	if err != nil || len(ref) < 90 {
		c.Undecide("reference table unreadable: %v", err)
		return
	}

	// --- C02.pattern
	maxLen := 0
	for _, e := range ri.T.Entries {
		key := entryKey(ri, e)
		pos := c.Prog.Pos(e.Pos)
		c.Saw("table_entries", key)
		if len(e.Bytes) > maxLen {
			maxLen = len(e.Bytes)
		}
		switch {
		case len(e.Bytes) == 0 || len(e.Bytes) != len(e.MaskBytes):
			c.Fail("C02.pattern", key, pos, fmt.Sprintf("bytes/mask lengths %d/%d", len(e.Bytes), len(e.MaskBytes)))
		case len(e.Bytes) > 4:
			c.Fail("C02.pattern", key, pos, "pattern longer than 4 bytes: bytes after the first four would influence decoding")
		case e.MaskBytes[len(e.MaskBytes)-1] == 0:
			c.Fail("C02.pattern", key, pos, "last mask byte is zero")
		case cube.Empty(e.Mask, e.Match):
			c.Fail("C02.pattern", key, pos, fmt.Sprintf("match %#08x has bits outside mask %#08x: the pattern can never match", e.Match, e.Mask))
		default:
			c.Pass("C02.pattern", key, pos, "")
		}
	}

	// --- configurations
	type cfg struct {
		variant uint64
		exts    []uint64
		name    string
	}
	var cfgs []cfg
	for _, v := range []uint64{ri.V32, ri.V64} {
		for _, s := range [][]uint64{{}, {ri.ExtM}, {ri.ExtA}, {ri.ExtM, ri.ExtA}} {
			n := fmt.Sprintf("rv%dI", ri.xlen(v))
			for _, x := range s {
				n += ri.extLetter(x)
			}
			cfgs = append(cfgs, cfg{v, s, n})
		}
	}
	var totalWords uint64
	for _, cf := range cfgs {
		impl, err := ri.T.InstructionSet(cf.variant, cf.exts)
		if err != nil {
			c.Undecide("configuration %s: %v", cf.name, err)
			continue
		}
		c.Saw("configurations_evaluated", fmt.Sprintf("%s (%d patterns)", cf.name, len(impl)))
		var ic []cube.Cube
		for _, e := range impl {
			if cube.Empty(e.Mask, e.Match) || len(e.Bytes) > 4 {
				continue
			}
			ic = append(ic, cube.Cube{Mask: e.Mask, Match: e.Match, Tag: e.Name})
		}
		var rc []cube.Cube
		letters := map[string]bool{"I": true}
		for _, x := range cf.exts {
			letters[ri.extLetter(x)] = true
		}
		for _, r := range ref {
			ok := false
			for _, xl := range r.Xlen {
				if xl == ri.xlen(cf.variant) {
					ok = true
				}
			}
			if ok && letters[r.Ext] {
				rc = append(rc, cube.Cube{Mask: hex32(r.Mask), Match: hex32(r.Match), Tag: r.Name})
			}
		}
		// also: the reverse-order extension list selects the same set
		if len(cf.exts) == 2 {
			rev, err := ri.T.InstructionSet(cf.variant, []uint64{cf.exts[1], cf.exts[0]})
			if err != nil {
				c.Undecide("configuration %s (reversed): %v", cf.name, err)
			} else if !sameEntrySet(impl, rev) {
				c.Fail("C02.accept", cf.name+"/order-independent", c.Prog.FuncPos(ri.T.Pkg.Func("instructionSet")), "instructionSet selects different tables depending on the order of extensions")
			} else {
				c.Pass("C02.accept", cf.name+"/order-independent", c.Prog.FuncPos(ri.T.Pkg.Func("instructionSet")), "")
			}
		}
		pos := c.Prog.FuncPos(ri.T.Pkg.Func("instructionSet"))
		if i, j, bad := cube.FirstOverlap(ic); bad {
			x, _ := cube.Intersect(ic[i], ic[j])
			c.Fail("C02.disjoint", cf.name, pos, fmt.Sprintf("patterns %s and %s both match word %#08x", ic[i].Tag, ic[j].Tag, x.Witness()))
		} else {
			c.Pass("C02.disjoint", cf.name, pos, "")
		}
		extra := cube.Diff(ic, rc)
		if len(extra) > 0 {
			sort.Slice(extra, func(a, b int) bool { return extra[a].Match < extra[b].Match })
			c.Fail("C02.accept", cf.name+"/impl⊆spec", pos, fmt.Sprintf("word %#08x is accepted (as %s) but is not an instruction of %s; %d such words", extra[0].Witness(), extra[0].Tag, cf.name, cube.Total(extra)))
		} else {
			c.Pass("C02.accept", cf.name+"/impl⊆spec", pos, "")
		}
		missing := cube.Diff(rc, ic)
		if len(missing) > 0 {
			sort.Slice(missing, func(a, b int) bool { return missing[a].Match < missing[b].Match })
			c.Fail("C02.accept", cf.name+"/spec⊆impl", pos, fmt.Sprintf("word %#08x (%s) is an instruction of %s but is rejected; %d such words", missing[0].Witness(), missing[0].Tag, cf.name, cube.Total(missing)))
		} else {
			c.Pass("C02.accept", cf.name+"/spec⊆impl", pos, "")
		}
		for _, e := range impl {
			key := cf.name + "/" + e.Name
			ec := cube.Cube{Mask: e.Mask, Match: e.Match, Tag: e.Name}
			bad := ""
			for _, r := range rc {
				if x, ok := cube.Intersect(ec, r); ok && r.Tag != e.Name {
					bad = fmt.Sprintf("word %#08x is named %q but the specification calls it %q", x.Witness(), e.Name, r.Tag)
					break
				}
			}
			if bad != "" {
				c.Fail("C02.name", key, c.Prog.Pos(e.Pos), bad)
			} else {
				c.Pass("C02.name", key, c.Prog.Pos(e.Pos), "")
			}
		}
		totalWords += cube.Total(ic)
	}
	c.Extra["accepted_words_summed_over_configurations"] = totalWords
	c.Extra["reference_entries"] = len(ref)

	// --- C02.len
	pk := ri.T.Pkg
	il, ok := absint.ConstByName(pk, "instructionLen")
	if !ok {
		c.Undecide("constant riscv.instructionLen does not resolve")
		return
	}
	if int(il) == maxLen && il == 4 {
		c.Pass("C02.len", "instructionLen==max-pattern-length", c.Prog.Pos(pk.Const("instructionLen").Pos()), "")
	} else {
		c.Fail("C02.len", "instructionLen==max-pattern-length", c.Prog.Pos(pk.Const("instructionLen").Pos()), fmt.Sprintf("instructionLen is %d, longest pattern is %d bytes, the specification's word is 4 bytes", il, maxLen))
	}
	parse := anchor(c, "("+pkgRiscv+".Parser).Parse")
	newIns := anchor(c, pkgRiscv+".newInstruction")
	newParser := anchor(c, pkgRiscv+".NewParser")
	if parse == nil || newIns == nil || newParser == nil {
		return
	}
	dbgCalls(c, "("+pkgRiscv+".Parser).Parse")
	// Match calls in Parse
	nMatch := 0
	for _, cs := range Calls(parse) {
		f := Callee(cs.Common())
		if f == nil || NameOf(Origin(f)) != "Match" || !strings.Contains(Origin(f).String(), "internal/opcode.Matcher") {
			continue
		}
		nMatch++
		key := ShortName(parse) + "/Match"
		bs := cs.Common().Args[len(cs.Common().Args)-1]
		if _, isParam := bs.(*ssa.Parameter); !isParam {
			c.Fail("C02.len", key, c.Prog.Pos(cs.Pos()), "Match is not given Parse's own byte slice")
			continue
		}
		if k := minLenAt(cs.Block(), bs); k >= il && k >= 4 {
			c.Pass("C02.len", key, c.Prog.Pos(cs.Pos()), "")
		} else {
			c.Fail("C02.len", key, c.Prog.Pos(cs.Pos()), fmt.Sprintf("Match is reachable with len(bs) >= %d only; inputs shorter than %d bytes must be rejected first", k, il))
		}
	}
	c.RequireCount("C02.len Match call", nMatch, 1)
	// the short-input path returns an error
	// (a return whose error result is non-nil is dominated by ... ) - decided by the guard above together with:
	nRetErr := 0
	for _, b := range parse.Blocks {
		ret, ok := b.Instrs[len(b.Instrs)-1].(*ssa.Return)
		if !ok || len(ret.Results) != 2 {
			continue
		}
		if IsNilConst(ret.Results[1]) {
			// success return: must be after Match succeeded and with len>=4
			bs := parse.Params[2]
			if minLenAt(b, bs) < 4 {
				c.Fail("C02.len", ShortName(parse)+"/success-return", c.Prog.Pos(ret.Pos()), "an instruction is returned for an input shorter than 4 bytes")
			} else {
				c.Pass("C02.len", ShortName(parse)+"/success-return", c.Prog.Pos(ret.Pos()), "")
			}
		} else {
			nRetErr++
		}
	}
	c.RequireCount("C02.len error returns", nRetErr, 2)

	// newInstruction: uses of b
	bparam := newIns.Params[1]
	okUses, badUse := true, ""
	if refs := bparam.Referrers(); refs != nil {
		for _, r := range *refs {
			switch x := r.(type) {
			case *ssa.Call:
				if bi, ok := x.Call.Value.(*ssa.Builtin); ok && bi.Name() == "len" {
					continue
				}
				okUses, badUse = false, c.Prog.Pos(x.Pos())
			case *ssa.Slice:
				hi, hok := int64(-1), false
				if x.High != nil {
					hi, hok = ConstInt(x.High)
				}
				lo := int64(0)
				if x.Low != nil {
					lo, _ = ConstInt(x.Low)
				}
				if !hok || hi > il || lo != 0 {
					okUses, badUse = false, c.Prog.Pos(x.Pos())
				}
			case *ssa.DebugRef:
			default:
				okUses, badUse = false, c.Prog.Pos(r.Pos())
			}
		}
	}
	if okUses {
		c.Pass("C02.len", ShortName(newIns)+"/reads-b[:instructionLen]-only", c.Prog.FuncPos(newIns), "")
	} else {
		c.Fail("C02.len", ShortName(newIns)+"/reads-b[:instructionLen]-only", badUse, "newInstruction reads bytes of b other than b[:instructionLen]: trailing bytes can influence decoding")
	}
	// Parse passes its own a, bs and the matched type
	nNI := 0
	for _, cs := range CallsTo(parse, newIns) {
		nNI++
		a := cs.Common().Args
		_, ok0 := a[0].(*ssa.Parameter)
		_, ok1 := a[1].(*ssa.Parameter)
		ok2 := matches(a[2], ExtractN(0, Method("Match", Any())))
		if ok0 && ok1 && ok2 {
			c.Pass("C02.len", ShortName(parse)+"/newInstruction(a,bs,matched)", c.Prog.Pos(cs.Pos()), "")
		} else {
			c.Fail("C02.len", ShortName(parse)+"/newInstruction(a,bs,matched)", c.Prog.Pos(cs.Pos()), "the decoded instruction is not built from Parse's own address, bytes and the matched pattern")
		}
	}
	c.RequireCount("C02.len newInstruction call", nNI, 1)
	// NewParser
	nNM := 0
	for _, cs := range Calls(newParser) {
		f := Callee(cs.Common())
		if f == nil || !strings.Contains(Origin(f).String(), "internal/opcode.NewMatcher") {
			continue
		}
		nNM++
		if matches(cs.Common().Args[0], CallTo(pkgRiscv+".instructionSet", ParamN(0), ParamN(1))) {
			c.Pass("C02.len", ShortName(newParser)+"/NewMatcher(instructionSet(v,exts))", c.Prog.Pos(cs.Pos()), "")
		} else {
			c.Fail("C02.len", ShortName(newParser)+"/NewMatcher(instructionSet(v,exts))", c.Prog.Pos(cs.Pos()), "the matcher is not built from instructionSet(v, exts) of NewParser's own arguments")
		}
	}
	c.RequireCount("C02.len NewMatcher call", nNM, 1)
	checkParserOwnsMatcher(c, newParser)
}

func sameEntrySet(a, b []*absint.Entry) bool {
	if len(a) != len(b) {
		return false
	}
	m := map[*absint.Entry]int{}
	for _, e := range a {
		m[e]++
	}
	for _, e := range b {
		m[e]--
	}
	for _, n := range m {
		if n != 0 {
			return false
		}
	}
	return true
}
