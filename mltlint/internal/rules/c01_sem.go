package rules

import (
	"fmt"
	"go/token"
	"sort"
	"strings"

	"mltlint/internal/absint"
	. "mltlint/internal/core"
)

// C01.sem: reference semantics. The effect terms that abstract interpretation
// derives for a table entry (on the path where no register operand is x0) are
// brought into a canonical form and compared with the canonical form of the
// instruction's definition in the unprivileged ISA manual, written down in
// refSemantics below in the same vocabulary. The canonical form is invariant
// under the rewrites that cannot change the value:
//   - operations whose low bytes depend only on the low bytes of their
//     operands (add, mul, nand, and, or, xor, sub, not, neg, lsh in its first
//     operand, bit masks) may be evaluated at any width >= the width needed;
//   - commutative operators have their operands sorted;
//   - the comparison helpers are reduced to three relations (ltu, lts, eq)
//     with the branches swapped where needed (Les/Leu, Less(0, x) = "x != 0");
//   - sign extension above the bytes that are looked at, and width adapters
//     that do not cut, are transparent; constants are compared by value
//     (known) or by the instruction bits they are decoded from (immediates;
//     their bit-exact decoding is C01.F2, their width discipline C01.F8).
// What the form does not see through: replacing a helper by its expansion or
// by an algebraically equal term of different shape. The meaning of the
// helpers themselves is C11 (not decided).

type semErr struct{ msg string }

func semBin(name string, kk int, commutative bool, args ...string) string {
	if commutative {
		sort.Strings(args)
	}
	return fmt.Sprintf("%s(%s)@%d", name, strings.Join(args, ", "), kk)
}

func semCond(rel, t, f string) string { return "cond(" + rel + " ? " + t + " : " + f + ")" }

type semCanon struct {
	in  *absint.Interp
	ops opConsts
	err string
	// instruction bits whose value the path has decided
	bits map[int]int
}

// pathBits: the instruction bits a path has decided by testing them alone.
func pathBits(conds []absint.CondRec) map[int]int {
	out := map[int]int{}
	for _, cr := range conds {
		d := cr.Desc
		if d == nil || !d.OneBit || d.Const != 0 || (d.Op != token.EQL && d.Op != token.NEQ) {
			continue
		}
		isZero := (d.Op == token.EQL) == cr.Outcome
		if d.Neg {
			isZero = !isZero
		}
		if isZero {
			out[d.Bit] = 0
		} else {
			out[d.Bit] = 1
		}
	}
	return out
}

func minInt(a, b int) int {
	if a < b {
		return a
	}
	return b
}

func (s *semCanon) fail(format string, a ...interface{}) string {
	if s.err == "" {
		s.err = fmt.Sprintf(format, a...)
	}
	return "?"
}

func maskBytes(v uint64, k int) uint64 {
	if k >= 8 {
		return v
	}
	return v & (uint64(1)<<uint(8*k) - 1)
}

// konst renders a constant operand (the argument of a constant constructor).
func (s *semCanon) konst(v absint.Value, k int) string {
	iv, ok := absint.UnwrapV(v).(absint.IntV)
	if !ok {
		return s.fail("a constant is built from %s", absint.Render(v))
	}
	if iv.Known() {
		return fmt.Sprintf("k%#x", maskBytes(iv.V, k))
	}
	deps := absint.Ranges(iv.AllDeps())
	// every bit a known value or an exact copy of one instruction bit: the
	// constant is spelled bit by bit (bits above the Go type follow its
	// signedness, as the constant constructors extend them)
	if iv.AllDeps()&absint.AddrBit == 0 && iv.Dep != nil && k >= 1 && k <= 8 {
		tw := 8 * s.in.ByteWidth(iv)
		tok := make([]string, 8*k)
		bitTok := func(q int) string {
			switch {
			case iv.Unk>>uint(q)&1 == 0:
				return fmt.Sprint(iv.V >> uint(q) & 1)
			case iv.Ex>>uint(q)&1 == 1:
				if src, ok := singleBit(iv.Dep[q]); ok {
					if v, known := s.bits[src]; known {
						return fmt.Sprint(v)
					}
					return fmt.Sprintf("b%d", src)
				}
			}
			return ""
		}
		exact := true
		for p := range tok {
			switch {
			case p < tw:
				tok[p] = bitTok(p)
			case s.in.MaybeNegative(iv):
				tok[p] = bitTok(tw - 1)
			default:
				tok[p] = "0"
			}
			if tok[p] == "" {
				exact = false
			}
		}
		if exact {
			return "imm{" + deps + "|" + renderImmBits(tok) + "}"
		}
	}
	return "imm{" + deps + "}"
}

func singleBit(d absint.Dep) (int, bool) {
	if d == 0 || d&(d-1) != 0 {
		return 0, false
	}
	n := 0
	for d>>1 != 0 {
		d >>= 1
		n++
	}
	return n, true
}

// renderImmBits spells a constant given bit by bit ("0", "1", "b<n>": a copy of
// instruction bit n). The run of equal bits that reaches the top is written
// open-ended ("11+=b31"), so the spelling does not depend on the width it is
// looked at as long as the width reaches into that run.
func renderImmBits(tok []string) string {
	n := len(tok)
	t := n - 1
	for t > 0 && tok[t-1] == tok[n-1] {
		t--
	}
	var segs []string
	src := func(s string) (int, bool) {
		if len(s) > 1 && s[0] == 'b' {
			v := 0
			fmt.Sscanf(s[1:], "%d", &v)
			return v, true
		}
		return 0, false
	}
	for p := 0; p < t; {
		q := p
		if b0, isB := src(tok[p]); isB {
			for q+1 < t {
				if b1, ok := src(tok[q+1]); ok && b1 == b0+(q+1-p) {
					q++
				} else {
					break
				}
			}
			if q > p {
				segs = append(segs, fmt.Sprintf("%d-%d=b%d-%d", p, q, b0, b0+q-p))
			} else {
				segs = append(segs, fmt.Sprintf("%d=b%d", p, b0))
			}
		} else {
			for q+1 < t && tok[q+1] == tok[p] {
				q++
			}
			if q > p {
				segs = append(segs, fmt.Sprintf("%d-%d=%s", p, q, tok[p]))
			} else {
				segs = append(segs, fmt.Sprintf("%d=%s", p, tok[p]))
			}
		}
		p = q + 1
	}
	segs = append(segs, fmt.Sprintf("%d+=%s", t, tok[n-1]))
	return strings.Join(segs, ",")
}

// refImm spells an immediate of the reference the same way: segs are (first
// destination bit, first source bit, count) copies, the bits from `from`
// upwards are ext ("0" or "b31"), everything else is zero.
func refImm(known map[int]int, deps string, from int, ext string, segs ...[3]int) string {
	tok := make([]string, 64)
	for i := range tok {
		tok[i] = "0"
	}
	for _, sg := range segs {
		for i := 0; i < sg[2]; i++ {
			tok[sg[0]+i] = fmt.Sprintf("b%d", sg[1]+i)
		}
	}
	for i := from; i < 64; i++ {
		tok[i] = ext
	}
	for i, t := range tok {
		if len(t) > 1 && t[0] == 'b' {
			b := 0
			fmt.Sscanf(t[1:], "%d", &b)
			if v, ok := known[b]; ok {
				tok[i] = fmt.Sprint(v)
			}
		}
	}
	return "imm{" + deps + "|" + renderImmBits(tok) + "}"
}

func isImm(s string) bool { return strings.HasPrefix(s, "imm{") }

// canon renders the low k bytes of v.
func (s *semCanon) canon(v absint.Value, k int) string {
	v = absint.UnwrapV(v)
	t, ok := v.(term)
	if !ok {
		return s.fail("a non-term value %s is used as an expression", absint.Render(v))
	}
	w, hasW := widthOf(s.in, t)
	kk := k
	if hasW {
		kk = minInt(k, w)
	}
	a := func(i, n int) string { return s.canon(t.Args[i], n) }
	knownInt := func(i int) (uint64, bool) {
		iv, ok := absint.UnwrapV(t.Args[i]).(absint.IntV)
		if !ok || !iv.Known() {
			return 0, false
		}
		return iv.V, true
	}
	own := func(i, dflt int) int {
		if ot, ok := absint.UnwrapV(t.Args[i]).(term); ok {
			if ow, has := widthOf(s.in, ot); has {
				return ow
			}
		}
		return dflt
	}
	switch t.Fn {
	case "global expr.Zero":
		return "k0x0"
	case "global expr.One":
		return "k0x1"
	case "expr.ConstFromInt", "expr.ConstFromUint", "expr.NewConstInt", "expr.NewConstUint":
		return s.konst(t.Args[0], kk)
	case "expr.NewRegLoad":
		key, ok := absint.UnwrapV(t.Args[0]).(absint.OpaqueV)
		if !ok {
			return s.fail("register load with key %s", absint.Render(t.Args[0]))
		}
		name := ""
		switch {
		case key.Prefix == "x" && key.Dep == 0x1f<<15:
			name = "R1"
		case key.Prefix == "x" && key.Dep == 0x1f<<20:
			name = "R2"
		case key.Prefix == "csr" && key.Dep == 0xfff<<20:
			name = "CSR"
		default:
			return s.fail("register load from %q numbered by instruction bits %s", key.Prefix, absint.Ranges(key.Dep))
		}
		return fmt.Sprintf("%s:%d", name, kk)
	case "expr.NewMemLoad":
		key, _ := absint.UnwrapV(t.Args[0]).(absint.StrV)
		return fmt.Sprintf("load%d[%s](%s)", w, string(key), s.addr(t.Args[1]))
	case "expr.NewBinary":
		op, ok := knownInt(0)
		if !ok {
			return s.fail("binary operation with unknown operator")
		}
		switch op {
		case s.ops.add:
			return semBin("add", kk, true, a(1, kk), a(2, kk))
		case s.ops.mul:
			return semBin("mul", kk, true, a(1, kk), a(2, kk))
		case s.ops.nand:
			return semBin("nand", kk, true, a(1, kk), a(2, kk))
		case s.ops.lsh:
			return semBin("lsh", kk, false, a(1, kk), a(2, w))
		case s.ops.rsh:
			return semBin("rsh", w, false, a(1, w), a(2, w))
		case s.ops.div:
			return semBin("div", w, false, a(1, w), a(2, w))
		}
		return s.fail("binary operator %d", op)
	case "expr.NewLess":
		x, y := a(0, w), a(1, w)
		if x == "k0x0" {
			return semCond("nz("+y+")", a(2, kk), a(3, kk))
		}
		return semCond(semBin("ltu", w, false, x, y), a(2, kk), a(3, kk))
	case "exprtools.Eq":
		return semCond(semBin("eq", w, true, a(0, w), a(1, w)), a(2, kk), a(3, kk))
	case "exprtools.Lts":
		return semCond(semBin("lts", w, false, a(0, w), a(1, w)), a(2, kk), a(3, kk))
	case "exprtools.Les": // a <= b  ==  !(b < a)
		return semCond(semBin("lts", w, false, a(1, w), a(0, w)), a(3, kk), a(2, kk))
	case "exprtools.Leu":
		return semCond(semBin("ltu", w, false, a(1, w), a(0, w)), a(3, kk), a(2, kk))
	case "exprtools.BoolCond":
		return semCond("nz("+a(0, 8)+")", a(1, kk), a(2, kk))
	case "exprtools.SignExtend":
		bt, ok := asTerm(t.Args[1])
		if !ok || len(bt.Args) < 1 {
			return s.fail("sign extension from a computed bit position")
		}
		biv, ok := absint.UnwrapV(bt.Args[0]).(absint.IntV)
		if !ok || !biv.Known() {
			return s.fail("sign extension from an unknown bit position")
		}
		bit := int(biv.V)
		if bit+1 >= 8*kk {
			return a(0, kk)
		}
		inner := a(0, (bit+8)/8)
		if isImm(inner) && (bit+1)%8 == 0 {
			// the spelling of an immediate already continues its top bit upwards
			return inner
		}
		return fmt.Sprintf("sext%d(%s)", bit, inner)
	case "exprtools.NewWidthGadget":
		if w >= k {
			return a(0, k)
		}
		return fmt.Sprintf("zext%d(%s)", w, a(0, w))
	case "exprtools.BitAnd":
		return semBin("and", kk, true, a(0, kk), a(1, kk))
	case "exprtools.BitOr":
		return semBin("or", kk, true, a(0, kk), a(1, kk))
	case "exprtools.BitXor":
		return semBin("xor", kk, true, a(0, kk), a(1, kk))
	case "exprtools.Sub":
		return semBin("sub", kk, false, a(0, kk), a(1, kk))
	case "exprtools.BitNot":
		return semBin("not", kk, false, a(0, kk))
	case "exprtools.Negate":
		return semBin("neg", kk, false, a(0, kk))
	case "exprtools.MaskBits":
		n, ok := knownInt(1)
		if !ok {
			return s.fail("bit mask of unknown size")
		}
		return fmt.Sprintf("mask%d(%s)", n, a(0, kk))
	case "exprtools.RshA":
		return semBin("rsha", w, false, a(0, w), a(1, w))
	case "exprtools.SignedDiv":
		// the signed helpers take sign and magnitude of an operand at the operand's
		// own width, so that width is part of the form
		return semBin("sdiv", w, false, a(0, own(0, w)), a(1, own(1, w)))
	case "exprtools.SignedMod":
		return semBin("smod", w, false, a(0, own(0, w)), a(1, own(1, w)))
	case "exprtools.Mod":
		return semBin("mod", w, false, a(0, w), a(1, w))
	case "exprtools.SignedMul":
		return semBin("smul", 2*w, true, a(0, w), a(1, w))
	case "exprtools.Abs":
		return semBin("abs", w, false, a(0, w))
	case "exprtools.IntNegative":
		return semBin("isneg", w, false, a(0, w))
	case "exprtools.Ones":
		return fmt.Sprintf("k%#x", maskBytes(^uint64(0), kk))
	}
	return s.fail("the helper %s is not part of the reference vocabulary", t.Fn)
}

// addr renders an address at the register width of the variant.
func (s *semCanon) addr(v absint.Value) string { return s.canon(v, 8) }

// effect renders one effect term.
func (s *semCanon) effect(t term, ipKey string) string {
	switch t.Fn {
	case "expr.NewRegStore":
		w, _ := widthOf(s.in, t)
		dst := ""
		switch key := absint.UnwrapV(t.Args[1]).(type) {
		case absint.StrV:
			if string(key) != ipKey {
				return s.fail("register store to the fixed key %q", string(key))
			}
			dst = "ip"
		case absint.OpaqueV:
			switch {
			case key.Prefix == "x" && key.Dep == 0x1f<<7:
				dst = "rd"
			case key.Prefix == "csr" && key.Dep == 0xfff<<20:
				dst = "csr"
			default:
				return s.fail("register store to %q numbered by instruction bits %s", key.Prefix, absint.Ranges(key.Dep))
			}
		default:
			return s.fail("register store with key %s", absint.Render(t.Args[1]))
		}
		return fmt.Sprintf("%s:%d := %s", dst, w, s.canon(t.Args[0], w))
	case "expr.NewMemStore":
		w, _ := widthOf(s.in, t)
		key, _ := absint.UnwrapV(t.Args[1]).(absint.StrV)
		return fmt.Sprintf("mem%d[%s](%s) := %s", w, string(key), s.addr(t.Args[2]), s.canon(t.Args[0], w))
	}
	return s.fail("effect %s", t.Fn)
}

// ---------------------------------------------------------------------------
// The reference: RV32/RV64 I, M, A as defined by the unprivileged ISA manual
// (volume I, 20191213), in the canonical vocabulary. X is XLEN in bytes.

func refSemantics(name string, X int, memKey string, known map[int]int) ([]string, bool) {
	r := func(n string, w int) string { return fmt.Sprintf("%s:%d", n, w) }
	R1, R2 := r("R1", X), r("R2", X)
	imm := func(bits string) string { return "imm{" + bits + "}" }
	k := func(v uint64) string { return fmt.Sprintf("k%#x", v) }
	rd := func(v string) string { return fmt.Sprintf("rd:%d := %s", X, v) }
	ip := func(v string) string { return fmt.Sprintf("ip:%d := %s", X, v) }
	csrSt := func(v string) string { return fmt.Sprintf("csr:%d := %s", X, v) }
	load := func(w int, addr string) string { return fmt.Sprintf("load%d[%s](%s)", w, memKey, addr) }
	store := func(w int, addr, v string) string { return fmt.Sprintf("mem%d[%s](%s) := %s", w, memKey, addr, v) }
	sext := func(bit int, v string, at int) string {
		if bit+1 >= 8*at {
			return v
		}
		return fmt.Sprintf("sext%d(%s)", bit, v)
	}
	iImm := refImm(known, "20-31", 11, "b31", [3]int{0, 20, 11})
	sImm := refImm(known, "7-11,25-31", 11, "b31", [3]int{0, 7, 5}, [3]int{5, 25, 6})
	uImm := refImm(known, "12-31", 31, "b31", [3]int{12, 12, 19})
	bTarget, jTarget, pcRel, next := imm("7-11,25-31,addr"), imm("12-31,addr"), imm("12-31,addr"), imm("addr")
	shamtBits, shiftMask := "20-24", 5
	if X == 8 {
		shamtBits, shiftMask = "20-25", 6
	}
	shamt := refImm(known, shamtBits, shiftMask, "0", [3]int{0, 20, shiftMask})
	zimm := refImm(known, "15-19", 5, "0", [3]int{0, 15, 5})
	maskR2 := func(w, n int) string { return fmt.Sprintf("mask%d(%s)", n, r("R2", w)) }
	iAddr := semBin("add", X, true, R1, iImm)
	sAddr := semBin("add", X, true, R1, sImm)
	set := func(rel string) string { return semCond(rel, k(1), k(0)) }
	branch := func(rel string, taken bool) []string {
		if taken {
			return []string{ip(semCond(rel, bTarget, next))}
		}
		return []string{ip(semCond(rel, next, bTarget))}
	}
	eq := semBin("eq", X, true, R1, R2)
	lts := semBin("lts", X, false, R1, R2)
	ltu := semBin("ltu", X, false, R1, R2)
	// 32-bit forms of RV64: computed on the low words, sign-extended to 64 bits
	w32 := func(v string) []string { return []string{rd(sext(31, v, X))} }
	r1w, r2w := r("R1", 4), r("R2", 4)
	shamtW := refImm(known, "20-24", 5, "0", [3]int{0, 20, 5})

	switch name {
	case "lui":
		return []string{rd(uImm)}, true
	case "auipc":
		return []string{rd(pcRel)}, true
	case "jal":
		return []string{ip(jTarget), rd(next)}, true
	case "jalr":
		// the target is rs1+imm with its least significant bit cleared
		return []string{ip(semBin("and", X, true, iAddr, k(maskBytes(^uint64(1), X)))), rd(next)}, true
	case "beq":
		return branch(eq, true), true
	case "bne":
		return branch(eq, false), true
	case "blt":
		return branch(lts, true), true
	case "bge":
		return branch(lts, false), true
	case "bltu":
		return branch(ltu, true), true
	case "bgeu":
		return branch(ltu, false), true
	case "lb":
		return []string{rd(sext(7, load(1, iAddr), X))}, true
	case "lh":
		return []string{rd(sext(15, load(2, iAddr), X))}, true
	case "lw":
		return []string{rd(sext(31, load(4, iAddr), X))}, true
	case "ld":
		return []string{rd(load(8, iAddr))}, X == 8
	case "lbu":
		return []string{rd(load(1, iAddr))}, true
	case "lhu":
		return []string{rd(load(2, iAddr))}, true
	case "lwu":
		return []string{rd(load(4, iAddr))}, X == 8
	case "sb":
		return []string{store(1, sAddr, r("R2", 1))}, true
	case "sh":
		return []string{store(2, sAddr, r("R2", 2))}, true
	case "sw":
		return []string{store(4, sAddr, r("R2", 4))}, true
	case "sd":
		return []string{store(8, sAddr, r("R2", 8))}, X == 8
	case "addi":
		return []string{rd(iAddr)}, true
	case "slti":
		return []string{rd(set(semBin("lts", X, false, R1, iImm)))}, true
	case "sltiu":
		return []string{rd(set(semBin("ltu", X, false, R1, iImm)))}, true
	case "xori":
		return []string{rd(semBin("xor", X, true, R1, iImm))}, true
	case "ori":
		return []string{rd(semBin("or", X, true, R1, iImm))}, true
	case "andi":
		return []string{rd(semBin("and", X, true, R1, iImm))}, true
	case "slli":
		return []string{rd(semBin("lsh", X, false, R1, shamt))}, true
	case "srli":
		return []string{rd(semBin("rsh", X, false, R1, shamt))}, true
	case "srai":
		return []string{rd(semBin("rsha", X, false, R1, shamt))}, true
	case "add":
		return []string{rd(semBin("add", X, true, R1, R2))}, true
	case "sub":
		return []string{rd(semBin("sub", X, false, R1, R2))}, true
	case "sll":
		return []string{rd(semBin("lsh", X, false, R1, maskR2(X, shiftMask)))}, true
	case "slt":
		return []string{rd(set(lts))}, true
	case "sltu":
		return []string{rd(set(ltu))}, true
	case "xor":
		return []string{rd(semBin("xor", X, true, R1, R2))}, true
	case "srl":
		return []string{rd(semBin("rsh", X, false, R1, maskR2(X, shiftMask)))}, true
	case "sra":
		return []string{rd(semBin("rsha", X, false, R1, maskR2(X, shiftMask)))}, true
	case "or":
		return []string{rd(semBin("or", X, true, R1, R2))}, true
	case "and":
		return []string{rd(semBin("and", X, true, R1, R2))}, true
	case "fence", "fence.i", "ecall", "ebreak":
		return nil, true
	case "csrrw":
		return []string{rd(r("CSR", X)), csrSt(R1)}, true
	case "csrrs":
		return []string{rd(r("CSR", X)), csrSt(semBin("or", X, true, r("CSR", X), R1))}, true
	case "csrrc":
		return []string{rd(r("CSR", X)), csrSt(semBin("and", X, true, r("CSR", X), semBin("not", X, false, R1)))}, true
	case "csrrwi":
		return []string{rd(r("CSR", X)), csrSt(zimm)}, true
	case "csrrsi":
		return []string{rd(r("CSR", X)), csrSt(semBin("or", X, true, r("CSR", X), zimm))}, true
	case "csrrci":
		return []string{rd(r("CSR", X)), csrSt(semBin("and", X, true, r("CSR", X), semBin("not", X, false, zimm)))}, true
	// RV64I word forms
	case "addiw":
		return w32(semBin("add", 4, true, r1w, iImm)), X == 8
	case "slliw":
		return w32(semBin("lsh", 4, false, r1w, shamtW)), X == 8
	case "srliw":
		return w32(semBin("rsh", 4, false, r1w, shamtW)), X == 8
	case "sraiw":
		return w32(semBin("rsha", 4, false, r1w, shamtW)), X == 8
	case "addw":
		return w32(semBin("add", 4, true, r1w, r2w)), X == 8
	case "subw":
		return w32(semBin("sub", 4, false, r1w, r2w)), X == 8
	case "sllw":
		return w32(semBin("lsh", 4, false, r1w, maskR2(4, 5))), X == 8
	case "srlw":
		return w32(semBin("rsh", 4, false, r1w, maskR2(4, 5))), X == 8
	case "sraw":
		return w32(semBin("rsha", 4, false, r1w, maskR2(4, 5))), X == 8
	// M
	case "mul":
		return []string{rd(semBin("mul", X, true, R1, R2))}, true
	case "mulh":
		return []string{rd(semBin("rsh", 2*X, false, semBin("smul", 2*X, true, R1, R2), k(uint64(8*X))))}, true
	case "mulhu":
		return []string{rd(semBin("rsh", 2*X, false, semBin("mul", 2*X, true, R1, R2), k(uint64(8*X))))}, true
	case "mulhsu":
		// signed rs1 times unsigned rs2: |rs1|*rs2 as a 2*XLEN product, negated as a
		// whole when rs1 is negative, upper half
		prod := semBin("mul", 2*X, true, semBin("abs", X, false, R1), R2)
		hi := func(v string) string { return semBin("rsh", 2*X, false, v, k(uint64(8*X))) }
		return []string{rd(semCond("nz("+semBin("isneg", X, false, R1)+")", hi(semBin("neg", 2*X, false, prod)), hi(prod)))}, true
	case "div":
		return []string{rd(semBin("sdiv", X, false, R1, R2))}, true
	case "divu":
		return []string{rd(semBin("div", X, false, R1, R2))}, true
	case "rem":
		return []string{rd(semBin("smod", X, false, R1, R2))}, true
	case "remu":
		return []string{rd(semBin("mod", X, false, R1, R2))}, true
	case "mulw":
		return w32(semBin("mul", 4, true, r1w, r2w)), X == 8
	case "divw":
		return w32(semBin("sdiv", 4, false, r1w, r2w)), X == 8
	case "divuw":
		return w32(semBin("div", 4, false, r1w, r2w)), X == 8
	case "remw":
		return w32(semBin("smod", 4, false, r1w, r2w)), X == 8
	case "remuw":
		return w32(semBin("mod", 4, false, r1w, r2w)), X == 8
	}
	// A: name.w / name.d
	if i := strings.LastIndex(name, "."); i > 0 {
		base, sz := name[:i], name[i+1:]
		w := 4
		if sz == "d" {
			w = 8
			if X != 8 {
				return nil, false
			}
		} else if sz != "w" {
			return nil, false
		}
		old := load(w, R1)
		src := r("R2", w)
		oldRd := rd(sext(8*w-1, old, X))
		amo := func(v string) []string { return []string{oldRd, store(w, R1, v)} }
		switch base {
		case "lr":
			return []string{oldRd}, true
		case "sc":
			// always succeeds in this model: the value is stored and rd reads 0
			return []string{store(w, R1, src), rd(k(0))}, true
		case "amoswap":
			return amo(src), true
		case "amoadd":
			return amo(semBin("add", w, true, old, src)), true
		case "amoxor":
			return amo(semBin("xor", w, true, old, src)), true
		case "amoand":
			return amo(semBin("and", w, true, old, src)), true
		case "amoor":
			return amo(semBin("or", w, true, old, src)), true
		case "amomin":
			return amo(semCond(semBin("lts", w, false, old, src), old, src)), true
		case "amomax":
			return amo(semCond(semBin("lts", w, false, old, src), src, old)), true
		case "amominu":
			return amo(semCond(semBin("ltu", w, false, old, src), old, src)), true
		case "amomaxu":
			return amo(semCond(semBin("ltu", w, false, old, src), src, old)), true
		}
	}
	return nil, false
}

// checkSemantics emits one C01.sem obligation per table entry.
func checkSemantics(c *Ctx, ri *rvInfo, k rvConsts) int {
	in := ri.T.In
	var ops opConsts
	ep := c.Prog.SSAPkg[ExprPkg]
	if ep == nil {
		c.Undecide("C01.sem: package pkg/expr not loaded")
		return 0
	}
	get := func(n string) uint64 {
		v, ok := absint.ConstByName(ep, n)
		if !ok {
			c.Undecide("constant expr.%s does not resolve", n)
		}
		return uint64(v)
	}
	ops = opConsts{get("Add"), get("Lsh"), get("Rsh"), get("Mul"), get("Div"), get("Nand")}
	memKey := "memory"
	if rp := c.Prog.SSAPkg[ModulePath+"/"+pkgRiscv]; rp != nil {
		if mk, ok := absint.StringConstByName(rp, "MemoryKey"); ok {
			memKey = mk
		}
	}
	n := 0
	for _, e := range ri.T.Entries {
		key := entryKey(ri, e)
		pos := c.Prog.Pos(e.Pos)
		X := ri.xlen(e.Variant) / 8
		want, ok := refSemantics(e.Name, X, memKey, nil)
		if !ok {
			c.Fail("C01.sem", key, pos, "the table names an instruction that the reference (RV32/RV64 I, M, A) does not define for this variant")
			n++
			continue
		}
		f := templateFacts(ri, e)
		if f.Err != nil {
			c.Undecide("C01.sem %s: %v", key, f.Err)
			continue
		}
		p := nonZeroPath(f.Paths)
		if p == nil {
			c.Fail("C01.sem", key, pos, "no path without x0 operands found")
			n++
			continue
		}
		sc := &semCanon{in: in, ops: ops, bits: pathBits(p.Conds)}
		want, _ = refSemantics(e.Name, X, memKey, sc.bits)
		var got []string
		for _, t := range effectsOfPath(p) {
			got = append(got, sc.effect(t, k.ipKey))
		}
		n++
		if sc.err != "" {
			c.Fail("C01.sem", key, pos, "the lifted effects cannot be compared with the reference: "+sc.err)
			continue
		}
		sort.Strings(got)
		w2 := append([]string(nil), want...)
		sort.Strings(w2)
		g, w := strings.Join(got, " ; "), strings.Join(w2, " ; ")
		c.Oblige("C01.sem", key, pos, g == w, fmt.Sprintf("lifted effects differ from the instruction's definition: lifted { %s } reference { %s }", g, w))
		if g != w {
			continue
		}
		// every other path on which no register operand is x0: the lifter may
		// special-case values of an immediate (imm == 0); such a path has to give
		// the definition specialised to that value
		for qi := range f.Paths {
			q := &f.Paths[qi]
			if q == p || q.Panicked {
				continue
			}
			regsNonZero, zeroImms := true, map[string]bool{}
			for _, cr := range q.Conds {
				d := cr.Desc
				if d == nil || d.Const != 0 || (d.Op != token.EQL && d.Op != token.NEQ) {
					continue
				}
				isZero := (d.Op == token.EQL) == cr.Outcome
				if d.Neg {
					isZero = !isZero
				}
				rg := absint.Ranges(d.XDep)
				switch rg {
				case "7-11", "15-19", "20-24":
					if isZero {
						regsNonZero = false
					}
				default:
					if isZero && strings.ContainsAny(rg, "-,") {
						zeroImms[rg] = true
					}
				}
			}
			if !regsNonZero {
				continue
			}
			sq := &semCanon{in: in, ops: ops, bits: pathBits(q.Conds)}
			wantQ, _ := refSemantics(e.Name, X, memKey, sq.bits)
			var gq []string
			for _, t := range effectsOfPath(q) {
				gq = append(gq, simplifyCanon(sq.effect(t, k.ipKey)))
			}
			if sq.err != "" {
				continue
			}
			sort.Strings(gq)
			var wq []string
			for _, x := range wantQ {
				for rg := range zeroImms {
					x = replaceImm(x, rg, "k0x0")
				}
				wq = append(wq, simplifyCanon(x))
			}
			sort.Strings(wq)
			gs, ws := strings.Join(gq, " ; "), strings.Join(wq, " ; ")
			if gs != ws {
				var zs []string
				for rg := range zeroImms {
					zs = append(zs, "imm{"+rg+"} == 0")
				}
				sort.Strings(zs)
				c.Fail("C01.sem", key+"/path["+strings.Join(zs, ",")+"]", pos, fmt.Sprintf("on the path where %s the lifted effects differ from the definition specialised to that value: lifted { %s } reference { %s }", strings.Join(zs, " and "), gs, ws))
				break
			}
		}
	}
	return n
}

// replaceImm replaces every spelling of the immediate decoded from the bits rg.
func replaceImm(x, rg, by string) string {
	for {
		i := strings.Index(x, "imm{"+rg)
		if i < 0 {
			return x
		}
		rest := x[i+len("imm{"+rg):]
		if rest == "" || (rest[0] != '}' && rest[0] != '|') {
			return x
		}
		j := strings.IndexByte(rest, '}')
		if j < 0 {
			return x
		}
		x = x[:i] + by + rest[j+1:]
	}
}

// simplifyCanon applies the identities of a zero operand to a canonical term:
// add/or/xor/sub/lsh/rsh/rsha(x, 0) = x, and(x, 0) = 0 (operation and operand
// of the same width).
func simplifyCanon(s string) string {
	var out strings.Builder
	i := 0
	for i < len(s) {
		// an operator application: name '(' args ')' '@' width
		j := i
		for j < len(s) && (s[j] == '_' || s[j] >= 'a' && s[j] <= 'z' || s[j] >= 'A' && s[j] <= 'Z' || (j > i && s[j] >= '0' && s[j] <= '9')) {
			j++
		}
		if j > i && j < len(s) && s[j] == '(' {
			// matching parenthesis
			depth, k := 0, j
			for ; k < len(s); k++ {
				if s[k] == '(' {
					depth++
				} else if s[k] == ')' {
					depth--
					if depth == 0 {
						break
					}
				}
			}
			if k < len(s) {
				name := s[i:j]
				inner := simplifyCanon(s[j+1 : k])
				end := k + 1
				width := ""
				if end < len(s) && s[end] == '@' {
					e := end + 1
					for e < len(s) && s[e] >= '0' && s[e] <= '9' {
						e++
					}
					width = s[end+1 : e]
					end = e
				}
				out.WriteString(simplifyCall(name, inner, width))
				i = end
				continue
			}
		}
		if j > i {
			out.WriteString(s[i:j])
			i = j
			continue
		}
		out.WriteByte(s[i])
		i++
	}
	return out.String()
}

func simplifyCall(name, inner, width string) string {
	render := func() string {
		if width != "" {
			return name + "(" + inner + ")@" + width
		}
		return name + "(" + inner + ")"
	}
	// split the arguments at depth 0
	var args []string
	depth, last := 0, 0
	for k := 0; k < len(inner); k++ {
		switch inner[k] {
		case '(', '{', '[':
			depth++
		case ')', '}', ']':
			depth--
		case ',':
			if depth == 0 && k+1 < len(inner) && inner[k+1] == ' ' {
				args = append(args, inner[last:k])
				last = k + 2
			}
		}
	}
	args = append(args, inner[last:])
	if len(args) != 2 || width == "" {
		return render()
	}
	isZero := func(a string) bool { return a == "k0x0" }
	widthOf := func(a string) string {
		if i := strings.LastIndexAny(a, ":@"); i >= 0 {
			return a[i+1:]
		}
		return ""
	}
	x, z := "", -1
	switch {
	case isZero(args[0]):
		x, z = args[1], 0
	case isZero(args[1]):
		x, z = args[0], 1
	}
	if z < 0 {
		return render()
	}
	switch name {
	case "add", "or", "xor":
		if widthOf(x) == width {
			return x
		}
	case "sub", "lsh", "rsh", "rsha":
		if z == 1 && widthOf(x) == width {
			return x
		}
	case "and":
		return "k0x0"
	}
	return render()
}
