package rules

import (
	"fmt"
	"go/token"

	"golang.org/x/tools/go/ssa"

	"mltlint/internal/absint"
	. "mltlint/internal/core"
)

const pkgRiscv = "internal/riscv"

// rvTables evaluates riscv.instructions by abstract interpretation of the
// package initialiser. Minimum entry count confirmed by hand: 160.
const minRiscvEntries = 160

type rvInfo struct {
	T          *absint.Tables
	V32, V64   uint64
	ExtI       uint64
	ExtM, ExtA uint64
}

func loadRiscv(c *Ctx) *rvInfo {
	pk := c.Prog.SSAPkg[ModulePath+"/"+pkgRiscv]
	if pk == nil {
		c.Undecide("package %s not loaded", pkgRiscv)
		return nil
	}
	t, err := absint.EvalTables(c.Prog.SSA, pk, c.Prog.Sizes)
	if err != nil {
		c.Undecide("riscv tables: %v", err)
		return nil
	}
	if c.Tier == "thorough" {
		t.In.Bounds = absint.Bounds{Steps: absint.QuickBounds.Steps * 16, Depth: absint.QuickBounds.Depth, Paths: absint.QuickBounds.Paths * 16}
	}
	c.RequireCount("riscv.instructions entries", len(t.Entries), minRiscvEntries)
	ri := &rvInfo{T: t}
	get := func(name string) (uint64, bool) {
		v, ok := absint.ConstByName(pk, name)
		if !ok {
			c.Undecide("constant riscv.%s does not resolve", name)
		}
		return uint64(v), ok
	}
	var ok [5]bool
	ri.V32, ok[0] = get("Variant32")
	ri.V64, ok[1] = get("Variant64")
	ri.ExtI, ok[2] = get("extI")
	ri.ExtM, ok[3] = get("ExtM")
	ri.ExtA, ok[4] = get("ExtA")
	for _, o := range ok {
		if !o {
			return nil
		}
	}
	c.Extra["table_entries"] = len(t.Entries)
	c.Extra["init_ssa_steps"] = t.Steps
	return ri
}

func (ri *rvInfo) xlen(variant uint64) int {
	if variant == ri.V32 {
		return 32
	}
	if variant == ri.V64 {
		return 64
	}
	return 0
}

func (ri *rvInfo) extLetter(e uint64) string {
	switch e {
	case ri.ExtI:
		return "I"
	case ri.ExtM:
		return "M"
	case ri.ExtA:
		return "A"
	}
	return fmt.Sprintf("ext%d", e)
}

func entryKey(ri *rvInfo, e *absint.Entry) string {
	return fmt.Sprintf("rv%d/%s/%s", ri.xlen(e.Variant), ri.extLetter(e.Ext), e.Name)
}

// lenGuard: does the guard imply len(slice) >= k? Returns k.
func lenGuard(g Guard, slice ssa.Value) (int64, bool) {
	b, ok := g.Cond.(*ssa.BinOp)
	if !ok {
		return 0, false
	}
	isLen := func(v ssa.Value) bool {
		c, ok := v.(*ssa.Call)
		if !ok {
			return false
		}
		bi, ok := c.Call.Value.(*ssa.Builtin)
		return ok && bi.Name() == "len" && len(c.Call.Args) == 1 && c.Call.Args[0] == slice
	}
	op := b.Op
	var k int64
	switch {
	case isLen(b.X):
		kk, ok := ConstInt(b.Y)
		if !ok {
			return 0, false
		}
		k = kk
	case isLen(b.Y):
		kk, ok := ConstInt(b.X)
		if !ok {
			return 0, false
		}
		k = kk
		// mirror: K op len  ==  len op' K
		switch op {
		case token.LSS:
			op = token.GTR
		case token.GTR:
			op = token.LSS
		case token.LEQ:
			op = token.GEQ
		case token.GEQ:
			op = token.LEQ
		}
	default:
		return 0, false
	}
	// now: len op k with outcome
	switch {
	case op == token.LSS && !g.Outcome: // !(len < k)  => len >= k
		return k, true
	case op == token.GEQ && g.Outcome:
		return k, true
	case op == token.LEQ && !g.Outcome: // !(len <= k) => len >= k+1
		return k + 1, true
	case op == token.GTR && g.Outcome:
		return k + 1, true
	case op == token.EQL && g.Outcome:
		return k, true
	case op == token.NEQ && !g.Outcome:
		return k, true
	case op == token.EQL && !g.Outcome && k == 0: // len != 0
		return 1, true
	case op == token.NEQ && g.Outcome && k == 0:
		return 1, true
	}
	return 0, false
}

// minLenAt returns the largest k such that len(slice) >= k is implied by the
// guards dominating block b.
func minLenAt(b *ssa.BasicBlock, slice ssa.Value) int64 {
	var best int64
	for _, g := range GuardsOf(b) {
		if k, ok := lenGuard(g, slice); ok && k > best {
			best = k
		}
	}
	return best
}
