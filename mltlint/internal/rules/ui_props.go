package rules

import (
	"fmt"
	"go/constant"
	"go/token"
	"go/types"
	"math"
	"strings"

	"golang.org/x/tools/go/ssa"

	. "mltlint/internal/core"
)

func init() {
	register("C22", "other", checkC22)
	register("C23", "other", checkC23)
	register("C24", "other", checkC24)
	register("C30", "other", checkC30)
	register("C31", "other", checkC31)
	register("C32", "other", checkC32)
}

func isPrintLike(fn *ssa.Function) bool {
	n := NameOf(fn)
	root := fn
	for root.Parent() != nil {
		root = root.Parent()
	}
	n = root.Name()
	return n == "Print" || n == "Format" || n == "printLine" || n == "formatMemLine" || n == "distributeLines"
}

func fileOf(c *Ctx, fn *ssa.Function) string {
	root := fn
	for root.Parent() != nil {
		root = root.Parent()
	}
	p := c.Prog.FuncPos(root)
	if i := strings.LastIndex(p, ":"); i > 0 {
		p = p[:i]
	}
	return p
}

// --------------------------------------------------------------------- C22

func checkC22(c *Ctx) {
	c.Rule("C22.args", "command table discipline: in every consoleui.Command literal the Action reads args[k] only for k below the number of declared argument parsers (or under a dominating len(args) > k with an optional-argument parser producing it) and asserts it to the dynamic type that the k-th parser yields")
	c.Rule("C22.nilfunc", "a function-typed field of Command that some command leaves unset is called only under a nil check")
	c.Rule("C22.parse", "UI.parseCommand, walked for every number of words (0..4) x every number of mandatory argument parsers (0..3) x optional parser present or not, never indexes or slices the list of words outside its length")
	c.Rule("C22.input", "user input (the line read, its words, parser arguments) is indexed or sliced with a constant only under a dominating length check")
	c.Rule("C22.index", "a number typed by the user reaches a listing index (Lines.Index/SetMark/Block/Move, a raw slice index) only after being compared with the number of lines, reduced modulo it, or obtained from the cursor / the listing layout")
	c.Rule("C22.nil", "a pointer field that its constructor leaves nil in some cases (memoryView.c for an empty memory) is dereferenced only under a nil check")
	c.Rule("C22.loop", "processCommand answers a parse error or an action error (other than ErrQuit) with a message and returns nil, so the UI loop continues")

	n := checkCommandArgs(c, "C22.args")
	c.RequireCount("C22.args command literals", n, 17)
	nf := checkNilFuncFields(c, "C22.nilfunc")
	c.RequireCount("C22.nilfunc calls through Command fields", nf, 2)
	pc := checkParseCommandWalk(c, "C22.parse")
	ni := checkInputIndexing(c, "C22.input", func(fn *ssa.Function) bool {
		if pc != nil && (fn == pc || fn.Parent() == pc) {
			return false // decided by the C22.parse walk
		}
		return !strings.Contains(fileOf(c, fn), "memview/commands.go") // parseAddr is decided by C30
	})
	_ = ni // (today every such site is in parseCommand, which C22.parse walks)
	nl := checkLineIndices(c, "C22.index", func(fn *ssa.Function) bool { return !isPrintLike(fn) })
	c.RequireCount("C22.index line-index uses", nl, 8)
	nn := checkMaybeNilFields(c, "C22.nil", func(fn *ssa.Function) bool { return true })
	c.RequireCount("C22.nil pointer fields through which methods are called", nn, 4)

	if pc := anchor(c, "(*"+pkgUI+".UI).processCommand"); pc != nil {
		var parseCall, actionCall *ssa.Call
		for _, cs := range Calls(pc) {
			call, ok := cs.Instr.(*ssa.Call)
			if !ok {
				continue
			}
			if f := Callee(cs.Common()); f != nil && NameOf(f) == "parseCommand" {
				parseCall = call
			}
			if n, _, isF := FieldNameOfLoad(cs.Common().Value); isF && n == "Action" {
				actionCall = call
			}
			if fv, isField := Unwrap(cs.Common().Value).(*ssa.Field); isField && FieldOf(fv) != nil && FieldOf(fv).Name() == "Action" {
				actionCall = call
			}
		}
		if parseCall == nil || actionCall == nil {
			c.Undecide("C22.loop: processCommand is expected to call parseCommand and the command's Action")
		} else {
			for _, e := range []struct {
				name string
				ev   ssa.Value
			}{{"parse-error", extractOf(parseCall, 2)}, {"action-error", ssa.Value(actionCall)}} {
				// on the non-nil edge every return value is nil, quitMode() or a (wrapped) readline error - never the error itself
				bad := ""
				if e.ev == nil {
					bad = "error value not found"
				}
				for _, b := range pc.Blocks {
					ret, ok := b.Instrs[len(b.Instrs)-1].(*ssa.Return)
					if !ok || e.ev == nil {
						continue
					}
					failing := false
					for _, g := range GuardsOf(b) {
						if x, nn, isNil := NilCheck(g.Cond); isNil && x == e.ev && nn == g.Outcome {
							failing = true
						}
					}
					if !failing {
						continue
					}
					rv := ret.Results[0]
					if rv == e.ev || DependsOnVia(nil, rv, InModulePkg(pc), func(v ssa.Value) bool { return v == e.ev }, nil) {
						bad = "the error is returned to the UI loop at " + c.Prog.Pos(ret.Pos()) + ", which ends the program instead of answering with a message"
					}
				}
				// a message is printed on the failing path
				printed := false
				for _, st := range DeepCalls(pc, InModulePkg(pc)) {
					if f := Callee(st.Call().Common()); f != nil && f.String() == "fmt.Printf" {
						for _, g := range st.Guards() {
							if x, nn, isNil := NilCheck(g.Cond); isNil && x == e.ev && nn == g.Outcome {
								printed = true
							}
						}
					}
				}
				if bad == "" && !printed {
					bad = "no message is printed for the error"
				}
				c.Oblige("C22.loop", ShortName(pc)+"/"+e.name, c.Prog.FuncPos(pc), bad == "", bad)
			}
			// the action is executed only after a successful parse
			okParse := false
			for _, g := range GuardsOf(actionCall.Block()) {
				if x, nn, isNil := NilCheck(g.Cond); isNil && x == extractOf(parseCall, 2) && nn != g.Outcome {
					okParse = true
				}
			}
			c.Oblige("C22.loop", ShortName(pc)+"/action-after-parse", c.Prog.Pos(actionCall.Pos()), okParse, "the Action runs although parsing failed")
		}
	}
}

// --------------------------------------------------------------------- C23

func checkC23(c *Ctx) {
	c.Rule("C23.reload", "Lines.Move re-renders after every successful move (Reload / reloadRange / rebuild post-dominates the nil result of Code.Move / Block.Move) and does not touch the listing when the move was rejected")
	c.Rule("C23.derived", "derived state: every field of Lines that newLines computes from the order and sizes of the blocks (lines, blockStarts) is re-derived on every path from the success edge of a block move (which permutes blocks of different sizes) to a return")
	c.Rule("C23.render", "newLines renders every block of code.Blocks() in order: a blank line between blocks, the block header, then one line per instruction of Block.Instructions(); Reload re-renders blockToLines(code.Index(i)) at blockStarts[i]")
	pkgLines := pkgUI + "/internal/lines"
	mv := anchor(c, "(*"+pkgLines+".Lines).Move")
	nl := anchor(c, pkgLines+".newLines")
	if mv == nil || nl == nil {
		return
	}
	// fields of Lines assigned in newLines from a traversal of code.Blocks()
	linesT := c.Prog.LookupType(ModulePath+"/"+pkgLines, "Lines")
	derived := map[*types.Var]bool{}
	for _, b := range nl.Blocks {
		for _, in := range b.Instrs {
			st, ok := in.(*ssa.Store)
			if !ok {
				continue
			}
			fa, ok := st.Addr.(*ssa.FieldAddr)
			if !ok {
				continue
			}
			f := FieldOf(fa)
			if f == nil || FieldByName(linesT, NameOf(f)) == nil {
				continue
			}
			if DependsOn(st.Val, func(v ssa.Value) bool {
				call, ok := v.(*ssa.Call)
				if !ok || call.Call.StaticCallee() == nil {
					return false
				}
				n := NameOf(call.Call.StaticCallee())
				return n == "Blocks" || n == "blockToLines"
			}) {
				derived[f.Origin()] = true
			}
		}
	}
	var dn []string
	for f := range derived {
		dn = append(dn, NameOf(f))
	}
	c.Extra["derived_fields"] = dn
	c.RequireCount("C23.derived fields derived from the block order", len(derived), 2)

	// writes of a field (directly or through callees, depth-bounded)
	var writes func(fn *ssa.Function, f *types.Var, whole bool, depth int) bool
	writes = func(fn *ssa.Function, f *types.Var, whole bool, depth int) bool {
		if fn == nil || fn.Blocks == nil || depth > 3 {
			return false
		}
		for _, b := range fn.Blocks {
			for _, in := range b.Instrs {
				switch x := in.(type) {
				case *ssa.Store:
					if fa, ok := x.Addr.(*ssa.FieldAddr); ok && SameField(FieldOf(fa), f) {
						return true
					}
					// element-wise rewrite is enough only for fields whose length/positions do not change
					if !whole {
						if ia, ok := x.Addr.(*ssa.IndexAddr); ok {
							// an element of the field's slice, also through a reslice of it
							if DependsOn(ia.X, func(v ssa.Value) bool {
								n, _, isF := FieldNameOfLoad(v)
								return isF && n == NameOf(f)
							}) {
								return true
							}
						}
					}
				case *ssa.Call:
					if bi, ok := x.Call.Value.(*ssa.Builtin); ok && bi.Name() == "copy" && !whole {
						if DependsOn(x.Call.Args[0], func(v ssa.Value) bool {
							n, _, isF := FieldNameOfLoad(v)
							return isF && n == NameOf(f)
						}) {
							return true
						}
					}
					if g := x.Call.StaticCallee(); g != nil && PkgPathOf(g) == PkgPathOf(fn) && writes(g, f, whole, depth+1) {
						return true
					}
				}
			}
		}
		return false
	}
	// the two kinds of move
	for _, kind := range []struct{ callee, label string }{{"(*" + pkgDeps + ".Code).Move", "block-move"}, {"(*" + pkgDeps + ".block).Move", "instruction-move"}} {
		// the move itself, in Lines.Move or in a helper it is split into; the
		// rest of the rule is stated inside the function that contains the call
		var call *ssa.Call
		for _, st := range DeepCalls(mv, InModulePkg(mv)) {
			if FuncNameIs(Callee(st.Call().Common()), kind.callee) {
				call, _ = st.Instr.(*ssa.Call)
			}
		}
		if call == nil {
			c.Undecide("C23: Lines.Move does not call %s", kind.callee)
			continue
		}
		key := ShortName(mv) + "/" + kind.label
		// success edge
		var succ, fail *ssa.BasicBlock
		if refs := call.Referrers(); refs != nil {
			for _, r := range *refs {
				if bo, ok := r.(*ssa.BinOp); ok {
					if _, nn, isNil := NilCheck(bo); isNil && bo.Referrers() != nil {
						for _, r2 := range *bo.Referrers() {
							if iff, ok := r2.(*ssa.If); ok {
								if nn {
									fail, succ = iff.Block().Succs[0], iff.Block().Succs[1]
								} else {
									succ, fail = iff.Block().Succs[0], iff.Block().Succs[1]
								}
							}
						}
					}
				}
			}
		}
		if succ == nil {
			c.Fail("C23.reload", key, c.Prog.Pos(call.Pos()), "the result of the move is not checked")
			continue
		}
		// every function called on the success path; none of them on the failure path
		region := func(start *ssa.BasicBlock) []*ssa.Function {
			var out []*ssa.Function
			for b := range Reachable(start, nil, nil, nil) {
				if !start.Dominates(b) {
					continue
				}
				for _, in := range b.Instrs {
					if cl, ok := in.(*ssa.Call); ok {
						if g := cl.Call.StaticCallee(); g != nil {
							out = append(out, g)
						}
					}
				}
			}
			return out
		}
		renders := func(fns []*ssa.Function) bool {
			for _, g := range fns {
				if PkgPathOf(g) == ModulePath+"/"+pkgLines {
					for f := range derived {
						if NameOf(f) == "lines" && writes(g, f, false, 0) {
							return true
						}
					}
				}
			}
			return false
		}
		// also direct stores in the success region
		directStore := func(start *ssa.BasicBlock, f *types.Var) bool {
			for b := range Reachable(start, nil, nil, nil) {
				if !start.Dominates(b) {
					continue
				}
				for _, in := range b.Instrs {
					if st, ok := in.(*ssa.Store); ok {
						if fa, ok := st.Addr.(*ssa.FieldAddr); ok && SameField(FieldOf(fa), f) {
							return true
						}
					}
				}
			}
			return false
		}
		okS := renders(region(succ))
		for f := range derived {
			if NameOf(f) == "lines" && directStore(succ, f) {
				okS = true
			}
		}
		okF := !renders(region(fail))
		switch {
		case !okS:
			c.Fail("C23.reload", key, c.Prog.Pos(call.Pos()), "after a successful move the listing is not re-rendered")
		case !okF:
			c.Fail("C23.reload", key, c.Prog.Pos(call.Pos()), "the listing is re-rendered although the move was rejected")
		default:
			c.Pass("C23.reload", key, c.Prog.Pos(call.Pos()), "")
		}
		if kind.label == "block-move" {
			for f := range derived {
				whole := NameOf(f) != "lines" // positions change: the field as a whole must be recomputed
				// must-pass: no path from the success edge to a return avoids
				// every block that re-derives the field
				rederives := func(b *ssa.BasicBlock) bool {
					for _, in := range b.Instrs {
						switch x := in.(type) {
						case *ssa.Store:
							if fa, ok := x.Addr.(*ssa.FieldAddr); ok && SameField(FieldOf(fa), f) {
								return true
							}
						case *ssa.Call:
							if g := x.Call.StaticCallee(); g != nil && PkgPathOf(g) == ModulePath+"/"+pkgLines && writes(g, f, whole, 0) {
								return true
							}
						}
					}
					return false
				}
				re := true
				seenB := map[*ssa.BasicBlock]bool{}
				var walk func(b *ssa.BasicBlock)
				walk = func(b *ssa.BasicBlock) {
					if seenB[b] || rederives(b) {
						return
					}
					seenB[b] = true
					if _, isRet := b.Instrs[len(b.Instrs)-1].(*ssa.Return); isRet {
						re = false
					}
					for _, s := range b.Succs {
						walk(s)
					}
				}
				walk(succ)
				c.Oblige("C23.derived", key+"/"+NameOf(f), c.Prog.Pos(call.Pos()), re, "Lines."+NameOf(f)+" is computed from the block order and sizes but is not recomputed after blocks were permuted: with blocks of different sizes the re-rendered blocks overwrite their neighbours' lines")
			}
		}
	}
	// newLines structure
	okLoop, okHdr := false, false
	for _, l := range RangeLoops(nl) {
		if matches(l.Over, Method("Blocks", ParamN(0))) {
			okLoop = true
		}
	}
	if btl := anchor(c, pkgLines+".blockToLines"); btl != nil {
		hdr, ins := false, false
		for _, cs := range Calls(btl) {
			if f := Callee(cs.Common()); f != nil {
				if NameOf(f) == "newBlockLine" && cs.Common().Args[0] == ssa.Value(btl.Params[0]) {
					hdr = true
				}
				if NameOf(f) == "newInstrLine" {
					ins = true
				}
			}
		}
		insLoop := false
		for _, l := range RangeLoops(btl) {
			if matches(l.Over, Method("Instructions", ParamN(0))) {
				insLoop = true
			}
		}
		okHdr = hdr && ins && insLoop
	}
	c.Oblige("C23.render", ShortName(nl), c.Prog.FuncPos(nl), okLoop && okHdr, "newLines/blockToLines do not render the header and every instruction of every block of code.Blocks() in order")
	if rl := anchor(c, "(*"+pkgLines+".Lines).Reload"); rl != nil {
		ok := false
		for _, cs := range Calls(rl) {
			if f := Callee(cs.Common()); f != nil && NameOf(f) == "blockToLines" {
				ok = matches(cs.Common().Args[0], Method("Index", Any(), ParamN(1)))
			}
		}
		c.Oblige("C23.render", ShortName(rl), c.Prog.FuncPos(rl), ok, "Reload(i) does not re-render blockToLines(code.Index(i))")
	}
}

// --------------------------------------------------------------------- C24

func checkC24(c *Ctx) {
	c.Rule("C24.index", "in every Print/Format method an index into the line slices is bounded by the slice length (a granted height larger than the remaining lines must be clamped)")
	c.Rule("C24.budget", "Composite.distributeLines hands out an extra line only while a budget that it decreases with every line handed out is positive")
	c.Rule("C24.min", "Composite.Print returns an error before printing anything when fewer lines than MinLines() are granted; view.Print never asks for more lines than the screen has")
	c.Rule("C24.fixed", "a view of fixed height prints what it counts: regView.lines() and regView.Print agree on whether the instruction-pointer register is shown")
	n := checkLineIndices(c, "C24.index", isPrintLike)
	c.RequireCount("C24.index index uses in Print methods", n, 1)
	c.Rule("C24.window", "the Print methods of the listing view and of the memory view (with every module function they call), walked concretely for every number of lines 1..7, every cursor position and every granted height 1..lines+3: every index into the line slice lies inside it and at most as many lines are printed as were granted")
	for _, name := range []string{"(*" + pkgUI + "/internal/lines.View).Print", "(*" + pkgUI + "/internal/memview.memoryView).Print"} {
		if pf := anchor(c, name); pf != nil {
			nw := windowWalk(c, "C24.window", pf)
			c.RequireCount("C24.window states walked for "+ShortName(pf), nw, 50)
		}
	}

	pkgView := pkgUI + "/internal/view"
	if dl := anchor(c, "(*"+pkgView+".Composite).distributeLines"); dl != nil {
		nInc := 0
		for _, b := range dl.Blocks {
			for _, in := range b.Instrs {
				mu, ok := in.(*ssa.MapUpdate)
				if !ok {
					continue
				}
				// lineCnts[i]++ : value is lookup(same map, same key) + 1
				if !matches(mu.Value, Bin(token.ADD, Any(), IntPat(1))) {
					continue
				}
				nInc++
				key := fmt.Sprintf("%s/increment#%d", ShortName(dl), nInc)
				// loop header of this block
				var header *ssa.BasicBlock
				for _, h := range dl.Blocks {
					if h.Dominates(b) && LoopBlocks(h)[b] && len(LoopBlocks(h)) > 1 {
						header = h
					}
				}
				if header == nil {
					c.Fail("C24.budget", key, c.Prog.Pos(mu.Pos()), "a line is handed out outside any loop")
					continue
				}
				// budget: a comparison `x > 0` among the guards of b (loop continuation), x a header phi decremented where the increment happens
				budgetOK, why := false, "no positive-budget test guards handing out a line"
				for _, g := range GuardsOf(b) {
					bo, ok := g.Cond.(*ssa.BinOp)
					if !ok || !g.Outcome || bo.Op != token.GTR {
						continue
					}
					if z, isZ := ConstInt(bo.Y); !isZ || z != 0 {
						continue
					}
					switch x := bo.X.(type) {
					case *ssa.Parameter:
						why = "the budget `" + x.Name() + "` is tested in the loop condition but never decreased: every element can be raised up to its own limit and the sum exceeds the granted lines"
					case *ssa.Phi:
						// decremented in the same iteration as the increment?
						dec := false
						for _, e := range x.Edges {
							if DependsOn(e, func(v ssa.Value) bool {
								bb, ok := v.(*ssa.BinOp)
								return ok && bb.Op == token.SUB && bb.X == ssa.Value(x) && (bb.Block() == b || b.Dominates(bb.Block()) || bb.Block().Dominates(b))
							}) {
								dec = true
							}
						}
						if dec {
							// the total budget: the loop variable that starts as the remLines parameter itself
							for _, e := range x.Edges {
								if e == ssa.Value(dl.Params[1]) {
									budgetOK = true
								}
							}
						}
					}
				}
				c.Oblige("C24.budget", key, c.Prog.Pos(mu.Pos()), budgetOK, why)
			}
		}
		c.RequireCount("C24.budget increments in distributeLines", nInc, 1)
	}
	if cp := anchor(c, "(*"+pkgView+".Composite).Print"); cp != nil {
		// child Print calls are dominated by the remaining >= 0 edge; the error return happens on remaining < 0
		var childPrint []CallSite
		for _, cs := range Calls(cp) {
			if cs.Common().IsInvoke() && cs.Common().Method.Name() == "Print" {
				childPrint = append(childPrint, cs)
			}
		}
		ok := len(childPrint) > 0
		for _, cs := range childPrint {
			g := false
			for _, gd := range GuardsOf(cs.Block()) {
				if bo, isBin := gd.Cond.(*ssa.BinOp); isBin {
					if z, isZ := ConstInt(bo.Y); isZ && z == 0 && ((bo.Op == token.LSS && !gd.Outcome) || (bo.Op == token.GEQ && gd.Outcome)) {
						// the compared value is lines - MinLines()
						if matches(bo.X, Bin(token.SUB, ParamN(1), Method("MinLines", ParamN(0)))) {
							g = true
						}
					}
				}
			}
			if !g {
				ok = false
			}
		}
		c.Oblige("C24.min", ShortName(cp), c.Prog.FuncPos(cp), ok, "children are printed although fewer lines than MinLines() were granted")
	}
	if vp := anchor(c, pkgView+".Print"); vp != nil {
		ok := false
		for _, cs := range Calls(vp) {
			if cs.Common().IsInvoke() && cs.Common().Method.Name() == "Print" {
				// the argument is clamped to the screen height
				arg := cs.Common().Args[0]
				if ph, isPhi := arg.(*ssa.Phi); isPhi {
					good := true
					for i, e := range ph.Edges {
						if matches(e, ExtractN(1, CallTo("golang.org/x/crypto/ssh/terminal.GetSize"))) {
							continue
						}
						// MaxLines() kept only when 0 <= lines <= screenLines
						pred := ph.Block().Preds[i]
						bounded := false
						for _, gd := range append(GuardsOf(pred), guardOfEdge(pred, ph.Block())...) {
							if bo, isBin := gd.Cond.(*ssa.BinOp); isBin && bo.X == e && bo.Op == token.GTR && !gd.Outcome {
								bounded = true
							}
						}
						if !bounded {
							good = false
						}
					}
					ok = good
				}
			}
		}
		c.Oblige("C24.min", ShortName(vp), c.Prog.FuncPos(vp), ok, "the number of lines granted to the root view is not clamped to the terminal height")
	}
	// fixed-height agreement of the register view
	pkgEm := pkgUI + "/emulate"
	ln := anchor(c, "(*"+pkgEm+".regView).lines")
	pr := anchor(c, "(*"+pkgEm+".regView).Print")
	if ln != nil && pr != nil {
		ipKey := ""
		if ep := c.Prog.SSAPkg[ExprPkg]; ep != nil && ep.Const("IPKey") != nil {
			ipKey = strings.Trim(ep.Const("IPKey").Value.Value.ExactString(), "\"")
		}
		mentionsIP := func(fn *ssa.Function, depth int) bool {
			var rec func(fn *ssa.Function, d int) bool
			rec = func(fn *ssa.Function, d int) bool {
				if fn == nil || fn.Blocks == nil || d > 2 {
					return false
				}
				for _, b := range fn.Blocks {
					for _, in := range b.Instrs {
						for _, op := range in.Operands(nil) {
							if k, ok := (*op).(*ssa.Const); ok && k.Value != nil && ipKey != "" && strings.Trim(k.Value.ExactString(), "\"") == ipKey {
								return true
							}
						}
						if call, ok := in.(*ssa.Call); ok {
							if g := call.Call.StaticCallee(); g != nil && PkgPathOf(g) == PkgPathOf(fn) && rec(g, d+1) {
								return true
							}
						}
					}
				}
				return false
			}
			return rec(fn, depth)
		}
		a, b := mentionsIP(ln, 0), mentionsIP(pr, 0)
		c.Oblige("C24.fixed", ShortName(pr), c.Prog.FuncPos(pr), a == b, "regView.lines() leaves the instruction pointer out of the count (MinLines == MaxLines == lines()) but Print renders every register including it: with an odd number of general registers the view writes one line more than its declared fixed height")
	}
}

// --------------------------------------------------------------------- C30

func checkC30(c *Ctx) {
	c.Rule("C30.prefix", "parseAddr, walked concretely on 19 sample arguments bound to literal strings (every notation of the property in both letter cases, the largest 64-bit value, and malformed/short arguments): no slice or index leaves the string, and what reaches strconv.ParseUint is the digits behind the prefix, in the base the prefix stands for (0x/0X 16, 0b/0B 2, leading 0 8, otherwise 10; a lone 0 is decimal), with 64 bits; the result is returned as model.Addr")
	c.Rule("C30.value", "readValue, walked concretely on 11 typed lines, answers the empty line and every line containing an underscore with an error before big.Int.SetString and hands every other line unchanged to SetString(line, 0); a negative number becomes ConstFold(Sub(Zero, |n|, w)); the magnitude is NewConst(little-endian bytes, w)")
	pkgMv := pkgUI + "/internal/memview"
	pa := anchor(c, pkgMv+".parseAddr")
	if pa != nil {
		var pu *ssa.Call
		for _, st := range DeepCalls(pa, InModulePkg(pa)) {
			if f := Callee(st.Call().Common()); f != nil && f.String() == "strconv.ParseUint" {
				pu, _ = st.Instr.(*ssa.Call)
			}
		}
		if pu == nil {
			c.Undecide("C30.prefix: parseAddr does not call strconv.ParseUint")
		} else {
			bits, _ := ConstInt(pu.Call.Args[2])
			c.Oblige("C30.prefix", ShortName(pa)+"/64-bit", c.Prog.Pos(pu.Pos()), bits == 64, fmt.Sprintf("the number is parsed with %d bits, addresses have 64", bits))
			// parseAddr walked concretely (E7 with literal strings) on sample
			// arguments: what reaches ParseUint must be the digits behind the
			// prefix in the base the prefix stands for, and no slice or index may
			// leave the string
			type sample struct {
				in    string
				base  int64
				strip int
			}
			samples := []sample{
				{"0x1f", 16, 2}, {"0X1F", 16, 2}, {"0b101", 2, 2}, {"0B11", 2, 2}, {"017", 8, 1}, {"00", 8, 1},
				{"0", 10, 0}, {"5", 10, 0}, {"123", 10, 0}, {"18446744073709551615", 10, 0}, {"0xffffffffffffffff", 16, 2},
				// only "no crash, answered by the number parser":
				{"", -1, 0}, {"x", -1, 0}, {"0x", -1, 0}, {"0b", -1, 0}, {"0X", -1, 0}, {"-1", -1, 0}, {"1_0", -1, 0}, {"b", -1, 0},
			}
			nIn := 0
			for _, sm := range samples {
				sm := sm
				var gotBase int64 = -1
				gotDigits, reached := "", false
				sw := &StrWalk{Bind: func(v ssa.Value) (string, bool) {
					if v == ssa.Value(pa.Params[0]) {
						return sm.in, true
					}
					return "", false
				}}
				vl := &Valuation{Enter: SamePackage(pa)}
				vl.Visit = func(in ssa.Instruction) {
					if call, ok := in.(*ssa.Call); ok && call.Call.StaticCallee() != nil && call.Call.StaticCallee().String() == "strconv.ParseUint" {
						reached = true
						gotDigits, _ = sw.StrOf(call.Call.Args[0])
						if n, ok := vl.EvalInt(call.Call.Args[1], nil); ok {
							gotBase = n
						}
					}
				}
				sw.Install(vl)
				res := vl.Walk(pa.Blocks[0], nil)
				nIn++
				key := fmt.Sprintf("%s/argument %q", ShortName(pa), sm.in)
				why := ""
				switch {
				case sw.Crash != "":
					why = "the argument crashes the program: " + sw.Crash
				case !reached && res.OK:
					if _, isPanic := res.End.(*ssa.Panic); isPanic {
						why = "the argument makes parseAddr panic"
					} else if sm.base >= 0 {
						why = "the argument is rejected without being parsed"
					}
				case !reached:
					why = "the walk cannot be followed to the number parser: " + res.Why
				case sm.base >= 0 && gotBase != sm.base:
					why = fmt.Sprintf("parsed in base %d, the notation stands for base %d", gotBase, sm.base)
				case sm.base >= 0 && gotDigits != sm.in[sm.strip:]:
					why = fmt.Sprintf("the digits handed to the parser are %q, expected %q", gotDigits, sm.in[sm.strip:])
				}
				c.Oblige("C30.prefix", key, c.Prog.FuncPos(pa), why == "", why)
			}
			c.RequireCount("C30.prefix sample arguments walked", nIn, 15)
			// result conversion
			okConv := false
			for _, b := range pa.Blocks {
				if ret, ok := b.Instrs[len(b.Instrs)-1].(*ssa.Return); ok && IsNilConst(ret.Results[1]) {
					if mi, ok := ret.Results[0].(*ssa.MakeInterface); ok && TypeNameIs(mi.X.Type(), "pkg/model.Addr") && DependsOn(mi.X, func(v ssa.Value) bool { return v == ssa.Value(pu) }) {
						okConv = true
					}
				}
			}
			c.Oblige("C30.prefix", ShortName(pa)+"/result", c.Prog.FuncPos(pa), okConv, "the parsed number is not returned as model.Addr")
		}
	}
	// readValue
	if rv := anchor(c, pkgUI+"/emulate.readValue"); rv != nil {
		var setString *ssa.Call
		for _, cs := range Calls(rv) {
			if f := Callee(cs.Common()); f != nil && f.String() == "(*math/big.Int).SetString" {
				setString, _ = cs.Instr.(*ssa.Call)
			}
		}
		if setString == nil {
			c.Undecide("C30.value: readValue does not call big.Int.SetString")
		} else {
			base, _ := ConstInt(setString.Call.Args[2])
			// readValue walked concretely on typed lines: the empty line and any
			// line with an underscore end in an error before SetString is
			// reached; every other line reaches SetString unchanged
			nLines := 0
			for _, line := range []string{"", "_", "1_0", "_1", "0x_ff", "12", "-5", "0x1F", "0b101", "017", "+3"} {
				line := line
				reached, arg := false, ""
				sw := &StrWalk{Bind: func(v ssa.Value) (string, bool) {
					if ex, ok := v.(*ssa.Extract); ok && ex.Index == 0 {
						if call, ok := ex.Tuple.(*ssa.Call); ok && call.Call.StaticCallee() != nil && NameOf(call.Call.StaticCallee()) == "ReadLine" {
							return line, true
						}
					}
					return "", false
				}}
				vl := &Valuation{Enter: SamePackage(rv)}
				vl.Bool = func(v ssa.Value) (bool, bool) {
					// reading the line does not fail
					if bo, ok := v.(*ssa.BinOp); ok && (bo.Op == token.EQL || bo.Op == token.NEQ) && (IsNilConst(bo.X) || IsNilConst(bo.Y)) && !reached {
						return bo.Op == token.EQL, true
					}
					return false, false
				}
				vl.Visit = func(in ssa.Instruction) {
					if call, ok := in.(*ssa.Call); ok && call.Call.StaticCallee() != nil && call.Call.StaticCallee().String() == "(*math/big.Int).SetString" {
						reached = true
						arg, _ = sw.StrOf(call.Call.Args[1])
					}
				}
				sw.Install(vl)
				res := vl.Walk(rv.Blocks[0], nil)
				nLines++
				wantReject := line == "" || strings.Contains(line, "_")
				why := ""
				switch {
				case sw.Crash != "":
					why = "the line crashes the program: " + sw.Crash
				case wantReject && reached:
					why = "the line reaches big.Int.SetString instead of being rejected"
				case wantReject:
					if ret, isRet := res.End.(*ssa.Return); !res.OK || !isRet || IsNilConst(ret.Results[1]) {
						why = "the line is not answered with an error (" + res.Why + ")"
					}
				case !reached:
					why = "the line does not reach big.Int.SetString (" + res.Why + ")"
				case arg != line:
					why = fmt.Sprintf("big.Int.SetString is given %q", arg)
				}
				c.Oblige("C30.value", fmt.Sprintf("%s/line %q", ShortName(rv), line), c.Prog.FuncPos(rv), why == "", why)
			}
			c.RequireCount("C30.value lines walked", nLines, 11)
			c.Oblige("C30.value", ShortName(rv)+"/base-0", c.Prog.Pos(setString.Pos()), base == 0, "big.Int.SetString is not called with base 0 (prefix-selected base)")
			// negative branch
			negOK, absOK := false, false
			for _, b := range rv.Blocks {
				ret, ok := b.Instrs[len(b.Instrs)-1].(*ssa.Return)
				if !ok || !IsNilConst(ret.Results[1]) {
					continue
				}
				if matches(ret.Results[0], TypeAssertOf("pkg/expr.Const", CallTo(pkgXform+".ConstFold", CallTo(pkgTools+".Sub", func(v ssa.Value, _ *Bind) bool {
					u, ok := Unwrap(v).(*ssa.UnOp)
					if !ok {
						return false
					}
					g, ok := u.X.(*ssa.Global)
					return ok && NameOf(g) == "Zero"
				}, CallTo("pkg/expr.NewConst", Any(), ParamN(0)), ParamN(0))))) {
					negOK = true
				}
				if matches(ret.Results[0], CallTo("pkg/expr.NewConst", Any(), ParamN(0))) {
					// only for Sign() >= 0
					for _, g := range GuardsOf(b) {
						if bo, ok := g.Cond.(*ssa.BinOp); ok && matches(bo.X, Method("Sign", Any())) {
							if z, isZ := ConstInt(bo.Y); isZ && z == 0 && ((bo.Op == token.GEQ && g.Outcome) || (bo.Op == token.LSS && !g.Outcome)) {
								absOK = true
							}
						}
					}
				}
			}
			c.Oblige("C30.value", ShortName(rv)+"/sign", c.Prog.FuncPos(rv), negOK && absOK, "a non-negative number must be NewConst(bytes, w) and a negative one ConstFold(Sub(Zero, NewConst(bytes, w), w))")
			// bytes reverted to little endian before NewConst
			revOK := false
			for _, cs := range Calls(rv) {
				if f := Callee(cs.Common()); f != nil && NameOf(f) == "revertBytes" {
					if matches(cs.Common().Args[0], Method("Bytes", Any())) {
						revOK = true
					}
				}
			}
			c.Oblige("C30.value", ShortName(rv)+"/little-endian", c.Prog.FuncPos(rv), revOK, "big.Int.Bytes() (big endian) is not reverted before being used as a little-endian constant")
		}
	}
}

func reachableBlock(from, to *ssa.BasicBlock) bool {
	return Reachable(from, nil, nil, nil)[to] && from != to
}

type prefixLit struct {
	lit      string
	k        int64 // number of characters compared
	pos      token.Pos
	minLen   int64
	exactLen bool
}

// prefixLiterals finds the string-literal comparisons of s[:k] (or s[0])
// whose true edge leads into block p.
func prefixLiterals(p *ssa.BasicBlock, s ssa.Value) []prefixLit {
	var out []prefixLit
	for _, q := range p.Preds {
		iff, ok := q.Instrs[len(q.Instrs)-1].(*ssa.If)
		if !ok || q.Succs[0] != p {
			continue
		}
		bo, ok := iff.Cond.(*ssa.BinOp)
		if !ok || bo.Op != token.EQL {
			continue
		}
		var pl prefixLit
		switch x := bo.X.(type) {
		case *ssa.Slice:
			if x.X != s || x.Low != nil || x.High == nil {
				continue
			}
			k, _ := ConstInt(x.High)
			lit, ok := bo.Y.(*ssa.Const)
			if !ok || lit.Value == nil {
				continue
			}
			pl = prefixLit{lit: strings.Trim(lit.Value.ExactString(), "\""), k: k, pos: bo.Pos()}
		case *ssa.Index:
			if x.X != s {
				continue
			}
			idx, _ := ConstInt(x.Index)
			ch, ok := ConstInt(bo.Y)
			if !ok || idx != 0 {
				continue
			}
			pl = prefixLit{lit: string(rune(ch)), k: 1, pos: bo.Pos()}
		default:
			continue
		}
		pl.minLen = minLenAt(q, s)
		for _, g := range GuardsOf(q) {
			if b2, ok := g.Cond.(*ssa.BinOp); ok && b2.Op == token.EQL && g.Outcome && matches(b2.X, lenOf(s)) {
				pl.exactLen = true
			}
		}
		out = append(out, pl)
	}
	return out
}

// --------------------------------------------------------------------- C31

func checkC31(c *Ctx) {
	c.Rule("C31.fresh", "a command action keeps no state of its own between invocations: no local variable of the function that builds the command table is written by an action (a remembered line or block position would go stale with the next block move)")
	checkActionsStateless(c, "C31.fresh")
	c.Rule("C31.set", "Cursor.Set (with the helpers it calls), walked over the 13 orderings of (v, 0, maxValue), stores v and returns nil exactly when 0 <= v < maxValue and otherwise returns an error without touching the cursor; nothing else writes Cursor.value")
	c.Rule("C31.index", "navigation commands (up, down, goto, find, entrypoint) reach a listing index only with a validated value; the cyclic search of find reduces its start and every step modulo the number of lines")
	c.Rule("C31.err", "errors of the navigation commands are returned to the UI (error propagation in package disassemble), except setting the cursor to a line obtained from the listing layout")
	pkgCur := pkgUI + "/internal/cursor"
	if st := anchor(c, "(*"+pkgCur+".Cursor).Set"); st != nil {
		// Set(v), walked over the orderings of (v, 0, maxValue) together with the
		// helpers it calls: the value is stored (and nil returned) exactly when
		// 0 <= v < maxValue; otherwise an error is returned and nothing stored
		n := 0
		for _, o := range WeakOrderings(3) {
			v, max := o[0]-o[1], o[2]-o[1]
			var stored []int64
			var vl *Valuation
			vl = &Valuation{
				Enter: SamePackage(st),
				Int: func(x ssa.Value) (int64, bool) {
					if vl.Root(x) == ssa.Value(st.Params[1]) {
						return v, true
					}
					if n, _, ok := FieldNameOfLoad(x); ok && n == "maxValue" {
						return max, true
					}
					if f, ok := Unwrap(x).(*ssa.Field); ok && FieldOf(f) != nil && FieldOf(f).Name() == "maxValue" {
						return max, true
					}
					return 0, false
				},
			}
			vl.Visit = func(in ssa.Instruction) {
				if s, ok := in.(*ssa.Store); ok {
					if fa, ok := s.Addr.(*ssa.FieldAddr); ok && FieldOf(fa) != nil && FieldOf(fa).Name() == "value" {
						x, known := vl.EvalInt(s.Val, nil)
						if !known {
							x = -999
						}
						stored = append(stored, x)
					}
				}
			}
			res := vl.Walk(st.Blocks[0], nil)
			n++
			key := fmt.Sprintf("%s/order(v=%d,max=%d)", ShortName(st), v, max)
			ret, isRet := res.End.(*ssa.Return)
			if !res.OK || !isRet {
				c.Fail("C31.set", key, c.Prog.FuncPos(st), "decision not computable: "+res.Why)
				continue
			}
			acc := IsNilConst(ret.Results[0])
			want := v >= 0 && v < max
			why := ""
			switch {
			case acc != want:
				why = fmt.Sprintf("offset %d with maximum %d: accepted=%v, expected %v", v, max, acc, want)
			case want && (len(stored) != 1 || stored[0] != v):
				why = fmt.Sprintf("offset %d is accepted but the cursor is set to %v", v, stored)
			case !want && len(stored) != 0:
				why = fmt.Sprintf("offset %d is rejected but the cursor was changed", v)
			}
			c.Oblige("C31.set", key, c.Prog.Pos(ret.Pos()), why == "", why)
		}
		c.RequireCount("C31.set orderings walked", n, 13)
		// value is written nowhere else
		bad := ""
		for _, fn := range c.Prog.Funcs() {
			for _, b := range fn.Blocks {
				for _, in := range b.Instrs {
					if s, ok := in.(*ssa.Store); ok {
						if fa, ok := s.Addr.(*ssa.FieldAddr); ok && FieldOf(fa) != nil && FieldOf(fa).Name() == "value" && TypeNameIs(fa.X.Type(), "*"+pkgCur+".Cursor") {
							if fn != st && NameOf(fn) != "New" {
								bad = ShortName(fn)
							}
						}
					}
				}
			}
		}
		c.Oblige("C31.set", "only-Set-writes-Cursor.value", c.Prog.FuncPos(st), bad == "", "Cursor.value is written by "+bad)
	}
	inDis := func(fn *ssa.Function) bool { return strings.Contains(fileOf(c, fn), "disassemble/commands.go") }
	n := checkLineIndices(c, "C31.index", inDis)
	c.RequireCount("C31.index line-index uses in the disassembler commands", n, 6)
	exc := map[string]string{}
	cmds := findCommands(c)
	for _, cl := range cmds {
		if cl.Key == "entrypoint" && cl.Action != nil {
			exc[ShortName(cl.Action)+"/(*internal/consoleui/internal/cursor.Cursor).Set#1"] = "the line comes from Lines.Line(block, ins.Idx()) of an instruction found in the code: always a valid listing line"
		}
	}
	ne := checkErrflow(c, "C31.err", []string{pkgUI + "/disassemble"}, exc)
	c.RequireCount("C31.err error-returning calls in package disassemble", ne, 8)
	// find: cyclic search shape
	for _, cl := range cmds {
		if cl.Key != "find" || cl.Action == nil || !inDis(cl.Action) {
			continue
		}
		act := cl.Action
		key := cmdKey(cl) + "/cyclic-search"
		bad := cyclicSearch(act)
		c.Oblige("C31.index", key, c.Prog.Pos(cl.Pos), bad == "", bad)
	}
}

// cyclicSearch follows the search of the find command concretely for small
// listings (E7): for every number of lines cnt, cursor position offset and
// index k of the first matching probe (or none), the lines probed must be
// offset+1, offset+2, ... (mod cnt) up to the first match and never the cursor
// line itself; a match moves the cursor to exactly the matching line, no match
// ends in an error without moving the cursor. The form of the loop is free.
func cyclicSearch(act *ssa.Function) string {
	enter := SamePackage(act)
	isCursorValue := func(v ssa.Value) bool {
		call, ok := v.(*ssa.Call)
		if !ok {
			return false
		}
		f := call.Call.StaticCallee()
		return f != nil && NameOf(f) == "Value" && strings.Contains(f.String(), "cursor.Cursor")
	}
	isLinesLen := func(v ssa.Value) bool {
		call, ok := v.(*ssa.Call)
		if !ok {
			return false
		}
		f := call.Call.StaticCallee()
		return f != nil && NameOf(f) == "Len" && strings.Contains(f.String(), "lines.Lines")
	}
	nV, nL := 0, 0
	for _, st := range DeepCalls(act, enter) {
		if v, ok := st.Instr.(ssa.Value); ok {
			if isCursorValue(v) {
				nV++
			}
			if isLinesLen(v) {
				nL++
			}
		}
	}
	if nV == 0 || nL == 0 {
		return "the search does not read the cursor position and the number of lines"
	}
	start := act.Blocks[0]
	isCall := func(in ssa.Instruction, name, recv string) *ssa.Call {
		call, ok := in.(*ssa.Call)
		if !ok {
			return nil
		}
		f := call.Call.StaticCallee()
		if f == nil || NameOf(f) != name || !strings.Contains(f.String(), recv) {
			return nil
		}
		return call
	}
	for cnt := int64(1); cnt <= 5; cnt++ {
		for offset := int64(0); offset < cnt; offset++ {
			var want []int64
			for j := int64(1); j < cnt; j++ {
				want = append(want, (offset+j)%cnt)
			}
			for k := -1; k < len(want); k++ {
				var probes []int64
				var setArg *int64
				matches, evalFail := 0, false
				var vl *Valuation
				vl = &Valuation{
					Enter: enter,
					Int: func(v ssa.Value) (int64, bool) {
						switch {
						case isCursorValue(v):
							return offset, true
						case isLinesLen(v):
							return cnt, true
						}
						if call, ok := v.(*ssa.Call); ok {
							if bi, isBi := call.Call.Value.(*ssa.Builtin); isBi && bi.Name() == "len" {
								return 1, true // one argument typed
							}
						}
						return 0, false
					},
					Bool: func(v ssa.Value) (bool, bool) {
						if call, ok := v.(*ssa.Call); ok && isCall(call, "MatchString", "regexp.Regexp") != nil {
							return matches-1 == k, true
						}
						// the pattern compiles: no error before the search
						if bo, ok := v.(*ssa.BinOp); ok && (bo.Op == token.EQL || bo.Op == token.NEQ) && (IsNilConst(bo.X) || IsNilConst(bo.Y)) {
							if setArg == nil {
								return bo.Op == token.EQL, true
							}
						}
						return false, false
					},
				}
				vl.Visit = func(in ssa.Instruction) {
					if call := isCall(in, "Index", "lines.Lines"); call != nil {
						n, ok := vl.EvalInt(call.Call.Args[len(call.Call.Args)-1], nil)
						if !ok {
							evalFail = true
						}
						probes = append(probes, n)
					}
					if isCall(in, "MatchString", "regexp.Regexp") != nil {
						matches++
					}
					if call := isCall(in, "Set", "cursor.Cursor"); call != nil && setArg == nil {
						n, ok := vl.EvalInt(call.Call.Args[len(call.Call.Args)-1], nil)
						if !ok {
							evalFail = true
						}
						setArg = &n
					}
				}
				res := vl.Walk(start, nil)
				where := fmt.Sprintf("with %d lines, the cursor on line %d and ", cnt, offset)
				if k < 0 {
					where += "no matching line"
				} else {
					where += fmt.Sprintf("the first match on line %d", want[k])
				}
				if evalFail || (!res.OK && setArg == nil) {
					return where + ": the search cannot be followed (" + res.Why + ")"
				}
				exp := want
				if k >= 0 {
					exp = want[:k+1]
				}
				if fmt.Sprint(probes) != fmt.Sprint(exp) {
					return fmt.Sprintf("%s the lines probed are %v, expected %v (every line after the cursor in cyclic order, never the cursor line)", where, probes, exp)
				}
				if k >= 0 {
					if setArg == nil || *setArg != want[k] {
						return where + " the cursor is not moved to that line"
					}
				} else {
					if setArg != nil {
						return where + fmt.Sprintf(" the cursor is moved (to line %d)", *setArg)
					}
					ret, isRet := res.End.(*ssa.Return)
					if !isRet || IsNilConst(ret.Results[0]) {
						return where + " the command does not end in an error"
					}
				}
			}
		}
	}
	return ""
}

// block2LinesWalk follows block2Lines concretely (E7) for every block
// [B,E) with 0 <= B < E <= 50: the rows produced must be, in address order,
// one per 16-byte aligned window that overlaps the block, each with the
// window's address and the single range window ∩ block.
func block2LinesWalk(bl *ssa.Function) string {
	const per = 16
	recvCall := func(v ssa.Value, name string) bool {
		call, ok := v.(*ssa.Call)
		if !ok || len(call.Call.Args) != 1 || Unwrap(call.Call.Args[0]) != ssa.Value(bl.Params[0]) {
			return false
		}
		f := call.Call.StaticCallee()
		return f != nil && NameOf(Origin(f)) == name
	}
	type row struct{ addr, b, e int64 }
	for B := int64(0); B < 50; B++ {
		for E := B + 1; E <= 50; E++ {
			var want []row
			for w := B / per * per; w < E; w += per {
				r := row{addr: w, b: w, e: w + per}
				if r.b < B {
					r.b = B
				}
				if r.e > E {
					r.e = E
				}
				want = append(want, r)
			}
			var got []row
			var addrs []int64
			evalFail := ""
			var vl *Valuation
			vl = &Valuation{Int: func(v ssa.Value) (int64, bool) {
				if recvCall(v, "Begin") {
					return B, true
				}
				if recvCall(v, "End") {
					return E, true
				}
				return 0, false
			}}
			vl.Visit = func(in ssa.Instruction) {
				switch x := in.(type) {
				case *ssa.Call:
					f := x.Call.StaticCallee()
					if f != nil && NameOf(Origin(f)) == "New" && PkgPathOf(f) == IntervalPkg {
						b, ok1 := vl.EvalInt(x.Call.Args[0], nil)
						e, ok2 := vl.EvalInt(x.Call.Args[1], nil)
						if !ok1 || !ok2 {
							evalFail = "the bounds of a row's range cannot be evaluated"
						}
						got = append(got, row{b: b, e: e})
					}
				case *ssa.Store:
					if fa, ok := x.Addr.(*ssa.FieldAddr); ok && FieldOf(fa) != nil && FieldOf(fa).Name() == "addr" {
						a, ok := vl.EvalInt(x.Val, nil)
						if !ok {
							evalFail = "a row's address cannot be evaluated"
						}
						addrs = append(addrs, a)
					}
				}
			}
			res := vl.Walk(bl.Blocks[0], nil)
			where := fmt.Sprintf("for the stored block [%#x,%#x)", B, E)
			if !res.OK {
				return where + " the function cannot be followed: " + res.Why
			}
			if evalFail != "" {
				return where + " " + evalFail
			}
			if _, isRet := res.End.(*ssa.Return); !isRet {
				return where + " block2Lines panics"
			}
			if len(addrs) != len(got) {
				return where + " rows and row addresses do not pair up"
			}
			for i := range got {
				got[i].addr = addrs[i]
			}
			if fmt.Sprint(got) != fmt.Sprint(want) {
				return fmt.Sprintf("%s the rows (address, range begin, range end) are %v, expected %v: one row per 16-byte window overlapping the block, holding window ∩ block", where, got, want)
			}
		}
	}
	return ""
}

// windowWalk: see rule C24.window. Returns the number of states walked.
func windowWalk(c *Ctx, rule string, pf *ssa.Function) int {
	inModule := func(g *ssa.Function) bool {
		return g != nil && g.Blocks != nil && strings.HasPrefix(PkgPathOf(g), ModulePath+"/")
	}
	isLinesSlice := func(vl *Valuation, v ssa.Value) bool {
		n, _, ok := FieldNameOfLoad(vl.Root(v))
		return ok && n == "lines"
	}
	walked := 0
	firstBad := ""
	// the least height the view can be granted (Composite refuses less: C24.min)
	minLines := int64(1)
	if pf.Signature.Recv() != nil {
		for _, fn := range c.Prog.Funcs() {
			if fn.Blocks != nil && fn.Signature.Recv() != nil && types.Identical(fn.Signature.Recv().Type(), pf.Signature.Recv().Type()) && NameOf(fn) == "MinLines" {
				w := (&Valuation{}).Walk(fn.Blocks[0], nil)
				if m, ok := w.RetInt[0]; ok && w.OK {
					minLines = m
				}
			}
		}
	}
	for L := int64(0); L <= 7 && firstBad == ""; L++ {
		for cur := int64(0); (cur < L || (L == 0 && cur == 0)) && firstBad == ""; cur++ {
			nFrom, nTo := int64(1), L+3
			if L == 0 {
				// nothing to show: every height the view can get
				nFrom, nTo = minLines, minLines+5
			}
			for n := nFrom; n <= nTo && firstBad == ""; n++ {
				printed := int64(0)
				bad := ""
				sw := &StrWalk{Bind: func(ssa.Value) (string, bool) { return "", false }}
				var vl *Valuation
				vl = &Valuation{
					Enter: inModule,
					Int: func(v ssa.Value) (int64, bool) {
						if vl.Root(v) == ssa.Value(pf.Params[1]) {
							return n, true
						}
						switch x := v.(type) {
						case *ssa.Call:
							if bi, ok := x.Call.Value.(*ssa.Builtin); ok && bi.Name() == "len" {
								if isLinesSlice(vl, x.Call.Args[0]) {
									return L, true
								}
								return 1, true
							}
							if f := x.Call.StaticCallee(); f != nil && NameOf(f) == "Value" && strings.Contains(f.String(), "cursor.Cursor") {
								return cur, true
							}
						}
						// int(math.Floor(float64(x) / k)): conversions are looked through,
						// so the value seen is the call of math.Floor
						if call, ok := v.(*ssa.Call); ok && call.Call.StaticCallee() != nil && call.Call.StaticCallee().String() == "math.Floor" {
							if q, ok := call.Call.Args[0].(*ssa.BinOp); ok && q.Op == token.QUO {
								if num, ok := vl.EvalInt(q.X, nil); ok {
									if k, ok := q.Y.(*ssa.Const); ok && k.Value != nil {
										if f, _ := constant.Float64Val(constant.ToFloat(k.Value)); f != 0 {
											return int64(math.Floor(float64(num) / f)), true
										}
									}
								}
							}
						}
						return 0, false
					},
				}
				vl.Visit = func(in ssa.Instruction) {
					switch x := in.(type) {
					case *ssa.IndexAddr:
						if isLinesSlice(vl, x.X) {
							if i, ok := vl.EvalInt(x.Index, nil); !ok {
								bad = "an index into the lines cannot be evaluated"
							} else if i < 0 || i >= L {
								bad = fmt.Sprintf("line index %d is used", i)
							}
						}
					case *ssa.Call:
						if f := x.Call.StaticCallee(); f != nil && (f.String() == "fmt.Printf" || f.String() == "fmt.Print" || f.String() == "fmt.Println") {
							printed += printedLines(sw, x)
						}
					}
				}
				sw.Install(vl)
				res := vl.Walk(pf.Blocks[0], nil)
				walked++
				where := fmt.Sprintf("with %d lines, the cursor on line %d and %d lines granted: ", L, cur, n)
				switch {
				case bad != "":
					firstBad = where + bad
				case !res.OK:
					firstBad = where + "the method cannot be followed (" + res.Why + ")"
				case func() bool { _, p := res.End.(*ssa.Panic); return p }():
					firstBad = where + "the method panics"
				case printed > n:
					firstBad = where + fmt.Sprintf("%d lines are printed", printed)
				}
			}
		}
	}
	c.Oblige(rule, ShortName(pf), c.Prog.FuncPos(pf), firstBad == "", firstBad)
	if firstBad != "" {
		return 1 << 20 // the walk stops at the first failing state; not a vacuity problem
	}
	return walked
}

func headerPhi(p *ssa.Phi) *ssa.Phi {
	for _, pred := range p.Block().Preds {
		if p.Block().Dominates(pred) {
			return p
		}
	}
	return nil
}

// --------------------------------------------------------------------- C32

func checkC32(c *Ctx) {
	c.Rule("C32.idiom", "memoryLines merges rows of the same 16-byte window in place and continues with lines[:j] only")
	c.Rule("C32.index", "memoryView.Print indexes the rows only below their number")
	c.Rule("C32.rows", "block2Lines cuts a block into rows aligned to bytesPerLine that together cover exactly the block; the address command, walked over a three-row view with the address in no row / row 0 / 1 / 2, sets the cursor to that row or answers with an error")
	pkgMv := pkgUI + "/internal/memview"
	if ml := anchor(c, pkgMv+".memoryLines"); ml != nil {
		n := checkCompaction(c, "C32.idiom", ml)
		c.RequireCount("C32.idiom compaction loop in memoryLines", n, 1)
		// every block contributes
		ok := false
		for _, l := range RangeLoops(ml) {
			if matches(l.Over, Method("Intervals", ParamN(0))) {
				ok = true
			}
		}
		c.Oblige("C32.rows", ShortName(ml)+"/all-blocks", c.Prog.FuncPos(ml), ok, "memoryLines does not range over all stored intervals")
	}
	n := checkLineIndices(c, "C32.index", func(fn *ssa.Function) bool {
		return strings.Contains(fileOf(c, fn), "memview/view.go")
	})
	_ = n // the window arithmetic of the memory view is decided by the concrete walk C24.window; this taint rule may have nothing left to judge
	if bl := anchor(c, pkgMv+".block2Lines"); bl != nil {
		bad := block2LinesWalk(bl)
		c.Oblige("C32.rows", ShortName(bl), c.Prog.FuncPos(bl), bad == "", bad)
		_ = token.ADD
	}
	for _, cl := range findCommands(c) {
		if cl.Key != "address" || cl.Action == nil {
			continue
		}
		act := cl.Action
		// the action walked over a view of 3 rows with one range each: the
		// address lies in no row / in row 0 / in row 1 / in row 2
		why := ""
		for target := 0; target <= 3 && why == ""; target++ {
			probe := 0
			setArg, setSeen := int64(-1), false
			var vl *Valuation
			isContains := func(v ssa.Value) bool {
				call, ok := v.(*ssa.Call)
				return ok && call.Call.StaticCallee() != nil && NameOf(Origin(call.Call.StaticCallee())) == "Containts"
			}
			vl = &Valuation{
				Enter: InModulePkg(act),
				Int: func(v ssa.Value) (int64, bool) {
					if call, ok := v.(*ssa.Call); ok && isBuiltin(call, "len") {
						if n, _, ok := FieldNameOfRead(vl.Root(call.Call.Args[0])); ok {
							switch n {
							case "lines":
								return 3, true
							case "ranges":
								return 1, true
							}
						}
					}
					return 0, false
				},
				Bool: func(v ssa.Value) (bool, bool) {
					if isContains(v) {
						return probe == target, true
					}
					if x, nn, ok := NilCheck(v); ok {
						if _, isErr := x.Type().Underlying().(*types.Interface); isErr {
							if call, isCall := vl.Root(x).(*ssa.Call); isCall && call.Call.StaticCallee() != nil && NameOf(call.Call.StaticCallee()) == "Set" {
								return nn == false, true // the cursor accepts the row
							}
						}
					}
					return false, false
				},
			}
			vl.Enter = func(g *ssa.Function) bool {
				return InModulePkg(act)(g) && NameOf(g) != "Set" && NameOf(Origin(g)) != "Containts"
			}
			vl.Visit = func(in ssa.Instruction) {
				if v, ok := in.(ssa.Value); ok && isContains(v) {
					probe++
				}
				if call, ok := in.(*ssa.Call); ok && call.Call.StaticCallee() != nil && NameOf(call.Call.StaticCallee()) == "Set" && !setSeen {
					if n, ok := vl.EvalInt(call.Call.Args[len(call.Call.Args)-1], nil); ok {
						setArg, setSeen = n, true
					}
				}
			}
			res := vl.Walk(act.Blocks[0], nil)
			_, isRet := res.End.(*ssa.Return)
			isNil, known := res.RetNil[0]
			switch {
			case !res.OK || !isRet:
				why = "the action cannot be followed: " + res.Why
			case target == 0:
				if !known || isNil {
					why = "an address that lies in no row is not answered with an error"
				}
				if setSeen {
					why = "the cursor is moved although no row contains the address"
				}
			default:
				if !setSeen || setArg != int64(target-1) {
					why = fmt.Sprintf("the address lies in row %d but the cursor is set to row %d", target-1, setArg)
				}
			}
		}
		c.Oblige("C32.rows", cmdKey(cl), c.Prog.Pos(cl.Pos), why == "", "the address command: "+why)
	}
}

// checkParseCommandWalk decides C22.parse and returns the walked function.
func checkParseCommandWalk(c *Ctx, rule string) *ssa.Function {
	pc := c.Prog.Func("(*" + ModulePath + "/internal/consoleui.UI).parseCommand")
	if pc == nil || pc.Blocks == nil {
		c.Undecide("%s: UI.parseCommand not found", rule)
		return nil
	}
	isWords := func(t types.Type) bool {
		sl, ok := t.Underlying().(*types.Slice)
		if !ok {
			return false
		}
		b, ok := sl.Elem().Underlying().(*types.Basic)
		return ok && b.Kind() == types.String
	}
	nWalk := 0
	for words := int64(0); words <= 4; words++ {
		for nArgs := int64(0); nArgs <= 3; nArgs++ {
			for _, opt := range []bool{false, true} {
				words, nArgs, opt := words, nArgs, opt
				crash := ""
				var vl *Valuation
				vl = &Valuation{
					Int: func(v ssa.Value) (int64, bool) {
						if call, ok := v.(*ssa.Call); ok && isBuiltin(call, "len") {
							if n, _, ok := FieldNameOfRead(vl.Root(call.Call.Args[0])); ok && n == "Args" {
								return nArgs, true
							}
						}
						return 0, false
					},
					Bool: func(v ssa.Value) (bool, bool) {
						// the command is known; argument parsers succeed; the optional
						// parser is there or not
						if ex, ok := v.(*ssa.Extract); ok && ex.Index == 1 {
							if lk, ok := ex.Tuple.(*ssa.Lookup); ok && lk.CommaOk {
								return true, true // the command is in the table
							}
							if call, ok := ex.Tuple.(*ssa.Call); ok && call.Call.StaticCallee() != nil && call.Call.Signature().Results().Len() == 2 {
								if b, isB := call.Call.Signature().Results().At(1).Type().Underlying().(*types.Basic); isB && b.Kind() == types.Bool {
									return true, true
								}
							}
						}
						if x, nn, ok := NilCheck(v); ok {
							if n, _, isF := FieldNameOfRead(vl.Root(x)); isF && n == "OptionalArgs" {
								return nn == opt, true
							}
							if _, isErr := x.Type().Underlying().(*types.Interface); isErr {
								return nn == false, true // errors are nil
							}
						}
						return false, false
					},
					// the words: whatever the line is split into by calls returning []string
					Len: func(root ssa.Value) (int64, bool) {
						if call, ok := root.(*ssa.Call); ok && isWords(call.Type()) {
							return words, true
						}
						if call, ok := root.(*ssa.Call); ok && !isBuiltin(call, "append") {
							if _, isSl := call.Type().Underlying().(*types.Slice); isSl {
								return 0, true // what the optional parser returns: of no concern
							}
						}
						return 0, false
					},
				}
				vl.Visit = func(in ssa.Instruction) {
					if crash != "" {
						return
					}
					check := func(x ssa.Value, lo, hi ssa.Value, isIndex bool) {
						if !isWords(x.Type()) {
							return
						}
						n, ok := vl.BuiltLen(x)
						if !ok {
							crash = "the number of words is lost at " + c.Prog.Pos(in.Pos())
							return
						}
						l, h := int64(0), n
						if lo != nil {
							if l, ok = vl.EvalInt(lo, nil); !ok {
								crash = "an index of the word list cannot be evaluated at " + c.Prog.Pos(in.Pos())
								return
							}
						}
						if hi != nil {
							if h, ok = vl.EvalInt(hi, nil); !ok {
								crash = "a bound of the word list cannot be evaluated at " + c.Prog.Pos(in.Pos())
								return
							}
						}
						if isIndex && (l < 0 || l >= n) {
							crash = fmt.Sprintf("word %d of %d is read at %s", l, n, c.Prog.Pos(in.Pos()))
						}
						if !isIndex && (l < 0 || h > n || l > h) {
							crash = fmt.Sprintf("words[%d:%d] of %d words is taken at %s", l, h, n, c.Prog.Pos(in.Pos()))
						}
					}
					switch y := in.(type) {
					case *ssa.IndexAddr:
						check(y.X, y.Index, nil, true)
					case *ssa.Slice:
						check(y.X, y.Low, y.High, false)
					}
				}
				res := vl.Walk(pc.Blocks[0], nil)
				key := fmt.Sprintf("%s/words=%d,parsers=%d,optional=%v", ShortName(pc), words, nArgs, opt)
				switch {
				case crash != "":
					c.Fail(rule, key, c.Prog.FuncPos(pc), crash)
				case !res.OK:
					c.Fail(rule, key, c.Prog.FuncPos(pc), "not computable: "+res.Why)
				default:
					nWalk++
					c.Pass(rule, key, c.Prog.FuncPos(pc), "")
				}
			}
		}
	}
	c.RequireCount(rule+" walks of parseCommand", nWalk, 40)
	return pc
}

// checkActionsStateless: see rule C31.fresh.
func checkActionsStateless(c *Ctx, rule string) {
	n := 0
	for _, cl := range findCommands(c) {
		act := cl.Action
		if act == nil || act.Blocks == nil {
			continue
		}
		n++
		bad := ""
		// a captured variable is a free variable holding the address of a cell of
		// the enclosing function; writing it (here or in a helper closure of the
		// action) makes the action remember something
		var scan func(f *ssa.Function)
		scan = func(f *ssa.Function) {
			for _, b := range f.Blocks {
				for _, in := range b.Instrs {
					st, ok := in.(*ssa.Store)
					if !ok {
						continue
					}
					if fv, isFV := st.Addr.(*ssa.FreeVar); isFV {
						// only cells of the table-building function (not the action's own locals
						// captured by its inner closures)
						root := f
						for root.Parent() != nil && root != act {
							root = root.Parent()
						}
						if root == act && freeVarBelongsAbove(fv, act) {
							bad = fv.Name() + " at " + c.Prog.Pos(st.Pos())
						}
					}
				}
			}
			for _, af := range f.AnonFuncs {
				scan(af)
			}
		}
		scan(act)
		c.Oblige(rule, cmdKey(cl), c.Prog.Pos(cl.Pos), bad == "", "the action writes the captured variable "+bad+": what it remembers is not refreshed when the listing changes")
	}
	c.RequireCount(rule+" command actions", n, 17)
}

// freeVarBelongsAbove: fv (a free variable of act or of a closure nested in
// act) stands for a variable declared outside act.
func freeVarBelongsAbove(fv *ssa.FreeVar, act *ssa.Function) bool {
	f := fv.Parent()
	name := fv.Name()
	for f != nil && f != act {
		// is the variable captured from the parent, i.e. also a free variable there?
		p := f.Parent()
		if p == nil {
			return false
		}
		found := false
		for _, pfv := range p.FreeVars {
			if pfv.Name() == name {
				found = true
			}
		}
		if p == act {
			return found
		}
		if !found {
			return false
		}
		f = p
	}
	return f == act
}

// printedLines: the number of line ends a fmt.Print* call writes: the newlines
// of the text where it can be evaluated (a constant or built format, string
// arguments of Print), at least one for Printf/Println otherwise.
func printedLines(sw *StrWalk, call *ssa.Call) int64 {
	f := call.Call.StaticCallee()
	countIn := func(v ssa.Value) (int64, bool) {
		s, ok := sw.StrOf(v)
		return int64(strings.Count(s, "\n")), ok
	}
	// the variadic arguments: values stored into the fresh array behind the slice
	varargs := func(v ssa.Value) []ssa.Value {
		var out []ssa.Value
		if sl, ok := v.(*ssa.Slice); ok {
			if al, ok := sl.X.(*ssa.Alloc); ok && al.Referrers() != nil {
				for _, r := range *al.Referrers() {
					if ia, ok := r.(*ssa.IndexAddr); ok && ia.Referrers() != nil {
						for _, r2 := range *ia.Referrers() {
							if st, ok := r2.(*ssa.Store); ok && st.Addr == ssa.Value(ia) {
								out = append(out, st.Val)
							}
						}
					}
				}
			}
		}
		return out
	}
	switch f.String() {
	case "fmt.Printf":
		if n, ok := countIn(call.Call.Args[0]); ok {
			return n
		}
		return 1
	case "fmt.Println":
		n := int64(1)
		for _, a := range varargs(call.Call.Args[0]) {
			if k, ok := countIn(Unwrap(a)); ok {
				n += k
			}
		}
		return n
	case "fmt.Print":
		n := int64(0)
		for _, a := range varargs(call.Call.Args[0]) {
			if k, ok := countIn(Unwrap(a)); ok {
				n += k
			}
		}
		return n
	}
	return 0
}
