package rules

import (
	"fmt"
	"go/constant"
	"go/token"
	"go/types"
	"math"
	"os"
	"sort"
	"strings"

	"golang.org/x/tools/go/ssa"

	"mltlint/internal/absint"
	. "mltlint/internal/core"
)

func init() { register("C01", "other", checkC01) }

// immSpec is the RISC-V immediate layout of one format: result bit -> source
// bit (-1: constant zero), SignBit is the result bit from which upwards every
// bit is a copy of instruction bit 31 (-1: no sign extension).
type immSpec struct {
	name    string
	konst   string // name of the immType constant
	bits    map[int]int
	signBit int
}

func rng(m map[int]int, dstLo, srcLo, n int) {
	for i := 0; i < n; i++ {
		m[dstLo+i] = srcLo + i
	}
}

func immSpecs() []immSpec {
	i := map[int]int{}
	rng(i, 0, 20, 11)
	s := map[int]int{}
	rng(s, 0, 7, 5)
	rng(s, 5, 25, 6)
	b := map[int]int{0: -1, 11: 7}
	rng(b, 1, 8, 4)
	rng(b, 5, 25, 6)
	u := map[int]int{}
	for k := 0; k < 12; k++ {
		u[k] = -1
	}
	rng(u, 12, 12, 20)
	j := map[int]int{0: -1, 11: 20}
	rng(j, 1, 21, 10)
	rng(j, 12, 12, 8)
	return []immSpec{
		{"I", "immTypeI", i, 11},
		{"S", "immTypeS", s, 11},
		{"B", "immTypeB", b, 12},
		{"U", "immTypeU", u, -1},
		{"J", "immTypeJ", j, 20},
	}
}

// pathSign returns what the path assumes about instruction bit 31:
// 0, 1 or -1 (nothing).
func pathSign(conds []absint.CondRec) int {
	for _, cr := range conds {
		d := cr.Desc
		if d == nil || d.XDep != 1<<31 || d.Const != 0 {
			continue
		}
		eq := d.Op == token.EQL
		if d.Op != token.EQL && d.Op != token.NEQ {
			continue
		}
		isZero := eq == cr.Outcome // (x==0)=true or (x!=0)=false
		if d.Neg {
			isZero = !isZero
		}
		if isZero {
			return 0
		}
		return 1
	}
	return -1
}

func checkImmediates(c *Ctx, ri *rvInfo) {
	c.Rule("C01.F2", "immType.parseValue, interpreted on a symbolic word with known-bits/dependence, maps instruction bits to immediate bits exactly as the I/S/B/U/J formats of the ISA manual prescribe (each low bit from its source bit, zeros where the format has zeros, every bit from the sign position upwards a copy of bit 31); reg.regNum extracts bits 7-11, 15-19, 20-24")
	pk := ri.T.Pkg
	in := ri.T.In
	it := pk.Type("immType")
	if it == nil {
		c.Undecide("type riscv.immType does not resolve")
		return
	}
	pv := c.Prog.SSA.LookupMethod(it.Type(), pk.Pkg, "parseValue")
	if pv == nil {
		c.Undecide("method riscv.immType.parseValue does not resolve")
		return
	}
	c.Saw("functions", ShortName(pv))
	itb, _ := it.Type().Underlying().(*types.Basic)
	for _, sp := range immSpecs() {
		key := "immediate-format-" + sp.name
		kv, ok := absint.ConstByName(pk, sp.konst)
		if !ok || itb == nil {
			c.Undecide("constant riscv.%s does not resolve", sp.konst)
			continue
		}
		var paths []absint.PathResult
		err := func() (err error) {
			defer func() {
				if r := recover(); r != nil {
					if a, ok := r.(absint.Abort); ok {
						err = a
						return
					}
					panic(r)
				}
			}()
			paths = in.Explore(func() absint.Value {
				return in.Call(pv, nil, []absint.Value{absint.IntV{V: uint64(kv), T: itb}, in.Symbolic(types.Typ[types.Uint32], 32)})
			})
			return nil
		}()
		if err != nil {
			c.Undecide("C01.F2 %s: %v", key, err)
			continue
		}
		bad := ""
		for _, p := range paths {
			if p.Panicked {
				bad = "parseValue panics for some instruction word at " + c.Prog.Pos(p.PanicPos)
				break
			}
			tu, ok := p.Result.(absint.TupleV)
			if !ok || len(tu) != 2 {
				bad = "unexpected result shape"
				break
			}
			if okv, isB := tu[1].(absint.BoolV); !isB || !bool(okv) {
				bad = "format reports no immediate value"
				break
			}
			iv, ok := tu[0].(absint.IntV)
			if !ok || in.ByteWidth(iv) != 4 {
				bad = "immediate is not a 32-bit integer"
				break
			}
			sign := pathSign(p.Conds)
			for bit := 0; bit < 32 && bad == ""; bit++ {
				unk := iv.Unk>>uint(bit)&1 == 1
				val := iv.V >> uint(bit) & 1
				var dep absint.Dep
				if unk {
					dep = iv.Dep[bit]
				}
				src, inLow := sp.bits[bit]
				switch {
				case inLow && src < 0:
					if unk || val != 0 {
						bad = fmt.Sprintf("immediate bit %d must be constant 0", bit)
					}
				case inLow:
					if !unk || dep != 1<<uint(src) {
						bad = fmt.Sprintf("immediate bit %d must be instruction bit %d, but is %s", bit, src, describeBit(unk, val, dep))
					}
				case sp.signBit >= 0 && bit >= sp.signBit:
					if unk {
						if dep != 1<<31 {
							bad = fmt.Sprintf("immediate bit %d must be the sign (instruction bit 31), but depends on %s", bit, absint.Ranges(dep))
						}
					} else if sign < 0 || int(val) != sign {
						bad = fmt.Sprintf("immediate bit %d is constant %d on a path where instruction bit 31 is %s", bit, val, signStr(sign))
					}
				default:
					bad = fmt.Sprintf("immediate bit %d has no source in the specification table", bit)
				}
			}
			if bad != "" {
				break
			}
		}
		if bad != "" {
			c.Fail("C01.F2", key, c.Prog.FuncPos(pv), bad)
		} else {
			c.Pass("C01.F2", key, c.Prog.FuncPos(pv), fmt.Sprintf("%d paths", len(paths)))
		}
	}
	// register fields
	rt := pk.Type("reg")
	if rt == nil {
		c.Undecide("type riscv.reg does not resolve")
		return
	}
	rn := c.Prog.SSA.LookupMethod(rt.Type(), pk.Pkg, "regNum")
	rtb, _ := rt.Type().Underlying().(*types.Basic)
	if rn == nil || rtb == nil {
		c.Undecide("method riscv.reg.regNum does not resolve")
		return
	}
	c.Saw("functions", ShortName(rn))
	for _, f := range []struct {
		konst string
		off   int
	}{{"rd", 7}, {"rs1", 15}, {"rs2", 20}} {
		key := "register-field-" + f.konst
		kv, ok := absint.ConstByName(pk, f.konst)
		if !ok {
			c.Undecide("constant riscv.%s does not resolve", f.konst)
			continue
		}
		var paths []absint.PathResult
		err := func() (err error) {
			defer func() {
				if r := recover(); r != nil {
					if a, ok := r.(absint.Abort); ok {
						err = a
						return
					}
					panic(r)
				}
			}()
			paths = in.Explore(func() absint.Value {
				return in.Call(rn, nil, []absint.Value{absint.IntV{V: uint64(kv), T: rtb}, in.Symbolic(types.Typ[types.Uint32], 32)})
			})
			return nil
		}()
		if err != nil {
			c.Undecide("C01.F2 %s: %v", key, err)
			continue
		}
		bad := ""
		if len(paths) != 1 || paths[0].Panicked {
			bad = "regNum does not evaluate on a single non-panicking path"
		} else if iv, ok := paths[0].Result.(absint.IntV); !ok {
			bad = "regNum result is not an integer"
		} else {
			for bit := 0; bit < int(in.ByteWidth(iv))*8; bit++ {
				unk := iv.Unk>>uint(bit)&1 == 1
				if bit < 5 {
					if !unk || iv.Dep[bit] != 1<<uint(f.off+bit) {
						bad = fmt.Sprintf("register number bit %d must be instruction bit %d", bit, f.off+bit)
					}
				} else if unk || iv.V>>uint(bit)&1 != 0 {
					bad = fmt.Sprintf("register number bit %d must be zero", bit)
				}
			}
		}
		if bad != "" {
			c.Fail("C01.F2", key, c.Prog.FuncPos(rn), bad)
		} else {
			c.Pass("C01.F2", key, c.Prog.FuncPos(rn), "")
		}
	}
}

func describeBit(unk bool, val uint64, dep absint.Dep) string {
	if !unk {
		return fmt.Sprintf("constant %d", val)
	}
	return "a function of instruction bits " + absint.Ranges(dep)
}

func signStr(s int) string {
	switch s {
	case 0:
		return "0"
	case 1:
		return "1"
	}
	return "unconstrained"
}

// nonCommutative lists the operators/gadgets whose operand order matters and
// cannot be compensated by swapping outcomes.
var nonCommutativeGadgets = map[string]bool{
	"exprtools.Sub": true, "exprtools.Mod": true, "exprtools.SignedDiv": true,
	"exprtools.SignedMod": true, "exprtools.RshA": true,
}

type rvConsts struct {
	ipKey               string
	lsh, rsh, div       uint64
	memOrder, syscall   uint64
	haveOps, haveModels bool
}

func loadConsts(c *Ctx) rvConsts {
	var k rvConsts
	ep := c.Prog.SSAPkg[ExprPkg]
	mp := c.Prog.SSAPkg[ModulePath+"/pkg/model"]
	if ep != nil {
		l, ok1 := absint.ConstByName(ep, "Lsh")
		r, ok2 := absint.ConstByName(ep, "Rsh")
		d, ok3 := absint.ConstByName(ep, "Div")
		k.lsh, k.rsh, k.div = uint64(l), uint64(r), uint64(d)
		k.haveOps = ok1 && ok2 && ok3
		if ik := ep.Const("IPKey"); ik != nil && ik.Value != nil && ik.Value.Value.Kind() == constant.String {
			k.ipKey = constant.StringVal(ik.Value.Value)
		} else {
			k.haveOps = false
		}
	}
	if mp != nil {
		m, ok1 := absint.ConstByName(mp, "TypeMemOrder")
		s, ok2 := absint.ConstByName(mp, "TypeSyscall")
		k.memOrder, k.syscall = uint64(m), uint64(s)
		k.haveModels = ok1 && ok2
	}
	if !k.haveOps {
		c.Undecide("constants expr.Lsh/Rsh/Div do not resolve")
	}
	if !k.haveModels {
		c.Undecide("constants model.TypeMemOrder/TypeSyscall do not resolve")
	}
	return k
}

// entryFacts is what the template analysis derives for one entry (shared
// with C25).
type entryFacts struct {
	Paths    []absint.PathResult
	U        absint.Dep // every word bit the lifted behaviour depends on
	AllEmpty bool       // no effect on any path
	Err      error
}

func templateFacts(ri *rvInfo, e *absint.Entry) *entryFacts {
	f := &entryFacts{AllEmpty: true}
	f.Paths, f.Err = ri.T.Template(e)
	if f.Err != nil {
		return f
	}
	for _, p := range f.Paths {
		for _, cr := range p.Conds {
			f.U |= cr.Dep
		}
		f.U |= absint.DepsOf(p.Result)
		if sl, ok := p.Result.(absint.SliceV); ok {
			for i := 0; i < sl.Len(); i++ {
				if !absint.IsNil(sl.At(i)) {
					f.AllEmpty = false
				}
			}
		} else if p.Result != nil && !absint.IsNil(p.Result) {
			f.AllEmpty = false
		}
	}
	f.U &^= absint.AddrBit
	f.U &= 0xffffffff
	return f
}

func checkC01(c *Ctx) {
	c.Rule("C01.F0", "the effects closure of every table entry evaluates without panicking on every abstract path and returns a list of effect terms")
	c.Rule("C01.F1", "field agreement: every don't-care bit of the entry's pattern influences the lifted effects (D \\ U ⊆ Ignored), where Ignored is aq/rl (bits 25-26) of atomic memory-order entries and every free bit of effect-less memory-order/syscall entries (fence pred/succ)")
	c.Rule("C01.F5", "every MemLoad node has width loadBytes and every MemStore width storeBytes (none when 0), in the riscv.MemoryKey space")
	c.Rule("C01.F6", "operand roles: addresses are built from rs1 (and immediates) only, stored values from rs2, x-register writes are keyed by rd, x-register reads by rs1/rs2, CSR keys by bits 20-31")
	c.Rule("C01.F7", "x0: every x-register RegLoad/RegStore lies on a path that has established field != 0 for its register field")
	c.Rule("C01.F8", "x-register and IP writes have width XLEN of the table's variant; a possibly negative signed Go integer turned into a k-byte constant is not an operand of a wider node except as the value operand of SignExtend")
	c.Rule("C01.F9", "an arithmetic node narrower than XLEN is not stored into an x-register without SignExtend")
	c.Rule("C01.F10", "in Lsh/Rsh/Div and the Sub/Mod/SignedDiv/SignedMod/RshA gadgets the rs1 operand comes first when the other operand is rs2 or an immediate")
	c.Rule("C01.F11", "W-twin agreement (sibling cross-check): every RV64 entry that the ISA defines as the 32-bit form of an RV32 instruction (mnemonic + 'w', or an atomic '.w') computes, on the path where no register is x0, the same term as its RV32 twin - same operators, operand roles, operation widths and constants - apart from the final sign extension to 64 bits, the 64-bit register-file width and the width of address registers")
	c.Rule("C01.sem", "reference semantics: for every table entry the lifted effect terms (path without x0 operands), in a canonical form invariant under truncation-transparent widths, operand order of commutative operators, the comparison-helper family and transparent sign/width adapters, equal the canonical form of the instruction's definition in the unprivileged ISA manual (operator, operand roles, comparison polarity, branch targets, access widths, sign extension of loads and word forms, jalr bit 0, mulh/mulhsu/mulhu products, AMO min/max selection)")
	c.Rule("C01.glue", "wherever Parser.Parse (or a helper) calls an entry's effects closure, it is the closure of the entry that Match returned, applied to newInstruction(a, bs, matched)")

	c.Rule("C01.pcrel", "the helper that adds a signed 32-bit immediate to an address (PC-relative targets, auipc), walked with the wrap-around of its Go integer types for immediates 0, 1, -1, 2047, -2048, MaxInt32 and MinInt32 at a low and a high address, returns address + sign-extended immediate modulo 2^64")
	checkPCRelative(c)
	c.Rule("C01.remsign", "the signed remainder that rem/remw are lifted to takes its sign from the dividend (RISC-V: the sign of the result equals the sign of the dividend): where exprtools.SignedMod chooses between the unsigned remainder and its negation, the choice does not depend on the divisor")
	checkRemainderSign(c)
	c.Rule("C01.wrap", "a constant of width w built from the instruction address (jump and branch targets, the fall-through address) is reduced to w bytes first: the functions of package riscv that call expr.NewConstUint on an address, walked for addresses at both ends of the 32-bit and of the 64-bit space with immediates +8 and -4, never hand it a value that does not fit (the constructor panics on one)")
	checkAddressWrap(c)

	ri := loadRiscv(c)
	if ri == nil {
		return
	}
	checkImmediates(c, ri)
	k := loadConsts(c)
	if !k.haveOps || !k.haveModels {
		return
	}
	ns := checkSemantics(c, ri, k)
	c.RequireCount("C01.sem table entries compared with the reference semantics", ns, 150)
	in := ri.T.In
	totalPaths := 0
	var sampleTemplates []string
	for _, e := range ri.T.Entries {
		key := entryKey(ri, e)
		pos := c.Prog.Pos(e.Pos)
		c.Saw("table_entries", key)
		xlen := ri.xlen(e.Variant) / 8
		f := templateFacts(ri, e)
		if f.Err != nil {
			c.Undecide("%s: %v", key, f.Err)
			continue
		}
		totalPaths += len(f.Paths)
		// --- F0
		f0 := ""
		for _, p := range f.Paths {
			if p.Panicked {
				f0 = "effects closure panics at " + c.Prog.Pos(p.PanicPos) + " under " + condStr(p.Conds)
				break
			}
			if _, ok := p.Result.(absint.SliceV); !ok && p.Result != nil && !absint.IsNil(p.Result) {
				f0 = "effects closure does not return an effect list"
				break
			}
		}
		c.Oblige("C01.F0", key, pos, f0 == "", f0)
		if f0 != "" {
			continue
		}
		// --- F1
		D := absint.Dep(^e.Mask)
		var ignored absint.Dep
		if e.Ext == ri.ExtA && e.InstrType&k.memOrder != 0 {
			ignored |= 3 << 25
		}
		if f.AllEmpty && e.InstrType&(k.memOrder|k.syscall) != 0 {
			ignored |= D
		}
		if unused := D &^ f.U &^ ignored; unused != 0 {
			c.Fail("C01.F1", key, pos, fmt.Sprintf("instruction bits %s are decoded as operand bits (don't-care in the pattern %#08x/%#08x) but never influence the lifted effects: words that differ only there lift identically", absint.Ranges(unused), e.Mask, e.Match))
		} else {
			c.Pass("C01.F1", key, pos, "")
		}

		var f5, f6, f7, f8, f9, f10 string
		set := func(dst *string, msg string) {
			if *dst == "" {
				*dst = msg
			}
		}
		maxLoads, maxStores := 0, 0
		for _, p := range f.Paths {
			sl, _ := p.Result.(absint.SliceV)
			nLoads, nStores := 0, 0
			nonzero := map[absint.Dep]bool{}
			for _, cr := range p.Conds {
				d := cr.Desc
				if d == nil || d.Const != 0 || (d.Op != token.EQL && d.Op != token.NEQ) {
					continue
				}
				isZero := (d.Op == token.EQL) == cr.Outcome
				if d.Neg {
					isZero = !isZero
				}
				if !isZero {
					nonzero[d.XDep] = true
				}
			}
			for i := 0; i < sl.Len(); i++ {
				ef := sl.At(i)
				if absint.IsNil(ef) {
					continue
				}
				root, ok := asTerm(ef)
				if !ok {
					set(&f6, "effect is not built by a pkg/expr constructor")
					continue
				}
				// effect-level rules
				switch root.Fn {
				case "expr.NewRegStore":
					kd := absint.DepsOf(root.Args[1])
					ks, isStr := root.Args[1].(absint.StrV)
					w, _ := widthOf(in, root)
					switch {
					case isStr && string(ks) == k.ipKey:
						if w != xlen {
							set(&f8, fmt.Sprintf("instruction pointer written at width %d, XLEN is %d bytes", w, xlen))
						}
					case roleOf(kd) == "rd":
						if w != xlen {
							set(&f8, fmt.Sprintf("x-register written at width %d, XLEN is %d bytes", w, xlen))
						}
						if !nonzero[fieldRd] {
							set(&f7, "x-register RegStore on a path that has not established rd != 0 (x0 must never be written)")
						}
						if vt, ok := asTerm(root.Args[0]); ok {
							if vw, ok := widthOf(in, vt); ok && vw < xlen && (vt.Fn == "expr.NewBinary" || vt.Fn == "expr.NewLess" || (isGadget(vt) && vt.Fn != "exprtools.SignExtend")) {
								set(&f9, fmt.Sprintf("%d-byte %s result stored into a %d-byte x-register without sign extension", vw, shortFn(vt), xlen))
							}
						}
					case roleOf(kd) == "csr":
					default:
						set(&f6, "RegStore key depends on instruction bits "+absint.Ranges(kd)+" (expected rd = bits 7-11, a CSR number = bits 20-31, or the instruction pointer)")
					}
				case "expr.NewMemStore":
					nStores++
					w, _ := widthOf(in, root)
					if uint64(w) != e.StoreBytes {
						set(&f5, fmt.Sprintf("MemStore of %d bytes, metadata storeBytes is %d", w, e.StoreBytes))
					}
					if s, ok := root.Args[1].(absint.StrV); !ok || string(s) != "memory" {
						set(&f5, "MemStore is not in the riscv.MemoryKey space")
					}
					for _, kd := range regLoadKeys(root.Args[2], true) {
						if roleOf(kd) != "rs1" {
							set(&f6, "store address reads a register selected by bits "+absint.Ranges(kd)+" (expected rs1 = bits 15-19)")
						}
					}
					if cd := constDeps(root.Args[2]); cd&fieldRs2 != 0 && e.StoreBytes > 0 && e.LoadBytes == 0 {
						set(&f6, "store address offset depends on the rs2 field (bits 20-24)")
					}
					for _, kd := range regLoadKeys(root.Args[0], false) {
						if roleOf(kd) != "rs2" {
							set(&f6, "stored value reads a register selected by bits "+absint.Ranges(kd)+" (expected rs2 = bits 20-24)")
						}
					}
				default:
					set(&f6, "unknown effect constructor "+root.Fn)
				}
				// node-level rules
				walkTerms(ef, nil, 0, func(t term, parent *term, argIdx int) {
					switch t.Fn {
					case "expr.NewMemLoad":
						nLoads++
						w, _ := widthOf(in, t)
						if uint64(w) != e.LoadBytes {
							set(&f5, fmt.Sprintf("MemLoad of %d bytes, metadata loadBytes is %d", w, e.LoadBytes))
						}
						if s, ok := t.Args[0].(absint.StrV); !ok || string(s) != "memory" {
							set(&f5, "MemLoad is not in the riscv.MemoryKey space")
						}
						for _, kd := range regLoadKeys(t.Args[1], true) {
							if roleOf(kd) != "rs1" {
								set(&f6, "load address reads a register selected by bits "+absint.Ranges(kd)+" (expected rs1 = bits 15-19)")
							}
						}
					case "expr.NewRegLoad":
						kd := absint.DepsOf(t.Args[0])
						switch roleOf(kd) {
						case "rs1", "rs2":
							if !nonzero[kd] {
								set(&f7, "x-register RegLoad on a path that has not established "+roleOf(kd)+" != 0 (x0 must read as zero)")
							}
						case "csr":
						default:
							set(&f6, "RegLoad key depends on instruction bits "+absint.Ranges(kd)+" (expected rs1 = 15-19, rs2 = 20-24 or a CSR number = 20-31)")
						}
					case "expr.ConstFromInt", "expr.NewConstInt":
						if parent == nil {
							return
						}
						iv, ok := t.Args[0].(absint.IntV)
						if !ok || !in.MaybeNegative(iv) {
							return
						}
						kw, ok1 := widthOf(in, t)
						pw, ok2 := widthOf(in, *parent)
						isOperand := false
						for _, ix := range exprArgIdx(*parent) {
							if ix == argIdx {
								isOperand = true
							}
						}
						if !ok1 || !ok2 || !isOperand {
							return
						}
						if pw > kw && !(parent.Fn == "exprtools.SignExtend" && argIdx == 0) {
							set(&f8, fmt.Sprintf("a possibly negative immediate is encoded as a %d-byte constant and used as operand of a %d-byte %s: it is zero-extended instead of sign-extended", kw, pw, shortFn(*parent)))
						}
					}
					// F10
					nc := nonCommutativeGadgets[t.Fn]
					a1, a2 := 0, 1
					if t.Fn == "expr.NewBinary" {
						if op, ok := t.Args[0].(absint.IntV); ok && op.Known() && (op.V == k.lsh || op.V == k.rsh || op.V == k.div) {
							nc = true
						}
						a1, a2 = 1, 2
					}
					if nc && len(t.Args) > a2 {
						has := func(v absint.Value, role string) bool {
							for _, kd := range regLoadKeys(v, true) {
								if roleOf(kd) == role {
									return true
								}
							}
							return false
						}
						first, second := t.Args[a1], t.Args[a2]
						firstOther := has(first, "rs2") || (constDeps(first)&^absint.AddrBit != 0 && len(regLoadKeys(first, true)) == 0)
						if has(second, "rs1") && !has(first, "rs1") && firstOther {
							set(&f10, fmt.Sprintf("%s computes (rs2|imm) op rs1; RISC-V computes rs1 op (rs2|imm)", shortFn(t)))
						}
					}
				})
			}
			if nLoads > maxLoads {
				maxLoads = nLoads
			}
			if nStores > maxStores {
				maxStores = nStores
			}
		}
		if e.LoadBytes > 0 && maxLoads == 0 {
			set(&f5, fmt.Sprintf("metadata says the instruction loads %d bytes but no path has a MemLoad", e.LoadBytes))
		}
		if e.StoreBytes > 0 && maxStores == 0 {
			set(&f5, fmt.Sprintf("metadata says the instruction stores %d bytes but no path has a MemStore", e.StoreBytes))
		}
		c.Oblige("C01.F5", key, pos, f5 == "", f5)
		c.Oblige("C01.F6", key, pos, f6 == "", f6)
		c.Oblige("C01.F7", key, pos, f7 == "", f7)
		c.Oblige("C01.F8", key, pos, f8 == "", f8)
		c.Oblige("C01.F9", key, pos, f9 == "", f9)
		c.Oblige("C01.F10", key, pos, f10 == "", f10)
		if os.Getenv("MLTLINT_DEBUG") == "templates" && len(f.Paths) > 0 {
			last := f.Paths[len(f.Paths)-1]
			fmt.Fprintf(os.Stderr, "TEMPLATE %s [%s] => %s\n", key, condStr(last.Conds), absint.Render(last.Result))
		}
		if len(sampleTemplates) < 6 && len(f.Paths) > 0 {
			last := f.Paths[len(f.Paths)-1]
			sampleTemplates = append(sampleTemplates, key+" ["+condStr(last.Conds)+"] => "+truncate(absint.Render(last.Result), 400))
		}
	}
	checkWTwins(c, ri)
	c.Extra["template_paths"] = totalPaths
	c.Extra["template_samples"] = sampleTemplates
	checkGlue(c)
}

func truncate(s string, n int) string {
	if len(s) > n {
		return s[:n] + "…"
	}
	return s
}

func condStr(cs []absint.CondRec) string {
	var out []string
	for _, cr := range cs {
		s := "cond‹" + absint.Ranges(cr.Dep) + "›"
		if d := cr.Desc; d != nil {
			s = fmt.Sprintf("‹%s›%s%d", absint.Ranges(d.XDep), d.Op, d.Const)
			if d.Neg {
				s = "!(" + s + ")"
			}
		}
		out = append(out, fmt.Sprintf("%s=%v", s, cr.Outcome))
	}
	sort.Strings(out)
	return strings.Join(out, " ")
}

func checkGlue(c *Ctx) {
	parse := anchor(c, "("+pkgRiscv+".Parser).Parse")
	if parse == nil {
		return
	}
	// the call of the matched entry's effects closure, wherever it is made (in
	// Parse, in a method of the entry, in a plain helper)
	n := 0
	for _, s := range DeepCalls(parse, InModulePkg(parse)) {
		call, ok := s.Instr.(*ssa.Call)
		if !ok || call.Call.IsInvoke() || call.Call.StaticCallee() != nil {
			continue
		}
		name, base, isField := FieldNameOfRead(call.Call.Value)
		if !isField || name != "effects" || len(call.Call.Args) != 1 {
			continue
		}
		n++
		matched := ExtractN(0, Method("Match", Any()))
		if al, isAl := base.(*ssa.Alloc); isAl && al.Referrers() != nil {
			// a value receiver (or parameter) spilled into a local
			for _, r := range *al.Referrers() {
				if st, isSt := r.(*ssa.Store); isSt && st.Addr == ssa.Value(al) {
					base = st.Val
				}
			}
		}
		recv := s.UpRoot(base)
		okRecv := matches(recv, Deref(matched)) || matches(recv, matched) || DependsOn(recv, func(v ssa.Value) bool { return matches(v, matched) })
		okIns := matches(s.UpRoot(call.Call.Args[0]), CallTo(pkgRiscv+".newInstruction", ParamN(1), ParamN(2), matched))
		if os.Getenv("MLTLINT_DEBUG") == "glue" {
			fmt.Fprintf(os.Stderr, "glue: recv=%v (%T) arg=%v okRecv=%v okIns=%v chain=%d\n", recv, recv, s.UpRoot(call.Call.Args[0]), okRecv, okIns, len(s.Chain))
		}
		c.Oblige("C01.glue", ShortName(parse)+"/effects-of-the-matched-entry", c.Prog.Pos(call.Pos()), okRecv && okIns, "effects are not produced by the matched entry on newInstruction(a, bs, matched)")
	}
	c.RequireCount("C01.glue call of the matched entry's effects closure reached from Parser.Parse", n, 1)
}

// ---------------------------------------------------------------- F11

func nonZeroPath(paths []absint.PathResult) *absint.PathResult {
	for i := range paths {
		p := &paths[i]
		if p.Panicked {
			continue
		}
		ok := true
		for _, cr := range p.Conds {
			d := cr.Desc
			if d == nil || d.Const != 0 || (d.Op != token.EQL && d.Op != token.NEQ) {
				continue
			}
			isZero := (d.Op == token.EQL) == cr.Outcome
			if d.Neg {
				isZero = !isZero
			}
			if isZero {
				ok = false
			}
		}
		if ok {
			return p
		}
	}
	return nil
}

func effectsOfPath(p *absint.PathResult) []term {
	var out []term
	sl, ok := p.Result.(absint.SliceV)
	if !ok {
		return nil
	}
	for i := 0; i < sl.Len(); i++ {
		if absint.IsNil(sl.At(i)) {
			continue
		}
		if t, ok := asTerm(sl.At(i)); ok {
			out = append(out, t)
		}
	}
	return out
}

func sameInt(a, b absint.IntV) bool {
	if a.V != b.V || a.Unk != b.Unk {
		return false
	}
	for p := 0; p < 64; p++ {
		if a.Unk>>uint(p)&1 == 1 && a.Dep[p] != b.Dep[p] {
			return false
		}
	}
	return true
}

// termEq compares a term of the 64-bit table with one of the 32-bit table.
// inAddr: widths of register loads may be 8 vs 4.
func termEq(a, b absint.Value, inAddr bool) (bool, string) {
	a, b = absint.UnwrapV(a), absint.UnwrapV(b)
	switch x := a.(type) {
	case term:
		y, ok := b.(term)
		if !ok {
			return false, "a " + shortFn(x) + " node corresponds to a non-node"
		}
		if x.Fn != y.Fn {
			return false, shortFn(x) + " vs " + shortFn(y)
		}
		if len(x.Args) != len(y.Args) {
			return false, "different arity of " + shortFn(x)
		}
		for i := range x.Args {
			sub := inAddr
			if (x.Fn == "expr.NewMemLoad" && i == 1) || (x.Fn == "expr.NewMemStore" && i == 2) {
				sub = true
			}
			// the width argument of an address register load may differ
			if inAddr && x.Fn == "expr.NewRegLoad" && i == 1 {
				continue
			}
			if inAddr && x.Sig != nil && i < x.Sig.Params().Len() && isExprPkgType(x.Sig.Params().At(i).Type(), "Width") {
				continue
			}
			if ok, why := termEq(x.Args[i], y.Args[i], sub); !ok {
				return false, shortFn(x) + " argument " + fmt.Sprint(i) + ": " + why
			}
		}
		return true, ""
	case absint.IntV:
		y, ok := b.(absint.IntV)
		if !ok || !sameInt(x, y) {
			return false, fmt.Sprintf("constant %s vs %s", absint.Render(a), absint.Render(b))
		}
		return true, ""
	case absint.StrV:
		y, ok := b.(absint.StrV)
		return ok && x == y, "different key"
	case absint.OpaqueV:
		y, ok := b.(absint.OpaqueV)
		return ok && x.Dep == y.Dep, fmt.Sprintf("a key/value depending on bits %s vs %s", absint.Ranges(x.Dep), absint.Ranges(absint.DepsOf(b)))
	}
	return absint.Render(a) == absint.Render(b), "different leaves"
}

// canonLow renders the term computing the low k bytes of v in a canonical
// form that is invariant under truncation-transparent rewrites: operations
// whose low bytes depend only on the low bytes of their operands (Add, Mul,
// Nand and the bitwise / subtraction / negation gadgets, Lsh in its first
// operand) may be evaluated at any width >= k with operands of any width >=
// k, and a sign or zero extension above byte k is invisible. Operations that
// are not low-closed (comparisons, right shifts, division, ...) keep their
// own width, at which their operands are normalised.
func canonLow(in *absint.Interp, ops opConsts, v absint.Value, k int) string {
	v = absint.UnwrapV(v)
	t, ok := v.(term)
	if !ok {
		switch x := v.(type) {
		case absint.IntV:
			m := uint64(1)<<uint(8*k) - 1
			if k >= 8 {
				m = ^uint64(0)
			}
			y := x
			y.V &= m
			y.Unk &= m
			s := fmt.Sprintf("int{%x/%x", y.V, y.Unk)
			for p := 0; p < 8*k && p < 64; p++ {
				if y.Unk>>uint(p)&1 == 1 {
					s += fmt.Sprintf(",%d:%x", p, y.Dep[p])
				}
			}
			return s + "}"
		case absint.OpaqueV:
			return "key‹" + absint.Ranges(x.Dep) + "›"
		}
		return absint.Render(v)
	}
	w, hasW := widthOf(in, t)
	arg := func(i, kk int) string { return canonLow(in, ops, t.Args[i], kk) }
	min := func(a, b int) int {
		if a < b {
			return a
		}
		return b
	}
	switch t.Fn {
	case "global expr.Zero", "global expr.One":
		return shortFn(t)
	case "expr.ConstFromInt", "expr.ConstFromUint", "expr.NewConstInt", "expr.NewConstUint":
		kk := k
		if hasW {
			kk = min(k, w)
		}
		return "const(" + arg(0, kk) + ")"
	case "expr.NewRegLoad":
		return fmt.Sprintf("reg(%s,%d)", arg(0, 8), min(k, w))
	case "expr.NewMemLoad":
		return fmt.Sprintf("load(%s,%s,%d)", arg(0, 8), canonAddr(in, ops, t.Args[1]), w)
	case "expr.NewBinary":
		op, _ := t.Args[0].(absint.IntV)
		switch op.V {
		case ops.add, ops.mul, ops.nand:
			kk := min(k, w)
			return fmt.Sprintf("bin%d(%s,%s,%d)", op.V, arg(1, kk), arg(2, kk), kk)
		case ops.lsh:
			kk := min(k, w)
			return fmt.Sprintf("lsh(%s,%s,%d)", arg(1, kk), arg(2, w), kk)
		default:
			return fmt.Sprintf("bin%d(%s,%s,%d)", op.V, arg(1, w), arg(2, w), w)
		}
	case "expr.NewLess":
		kk := min(k, w)
		return fmt.Sprintf("less@%d(%s,%s,%s,%s)", w, arg(0, w), arg(1, w), arg(2, kk), arg(3, kk))
	case "exprtools.SignExtend":
		// sign extension from bit b: the low (b+1) bits are the operand's
		if bt, ok := asTerm(t.Args[1]); ok && len(bt.Args) >= 1 {
			if iv, ok := bt.Args[0].(absint.IntV); ok && iv.Known() && int(iv.V)+1 >= 8*k {
				return canonLow(in, ops, t.Args[0], k)
			}
		}
	case "exprtools.NewWidthGadget":
		if w >= k {
			return canonLow(in, ops, t.Args[0], k)
		}
	case "exprtools.BitAnd", "exprtools.BitOr", "exprtools.BitXor", "exprtools.Sub":
		kk := min(k, w)
		return fmt.Sprintf("%s(%s,%s,%d)", shortFn(t), arg(0, kk), arg(1, kk), kk)
	case "exprtools.BitNot", "exprtools.Negate":
		kk := min(k, w)
		return fmt.Sprintf("%s(%s,%d)", shortFn(t), arg(0, kk), kk)
	case "exprtools.Lts", "exprtools.Les", "exprtools.Leu", "exprtools.Eq":
		kk := min(k, w)
		return fmt.Sprintf("%s@%d(%s,%s,%s,%s)", shortFn(t), w, arg(0, w), arg(1, w), arg(2, kk), arg(3, kk))
	}
	// anything else: exact structure at its own width
	var parts []string
	for i := range t.Args {
		kk := 8
		if hasW {
			kk = w
		}
		parts = append(parts, canonLow(in, ops, t.Args[i], kk))
	}
	return shortFn(t) + "(" + strings.Join(parts, ",") + ")"
}

// canonAddr renders an address term: register loads are compared without
// their width (address registers have the width of the variant).
func canonAddr(in *absint.Interp, ops opConsts, v absint.Value) string {
	t, ok := asTerm(v)
	if !ok {
		return absint.Render(v)
	}
	if t.Fn == "expr.NewRegLoad" {
		return "areg(" + canonLow(in, ops, t.Args[0], 8) + ")"
	}
	var parts []string
	for i, a := range t.Args {
		if t.Sig != nil && i < t.Sig.Params().Len() && isExprPkgType(t.Sig.Params().At(i).Type(), "Width") {
			continue
		}
		parts = append(parts, canonAddr(in, ops, a))
	}
	return shortFn(t) + "(" + strings.Join(parts, ",") + ")"
}

type opConsts struct{ add, lsh, rsh, mul, div, nand uint64 }

func checkWTwins(c *Ctx, ri *rvInfo) {
	in := ri.T.In
	var ops opConsts
	if ep := c.Prog.SSAPkg[ExprPkg]; ep != nil {
		get := func(n string) uint64 {
			v, ok := absint.ConstByName(ep, n)
			if !ok {
				c.Undecide("constant expr.%s does not resolve", n)
			}
			return uint64(v)
		}
		ops = opConsts{get("Add"), get("Lsh"), get("Rsh"), get("Mul"), get("Div"), get("Nand")}
	}
	byName := map[string]*absint.Entry{}
	for _, e := range ri.T.Entries {
		if e.Variant == ri.V32 {
			byName[ri.extLetter(e.Ext)+"/"+e.Name] = e
		}
	}
	n := 0
	for _, e := range ri.T.Entries {
		if e.Variant != ri.V64 {
			continue
		}
		var twin *absint.Entry
		ext := ri.extLetter(e.Ext)
		switch {
		case strings.HasSuffix(e.Name, ".w"):
			twin = byName[ext+"/"+e.Name]
		case strings.HasSuffix(e.Name, "w") && len(e.Name) > 2:
			twin = byName[ext+"/"+strings.TrimSuffix(e.Name, "w")]
		}
		if twin == nil {
			continue
		}
		n++
		key := entryKey(ri, e)
		pos := c.Prog.Pos(e.Pos)
		f64, f32 := templateFacts(ri, e), templateFacts(ri, twin)
		if f64.Err != nil || f32.Err != nil {
			c.Undecide("C01.F11 %s: templates not available", key)
			continue
		}
		p64, p32 := nonZeroPath(f64.Paths), nonZeroPath(f32.Paths)
		if p64 == nil || p32 == nil {
			c.Fail("C01.F11", key, pos, "no path without x0 operands found")
			continue
		}
		e64, e32 := effectsOfPath(p64), effectsOfPath(p32)
		bad := ""
		if len(e64) != len(e32) {
			bad = fmt.Sprintf("%d effects, the RV32 twin %s has %d", len(e64), twin.Name, len(e32))
		}
		for i := 0; i < len(e64) && bad == ""; i++ {
			a, b := e64[i], e32[i]
			if a.Fn != b.Fn {
				bad = fmt.Sprintf("effect %d is %s, the RV32 twin has %s", i, shortFn(a), shortFn(b))
				break
			}
			switch a.Fn {
			case "expr.NewRegStore":
				if ok, why := termEq(a.Args[1], b.Args[1], false); !ok {
					bad = "register written: " + why
					break
				}
				v64 := a.Args[0]
				if t, ok := asTerm(v64); ok && t.Fn == "exprtools.SignExtend" && len(t.Args) == 3 {
					bit, isC := asTerm(t.Args[1])
					okBit := false
					if isC && len(bit.Args) >= 1 {
						if iv, ok := bit.Args[0].(absint.IntV); ok && iv.Known() && iv.V == 31 {
							okBit = true
						}
					}
					if w, ok := widthOf(in, t); !ok || w != 8 || !okBit {
						bad = "the result is not sign-extended from bit 31 to 64 bits"
						break
					}
					v64 = t.Args[0]
				} else if vt, isT := asTerm(v64); isT && vt.Fn != "global expr.Zero" && vt.Fn != "global expr.One" {
					bad = "the 32-bit result is written to the 64-bit register without sign extension"
					break
				}
				if x, y := canonLow(in, ops, v64, 4), canonLow(in, ops, b.Args[0], 4); x != y {
					bad = "the low 32 bits of the value written to rd differ from " + twin.Name + ": " + truncate(x, 160) + "  vs  " + truncate(y, 160)
				}
			case "expr.NewMemStore":
				for k, name := range []string{"value", "key", "address", "width"} {
					if k == 0 {
						if x, y := canonLow(in, ops, a.Args[0], 4), canonLow(in, ops, b.Args[0], 4); x != y {
							bad = "the low 32 bits of the stored value differ from " + twin.Name + ": " + truncate(x, 160) + "  vs  " + truncate(y, 160)
							break
						}
						continue
					}
					if ok, why := termEq(a.Args[k], b.Args[k], k == 2); !ok {
						bad = "stored " + name + " differs from " + twin.Name + ": " + why
						break
					}
				}
			}
		}
		c.Oblige("C01.F11", key, pos, bad == "", bad+" (the ISA defines "+e.Name+" as the 32-bit operation "+twin.Name+" with a sign-extended result)")
	}
	c.RequireCount("C01.F11 W twins", n, 25)
}

// checkPCRelative decides C01.pcrel. The helper is found by role: a function
// of package riscv with an address parameter and a signed 32-bit parameter
// that returns an address.
func checkPCRelative(c *Ctx) {
	addrT := c.Prog.LookupType(ModulePath+"/pkg/model", "Addr")
	if addrT == nil {
		c.Undecide("C01.pcrel: type model.Addr not found")
		return
	}
	n := 0
	for _, fn := range c.Prog.Funcs() {
		if fn.Blocks == nil || PkgPathOf(fn) != ModulePath+"/internal/riscv" || len(fn.Params) != 2 || fn.Signature.Results().Len() != 1 || fn.Parent() != nil {
			continue
		}
		ai, ii := -1, -1
		for i, p := range fn.Params {
			if types.Identical(p.Type(), addrT) {
				ai = i
			} else if b, ok := p.Type().Underlying().(*types.Basic); ok && b.Kind() == types.Int32 {
				ii = i
			}
		}
		if ai < 0 || ii < 0 || !types.Identical(fn.Signature.Results().At(0).Type(), addrT) {
			continue
		}
		n++
		for _, a := range []int64{0x10000, 0x7fffffff_fffff000} {
			for _, imm := range []int64{0, 1, -1, 2047, -2048, math.MaxInt32, math.MinInt32} {
				a, imm := a, imm
				vl := &Valuation{Typed: true, Enter: SamePackage(fn), Int: func(v ssa.Value) (int64, bool) {
					switch v {
					case ssa.Value(fn.Params[ai]):
						return a, true
					case ssa.Value(fn.Params[ii]):
						return imm, true
					}
					return 0, false
				}}
				res := vl.Walk(fn.Blocks[0], nil)
				key := fmt.Sprintf("%s/addr=%#x,imm=%d", ShortName(fn), a, imm)
				got, known := res.RetInt[0]
				_, isRet := res.End.(*ssa.Return)
				switch {
				case !res.OK || !isRet || !known:
					c.Fail("C01.pcrel", key, c.Prog.FuncPos(fn), "the result cannot be evaluated: "+res.Why)
				default:
					want := a + imm // two's complement: the same bits as the unsigned sum modulo 2^64
					c.Oblige("C01.pcrel", key, c.Prog.FuncPos(fn), got == want, fmt.Sprintf("returns %#x, expected address + sign-extended immediate = %#x", uint64(got), uint64(want)))
				}
			}
		}
	}
	c.RequireCount("C01.pcrel address+immediate helpers in package riscv", n, 1)
}

// checkAddressWrap decides C01.wrap.
func checkAddressWrap(c *Ctx) {
	addrT := c.Prog.LookupType(ModulePath+"/pkg/model", "Addr")
	if addrT == nil {
		c.Undecide("C01.wrap: type model.Addr not found")
		return
	}
	isAddrConst := func(call *ssa.Call) bool {
		f := call.Call.StaticCallee()
		return f != nil && NameOf(Origin(f)) == "NewConstUint" && PkgPathOf(f) == ExprPkg && len(call.Call.Args) == 2 && types.Identical(call.Call.Args[0].Type(), addrT)
	}
	n := 0
	for _, fn := range c.Prog.Funcs() {
		if fn.Blocks == nil || fn.Origin() != nil || PkgPathOf(fn) != ModulePath+"/internal/riscv" {
			continue
		}
		has := false
		for _, cs := range Calls(fn) {
			if call, ok := cs.Instr.(*ssa.Call); ok && isAddrConst(call) {
				has = true
			}
		}
		if !has {
			continue
		}
		n++
		type scen struct {
			addr, imm, w int64
		}
		for _, sc := range []scen{{0x1000, 8, 4}, {0x1000, -4, 4}, {0xfffffffc, 8, 4}, {0, -4, 4}, {0x1000, 8, 8}, {0, -4, 8}, {-4, 8, 8}} {
			for _, flag := range []bool{true, false} {
				sc, flag := sc, flag
				bad := ""
				var vl *Valuation
				vl = &Valuation{
					Typed: true,
					Enter: func(g *ssa.Function) bool {
						if g != nil && g.Blocks != nil && PkgPathOf(g) == ExprPkg && g.Signature.Recv() != nil && len(g.Blocks) == 1 {
							if n, ok := g.Signature.Recv().Type().(*types.Named); ok && n.Obj().Name() == "Width" {
								return true // arithmetic on the width (Bits)
							}
						}
						return SamePackage(fn)(g) && NameOf(g) != "parseValue"
					},
					Int: func(v ssa.Value) (int64, bool) {
						if nm, _, ok := FieldNameOfRead(v); ok && nm == "addr" {
							return sc.addr, true
						}
						if p, ok := v.(*ssa.Parameter); ok && p.Parent() == fn {
							if n, isN := p.Type().(*types.Named); isN && n.Obj().Name() == "Width" {
								return sc.w, true
							}
							if types.Identical(p.Type(), addrT) {
								return sc.addr + sc.imm, true // a helper that is handed the computed address
							}
						}
						if ex, ok := v.(*ssa.Extract); ok && ex.Index == 0 {
							if call, ok := ex.Tuple.(*ssa.Call); ok && call.Call.StaticCallee() != nil && NameOf(call.Call.StaticCallee()) == "parseValue" {
								return sc.imm, true
							}
						}
						return 0, false
					},
					Bool: func(v ssa.Value) (bool, bool) {
						if ex, ok := v.(*ssa.Extract); ok && ex.Index == 1 {
							if call, ok := ex.Tuple.(*ssa.Call); ok && call.Call.StaticCallee() != nil && NameOf(call.Call.StaticCallee()) == "parseValue" {
								return true, true
							}
						}
						if p, ok := v.(*ssa.Parameter); ok {
							if b, isB := p.Type().Underlying().(*types.Basic); isB && b.Kind() == types.Bool {
								return flag, true
							}
						}
						// which register fields coincide is of no concern here
						if bo, ok := v.(*ssa.BinOp); ok && (bo.Op == token.EQL || bo.Op == token.NEQ) {
							if _, isCall := bo.X.(*ssa.Call); isCall {
								return bo.Op == token.NEQ, true
							}
						}
						return false, false
					},
				}
				seen := 0
				vl.Visit = func(in ssa.Instruction) {
					call, ok := in.(*ssa.Call)
					if !ok || !isAddrConst(call) || bad != "" {
						return
					}
					seen++
					v, ok1 := vl.EvalInt(call.Call.Args[0], nil)
					w, ok2 := vl.EvalInt(call.Call.Args[1], nil)
					switch {
					case !ok1 || !ok2:
						bad = "the value or width of the constant cannot be evaluated at " + c.Prog.Pos(call.Pos())
					case w < 8 && uint64(v)>>(8*uint(w)) != 0:
						bad = fmt.Sprintf("the %d-byte constant built at %s is given %#x, which does not fit: the constructor panics", w, c.Prog.Pos(call.Pos()), uint64(v))
					}
				}
				res := vl.Walk(fn.Blocks[0], nil)
				key := fmt.Sprintf("%s/addr=%#x,imm=%d,width=%d,flag=%v", ShortName(fn), uint64(sc.addr), sc.imm, sc.w, flag)
				switch {
				case bad != "":
					c.Fail("C01.wrap", key, c.Prog.FuncPos(fn), bad)
				case seen == 0:
					c.Fail("C01.wrap", key, c.Prog.FuncPos(fn), "the walk does not reach the constant: "+res.Why)
				default:
					c.Pass("C01.wrap", key, c.Prog.FuncPos(fn), "")
				}
			}
		}
	}
	c.RequireCount("C01.wrap functions building a constant from an address", n, 1)
}

// checkRemainderSign decides C01.remsign.
func checkRemainderSign(c *Ctx) {
	sm := c.Prog.Func(ModulePath + "/pkg/expr/exprtools.SignedMod")
	if sm == nil || sm.Blocks == nil || len(sm.Params) < 2 {
		c.Undecide("C01.remsign: exprtools.SignedMod not found")
		return
	}
	enter := func(g *ssa.Function) bool {
		return g != nil && g.Blocks != nil && PkgPathOf(g) == PkgPathOf(sm)
	}
	n := 0
	for _, s := range DeepCalls(sm, enter) {
		call, ok := s.Instr.(*ssa.Call)
		if !ok || call.Call.StaticCallee() == nil || NameOf(call.Call.StaticCallee()) != "BoolCond" || len(call.Call.Args) < 3 {
			continue
		}
		// the selection between the negated and the plain result
		negated := func(v ssa.Value) bool {
			return DependsOnVia(s.Chain, v, nil, func(x ssa.Value) bool {
				cc, ok := x.(*ssa.Call)
				return ok && cc.Call.StaticCallee() != nil && NameOf(cc.Call.StaticCallee()) == "Negate"
			}, nil)
		}
		if negated(call.Call.Args[1]) == negated(call.Call.Args[2]) {
			continue
		}
		n++
		onDivisor := DependsOnVia(s.Chain, call.Call.Args[0], enter, func(x ssa.Value) bool { return x == ssa.Value(sm.Params[1]) }, nil)
		if os.Getenv("MLTLINT_DEBUG") == "rem" {
			fmt.Fprintf(os.Stderr, "rem: site %s in %s chain=%d cond=%v onDivisor=%v onDividend=%v\n", call, s.Fn, len(s.Chain), call.Call.Args[0], onDivisor,
				DependsOnVia(s.Chain, call.Call.Args[0], enter, func(x ssa.Value) bool { return x == ssa.Value(sm.Params[0]) }, nil))
		}
		c.Oblige("C01.remsign", ShortName(sm)+"/sign-of-result", c.Prog.Pos(call.Pos()), !onDivisor,
			"the sign of the remainder also depends on the sign of the divisor: rem x3,x1,x2 with x1=7, x2=-2 gives -1 where RISC-V prescribes 1 (rv32/rv64 rem, rv64 remw)")
	}
	c.RequireCount("C01.remsign sign selections in SignedMod", n, 1)
}
