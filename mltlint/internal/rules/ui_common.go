package rules

import (
	"fmt"
	"go/token"
	"go/types"
	"sort"
	"strings"

	"golang.org/x/tools/go/ssa"

	. "mltlint/internal/core"
)

const pkgUI = "internal/consoleui"

// cmdLit is one consoleui.Command composite literal.
type cmdLit struct {
	Fn       *ssa.Function // function containing the literal
	Alloc    *ssa.Alloc
	Key      string // first key
	Args     []ssa.Value
	ArgsSet  bool
	OptArgs  ssa.Value
	Action   *ssa.Function
	Pos      token.Pos
	FieldSet map[string]bool
}

func isCommandType(t types.Type) bool { return TypeNameIs(t, pkgUI+".Command") }

// sliceLitElems returns the values stored into a slice literal value
// (slice of a fresh array).
func sliceLitElems(v ssa.Value) ([]ssa.Value, bool) {
	sl, ok := Unwrap(v).(*ssa.Slice)
	if !ok {
		return nil, false
	}
	al, ok := sl.X.(*ssa.Alloc)
	if !ok {
		return nil, false
	}
	type el struct {
		idx int64
		v   ssa.Value
	}
	var els []el
	if refs := al.Referrers(); refs != nil {
		for _, r := range *refs {
			ia, ok := r.(*ssa.IndexAddr)
			if !ok {
				continue
			}
			k, ok := ConstInt(ia.Index)
			if !ok {
				return nil, false
			}
			if rr := ia.Referrers(); rr != nil {
				for _, r2 := range *rr {
					if st, ok := r2.(*ssa.Store); ok && st.Addr == ssa.Value(ia) {
						els = append(els, el{k, st.Val})
					}
				}
			}
		}
	}
	sort.Slice(els, func(i, j int) bool { return els[i].idx < els[j].idx })
	var out []ssa.Value
	for _, e := range els {
		out = append(out, e.v)
	}
	return out, true
}

func findCommands(c *Ctx) []*cmdLit {
	var out []*cmdLit
	for _, fn := range c.Prog.Funcs() {
		if fn.Origin() != nil || fn.Blocks == nil || !strings.HasPrefix(PkgPathOf(fn), ModulePath+"/"+pkgUI) {
			continue
		}
		// a literal is a group of field stores on one base address of type
		// *Command: a local (complit) or an element of an array literal
		groups := map[ssa.Value]*cmdLit{}
		var order []ssa.Value
		for _, b := range fn.Blocks {
			for _, in := range b.Instrs {
				fa, ok := in.(*ssa.FieldAddr)
				if !ok {
					continue
				}
				pt, ok := fa.X.Type().(*types.Pointer)
				if !ok || !isCommandType(pt.Elem()) {
					continue
				}
				switch base := fa.X.(type) {
				case *ssa.Alloc:
				case *ssa.IndexAddr:
					if _, isAlloc := base.X.(*ssa.Alloc); !isAlloc {
						continue
					}
				default:
					continue
				}
				f := FieldOf(fa)
				if f == nil || fa.Referrers() == nil {
					continue
				}
				for _, r2 := range *fa.Referrers() {
					st, ok := r2.(*ssa.Store)
					if !ok || st.Addr != ssa.Value(fa) {
						continue
					}
					cl := groups[fa.X]
					if cl == nil {
						cl = &cmdLit{Fn: fn, Pos: fa.X.Pos(), FieldSet: map[string]bool{}}
						if al, isAl := fa.X.(*ssa.Alloc); isAl {
							cl.Alloc = al
						}
						if !cl.Pos.IsValid() {
							cl.Pos = st.Pos()
						}
						groups[fa.X] = cl
						order = append(order, fa.X)
					}
					cl.FieldSet[NameOf(f)] = true
					switch NameOf(f) {
					case "Keys":
						if els, ok := sliceLitElems(st.Val); ok && len(els) > 0 {
							if k, ok := els[0].(*ssa.Const); ok && k.Value != nil {
								cl.Key = strings.Trim(k.Value.ExactString(), "\"")
								cl.Pos = st.Pos()
							}
						}
					case "Args":
						if els, ok := sliceLitElems(st.Val); ok {
							cl.Args, cl.ArgsSet = els, true
						}
					case "OptionalArgs":
						cl.OptArgs = st.Val
					case "Action":
						// a function literal, a named function or a method value
						cl.Action, _ = ResolveFunc(st.Val)
					}
				}
			}
		}
		for _, k := range order {
			if cl := groups[k]; cl.FieldSet["Keys"] {
				out = append(out, cl)
			}
		}
		// Action assigned after the literal: cmds[i].Action = func...
		for _, b := range fn.Blocks {
			for _, in := range b.Instrs {
				st, ok := in.(*ssa.Store)
				if !ok {
					continue
				}
				fa, ok := st.Addr.(*ssa.FieldAddr)
				if !ok {
					continue
				}
				f := FieldOf(fa)
				if f == nil || NameOf(f) != "Action" {
					continue
				}
				if _, isAlloc := fa.X.(*ssa.Alloc); isAlloc {
					continue
				}
				if pt, ok := fa.X.Type().(*types.Pointer); !ok || !isCommandType(pt.Elem()) {
					continue
				}
				// attach to the literal of this function that lacks an Action
				for _, cl := range out {
					if cl.Fn == fn && cl.Action == nil {
						if f, _ := ResolveFunc(st.Val); f != nil {
							cl.Action = f
							cl.FieldSet["Action"] = true
						}
					}
				}
			}
		}
	}
	sort.Slice(out, func(i, j int) bool { return out[i].Pos < out[j].Pos })
	return out
}

// parseResultType determines the dynamic type an ArgParseFunc value yields
// on success (the type boxed into its interface{} result).
func parseResultType(v ssa.Value, depth int) types.Type {
	if depth > 4 {
		return nil
	}
	v = Unwrap(v)
	switch x := v.(type) {
	case *ssa.Function:
		return successBoxedType(x)
	case *ssa.MakeClosure:
		if f, ok := x.Fn.(*ssa.Function); ok {
			return successBoxedType(f)
		}
	case *ssa.Call:
		// a function returning the parse function (cmdtools.ParseNum)
		if f := x.Call.StaticCallee(); f != nil && f.Blocks != nil {
			for _, b := range f.Blocks {
				if ret, ok := b.Instrs[len(b.Instrs)-1].(*ssa.Return); ok && len(ret.Results) == 1 {
					return parseResultType(ret.Results[0], depth+1)
				}
			}
		}
	}
	return nil
}

func successBoxedType(f *ssa.Function) types.Type {
	return successBoxedTypeN(f, 0)
}

func successBoxedTypeN(f *ssa.Function, depth int) types.Type {
	// a function that hands back what one static callee returns (a bound method
	// value's wrapper, a delegating helper): the callee decides
	if len(f.Blocks) == 1 && depth < 4 {
		if ret, ok := f.Blocks[0].Instrs[len(f.Blocks[0].Instrs)-1].(*ssa.Return); ok && len(ret.Results) == 2 {
			e0, ok0 := ret.Results[0].(*ssa.Extract)
			e1, ok1 := ret.Results[1].(*ssa.Extract)
			if ok0 && ok1 && e0.Tuple == e1.Tuple && e0.Index == 0 && e1.Index == 1 {
				if call, ok := e0.Tuple.(*ssa.Call); ok {
					if g := call.Call.StaticCallee(); g != nil && g.Blocks != nil {
						return successBoxedTypeN(g, depth+1)
					}
				}
			}
		}
	}
	var t types.Type
	for _, b := range f.Blocks {
		ret, ok := b.Instrs[len(b.Instrs)-1].(*ssa.Return)
		if !ok || len(ret.Results) != 2 || !IsNilConst(ret.Results[1]) {
			continue
		}
		mi, ok := ret.Results[0].(*ssa.MakeInterface)
		if !ok {
			return nil
		}
		if t != nil && !types.Identical(t, mi.X.Type()) {
			return nil
		}
		t = mi.X.Type()
	}
	return t
}

// optResultTypes: the dynamic element types of the []interface{} an
// OptArgParseFunc returns on success.
func optResultTypes(v ssa.Value) []types.Type {
	f, ok := Unwrap(v).(*ssa.Function)
	if !ok {
		return nil
	}
	for _, b := range f.Blocks {
		ret, ok := b.Instrs[len(b.Instrs)-1].(*ssa.Return)
		if !ok || len(ret.Results) != 2 || !IsNilConst(ret.Results[1]) {
			continue
		}
		els, ok := sliceLitElems(ret.Results[0])
		if !ok {
			return nil
		}
		var out []types.Type
		for _, e := range els {
			mi, ok := e.(*ssa.MakeInterface)
			if !ok {
				return nil
			}
			out = append(out, mi.X.Type())
		}
		return out
	}
	return nil
}

// argUse is one args[k] access in an Action.
type argUse struct {
	K        int64
	Instr    ssa.Instruction
	Asserted types.Type // non-comma-ok assertion type (nil if none)
	MinLen   int64      // len(args) > MinLen-1 established by guards
}

func argUses(action *ssa.Function) []argUse {
	var out []argUse
	if len(action.Params) < 2 {
		return nil
	}
	args := ssa.Value(action.Params[len(action.Params)-1])
	for _, b := range action.Blocks {
		for _, in := range b.Instrs {
			ia, ok := in.(*ssa.IndexAddr)
			if !ok || ia.X != args {
				continue
			}
			k, ok := ConstInt(ia.Index)
			if !ok {
				out = append(out, argUse{K: -1, Instr: in})
				continue
			}
			u := argUse{K: k, Instr: in, MinLen: minLenAt(b, args)}
			if refs := ia.Referrers(); refs != nil {
				for _, r := range *refs {
					ld, ok := r.(*ssa.UnOp)
					if !ok || ld.Referrers() == nil {
						continue
					}
					for _, r2 := range *ld.Referrers() {
						if ta, ok := r2.(*ssa.TypeAssert); ok && !ta.CommaOk {
							u.Asserted = ta.AssertedType
						}
					}
				}
			}
			out = append(out, u)
		}
	}
	return out
}

func cmdKey(cl *cmdLit) string {
	k := cl.Key
	if k == "" {
		k = "?"
	}
	return fmt.Sprintf("%s/command %q", ShortName(cl.Fn), k)
}

// checkCommandArgs: E10(a).
func checkCommandArgs(c *Ctx, rule string) int {
	cmds := findCommands(c)
	for _, cl := range cmds {
		key := cmdKey(cl)
		pos := c.Prog.Pos(cl.Pos)
		c.Saw("commands", key)
		if cl.Action == nil {
			c.Fail(rule, key+"/action", pos, "command has no Action: executing it calls a nil function")
			continue
		}
		var argT []types.Type
		bad := ""
		for i, a := range cl.Args {
			t := parseResultType(a, 0)
			if t == nil {
				bad = fmt.Sprintf("cannot determine what argument parser %d yields", i)
			}
			argT = append(argT, t)
		}
		var optT []types.Type
		if cl.OptArgs != nil {
			optT = optResultTypes(cl.OptArgs)
			if optT == nil {
				bad = "cannot determine what the optional-argument parser yields"
			}
		}
		if bad != "" {
			c.Fail(rule, key, pos, bad)
			continue
		}
		for _, u := range argUses(cl.Action) {
			ipos := c.Prog.Pos(u.Instr.Pos())
			switch {
			case u.K < 0:
				bad = "args indexed with a non-constant"
			case int(u.K) < len(argT):
				if u.Asserted != nil && !types.Identical(u.Asserted, argT[u.K]) {
					bad = fmt.Sprintf("args[%d] is asserted to %s at %s but its parser yields %s: the assertion panics", u.K, types.TypeString(u.Asserted, nil), ipos, types.TypeString(argT[u.K], nil))
				}
			default:
				// beyond the mandatory arguments: needs a length guard and an optional parser
				oi := int(u.K) - len(argT)
				switch {
				case u.MinLen <= u.K:
					bad = fmt.Sprintf("args[%d] is read at %s although the command declares %d mandatory arguments and no len(args) > %d check dominates the read", u.K, ipos, len(argT), u.K)
				case oi >= len(optT):
					bad = fmt.Sprintf("args[%d] is read at %s but no parser produces it", u.K, ipos)
				case u.Asserted != nil && !types.Identical(u.Asserted, optT[oi]):
					bad = fmt.Sprintf("args[%d] is asserted to %s at %s but the optional parser yields %s", u.K, types.TypeString(u.Asserted, nil), ipos, types.TypeString(optT[oi], nil))
				}
			}
		}
		c.Oblige(rule, key, pos, bad == "", bad)
	}
	return len(cmds)
}
