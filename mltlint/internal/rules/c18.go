package rules

import (
	"fmt"
	"go/types"
	"sort"

	"golang.org/x/tools/go/ssa"

	. "mltlint/internal/core"
)

func init() { register("C18", "other", checkC18) }

const (
	pkgState   = "internal/state"
	pkgXform   = "internal/exprtransform"
	pkgEval    = "internal/exprtransform/internal/expreval"
	pkgMemory  = "internal/state/memory"
	fnSetWidth = pkgXform + ".SetWidth"
)

// anchor resolves a function or records the run as undecided.
func anchor(c *Ctx, name string) *ssa.Function {
	f := c.Prog.Func(ModulePath + "/" + name)
	if f == nil {
		f = c.Prog.Func(name)
	}
	if f == nil {
		// method spelling "(*pkg.T).M"
		for _, g := range c.Prog.Funcs() {
			if FuncNameIs(g, name) && g.Origin() == nil {
				f = g
				break
			}
		}
	}
	if f == nil {
		c.Undecide("anchor %s does not resolve in the current tree", name)
		return nil
	}
	c.Saw("functions", ShortName(f))
	return f
}

func checkC18(c *Ctx) {
	c.Rule("C18.store", "(*RegMap).Store writes, under its own key k, exprtransform.SetWidth(e, w) of its own e and w, and every write to RegMap.m in the module has that form")
	c.Rule("C18.load", "(*RegMap).Load returns (SetWidth(m.m[k], w), true) only on the hit edge of the lookup with its own k and w, and (nil,false) otherwise")
	c.Rule("C18.refuse", "in (*State).Apply a `return false` is not reachable after any RegMap.Store/MemMap.Store call (a refused effect changes nothing)")
	c.Rule("C18.args", "Apply forwards key, value and width of the same effect node; the memory address is ConstUint of the Const obtained by ConstFold(e.Addr())")
	c.Rule("C18.exh", "the type switch over expr.Effect in Apply has a case for every implementer")

	store := anchor(c, "(*"+pkgState+".RegMap).Store")
	load := anchor(c, "(*"+pkgState+".RegMap).Load")
	apply := anchor(c, "(*"+pkgState+".State).Apply")
	if store == nil || load == nil || apply == nil {
		return
	}
	regMap := c.Prog.LookupType(ModulePath+"/"+pkgState, "RegMap")
	// the register table: the (one) map-typed field of RegMap, whatever its name
	var mField *types.Var
	if regMap != nil {
		if st, ok := regMap.Underlying().(*types.Struct); ok {
			for i := 0; i < st.NumFields(); i++ {
				if _, isMap := st.Field(i).Type().Underlying().(*types.Map); isMap {
					if mField != nil {
						mField = nil
						break
					}
					mField = st.Field(i)
				}
			}
		}
	}
	if mField == nil {
		c.Undecide("RegMap has no (single) map field holding the registers")
		return
	}

	// --- C18.store: every MapUpdate on a RegMap.m value in the module
	isRegMapM := func(v ssa.Value) bool {
		_, ok := Match(v, func(v ssa.Value, b *Bind) bool {
			u, ok := v.(*ssa.UnOp)
			if !ok {
				return false
			}
			fa, ok := u.X.(*ssa.FieldAddr)
			return ok && SameField(FieldOf(fa), mField)
		})
		return ok
	}
	nUpd := 0
	for _, fn := range c.Prog.Funcs() {
		for _, b := range fn.Blocks {
			for _, in := range b.Instrs {
				mu, ok := in.(*ssa.MapUpdate)
				if !ok || !isRegMapM(mu.Map) {
					continue
				}
				nUpd++
				key := ShortName(fn) + "/m[k]="
				if fn != store {
					c.Fail("C18.store", key, c.Prog.Pos(mu.Pos()), "RegMap.m is written outside (*RegMap).Store")
					continue
				}
				// the value adjusted to the write width: SetWidth(e, w), or - for a
				// value known to be a constant - the constant's own WithWidth(w),
				// which is what SetWidth does to a constant; or a choice of those
				var adjusted func(v ssa.Value, depth int) bool
				adjusted = func(v ssa.Value, depth int) bool {
					if depth > 4 {
						return false
					}
					if _, ok := Match(v, CallTo(fnSetWidth, ParamNamed(store.Params[2].Name()), ParamNamed(store.Params[3].Name()))); ok {
						return true
					}
					if _, ok := Match(v, Method("WithWidth", ExtractN(0, TypeAssertOf("pkg/expr.Const", ParamNamed(store.Params[2].Name()))), ParamNamed(store.Params[3].Name()))); ok {
						return true
					}
					if _, ok := Match(v, Method("WithWidth", TypeAssertOf("pkg/expr.Const", ParamNamed(store.Params[2].Name())), ParamNamed(store.Params[3].Name()))); ok {
						return true
					}
					if ph, ok := Unwrap(v).(*ssa.Phi); ok {
						for _, e := range ph.Edges {
							if !adjusted(e, depth+1) {
								return false
							}
						}
						return len(ph.Edges) > 0
					}
					return false
				}
				okv := adjusted(mu.Value, 0)
				_, okk := Match(mu.Key, ParamN(1))
				switch {
				case !okk:
					c.Fail("C18.store", key, c.Prog.Pos(mu.Pos()), "stored under a key other than Store's own k")
				case !okv:
					c.Fail("C18.store", key, c.Prog.Pos(mu.Pos()), "stored value is not exprtransform.SetWidth(e, w) of Store's own e and w (the register would not hold the value adjusted to its write width)")
				default:
					c.Pass("C18.store", key, c.Prog.Pos(mu.Pos()), "")
				}
			}
		}
	}
	c.RequireCount("C18.store", nUpd, 1)
	// field stores replacing the map as a whole
	for _, fn := range c.Prog.Funcs() {
		for _, b := range fn.Blocks {
			for _, in := range b.Instrs {
				st, ok := in.(*ssa.Store)
				if !ok {
					continue
				}
				fa, ok := st.Addr.(*ssa.FieldAddr)
				if !ok || !SameField(FieldOf(fa), mField) {
					continue
				}
				if FuncNameIs(fn, pkgState+".NewRegMap") {
					continue
				}
				c.Fail("C18.store", ShortName(fn)+"/m=", c.Prog.Pos(st.Pos()), "RegMap.m replaced outside NewRegMap")
			}
		}
	}

	// --- C18.load
	nRet := 0
	for _, b := range load.Blocks {
		ret, ok := b.Instrs[len(b.Instrs)-1].(*ssa.Return)
		if !ok {
			continue
		}
		nRet++
		key := ShortName(load) + "/return#" + itoa(nRet)
		if _, ok := Match(ret.Results[1], BoolPat(false)); ok {
			if _, nilOK := Match(ret.Results[0], NilPat()); nilOK {
				c.Pass("C18.load", key, c.Prog.Pos(ret.Pos()), "")
			} else {
				c.Fail("C18.load", key, c.Prog.Pos(ret.Pos()), "miss must return (nil,false)")
			}
			continue
		}
		lookupOf := func(v ssa.Value, bd *Bind) bool {
			e, ok := v.(*ssa.Extract)
			if !ok || e.Index != 0 {
				return false
			}
			lk, ok := e.Tuple.(*ssa.Lookup)
			if !ok || !lk.CommaOk || !isRegMapM(lk.X) {
				return false
			}
			if _, ok := Match(lk.Index, ParamN(1)); !ok {
				return false
			}
			bd.M["lookup"] = lk
			return true
		}
		bd, ok := Match(ret.Results[0], CallTo(fnSetWidth, lookupOf, ParamN(2)))
		if _, t := Match(ret.Results[1], BoolPat(true)); !ok || !t {
			c.Fail("C18.load", key, c.Prog.Pos(ret.Pos()), "hit must return (exprtransform.SetWidth(m.m[k], w), true) with Load's own k and w")
			continue
		}
		// guarded by ok of the same lookup
		guarded := false
		for _, g := range GuardsOf(b) {
			if e, ok := g.Cond.(*ssa.Extract); ok && e.Index == 1 && e.Tuple == bd.M["lookup"] && g.Outcome {
				guarded = true
			}
		}
		if !guarded {
			c.Fail("C18.load", key, c.Prog.Pos(ret.Pos()), "value returned without the hit edge of the lookup dominating it (an unwritten register must read as absent)")
		} else {
			c.Pass("C18.load", key, c.Prog.Pos(ret.Pos()), "")
		}
	}
	c.RequireCount("C18.load", nRet, 2)

	// --- Apply
	tss := c.Prog.TypeSwitches(apply, "Effect")
	if len(tss) != 1 {
		c.Undecide("C18.exh: expected one type switch over expr.Effect in Apply, found %d", len(tss))
		return
	}
	ts := tss[0]
	c.Exhaustive("C18.exh", ts, "Effect")

	isStoreFn := func(f *ssa.Function) bool {
		return FuncNameIs(f, "(*"+pkgState+".RegMap).Store") || FuncNameIs(f, "("+pkgMemory+".MemMap).Store")
	}
	// helpers of Apply in its package are followed (the stores themselves are not)
	enter := func(g *ssa.Function) bool { return SamePackage(apply)(g) && !isStoreFn(g) }
	isStateStore := func(in ssa.Instruction) bool {
		ci, ok := in.(ssa.CallInstruction)
		if !ok {
			return false
		}
		f := Callee(ci.Common())
		if _, isCall := in.(*ssa.Call); isCall && enter(f) {
			return false // followed: its own instructions are on the walk
		}
		return isStoreFn(f) || reachesStateStore(c, f, 0)
	}
	// Apply walked concretely (E7) for every kind of effect and both answers of
	// "the folded address is a constant": a walk that returns false must not
	// have passed a store into the state, however the result is produced (a
	// literal, a named result, a flag)
	nFalse := 0
	var kinds []string
	for _, n := range c.Prog.Implementers("Effect") {
		kinds = append(kinds, n.Obj().Name())
	}
	effectT := c.Prog.LookupType(ExprPkg, "Effect")
	sort.Strings(kinds)
	for _, kind := range kinds {
		for _, isConst := range []bool{true, false} {
			kind, isConst := kind, isConst
			vl := &Valuation{
				Enter: enter,
				Bool: func(v ssa.Value) (bool, bool) {
					if ex, ok := v.(*ssa.Extract); ok && ex.Index == 1 {
						if ta, ok := ex.Tuple.(*ssa.TypeAssert); ok {
							// the one effect being applied, wherever its kind is asked
							if ta.X == ts.X || (effectT != nil && NamedOf(ta.X.Type()) == effectT) {
								if an, ok := ta.AssertedType.(*types.Named); ok {
									return an.Obj().Name() == kind, true
								}
							}
							if TypeNameIs(ta.AssertedType, "pkg/expr.Const") {
								return isConst, true
							}
						}
					}
					return false, false
				},
			}
			res := vl.Walk(apply.Blocks[0], nil)
			key := fmt.Sprintf("%s/%s/address-constant=%v", ShortName(apply), kind, isConst)
			if !res.OK {
				c.Undecide("C18.refuse: %s cannot be walked: %s", key, res.Why)
				continue
			}
			if _, isRet := res.End.(*ssa.Return); !isRet {
				continue // a panic: nothing is reported as refused
			}
			applied, known := res.RetBool[0]
			if !known {
				c.Fail("C18.refuse", key, c.Prog.Pos(res.End.Pos()), "Apply's result cannot be evaluated; cannot tell refusal from success")
				continue
			}
			if applied {
				continue
			}
			nFalse++
			bad := ""
			for _, in := range res.Instrs {
				if isStateStore(in) {
					bad = c.Prog.Pos(in.Pos())
				}
			}
			if bad != "" {
				c.Fail("C18.refuse", key, c.Prog.Pos(res.End.Pos()), "state is modified at "+bad+" before the effect is refused")
			} else {
				c.Pass("C18.refuse", key, c.Prog.Pos(res.End.Pos()), "")
			}
		}
	}
	c.RequireCount("C18.refuse", nFalse, 1)

	// --- C18.args
	// the effect being applied, seen from Apply or from a helper it is handed to:
	// the value of the case for its kind, or a parameter that receives that
	// value at every call
	var isApplied func(v ssa.Value, kind string, depth int) bool
	isApplied = func(v ssa.Value, kind string, depth int) bool {
		v = Unwrap(v)
		if v == nil || depth > 3 || !TypeNameIs(v.Type(), "pkg/expr."+kind) {
			return false
		}
		if v == ts.CaseValue(kind) {
			return true
		}
		switch x := v.(type) {
		case *ssa.Extract:
			ta, ok := x.Tuple.(*ssa.TypeAssert)
			return ok && x.Index == 0 && effectT != nil && NamedOf(ta.X.Type()) == effectT
		case *ssa.TypeAssert:
			return effectT != nil && NamedOf(x.X.Type()) == effectT
		case *ssa.Parameter:
			g := x.Parent()
			idx := -1
			for i, p := range g.Params {
				if p == x {
					idx = i
				}
			}
			n := 0
			for _, site := range c.Prog.CallersOf(g) {
				n++
				if idx >= len(site.Common().Args) || !isApplied(site.Common().Args[idx], kind, depth+1) {
					return false
				}
			}
			return n > 0 && g.Pkg == apply.Pkg && g.Object() != nil && !g.Object().Exported()
		}
		return false
	}
	var applyFns []*ssa.Function
	seenFn := map[*ssa.Function]bool{}
	var collectFns func(f *ssa.Function, depth int)
	collectFns = func(f *ssa.Function, depth int) {
		if f == nil || f.Blocks == nil || seenFn[f] || depth > 3 || !(f == apply || enter(f)) {
			return
		}
		seenFn[f] = true
		applyFns = append(applyFns, f)
		for _, cs := range Calls(f) {
			collectFns(Callee(cs.Common()), depth+1)
		}
	}
	collectFns(apply, 0)
	nArgs := 0
	for _, fn := range applyFns {
		for _, cs := range Calls(fn) {
			f := Callee(cs.Common())
			switch {
			case FuncNameIs(f, "("+pkgMemory+".MemMap).Store"):
				nArgs++
				key := ShortName(apply) + "/Mems.Store"
				a := cs.Common().Args // recv, key, addr, value, width
				acc := func(name string) Pat {
					return Method(name, func(v ssa.Value, _ *Bind) bool { return isApplied(v, "MemStore", 0) })
				}
				addrPat := Conv(ExtractN(0, CallTo("pkg/expr.ConstUint",
					TypeAssertOf("pkg/expr.Const", CallTo(pkgXform+".ConstFold", acc("Addr"))))))
				ok1 := matches(a[1], acc("Key"))
				ok2 := matches(a[2], addrPat)
				ok3 := matches(a[3], acc("Value"))
				ok4 := matches(a[4], acc("Width"))
				// the Const assertion must be checked (refusal) before use
				switch {
				case !(ok1 && ok3 && ok4):
					c.Fail("C18.args", key, c.Prog.Pos(cs.Pos()), "MemMap.Store must receive Key(), Value(), Width() of the MemStore being applied")
				case !ok2:
					c.Fail("C18.args", key, c.Prog.Pos(cs.Pos()), "address is not ConstUint(ConstFold(e.Addr()).(Const)) of the MemStore being applied")
				default:
					c.Pass("C18.args", key, c.Prog.Pos(cs.Pos()), "")
				}
			case FuncNameIs(f, "(*"+pkgState+".RegMap).Store"):
				nArgs++
				key := ShortName(apply) + "/Regs.Store"
				a := cs.Common().Args // recv, key, value, width
				acc := func(name string) Pat {
					return Method(name, func(v ssa.Value, _ *Bind) bool { return isApplied(v, "RegStore", 0) })
				}
				if matches(a[1], acc("Key")) && matches(a[2], acc("Value")) && matches(a[3], acc("Width")) {
					c.Pass("C18.args", key, c.Prog.Pos(cs.Pos()), "")
				} else {
					c.Fail("C18.args", key, c.Prog.Pos(cs.Pos()), "RegMap.Store must receive Key(), Value(), Width() of the RegStore being applied")
				}
			}
		}
	}
	c.RequireCount("C18.args", nArgs, 2)
}

func matches(v ssa.Value, p Pat) bool { _, ok := Match(v, p); return ok }

// reachesStateStore: does f (transitively, static calls, depth-bounded)
// call RegMap.Store/MemMap.Store?
func reachesStateStore(c *Ctx, f *ssa.Function, depth int) bool {
	if f == nil || f.Blocks == nil || depth > 3 || PkgPathOf(f) == "" {
		return false
	}
	for _, cs := range Calls(f) {
		g := Callee(cs.Common())
		if FuncNameIs(g, "(*"+pkgState+".RegMap).Store") || FuncNameIs(g, "("+pkgMemory+".MemMap).Store") {
			return true
		}
		if cs.Common().IsInvoke() && cs.Common().Method.Name() == "Store" {
			return true
		}
		if reachesStateStore(c, g, depth+1) {
			return true
		}
	}
	return false
}

func itoa(n int) string {
	if n == 0 {
		return "0"
	}
	s := ""
	neg := n < 0
	if neg {
		n = -n
	}
	for n > 0 {
		s = string(rune('0'+n%10)) + s
		n /= 10
	}
	if neg {
		s = "-" + s
	}
	return s
}

var _ = types.Typ
