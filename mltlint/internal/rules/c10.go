package rules

import (
	"fmt"
	"go/token"
	"go/types"

	"golang.org/x/tools/go/ssa"

	. "mltlint/internal/core"
)

func init() { register("C10", "other", checkC10) }

// C10: constant arithmetic is exact for every width. Decided here (level
// "other") are the clauses of the property for which a finite argument exists;
// the rest (Lsh, Rsh, Mul, Div and the big.Int conversions) is numerical and
// is NOT decided.
//
//   - C10.width: Value.setWidth only copies bytes: walked with distinguishable
//     bytes for every (length, width) in 0..3, it yields the first min(len, w)
//     bytes followed by zeros (zero extension / truncation).
//   - C10.ltu: Ltu only compares bytes: walked over every pair of byte strings
//     of length <= 2 over three values (every ordering) at widths 1..3 it is the
//     unsigned comparison of the little-endian numbers reduced to the width.
//   - C10.nand: Nand touches bytes only with bitwise operators, so its result on
//     wide bytes is determined per bit: walked over all pairs of 1- and 2-byte
//     values of a 2-bit universe it is the complement of the conjunction.
//   - C10.add: Add is a ripple-carry addition in radix 256 whose loop treats
//     every digit alike; its digit step, a function of two bytes and a carry, is
//     verified over its finite domain: quick tier on the boundary bytes
//     {0,1,0x7f,0x80,0xfe,0xff}, thorough tier on all 2^17 cases (second digit of
//     a three-byte addition with zero third digits, with and without incoming
//     carry), against the exact sum: digit and outgoing carry.
func checkC10(c *Ctx) {
	c.Rule("C10.width", "Value.setWidth(w), walked with distinguishable bytes for every (length, w) in 0..3 x 0..3, yields the first min(length, w) bytes followed by zero bytes")
	c.Rule("C10.ltu", "Ltu, which only compares bytes, walked over every pair of byte strings of length <= 2 over three values at widths 1..3, is the unsigned less-than of the little-endian numbers reduced to the width")
	c.Rule("C10.nand", "Nand touches bytes bitwise only and, walked over all pairs of 1- and 2-byte values of a 2-bit universe, yields the complement of the bytewise conjunction at the operation width")
	c.Rule("C10.add", "the digit step of Add (two bytes and the incoming carry), walked as the second digit of a three-byte addition whose third digits are zero (so that the outgoing carry is visible), yields the exact sum: boundary bytes in the quick tier, all 2^17 cases in the thorough tier")

	c.Rule("C10.bigint", "Value.bigInt(w), walked with distinguishable bytes for every (length, w) in 0..3 x 0..3, hands (*big.Int).SetBytes the big-endian bytes of the value reduced to w bytes")
	c.Rule("C10.operands", "in every function of package expreval that takes Values and an operation width, a Value operand is used only by handing it, together with that width, to a width-adjusting method (Value, Width) -> Value / *big.Int (C10.width, C10.bigint) or to another such function: no byte of an operand is looked at before the operand is cut / zero-extended to the width")

	epkg := ModulePath + "/" + pkgEval
	checkC10Operands(c, epkg)
	fn := func(name string) *ssa.Function {
		f := c.Prog.Func(epkg + "." + name)
		if f == nil || f.Blocks == nil {
			c.Undecide("C10: %s.%s not found", epkg, name)
			return nil
		}
		return f
	}
	little := func(bs []int64) uint64 {
		var v uint64
		for i := len(bs) - 1; i >= 0; i-- {
			v = v<<8 | uint64(bs[i]&0xff)
		}
		return v
	}
	resize := func(bs []int64, w int) []int64 {
		out := make([]int64, w)
		copy(out, bs)
		return out
	}

	// ---- C10.width
	if sw := c.Prog.Func("(" + epkg + ".Value).setWidth"); sw != nil && sw.Blocks != nil {
		bad, n := "", 0
		for l := 0; l <= 3 && bad == ""; l++ {
			for w := 0; w <= 3 && bad == ""; w++ {
				in := []int64{0x11, 0x22, 0x33}[:l]
				h := newByteHeap(sw, map[*ssa.Parameter][]int64{sw.Params[0]: in}, int64(w))
				got, why := h.run()
				n++
				if why != "" {
					bad = fmt.Sprintf("length %d, width %d: %s", l, w, why)
				} else if want := resize(in, w); !sameBytes(got, want) {
					bad = fmt.Sprintf("length %d, width %d: bytes %v, expected %v", l, w, got, want)
				}
			}
		}
		c.Oblige("C10.width", ShortName(sw), c.Prog.FuncPos(sw), bad == "", bad)
		c.Saw("setwidth_cases", fmt.Sprintf("%d", n))
	} else {
		c.Undecide("C10.width: Value.setWidth not found")
	}

	// ---- C10.ltu
	if lt := fn("Ltu"); lt != nil {
		strs := allByteStrings(2, 3)
		bad, n := "", 0
		for _, a := range strs {
			for _, b := range strs {
				for w := 1; w <= 3 && bad == ""; w++ {
					h := newByteHeap(lt, map[*ssa.Parameter][]int64{lt.Params[0]: a, lt.Params[1]: b}, int64(w))
					res, why := h.walk()
					n++
					got, known := res.RetBool[0]
					switch {
					case why != "":
						bad = fmt.Sprintf("%v < %v at width %d: %s", a, b, w, why)
					case !known:
						bad = fmt.Sprintf("%v < %v at width %d: the answer cannot be evaluated", a, b, w)
					case got != (little(resize(a, w)) < little(resize(b, w))):
						bad = fmt.Sprintf("Ltu(%v, %v, %d) = %v", a, b, w, got)
					}
				}
			}
		}
		c.Oblige("C10.ltu", ShortName(lt), c.Prog.FuncPos(lt), bad == "", bad)
		c.Saw("ltu_cases", fmt.Sprintf("%d", n))
	}

	// ---- C10.nand
	if nd := fn("Nand"); nd != nil {
		bitwise := ""
		for _, b := range nd.Blocks {
			for _, in := range b.Instrs {
				if bo, ok := in.(*ssa.BinOp); ok {
					if bt, isB := bo.X.Type().Underlying().(*types.Basic); isB && bt.Kind() == types.Uint8 {
						switch bo.Op {
						case token.AND, token.OR, token.XOR, token.AND_NOT, token.EQL, token.NEQ:
						default:
							bitwise = c.Prog.Pos(bo.Pos())
						}
					}
				}
			}
		}
		c.Oblige("C10.nand", ShortName(nd)+"/bitwise-only", c.Prog.FuncPos(nd), bitwise == "", "a byte is used with a non-bitwise operator at "+bitwise)
		bad, n := "", 0
		for w := 1; w <= 2 && bad == ""; w++ {
			lim := 1 << (2 * uint(w)) // w bytes of 2 bits each
			for x := 0; x < lim && bad == ""; x++ {
				for y := 0; y < lim && bad == ""; y++ {
					a, b := make([]int64, w), make([]int64, w)
					for i := 0; i < w; i++ {
						a[i], b[i] = int64(x>>(2*uint(i))&3), int64(y>>(2*uint(i))&3)
					}
					h := newByteHeap(nd, map[*ssa.Parameter][]int64{nd.Params[0]: a, nd.Params[1]: b}, int64(w))
					got, why := h.run()
					n++
					want := make([]int64, w)
					for i := range want {
						want[i] = ^(a[i] & b[i]) & 0xff
					}
					if why != "" {
						bad = fmt.Sprintf("%v nand %v: %s", a, b, why)
					} else if !sameBytes(got, want) {
						bad = fmt.Sprintf("%v nand %v = %v, expected %v", a, b, got, want)
					}
				}
			}
		}
		c.Oblige("C10.nand", ShortName(nd), c.Prog.FuncPos(nd), bad == "", bad)
		c.Saw("nand_cases", fmt.Sprintf("%d", n))
	}

	// ---- C10.shift
	c.Rule("C10.shift", "Lsh and Rsh, given the shift amount that the big.Int conversion of the second operand reports (that conversion is not decided), walked for one-byte and two-byte operands (boundary bytes in the quick tier, all 2^16 two-byte values in the thorough tier) and shift amounts below, at and beyond the operation width, yield (x << s) mod 2^(8w) and x >> s; an amount of at least the bit width, or beyond 64 bits, yields zero")
	checkC10Shifts(c, fn("Lsh"), fn("Rsh"))

	// ---- C10.add
	if ad := fn("Add"); ad != nil {
		var digits []int64
		if c10Exhaustive(c) {
			for v := int64(0); v < 256; v++ {
				digits = append(digits, v)
			}
		} else {
			digits = []int64{0, 1, 0x7f, 0x80, 0xfe, 0xff}
		}
		bad, n := "", 0
		for _, low := range [][2]int64{{0, 0}, {0xff, 1}, {0x80, 0x80}} { // no carry, carry, carry
			for _, x := range digits {
				for _, y := range digits {
					if bad != "" {
						break
					}
					// a third, zero digit shows the carry the step hands on
					a, b := []int64{low[0], x, 0}, []int64{low[1], y, 0}
					h := newByteHeap(ad, map[*ssa.Parameter][]int64{ad.Params[0]: a, ad.Params[1]: b}, 3)
					got, why := h.run()
					n++
					sum := (little(a) + little(b)) & 0xffffff
					want := []int64{int64(sum & 0xff), int64(sum >> 8 & 0xff), int64(sum >> 16)}
					if why != "" {
						bad = fmt.Sprintf("%#x + %#x: %s", little(a), little(b), why)
					} else if !sameBytes(got, want) {
						bad = fmt.Sprintf("%#x + %#x = %v (little-endian bytes), expected %v", little(a), little(b), got, want)
					}
				}
			}
		}
		// widths other than the operands': extension and truncation go through setWidth
		for _, sc := range []struct {
			a, b []int64
			w    int
		}{{[]int64{0xff}, []int64{1}, 2}, {[]int64{0xff, 0xff}, []int64{1}, 1}, {[]int64{0xff, 0xff, 0xff}, []int64{1, 0, 0}, 3}, {nil, []int64{5}, 1}, {[]int64{1}, []int64{2}, 0}} {
			if bad != "" {
				break
			}
			h := newByteHeap(ad, map[*ssa.Parameter][]int64{ad.Params[0]: sc.a, ad.Params[1]: sc.b}, int64(sc.w))
			got, why := h.run()
			n++
			mask := uint64(1)<<(8*uint(sc.w)) - 1
			sum := (little(resize(sc.a, sc.w)) + little(resize(sc.b, sc.w))) & mask
			want := make([]int64, sc.w)
			for i := range want {
				want[i] = int64(sum >> (8 * uint(i)) & 0xff)
			}
			if why != "" {
				bad = fmt.Sprintf("%v + %v at width %d: %s", sc.a, sc.b, sc.w, why)
			} else if !sameBytes(got, want) {
				bad = fmt.Sprintf("%v + %v at width %d = %v, expected %v", sc.a, sc.b, sc.w, got, want)
			}
		}
		c.Oblige("C10.add", ShortName(ad), c.Prog.FuncPos(ad), bad == "", bad)
		c.Saw("add_cases", fmt.Sprintf("%d", n))
	}
}

// c10Exhaustive: the exhaustive enumerations of the thorough tier run in the
// linux configurations with the tag (one per word size: amd64 and 386); the
// other configurations of the tier analyse the same files of package expreval
// (it has no tagged or OS-specific file) with the same word sizes and repeat
// the quick sets.
func c10Exhaustive(c *Ctx) bool {
	return c.Tier == "thorough" && c.Prog.Config.GOOS == "linux" && c.Prog.Config.Tags != ""
}

// checkC10Operands: rules C10.operands and C10.bigint.
func checkC10Operands(c *Ctx, epkg string) {
	isWidthT := func(t types.Type) bool { return TypeNameIs(t, "pkg/expr.Width") }
	isValueT := func(t types.Type) bool {
		_, isPtr := t.(*types.Pointer)
		return !isPtr && isEvalValueT(t)
	}
	// the shape of a function: its Value parameters, its one Width parameter
	type shape struct {
		vals    []int
		w       int
		adapter bool // a method of Value whose only other parameter is the width
	}
	shapes := map[*ssa.Function]shape{}
	var fns []*ssa.Function
	for _, f := range c.Prog.FuncsIn(epkg) {
		if f.Blocks == nil || f.Parent() != nil {
			continue
		}
		sh := shape{w: -1}
		nW := 0
		for i, p := range f.Params {
			switch {
			case isValueT(p.Type()):
				sh.vals = append(sh.vals, i)
			case isWidthT(p.Type()):
				sh.w = i
				nW++
			}
		}
		if len(sh.vals) == 0 || nW != 1 {
			continue
		}
		sh.adapter = f.Signature.Recv() != nil && isValueT(f.Signature.Recv().Type()) && len(f.Params) == 2
		shapes[f] = sh
		fns = append(fns, f)
	}
	nOps, nAdapters := 0, 0
	for _, f := range fns {
		sh := shapes[f]
		if sh.adapter {
			nAdapters++
			res := f.Signature.Results()
			switch {
			case res.Len() == 1 && isValueT(res.At(0).Type()):
				// walked by C10.width
			case res.Len() == 1 && res.At(0).Type().String() == "*math/big.Int":
				bad, n := "", 0
				for l := 0; l <= 3 && bad == ""; l++ {
					for w := 0; w <= 3 && bad == ""; w++ {
						in := []int64{0x11, 0x22, 0x33}[:l]
						h := newByteHeap(f, map[*ssa.Parameter][]int64{f.Params[0]: in}, int64(w))
						_, why := h.walk()
						n++
						at := fmt.Sprintf("length %d, width %d", l, w)
						switch {
						case why != "":
							bad = at + ": " + why
						case h.setBytes == nil:
							bad = at + ": nothing is handed to big.Int.SetBytes"
						default:
							var got, want uint64
							for _, b := range *h.setBytes {
								got = got<<8 | uint64(b&0xff)
							}
							for i := l - 1; i >= 0; i-- {
								if i < w {
									want = want<<8 | uint64(in[i])
								}
							}
							if got != want {
								bad = fmt.Sprintf("%s: the number built is %#x, the value reduced to the width is %#x", at, got, want)
							}
						}
					}
				}
				c.Oblige("C10.bigint", ShortName(f), c.Prog.FuncPos(f), bad == "", bad)
				c.Saw("bigint_cases", fmt.Sprintf("%d", n))
			default:
				// a conversion of a finished value (Const): not an operation, and no
				// adapter an operation may hand an operand to
				delete(shapes, f)
			}
		}
	}
	for _, f := range fns {
		sh, ok := shapes[f]
		if !ok || sh.adapter {
			continue
		}
		wParam := ssa.Value(f.Params[sh.w])
		for _, vi := range sh.vals {
			p := f.Params[vi]
			nOps++
			bad := ""
			var judge func(v ssa.Value)
			judge = func(v ssa.Value) {
				if v.Referrers() == nil {
					return
				}
				for _, r := range *v.Referrers() {
					switch x := r.(type) {
					case *ssa.DebugRef:
					case *ssa.Store:
						// a value receiver / operand spilled to a local: its loads stand for it
						al, ok := x.Addr.(*ssa.Alloc)
						if !ok || x.Val != v || al.Referrers() == nil {
							bad = c.Prog.Pos(x.Pos())
							continue
						}
						for _, rr := range *al.Referrers() {
							switch y := rr.(type) {
							case *ssa.UnOp:
								judge(y)
							case *ssa.Store, *ssa.DebugRef:
							default:
								bad = c.Prog.Pos(rr.Pos())
							}
						}
					case *ssa.Call:
						g := x.Call.StaticCallee()
						gs, known := shapes[g]
						if g == nil || !known {
							bad = c.Prog.Pos(x.Pos())
							continue
						}
						// handed over as a Value operand, together with this function's width
						asVal := false
						for _, i := range gs.vals {
							if i < len(x.Call.Args) && x.Call.Args[i] == v {
								asVal = true
							}
						}
						if !asVal || gs.w >= len(x.Call.Args) || Unwrap(x.Call.Args[gs.w]) != wParam {
							bad = c.Prog.Pos(x.Pos())
						}
					default:
						bad = c.Prog.Pos(r.Pos())
					}
				}
			}
			judge(p)
			c.Oblige("C10.operands", ShortName(f)+"/"+p.Name(), c.Prog.FuncPos(f), bad == "", "the operand is looked at (at "+bad+") without first being cut / zero-extended to the operation width: bytes above the width, or missing below it, take part in the result")
		}
	}
	c.RequireCount("C10.operands Value operands of expreval operations", nOps, 12)
	c.RequireCount("C10.bigint width-adjusting methods", nAdapters, 2)
}

// checkC10Shifts: rule C10.shift.
func checkC10Shifts(c *Ctx, lsh, rsh *ssa.Function) {
	little := func(bs []int64) uint64 {
		var v uint64
		for i := len(bs) - 1; i >= 0; i-- {
			v = v<<8 | uint64(bs[i]&0xff)
		}
		return v
	}
	for _, fn := range []*ssa.Function{lsh, rsh} {
		if fn == nil {
			continue
		}
		left := fn == lsh
		var operands [][]int64
		quickBytes := []int64{0x00, 0x01, 0x80, 0xff, 0xa5}
		for _, b := range quickBytes {
			operands = append(operands, []int64{b})
		}
		if c10Exhaustive(c) {
			for v := 0; v < 65536; v++ {
				operands = append(operands, []int64{int64(v & 0xff), int64(v >> 8)})
			}
		} else {
			for _, a := range quickBytes {
				for _, b := range quickBytes {
					operands = append(operands, []int64{a, b})
				}
			}
		}
		operands = append(operands, []int64{0x81, 0x42, 0xc3}, []int64{0xff, 0xff, 0xff}, []int64{0x01, 0x00, 0x80})
		bad, n := "", 0
		boundary := map[int64]bool{}
		for _, b := range quickBytes {
			boundary[b] = true
		}
		type opnd struct {
			bytes []int64
			w     int
		}
		var cases []opnd
		for _, x := range operands {
			cases = append(cases, opnd{x, len(x)})
			// an operand wider or narrower than the operation: cut / zero-extended first
			isB := true
			for _, b := range x {
				isB = isB && boundary[b]
			}
			if isB || len(x) == 3 {
				if len(x) > 1 {
					cases = append(cases, opnd{x, len(x) - 1})
				}
				cases = append(cases, opnd{x, len(x) + 1})
			}
		}
		for _, cs := range cases {
			w := cs.w
			x := make([]int64, w) // the operand at the operation width
			copy(x, cs.bytes)
			shifts := []int64{0, 1, 2, 3, 4, 5, 6, 7, 8, 9, 12, 15, 16, 17, int64(8*w - 1), int64(8 * w), int64(8*w + 1), 1 << 20}
			if w == 2 && len(cs.bytes) == 2 {
				if boundary[x[0]] && boundary[x[1]] {
					shifts = []int64{0, 1, 4, 7, 8, 9, 15, 16, 17, 1 << 20}
					if c10Exhaustive(c) {
						shifts = []int64{0, 1, 2, 3, 4, 5, 6, 7, 8, 9, 12, 15, 16, 17, 1 << 20}
					}
				} else {
					// (thorough tier) every pair of adjacent bytes under every bit shift: the
					// step of the in-place bit shift; whole-byte moves only copy
					shifts = []int64{1, 2, 3, 4, 5, 6, 7}
				}
			} else if len(cs.bytes) != w {
				shifts = []int64{0, 1, 7, 8, 9, int64(8*w - 1), int64(8 * w), 1 << 20}
			}
			for _, sh := range append(shifts, -1) { // -1: the amount does not fit a uint64
				if bad != "" {
					break
				}
				h := newByteHeap(fn, map[*ssa.Parameter][]int64{fn.Params[0]: cs.bytes, fn.Params[1]: {0}}, int64(w))
				h.hasShift, h.shiftFits, h.shiftRaw = true, sh >= 0, sh
				got, why := h.run()
				n++
				var v uint64
				if sh >= 0 && sh < int64(8*w) {
					if left {
						v = little(x) << uint(sh)
					} else {
						v = little(x) >> uint(sh)
					}
				}
				want := make([]int64, w)
				for i := range want {
					want[i] = int64(v >> (8 * uint(i)) & 0xff)
				}
				at := fmt.Sprintf("%#x (%d bytes) shifted by %d at width %d", little(cs.bytes), len(cs.bytes), sh, w)
				if sh < 0 {
					at = fmt.Sprintf("%#x (%d bytes) shifted by an amount beyond 64 bits at width %d", little(cs.bytes), len(cs.bytes), w)
				}
				if why != "" {
					bad = at + ": " + why
				} else if !sameBytes(got, want) {
					bad = fmt.Sprintf("%s = %v (little-endian bytes), expected %v", at, got, want)
				}
			}
		}
		c.Oblige("C10.shift", ShortName(fn), c.Prog.FuncPos(fn), bad == "", bad)
		c.Saw("shift_cases", fmt.Sprintf("%s: %d", ShortName(fn), n))
	}
}

func sameBytes(a, b []int64) bool {
	if len(a) != len(b) {
		return false
	}
	for i := range a {
		if a[i]&0xff != b[i]&0xff {
			return false
		}
	}
	return true
}

// ---------------------------------------------------------------------------
// byteHeap: the valuation for walking the byte-string code of package expreval
// on concrete operands. Byte slices are views into concrete buffers: the
// operands (the bs field of a Value parameter of the walked function) and the
// buffers the code makes. What a call hands back is fixed when it returns, a
// byte is read where the load executes.

type bview struct {
	buf *[]int64
	off int64
	n   int64
}

func (v bview) bytes() []int64 { return (*v.buf)[v.off : v.off+v.n] }

type byteHeap struct {
	root   *ssa.Function
	inputs map[*ssa.Parameter]*[]int64
	width  int64
	vl     *Valuation
	views  map[ssa.Value]bview  // snapshots: make, reslices, results of returned calls, struct loads
	cells  map[*ssa.Alloc]bview // Value-typed locals: their bs
	loads  map[ssa.Value]int64  // bytes read / results of copy
	calls  []*ssa.Call
	crash  string
	why    string
	// the shift amount as the big.Int conversion of the second operand reports it
	// (the conversion itself is not decided): fits a uint64 or not, and its value
	shiftFits bool
	shiftRaw  int64
	hasShift  bool
	// what (*big.Int).SetBytes was last handed
	setBytes *[]int64
	// []byte parameters of the walked function
	slices map[*ssa.Parameter]*[]int64
}

func isByteSliceT(t types.Type) bool {
	s, ok := t.Underlying().(*types.Slice)
	if !ok {
		return false
	}
	b, ok := s.Elem().Underlying().(*types.Basic)
	return ok && b.Kind() == types.Uint8
}

// byteArrayLen: t is *[n]byte.
func byteArrayLen(t types.Type) (int64, bool) {
	p, ok := t.Underlying().(*types.Pointer)
	if !ok {
		return 0, false
	}
	a, ok := p.Elem().Underlying().(*types.Array)
	if !ok {
		return 0, false
	}
	b, ok := a.Elem().Underlying().(*types.Basic)
	return a.Len(), ok && b.Kind() == types.Uint8
}

func isEvalValueT(t types.Type) bool {
	if p, ok := t.(*types.Pointer); ok {
		t = p.Elem()
	}
	n, ok := t.(*types.Named)
	return ok && n.Obj().Name() == "Value" && n.Obj().Pkg() != nil && n.Obj().Pkg().Path() == ModulePath+"/"+pkgEval
}

func newByteHeap(root *ssa.Function, in map[*ssa.Parameter][]int64, width int64) *byteHeap {
	h := &byteHeap{root: root, inputs: map[*ssa.Parameter]*[]int64{}, width: width,
		views: map[ssa.Value]bview{}, cells: map[*ssa.Alloc]bview{}, loads: map[ssa.Value]int64{}}
	for p, bs := range in {
		cp := append([]int64(nil), bs...)
		h.inputs[p] = &cp
	}
	h.vl = &Valuation{
		Typed: true,
		Enter: SamePackage(root),
		RootStop: func(v ssa.Value) bool {
			_, ok := h.views[v]
			return ok
		},
	}
	h.vl.Int = func(v ssa.Value) (int64, bool) {
		if n, ok := h.loads[v]; ok {
			return n, true
		}
		if p, ok := v.(*ssa.Parameter); ok && p.Parent() == root {
			if n, isN := p.Type().(*types.Named); isN && n.Obj().Name() == "Width" {
				return h.width, true
			}
		}
		if call, ok := v.(*ssa.Call); ok && isBuiltin(call, "len") && isByteSliceT(call.Call.Args[0].Type()) {
			if vw, ok := h.viewOf(call.Call.Args[0]); ok {
				return vw.n, true
			}
		}
		if call, ok := v.(*ssa.Call); ok && h.hasShift && call.Call.StaticCallee() != nil && call.Call.StaticCallee().String() == "(*math/big.Int).Uint64" {
			return h.shiftRaw, true
		}
		return 0, false
	}
	h.vl.Bool = func(v ssa.Value) (bool, bool) {
		if call, ok := v.(*ssa.Call); ok && h.hasShift && call.Call.StaticCallee() != nil && call.Call.StaticCallee().String() == "(*math/big.Int).IsUint64" {
			return h.shiftFits, true
		}
		return false, false
	}
	h.vl.Visit = h.visit
	// a []byte loop variable that is resliced every iteration: what it stands for
	// is fixed when the phi is entered
	h.vl.PhiHook = func(phi *ssa.Phi, incoming ssa.Value) {
		if !isByteSliceT(phi.Type()) {
			return
		}
		if vw, ok := h.viewOf(incoming); ok {
			h.views[phi] = vw
		} else {
			delete(h.views, phi)
		}
	}
	return h
}

// viewOf: the buffer view a []byte value stands for.
func (h *byteHeap) viewOf(v ssa.Value) (bview, bool) {
	if vw, ok := h.views[v]; ok {
		return vw, true
	}
	r, fr := h.vl.RootF(v)
	if vw, ok := h.views[r]; ok {
		return vw, true
	}
	old := h.vl.SetFrame(fr)
	defer h.vl.SetFrame(old)
	switch x := r.(type) {
	case *ssa.Parameter:
		if in, ok := h.slices[x]; ok {
			return bview{in, 0, int64(len(*in))}, true
		}
	case *ssa.Field:
		if fieldNameOf(x) == "bs" {
			return h.valueOf(x.X)
		}
	case *ssa.UnOp:
		if fa, ok := x.X.(*ssa.FieldAddr); ok && x.Op == token.MUL && fieldNameOf(fa) == "bs" {
			if al, ok := fa.X.(*ssa.Alloc); ok {
				vw, ok := h.cells[al]
				return vw, ok
			}
		}
	case *ssa.Const:
		if x.IsNil() {
			empty := []int64{}
			return bview{&empty, 0, 0}, true
		}
	}
	return bview{}, false
}

// valueOf: the bytes of a Value-typed value.
func (h *byteHeap) valueOf(v ssa.Value) (bview, bool) {
	if vw, ok := h.views[v]; ok {
		return vw, true
	}
	r, fr := h.vl.RootF(v)
	if vw, ok := h.views[r]; ok {
		return vw, true
	}
	old := h.vl.SetFrame(fr)
	defer h.vl.SetFrame(old)
	switch x := r.(type) {
	case *ssa.Parameter:
		if in, ok := h.inputs[x]; ok {
			return bview{in, 0, int64(len(*in))}, true
		}
	case *ssa.Const:
		// the zero Value: no bytes
		empty := []int64{}
		return bview{&empty, 0, 0}, true
	case *ssa.UnOp:
		if al, ok := x.X.(*ssa.Alloc); ok && x.Op == token.MUL {
			vw, ok := h.cells[al]
			if !ok && al.Referrers() != nil {
				// a zero-valued local (Value{}) that nothing was stored into
				stores := 0
				for _, r := range *al.Referrers() {
					switch y := r.(type) {
					case *ssa.Store:
						if y.Addr == ssa.Value(al) {
							stores++
						}
					case *ssa.FieldAddr:
						stores++
					}
				}
				if stores == 0 {
					empty := []int64{}
					return bview{&empty, 0, 0}, true
				}
			}
			return vw, ok
		}
	case *ssa.Alloc:
		vw, ok := h.cells[x]
		return vw, ok
	}
	return bview{}, false
}

func (h *byteHeap) fail(format string, a ...interface{}) {
	if h.crash == "" && h.why == "" {
		h.why = fmt.Sprintf(format, a...)
	}
}

func (h *byteHeap) visit(in ssa.Instruction) {
	if h.crash != "" || h.why != "" {
		return
	}
	switch x := in.(type) {
	case *ssa.MakeSlice:
		if !isByteSliceT(x.Type()) {
			return
		}
		n, ok := h.vl.EvalInt(x.Len, nil)
		if !ok || n < 0 || n > 1<<12 {
			h.fail("the length of a new buffer cannot be evaluated")
			return
		}
		capN, ok := h.vl.EvalInt(x.Cap, nil)
		if !ok || capN < n || capN > 1<<12 {
			h.fail("the capacity of a new buffer cannot be evaluated")
			return
		}
		buf := make([]int64, capN)
		h.views[x] = bview{&buf, 0, n}
	case *ssa.Alloc:
		// a local byte array (the argument list of an append among them)
		if n, ok := byteArrayLen(x.Type()); ok {
			buf := make([]int64, n)
			h.views[x] = bview{&buf, 0, n}
		}
	case *ssa.Slice:
		if !isByteSliceT(x.Type()) {
			return
		}
		if _, isArr := byteArrayLen(x.X.Type()); !isArr && !isByteSliceT(x.X.Type()) {
			return
		}
		base, ok := h.viewOf(x.X)
		if !ok {
			delete(h.views, x)
			return
		}
		lo, hi := int64(0), base.n
		if x.Low != nil {
			if lo, ok = h.vl.EvalInt(x.Low, nil); !ok {
				h.fail("a slice bound cannot be evaluated")
				return
			}
		}
		if x.High != nil {
			if hi, ok = h.vl.EvalInt(x.High, nil); !ok {
				h.fail("a slice bound cannot be evaluated")
				return
			}
		}
		capN := int64(len(*base.buf)) - base.off
		if lo < 0 || hi > capN || lo > hi {
			h.crash = fmt.Sprintf("the slice expression [%d:%d] is applied to %d bytes", lo, hi, base.n)
			return
		}
		h.views[x] = bview{base.buf, base.off + lo, hi - lo}
	case *ssa.Call:
		if isBuiltin(x, "copy") && isByteSliceT(x.Call.Args[0].Type()) {
			dst, ok1 := h.viewOf(x.Call.Args[0])
			src, ok2 := h.viewOf(x.Call.Args[1])
			if !ok1 || !ok2 {
				h.fail("the operands of copy cannot be evaluated")
				return
			}
			n := dst.n
			if src.n < n {
				n = src.n
			}
			copy(dst.bytes()[:n], append([]int64(nil), src.bytes()[:n]...))
			h.loads[x] = n
			return
		}
		if isBuiltin(x, "append") && isByteSliceT(x.Type()) {
			dst, ok1 := h.viewOf(x.Call.Args[0])
			src, ok2 := h.viewOf(x.Call.Args[1])
			if !ok1 || !ok2 {
				h.fail("the operands of append cannot be evaluated")
				return
			}
			add := append([]int64(nil), src.bytes()...)
			if dst.off+dst.n+src.n <= int64(len(*dst.buf)) {
				// room in the buffer: written in place, as the compiled code does
				copy((*dst.buf)[dst.off+dst.n:], add)
				h.views[x] = bview{dst.buf, dst.off, dst.n + src.n}
			} else {
				buf := append(append([]int64(nil), dst.bytes()...), add...)
				h.views[x] = bview{&buf, 0, int64(len(buf))}
			}
			return
		}
		if g := x.Call.StaticCallee(); g != nil && g.String() == "(*math/big.Int).SetBytes" {
			if vw, ok := h.viewOf(x.Call.Args[1]); ok {
				cp := append([]int64(nil), vw.bytes()...)
				h.setBytes = &cp
			} else {
				h.fail("the bytes handed to big.Int.SetBytes cannot be evaluated")
			}
			return
		}
		if g := x.Call.StaticCallee(); g != nil && !x.Call.IsInvoke() && h.vl.Enter(g) {
			h.calls = append(h.calls, x)
		}
	case *ssa.Return:
		if n := len(h.calls); n > 0 && x.Parent() != h.root {
			call := h.calls[n-1]
			h.calls = h.calls[:n-1]
			delete(h.views, call)
			if len(x.Results) == 1 {
				var vw bview
				ok := false
				switch {
				case isEvalValueT(x.Results[0].Type()):
					vw, ok = h.valueOf(x.Results[0])
				case isByteSliceT(x.Results[0].Type()):
					vw, ok = h.viewOf(x.Results[0])
				}
				if ok {
					h.views[call] = vw
				}
			}
		}
	case *ssa.Panic:
		if n := len(h.calls); n > 0 {
			h.calls = h.calls[:n-1]
		}
	case *ssa.UnOp:
		if x.Op != token.MUL {
			return
		}
		switch a := x.X.(type) {
		case *ssa.IndexAddr:
			if _, isArr := byteArrayLen(a.X.Type()); !isArr && !isByteSliceT(a.X.Type()) {
				return
			}
			delete(h.loads, x)
			vw, ok := h.viewOf(a.X)
			i, iok := h.vl.EvalInt(a.Index, nil)
			if !ok || !iok {
				return
			}
			if i < 0 || i >= vw.n {
				h.crash = fmt.Sprintf("byte %d of %d is read", i, vw.n)
				return
			}
			h.loads[x] = vw.bytes()[i] & 0xff
		case *ssa.Alloc:
			if isEvalValueT(a.Type()) {
				if vw, ok := h.cells[a]; ok {
					h.views[x] = vw
				} else {
					delete(h.views, x)
				}
			}
		}
	case *ssa.Store:
		switch a := x.Addr.(type) {
		case *ssa.IndexAddr:
			if _, isArr := byteArrayLen(a.X.Type()); !isArr && !isByteSliceT(a.X.Type()) {
				return
			}
			vw, ok := h.viewOf(a.X)
			i, iok := h.vl.EvalInt(a.Index, nil)
			val, vok := h.vl.EvalInt(x.Val, nil)
			if !ok || !iok || !vok {
				h.fail("a byte written cannot be evaluated")
				return
			}
			if i < 0 || i >= vw.n {
				h.crash = fmt.Sprintf("byte %d of %d is written", i, vw.n)
				return
			}
			vw.bytes()[i] = val & 0xff
		case *ssa.FieldAddr:
			if al, ok := a.X.(*ssa.Alloc); ok && fieldNameOf(a) == "bs" && isEvalValueT(al.Type()) {
				if vw, ok := h.viewOf(x.Val); ok {
					h.cells[al] = vw
				} else {
					delete(h.cells, al)
				}
			}
		case *ssa.Alloc:
			if isEvalValueT(a.Type()) {
				if vw, ok := h.valueOf(x.Val); ok {
					h.cells[a] = vw
				} else {
					delete(h.cells, a)
				}
			}
		}
	}
}

// walk runs the walk; why is non-empty when it crashed or could not be decided.
func (h *byteHeap) walk() (WalkResult, string) {
	res := h.vl.Walk(h.root.Blocks[0], nil)
	switch {
	case h.crash != "":
		return res, "out of range: " + h.crash
	case h.why != "":
		return res, h.why
	case !res.OK:
		return res, "not computable: " + res.Why
	}
	if _, isRet := res.End.(*ssa.Return); !isRet {
		return res, "the function panics"
	}
	return res, ""
}

// run walks a function returning a Value and gives its bytes.
func (h *byteHeap) run() ([]int64, string) {
	res, why := h.walk()
	if why != "" {
		return nil, why
	}
	ret := res.End.(*ssa.Return)
	vw, ok := h.valueOf(ret.Results[0])
	if !ok {
		if vw2, ok2 := h.valueOf(res.RetVal[0]); ok2 {
			vw, ok = vw2, true
		}
	}
	if !ok {
		return nil, "the result cannot be evaluated"
	}
	return append([]int64(nil), vw.bytes()...), ""
}
