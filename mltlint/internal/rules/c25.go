package rules

import (
	"fmt"
	"strings"

	"mltlint/internal/absint"
	. "mltlint/internal/core"
)

func init() { register("C25", "other", checkC25) }

func checkC25(c *Ctx) {
	c.Rule("C25.shown", "for every table entry, every operand bit (don't-care bit of the pattern) that influences the lifted effects also influences instruction.String(): (U ∩ D) ⊆ S, with U from the effects template and S from abstract interpretation of String() on a symbolic word")
	c.Rule("C25.name", "the text of every entry starts with the entry's mnemonic followed by a space")
	ri := loadRiscv(c)
	if ri == nil {
		return
	}
	nPaths := 0
	var samples []string
	for _, e := range ri.T.Entries {
		key := entryKey(ri, e)
		pos := c.Prog.Pos(e.Pos)
		c.Saw("table_entries", key)
		f := templateFacts(ri, e)
		if f.Err != nil {
			c.Undecide("%s: %v", key, f.Err)
			continue
		}
		tp, err := ri.T.Text(e)
		if err != nil {
			c.Undecide("%s: %v", key, err)
			continue
		}
		nPaths += len(tp)
		var S absint.Dep
		nameOK := true
		panicked := ""
		// When every path through String() ends in the same exactly known text
		// (same formats, same parts, integer parts that are bit-for-bit copies of
		// the same word bits) the text is one function of the word
		// and the branches taken on the way (e.g. inside an immediate decoder
		// whose result is then not printed) do not influence it.
		sameText := true
		firstSig := ""
		for _, p := range tp {
			if p.Panicked {
				continue
			}
			sig, exact := absint.TextSig(p.Result)
			if !exact {
				sameText = false
				break
			}
			if firstSig == "" {
				firstSig = sig
			} else if sig != firstSig {
				sameText = false
			}
		}
		for _, p := range tp {
			if p.Panicked {
				panicked = c.Prog.Pos(p.PanicPos)
				continue
			}
			if !sameText {
				// the text differs between paths: the bits deciding the path
				// influence it
				for _, cr := range p.Conds {
					S |= cr.Dep
				}
			}
			S |= absint.DepsOf(p.Result)
			switch r := p.Result.(type) {
			case absint.OpaqueV:
				if !strings.HasPrefix(r.Prefix, e.Name+" ") {
					nameOK = false
				}
			case absint.StrV:
				if !strings.HasPrefix(string(r), e.Name+" ") {
					nameOK = false
				}
			default:
				nameOK = false
			}
		}
		S &= 0xffffffff
		if panicked != "" {
			c.Fail("C25.shown", key, pos, "String() panics at "+panicked)
			continue
		}
		D := absint.Dep(^e.Mask)
		if hidden := f.U & D &^ S; hidden != 0 {
			c.Fail("C25.shown", key, pos, fmt.Sprintf("instruction bits %s change the lifted behaviour but not the displayed text: two different instructions are shown identically", absint.Ranges(hidden)))
		} else {
			c.Pass("C25.shown", key, pos, "")
		}
		c.Oblige("C25.name", key, pos, nameOK, "the text does not start with the mnemonic \""+e.Name+" \"")
		if len(samples) < 5 && len(tp) > 0 {
			samples = append(samples, key+" => "+absint.Render(tp[0].Result)+" S="+absint.Ranges(S))
		}
	}
	c.Extra["string_paths"] = nPaths
	c.Extra["text_samples"] = samples
}
