package rules

import (
	"fmt"
	"sort"
	"strings"

	"golang.org/x/tools/go/ssa"

	. "mltlint/internal/core"
)

// checkRebuild: E3 role "rebuild". For every case N of fn's type switch over
// iface and every call of the constructor NewN in that case's region: each
// argument originates exactly from the accessor paired with that parameter on
// the node bound in the case; child operands have passed through the
// recursion (or the transforming function parameter), without sub-slicing.
// Cases of nodes that have children must contain at least one such call
// (`mustRebuild`), unless listed in skipRebuild.
func checkRebuild(c *Ctx, rule string, fn *ssa.Function, iface string, skipRebuild map[string]string) (nCtor int) {
	model := c.Prog.ExprModel()
	group := c.Prog.RecursionGroup(fn)
	tss := c.Prog.TypeSwitches(fn, iface)
	if len(tss) == 0 {
		// the switch may live in a helper that is handed the function's own node
		for _, cs := range Calls(fn) {
			g := Callee(cs.Common())
			if g != nil {
				g = Origin(g)
			}
			if g == nil || g.Blocks == nil || g == fn || PkgPathOf(g) != PkgPathOf(fn) {
				continue
			}
			for _, a := range cs.Common().Args {
				if len(fn.Params) > 0 && Unwrap(a) == ssa.Value(fn.Params[0]) {
					if t2 := c.Prog.TypeSwitches(g, iface); len(t2) > 0 {
						tss = t2
						group = c.Prog.RecursionGroup(g)
						group[Origin(fn)] = true
					}
				}
			}
		}
	}
	if len(tss) == 0 {
		c.Undecide("%s: no type switch over expr.%s found in %s", rule, iface, ShortName(fn))
		return 0
	}
	for _, ts := range tss {
		var names []string
		for n := range ts.Cases {
			names = append(names, n)
		}
		sort.Strings(names)
		for _, n := range names {
			m := model[n]
			if m == nil || m.Ctor == nil || len(m.Children()) == 0 {
				continue
			}
			body := ts.CaseBody(n)
			if body == nil {
				continue // multi-type case without a bound value
			}
			e, cb, region := body.E, body.Entry, body.Region
			grp := group
			if body.Extracted {
				grp = map[*ssa.Function]bool{}
				for k, v := range group {
					grp[k] = v
				}
				grp[Origin(body.Fn)] = true
			}
			x := ts.X
			if body.Extracted {
				x = nil
			}
			oc := &OriginCtx{E: e, X: x, Model: m, Group: grp}
			found := 0
			for b := range region {
				for _, in := range b.Instrs {
					call, ok := in.(*ssa.Call)
					if !ok || !SameFunc(call.Call.StaticCallee(), m.Ctor) {
						continue
					}
					found++
				}
			}
			key := ShortName(fn) + "/case " + n
			if found == 0 {
				if why, ok := skipRebuild[n]; ok {
					c.Note("%s %s: no reconstruction required (%s)", rule, key, why)
					continue
				}
				c.Fail(rule, key+"/rebuild", c.Prog.Pos(cb.Instrs[0].Pos()), "case "+n+" never rebuilds the node with expr.New"+n+": transformed children are lost")
				continue
			}
			// deterministic order
			var calls []*ssa.Call
			for _, b := range body.Blocks() {
				for _, in := range b.Instrs {
					if call, ok := in.(*ssa.Call); ok && SameFunc(call.Call.StaticCallee(), m.Ctor) {
						calls = append(calls, call)
					}
				}
			}
			for ci, call := range calls {
				nCtor++
				for k, a := range call.Call.Args {
					want := m.ParamAcc[k]
					if want == "" {
						continue
					}
					okey := fmt.Sprintf("%s/New%s#%d/%s", key, n, ci+1, want)
					o := oc.Origins(a)
					info, has := o[want]
					switch {
					case !has || len(o) != 1:
						c.Fail(rule, okey, c.Prog.Pos(call.Pos()), fmt.Sprintf("parameter %d of New%s (stored as %s) receives a value derived from %s of the node, expected %s only", k, n, want, OriginNames(o), want))
					case m.Child[want] && !info.Transformed:
						c.Fail(rule, okey, c.Prog.Pos(call.Pos()), "child "+want+" is passed on without being transformed by the recursion")
					case info.Partial:
						c.Fail(rule, okey, c.Prog.Pos(call.Pos()), "child "+want+" passes a sub-slice with explicit bounds: some alternatives are dropped")
					default:
						c.Pass(rule, okey, c.Prog.Pos(call.Pos()), "")
					}
				}
			}
		}
	}
	return nCtor
}

// accessorCallOn recognises e.Name() on the given receiver value.
func accessorCallOn(v ssa.Value, e ssa.Value, name string) bool {
	call, ok := Unwrap(v).(*ssa.Call)
	if !ok || call.Call.IsInvoke() {
		return false
	}
	f := call.Call.StaticCallee()
	return f != nil && NameOf(f) == name && len(call.Call.Args) == 1 && call.Call.Args[0] == e
}

// boolReturnTable enumerates the paths of a region that returns a bool whose
// branch conditions are "atoms" (opaque boolean values): for every total
// assignment of the atoms met on a path the returned value is evaluated.
// It returns, per path, the assignment and the result; ok=false if the region
// branches on something that is not a plain boolean value.
type boolPath struct {
	Assign map[ssa.Value]bool
	Result bool
}

func boolReturnPaths(start, from *ssa.BasicBlock, resultIdx int, isAtom func(ssa.Value) bool) (paths []boolPath, ok bool) {
	ok = true
	var rec func(b, prev *ssa.BasicBlock, assign map[ssa.Value]bool, phi map[*ssa.Phi]ssa.Value, depth int)
	var evalB func(v ssa.Value, assign map[ssa.Value]bool, phi map[*ssa.Phi]ssa.Value) (val bool, known bool, atom ssa.Value)
	evalB = func(v ssa.Value, assign map[ssa.Value]bool, phi map[*ssa.Phi]ssa.Value) (bool, bool, ssa.Value) {
		v = Unwrap(v)
		if b, isConst := Match(v, BoolPat(true)); isConst && b != nil {
			return true, true, nil
		}
		if _, isConst := Match(v, BoolPat(false)); isConst {
			return false, true, nil
		}
		if ph, isPhi := v.(*ssa.Phi); isPhi {
			if in, has := phi[ph]; has {
				return evalB(in, assign, phi)
			}
			return false, false, nil
		}
		if u, isNot := v.(*ssa.UnOp); isNot && u.Op.String() == "!" {
			val, known, atom := evalB(u.X, assign, phi)
			if known {
				return !val, true, nil
			}
			return false, false, atom
		}
		if val, has := assign[v]; has {
			return val, true, nil
		}
		if isAtom(v) {
			return false, false, v
		}
		return false, false, nil
	}
	rec = func(b, prev *ssa.BasicBlock, assign map[ssa.Value]bool, phi map[*ssa.Phi]ssa.Value, depth int) {
		if depth > 64 || !ok {
			ok = false
			return
		}
		phi2 := map[*ssa.Phi]ssa.Value{}
		for k, v := range phi {
			phi2[k] = v
		}
		for _, in := range b.Instrs {
			if ph, isPhi := in.(*ssa.Phi); isPhi {
				for i, p := range b.Preds {
					if p == prev {
						phi2[ph] = ph.Edges[i]
					}
				}
			}
		}
		switch last := b.Instrs[len(b.Instrs)-1].(type) {
		case *ssa.Return:
			val, known, atom := evalB(last.Results[resultIdx], assign, phi2)
			if known {
				paths = append(paths, boolPath{assign, val})
				return
			}
			if atom == nil {
				ok = false
				return
			}
			for _, choice := range []bool{true, false} {
				a2 := map[ssa.Value]bool{}
				for k, v := range assign {
					a2[k] = v
				}
				a2[atom] = choice
				// the atom may be negated in the result; re-evaluate
				val, known, _ := evalB(last.Results[resultIdx], a2, phi2)
				if !known {
					ok = false
					return
				}
				paths = append(paths, boolPath{a2, val})
			}
		case *ssa.Panic:
			// a panicking path returns nothing
		case *ssa.Jump:
			rec(b.Succs[0], b, assign, phi2, depth+1)
		case *ssa.If:
			val, known, atom := evalB(last.Cond, assign, phi2)
			if known {
				if val {
					rec(b.Succs[0], b, assign, phi2, depth+1)
				} else {
					rec(b.Succs[1], b, assign, phi2, depth+1)
				}
				return
			}
			if atom == nil {
				ok = false
				return
			}
			for _, choice := range []bool{true, false} {
				a2 := map[ssa.Value]bool{}
				for k, v := range assign {
					a2[k] = v
				}
				a2[atom] = choice
				val, known, _ := evalB(last.Cond, a2, phi2)
				if !known {
					ok = false
					return
				}
				if val {
					rec(b.Succs[0], b, a2, phi2, depth+1)
				} else {
					rec(b.Succs[1], b, a2, phi2, depth+1)
				}
			}
		default:
			ok = false
		}
	}
	rec(start, from, map[ssa.Value]bool{}, map[*ssa.Phi]ssa.Value{}, 0)
	return paths, ok
}

func joinNames(m map[string]bool) string {
	var n []string
	for k := range m {
		n = append(n, k)
	}
	sort.Strings(n)
	return strings.Join(n, ",")
}
