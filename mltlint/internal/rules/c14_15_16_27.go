package rules

import (
	"fmt"
	"go/token"
	"go/types"
	"sort"
	"strings"

	"golang.org/x/tools/go/ssa"

	. "mltlint/internal/core"
)

func init() {
	register("C14", "other", checkC14)
	register("C15", "other", checkC15)
	register("C16", "other", checkC16)
	register("C27", "other", checkC27)
}

// borrowed classifies origins of byte slices that are read-only by contract.
func borrowed(fn *ssa.Function, or BOrigin) (bool, string) {
	switch or.Kind {
	case OCall:
		if or.Call.Call.IsInvoke() {
			if or.Call.Call.Method.Name() == "Bytes" {
				return true, "the byte slice returned by " + types.TypeString(or.Call.Call.Value.Type(), nil) + ".Bytes()"
			}
			return false, ""
		}
		f := or.Call.Call.StaticCallee()
		if f == nil {
			return false, ""
		}
		switch {
		case FuncNameIs(f, "(pkg/expr.Const).Bytes"):
			return true, "the storage of a constant (Const.Bytes())"
		case FuncNameIs(f, "("+pkgElf+".Block).Bytes"):
			return true, "the bytes of an ELF block (Block.Bytes())"
		case NameOf(f) == "Bytes" && f.Signature.Recv() != nil && PkgPathOf(f) != "":
			return true, "the byte slice returned by " + ShortName(f)
		}
		// a getter of the bytes of an evaluator Value: a Value made from a
		// constant shares the constant's storage (expreval.ParseConst)
		if fld, isGetter := GetterOf(f); isGetter && fld == "bs" && PkgPathOf(f) == ModulePath+"/"+pkgEval {
			return true, "the bytes of an evaluator value, which may be the storage of a constant (" + ShortName(f) + ")"
		}
	case OField:
		own := ""
		if or.Field.Pkg() != nil {
			own = or.Field.Pkg().Path()
		}
		switch {
		case or.Field.Name() == "bs" && own == ExprPkg:
			return true, "the storage of a constant (Const.bs)"
		case or.Field.Name() == "bs" && own == ModulePath+"/"+pkgEval:
			return true, "the bytes of an evaluator value, which may be the storage of a constant (Value.bs)"
		case or.Field.Name() == "bytes" && own == ModulePath+"/"+pkgElf:
			return true, "the bytes of an ELF block"
		}
	case OParam:
		switch {
		case FuncNameIs(fn, "pkg/expr.NewConst"):
			return true, "the caller's slice given to NewConst"
		case FuncNameIs(fn, "("+pkgRiscv+".Parser).Parse"), FuncNameIs(fn, pkgRiscv+".newInstruction"):
			return true, "the code bytes given to the instruction parser"
		case FuncNameIs(fn, pkgParser+".newInstruction"):
			return true, "the code bytes of the image"
		}
	}
	return false, ""
}

func runOwn(c *Ctx, rule string, scope func(*ssa.Function) bool) *Own {
	o := NewOwn(c.Prog)
	nf, ns, mut, sums := o.Describe()
	c.Extra["own_functions"] = nf
	c.Extra["own_sinks"] = ns
	c.Extra["own_mutated_fields"] = mut
	c.Extra["own_param_summaries"] = sums
	if ns < 20 {
		c.Undecide("%s: only %d byte-slice sinks found in the module, at least 20 were confirmed by hand", rule, ns)
	}
	viol := o.Check(scope, borrowed)
	seen := map[string]int{}
	for _, v := range viol {
		base := ShortName(v.Sink.Fn) + "/" + sinkKind(v.Sink.Kind)
		seen[base]++
		key := base
		if seen[base] > 1 {
			key = fmt.Sprintf("%s#%d", base, seen[base])
		}
		c.Fail(rule, key, c.Prog.Pos(v.Sink.Instr.Pos()), v.What+": a value that must never change can be modified through this alias")
	}
	return o
}

func sinkKind(k string) string {
	switch {
	case strings.HasPrefix(k, "passed to"):
		return "passes-borrowed-bytes"
	case strings.HasPrefix(k, "field store"):
		return "retains-borrowed-bytes"
	}
	return strings.ReplaceAll(k, " ", "-")
}

// scopePass records the positive obligations of an ownership rule: one per
// function of the scope that has byte-slice sinks at all.
func ownScopeObligations(c *Ctx, rule string, o *Own, scope func(*ssa.Function) bool, viol map[*ssa.Function]bool) {
	for _, fn := range c.Prog.Funcs() {
		if fn.Origin() != nil || fn.Blocks == nil || !scope(fn) {
			continue
		}
		has := false
		for _, b := range fn.Blocks {
			for _, in := range b.Instrs {
				if v, ok := in.(ssa.Value); ok && v.Type() != nil {
					if s, isS := v.Type().Underlying().(*types.Slice); isS {
						if bb, isB := s.Elem().Underlying().(*types.Basic); isB && bb.Kind() == types.Uint8 {
							has = true
						}
					}
				}
			}
		}
		if has && !viol[fn] {
			c.Pass(rule, ShortName(fn)+"/no-write-through-borrowed-bytes", c.Prog.FuncPos(fn), "")
		}
	}
}

func pkgScope(paths ...string) func(*ssa.Function) bool {
	return func(fn *ssa.Function) bool {
		p := PkgPathOf(fn)
		for _, x := range paths {
			if p == ModulePath+"/"+x {
				return true
			}
		}
		return false
	}
}

func ownRule(c *Ctx, rule string, scope func(*ssa.Function) bool) *Own {
	o := NewOwn(c.Prog)
	viol := o.Check(scope, borrowed)
	vf := map[*ssa.Function]bool{}
	for _, v := range viol {
		vf[v.Sink.Fn] = true
	}
	_ = runOwn(c, rule, scope)
	ownScopeObligations(c, rule, o, scope, vf)
	return o
}

// --------------------------------------------------------------------- C27

func checkC27(c *Ctx) {
	c.Rule("C27.own", "ownership of constant storage (module-wide byte-slice ownership analysis with parameter summaries): nothing writes through Const.bs / Const.Bytes() or keeps such bytes in storage that is modified later")
	c.Rule("C27.fresh", "whatever gives a Const its storage (a store to Const.bs, followed through unexported helpers to their call sites and through package functions to what they return) stores fresh storage (make / literal) or a slice of another constant's storage; an exported function never stores the caller's slice itself; nothing outside pkg/expr assigns Const.bs")
	c.Rule("C27.encode", "NewConstUint/NewConstInt fill a fresh w-byte slice in a range loop with byte(val) at the loop index and val >>= 8 per step (little-endian two's complement)")
	c.Rule("C27.range", "decision table by path enumeration behind the encoding loop: NewConstUint panics exactly when the shifted-out rest is non-zero; NewConstInt panics exactly when the rest is not the sign extension of the top stored byte (rest==0 with top<128, or rest==-1 with top>=128)")
	all := func(fn *ssa.Function) bool { return true }
	ownRule(c, "C27.own", all)
	checkConstRange(c)
	cn := c.Prog.LookupType(ExprPkg, "Const")
	bsF := FieldByName(cn, "bs")
	if bsF == nil {
		c.Undecide("C27: field Const.bs does not resolve")
		return
	}
	o := NewOwn(c.Prog)
	// every place that gives a Const its storage: a store to the field bs (in a
	// constructor helper or a composite literal). The stored slice must be
	// fresh, or a slice of another constant's storage; when it is a parameter
	// of an unexported function the rule moves to that function's call sites,
	// when it is the result of a function of the package to what that returns.
	callSites := map[*ssa.Function][]*ssa.Call{}
	for _, fn := range c.Prog.Funcs() {
		for _, cs := range Calls(fn) {
			if call, ok := cs.Instr.(*ssa.Call); ok {
				if g := Callee(cs.Common()); g != nil {
					callSites[Origin(g)] = append(callSites[Origin(g)], call)
				}
			}
		}
	}
	var judge func(v ssa.Value, fn *ssa.Function, depth int) string
	judge = func(v ssa.Value, fn *ssa.Function, depth int) string {
		if depth > 6 {
			return "storage of unknown origin"
		}
		for _, or := range o.Origins(v) {
			switch or.Kind {
			case OFresh:
			case OField:
				if or.Field.Name() != "bs" {
					return "storage taken from field " + or.Field.Name()
				}
			case OParam:
				pf := or.Param.Parent()
				if pf == nil || token.IsExported(NameOf(Origin(pf))) || pf.Signature.Recv() != nil {
					return "the caller's slice (parameter " + or.Param.Name() + ") becomes the constant's storage without a copy: the constant changes when the caller later modifies its bytes"
				}
				idx := -1
				for i, q := range pf.Params {
					if q == or.Param {
						idx = i
					}
				}
				sites := callSites[Origin(pf)]
				if idx < 0 || len(sites) == 0 {
					return "storage of unknown origin (parameter " + or.Param.Name() + " of " + ShortName(pf) + ")"
				}
				for _, call := range sites {
					if call.Parent() == nil || PkgPathOf(call.Parent()) != ExprPkg {
						continue
					}
					if call.Parent().Origin() != nil {
						continue // instantiations repeat their generic body
					}
					if idx < len(call.Call.Args) {
						if why := judge(call.Call.Args[idx], call.Parent(), depth+1); why != "" {
							return why + " (through " + ShortName(pf) + " called at " + c.Prog.Pos(call.Pos()) + ")"
						}
					}
				}
			case OCall:
				f := or.Call.Call.StaticCallee()
				if f != nil && FuncNameIs(f, "(pkg/expr.Const).Bytes") {
					continue
				}
				g := f
				if g != nil && g.Blocks == nil {
					g = Origin(g)
				}
				if g == nil || g.Blocks == nil || PkgPathOf(g) != ExprPkg {
					return "storage comes from " + or.String()
				}
				// what the function returns (the byte-slice results)
				for _, b := range g.Blocks {
					ret, ok := b.Instrs[len(b.Instrs)-1].(*ssa.Return)
					if !ok {
						continue
					}
					for _, r := range ret.Results {
						if !isByteSlice(r.Type()) {
							continue
						}
						if why := judge(r, g, depth+1); why != "" {
							return why + " (returned by " + ShortName(g) + ")"
						}
					}
				}
			default:
				return "storage of unknown origin"
			}
		}
		return ""
	}
	n := 0
	for _, fn := range c.Prog.FuncsIn(ExprPkg) {
		if fn.Blocks == nil || fn.Origin() != nil {
			continue
		}
		ord := 0
		for _, b := range fn.Blocks {
			for _, in := range b.Instrs {
				st, ok := in.(*ssa.Store)
				if !ok {
					continue
				}
				fa, ok := st.Addr.(*ssa.FieldAddr)
				if !ok || !SameField(FieldOf(fa), bsF) {
					continue
				}
				n++
				ord++
				why := judge(st.Val, fn, 0)
				c.Oblige("C27.fresh", fmt.Sprintf("%s/Const.bs=#%d", ShortName(fn), ord), c.Prog.Pos(st.Pos()), why == "", why)
			}
		}
	}
	c.RequireCount("C27.fresh places that give a Const its storage", n, 1)
	// nothing outside pkg/expr builds a Const
	bad := ""
	for _, fn := range c.Prog.Funcs() {
		if PkgPathOf(fn) == ExprPkg {
			continue
		}
		for _, b := range fn.Blocks {
			for _, in := range b.Instrs {
				if st, ok := in.(*ssa.Store); ok {
					if fa, ok := st.Addr.(*ssa.FieldAddr); ok && SameField(FieldOf(fa), bsF) {
						bad = ShortName(fn) + " at " + c.Prog.Pos(st.Pos())
					}
				}
			}
		}
	}
	c.Oblige("C27.fresh", "only-pkg-expr-writes-Const.bs", c.Prog.Pos(bsF.Pos()), bad == "", "Const.bs is assigned in "+bad)
}

// checkConstRange: C27.encode and C27.range for every built body of
// NewConstUint and NewConstInt (generic origin and instantiations).
func checkConstRange(c *Ctx) {
	n := 0
	for _, fn := range c.Prog.FuncsIn(ExprPkg) {
		if fn.Blocks == nil {
			continue
		}
		name := NameOf(Origin(fn))
		if (name != "NewConstUint" && name != "NewConstInt") || (fn.Synthetic != "" && !strings.HasPrefix(fn.Synthetic, "instance")) {
			continue
		}
		n++
		key := ShortName(fn)
		pos := c.Prog.FuncPos(fn)
		// the encoding loop: in the constructor itself or in a helper of the
		// package that it hands its value and width to
		var loop *RangeLoop
		var ms *ssa.MakeSlice
		var loopFn *ssa.Function
		var chain []*ssa.Call
		sameP := InModulePkg(fn)
		cand := []Site{{Fn: fn}}
		for _, st := range DeepCalls(fn, sameP) {
			call, ok := st.Instr.(*ssa.Call)
			if !ok {
				continue
			}
			g := call.Call.StaticCallee()
			if g != nil && g.Blocks == nil {
				g = Origin(g)
			}
			if g != nil && g.Blocks != nil && sameP(g) {
				cand = append(cand, Site{Fn: g, Chain: append(append([]*ssa.Call(nil), st.Chain...), call)})
			}
		}
		for _, cd := range cand {
			for _, l := range RangeLoops(cd.Fn) {
				if m, ok := Unwrap(l.Over).(*ssa.MakeSlice); ok && !l.IsMap && loop == nil {
					loop, ms, loopFn, chain = l, m, cd.Fn, cd.Chain
				}
			}
		}
		wOK := DependsOnVia(chain, ms.Len, sameP, func(v ssa.Value) bool { return v == ssa.Value(fn.Params[1]) }, nil)
		_ = loopFn
		// store bs[key] = byte(valPhi); valPhi' = valPhi >> 8
		var valPhi *ssa.Phi
		storeOK := false
		for b := range LoopBlocks(loop.Header) {
			for _, in := range b.Instrs {
				st, ok := in.(*ssa.Store)
				if !ok {
					continue
				}
				ia, ok := st.Addr.(*ssa.IndexAddr)
				if !ok || Unwrap(ia.X) != ssa.Value(ms) || ia.Index != loop.Key {
					continue
				}
				// byte(val): a conversion to byte (none at all when T is uint8)
				var src ssa.Value = st.Val
				switch cv := st.Val.(type) {
				case *ssa.Convert:
					src = cv.X
				case *ssa.MultiConvert:
					src = cv.X
				case *ssa.ChangeType:
					src = cv.X
				}
				if bt, isB := st.Val.Type().Underlying().(*types.Basic); !isB || bt.Kind() != types.Uint8 {
					continue
				}
				if ph, isPhi := src.(*ssa.Phi); isPhi && ph.Block() == loop.Header {
					valPhi, storeOK = ph, true
				}
			}
		}
		shiftOK := false
		if valPhi != nil {
			for i, e := range valPhi.Edges {
				pred := loop.Header.Preds[i]
				if loop.Header.Dominates(pred) {
					bo, ok := e.(*ssa.BinOp)
					k, isK := int64(0), false
					if ok {
						k, isK = ConstInt(bo.Y)
					}
					shiftOK = ok && bo.Op == token.SHR && bo.X == ssa.Value(valPhi) && isK && k == 8
				} else if up, _ := Up(chain, Unwrap(e)); Unwrap(up) != ssa.Value(fn.Params[0]) {
					storeOK = false
				}
			}
		}
		c.Oblige("C27.encode", key, pos, wOK && storeOK && shiftOK, "the constant's bytes are not byte(val), byte(val>>8), ... of the function's own value in a fresh slice of w bytes")
		if valPhi == nil {
			c.Fail("C27.range", key, pos, "the rest of the value behind the encoding loop cannot be identified")
			continue
		}
		// decision table
		var val *Valuation
		rootOf := func(v ssa.Value) ssa.Value {
			if val != nil {
				return Unwrap(val.Root(v))
			}
			return Unwrap(v)
		}
		isTop := func(v ssa.Value) bool {
			ld, ok := v.(*ssa.UnOp)
			if !ok || ld.Op != token.MUL {
				return false
			}
			ia, ok := ld.X.(*ssa.IndexAddr)
			if !ok || rootOf(ia.X) != ssa.Value(ms) {
				return false
			}
			base, off := LinOff(ia.Index)
			if off != -1 {
				return false
			}
			// bs[w-1]: the slice was made with w bytes
			if p, isP := Unwrap(base).(*ssa.Parameter); isP && TypeNameIs(p.Type(), "pkg/expr.Width") {
				return true
			}
			if cv, isCv := base.(*ssa.Convert); isCv {
				if p, isP := Unwrap(cv.X).(*ssa.Parameter); isP && TypeNameIs(p.Type(), "pkg/expr.Width") {
					return true
				}
			}
			call, isCall := base.(*ssa.Call)
			if !isCall {
				return false
			}
			bi, isBi := call.Call.Value.(*ssa.Builtin)
			return isBi && bi.Name() == "len" && rootOf(call.Call.Args[0]) == ssa.Value(ms)
		}
		bad := ""
		for _, rest := range []int64{0, -1, 1, -2, 200} {
			if name == "NewConstUint" && rest < 0 {
				continue
			}
			for _, top := range []int64{0, 0x7f, 0x80, 0xff} {
				val = &Valuation{Enter: SamePackage(fn), Int: func(v ssa.Value) (int64, bool) {
					if v == ssa.Value(valPhi) {
						return rest, true
					}
					if isTop(v) {
						return top, true
					}
					// the width itself: the table is for w = 4
					if p, ok := v.(*ssa.Parameter); ok && p.Parent() == fn && TypeNameIs(p.Type(), "pkg/expr.Width") {
						return 4, true
					}
					// len(bs) of the w-byte slice: the table is for w >= 1
					if call, ok := v.(*ssa.Call); ok {
						if bi, isBi := call.Call.Value.(*ssa.Builtin); isBi && bi.Name() == "len" && Unwrap(val.Root(call.Call.Args[0])) == ssa.Value(ms) {
							return 4, true
						}
					}
					return 0, false
				}}
				res := val.Walk(fn.Blocks[0], nil)
				if !res.OK {
					bad = fmt.Sprintf("with rest=%d top byte=%#x the accept/reject decision cannot be followed: %s", rest, top, res.Why)
					break
				}
				_, panics := res.End.(*ssa.Panic)
				want := rest != 0
				if name == "NewConstInt" {
					want = !((rest == 0 && top < 128) || (rest == -1 && top >= 128))
				}
				if panics != want {
					verdict := map[bool]string{true: "rejected", false: "accepted"}
					bad = fmt.Sprintf("a value whose bytes above w are %d and whose top stored byte is %#x is %s but must be %s", rest, top, verdict[panics], verdict[want])
					break
				}
			}
			if bad != "" {
				break
			}
		}
		c.Oblige("C27.range", key, pos, bad == "", bad)
	}
	c.RequireCount("C27.range constructor bodies (NewConstUint, NewConstInt, generic and instantiated)", n, 2)
}

// --------------------------------------------------------------------- C15

func checkC15(c *Ctx) {
	c.Rule("C15.own", "byte memory never writes through, or keeps in its (mutable) blocks, a byte slice it was handed (a constant's storage, a ByteBlock's bytes)")
	c.Rule("C15.set", "set algebra by truth table: Bytes.Missing = [addr,addr+w) \\ blocks; Bytes.Blocks = blocks")
	c.Rule("C15.idiom", "dedupBlocks compacts in place and returns bs[:j]")
	c.Rule("C15.overlap", "dedupBlocks returns an error on the edge prev.end() > next.begin; NewBytes copies every block's bytes, sorts by begin, and propagates that error")
	c.Rule("C15.load", "Bytes.Load returns expr.NewConst (a copy) of the block's bytes only when the address was found in a block that reaches the end of the read; Store panics on non-constants")
	c.Rule("C15.shift", "memmove direction: an in-place element shift s[i+k] = s[i] walks against the direction of travel (or uses the overlap-safe builtin copy); Bytes.store opens the slot it fills by such a shift of everything from the insertion index")
	ownRule(c, "C15.own", pkgScope(pkgMemory))
	checkShifts(c, "C15.shift", pkgMemory)
	if st := anchor(c, "(*"+pkgMemory+".Bytes).Store"); st != nil {
		// wherever Store (or a helper it is split into) puts a new block into
		// the block list
		fns := map[*ssa.Function]bool{st: true}
		for _, site := range DeepCalls(st, InModulePkg(st)) {
			fns[site.Fn] = true
		}
		var order []*ssa.Function
		for fn := range fns {
			order = append(order, fn)
		}
		sort.Slice(order, func(i, j int) bool { return order[i].String() < order[j].String() })
		nIns := 0
		for _, fn := range order {
			nIns += checkInsertion(c, "C15.shift", fn, "blocks")
		}
		c.RequireCount("C15.shift insertion of a new block reached from Bytes.Store", nIns, 1)
	}
	checkSetTerm(c, "C15.set", "(*"+pkgMemory+".Bytes).Missing", []string{"whole", "blocks"},
		func(a map[string]bool) bool { return a["whole"] && !a["blocks"] }, "[addr,addr+w) \\ blocks")
	checkSetTerm(c, "C15.set", "(*"+pkgMemory+".Bytes).Blocks", []string{"blocks"},
		func(a map[string]bool) bool { return a["blocks"] }, "blocks")
	if im := anchor(c, "(*"+pkgMemory+".Bytes).intervalMap"); im != nil {
		// every block contributes its interval()
		ok := false
		for _, l := range RangeLoops(im) {
			if LoadOfField(l.Over, "blocks", func(v ssa.Value) bool { return v == ssa.Value(im.Params[0]) }) {
				ok = true
			}
		}
		c.Oblige("C15.set", ShortName(im), c.Prog.FuncPos(im), ok, "intervalMap does not range over all blocks")
	}
	if dd := anchor(c, pkgMemory+".dedupBlocks"); dd != nil {
		n := checkCompaction(c, "C15.idiom", dd)
		c.RequireCount("C15.idiom compaction loop in dedupBlocks", n, 1)
		// overlap error
		found := false
		for _, b := range dd.Blocks {
			ret, ok := b.Instrs[len(b.Instrs)-1].(*ssa.Return)
			if !ok || IsNilConst(ret.Results[1]) {
				continue
			}
			for _, g := range GuardsOf(b) {
				bo, ok := g.Cond.(*ssa.BinOp)
				if !ok {
					continue
				}
				isEnd := func(v ssa.Value) bool { return matches(v, Method("end", Any())) }
				isBegin := func(v ssa.Value) bool { n, _, ok := FieldNameOfLoad(v); return ok && n == "begin" }
				if (bo.Op == token.GTR && isEnd(bo.X) && isBegin(bo.Y) && g.Outcome) || (bo.Op == token.LSS && isBegin(bo.X) && isEnd(bo.Y) && g.Outcome) ||
					(bo.Op == token.LEQ && isEnd(bo.X) && isBegin(bo.Y) && !g.Outcome) {
					found = true
				}
			}
		}
		c.Oblige("C15.overlap", ShortName(dd), c.Prog.FuncPos(dd), found, "overlapping blocks (prev.end() > next.begin) are not rejected with an error")
	}
	// --- C15.norm: Store re-normalises the block list as a whole
	if st := anchor(c, "(*"+pkgMemory+".Bytes).Store"); st != nil {
		c.Rule("C15.norm", "after a write Bytes.Store normalises the whole block list: every dedupBlocks it reaches is given all blocks, never a part of the list (one write can insert several blocks, each of which may touch its neighbours)")
		n := 0
		for _, s := range DeepCalls(st, InModulePkg(st)) {
			call, ok := s.Instr.(*ssa.Call)
			if !ok || call.Call.StaticCallee() == nil || NameOf(Origin(call.Call.StaticCallee())) != "dedupBlocks" {
				continue
			}
			n++
			partial := DependsOnVia(s.Chain, call.Call.Args[0], InModulePkg(st), func(v ssa.Value) bool {
				sl, isSl := v.(*ssa.Slice)
				return isSl && (sl.Low != nil || sl.High != nil)
			}, nil)
			c.Oblige("C15.norm", fmt.Sprintf("%s/dedupBlocks#%d", ShortName(s.Fn), n), c.Prog.Pos(call.Pos()), !partial, "only a part of the block list is normalised after the write: blocks outside it that became adjacent stay unmerged and reads across them fail")
		}
		c.RequireCount("C15.norm dedupBlocks reached from Bytes.Store", n, 1)
	}
	if nb := anchor(c, pkgMemory+".NewBytes"); nb != nil {
		n := checkErrflow(c, "C15.overlap", []string{pkgMemory}, nil)
		c.RequireCount("C15.overlap error-returning calls in package memory", n, 1)
		sorted, copied := false, false
		var dedupCall, sortCall *ssa.Call
		for _, cs := range Calls(nb) {
			f := Callee(cs.Common())
			if f == nil {
				if bi, ok := cs.Common().Value.(*ssa.Builtin); ok && bi.Name() == "copy" {
					if DependsOn(cs.Common().Args[1], func(v ssa.Value) bool {
						call, ok := v.(*ssa.Call)
						return ok && call.Call.IsInvoke() && call.Call.Method.Name() == "Bytes"
					}) {
						if _, isMake := Unwrap(cs.Common().Args[0]).(*ssa.MakeSlice); isMake {
							copied = true
						}
					}
				}
				continue
			}
			if sortsAscending(cs.Common(), func(v ssa.Value) bool { n, _, ok := FieldNameOfLoad(v); return ok && n == "begin" }) {
				sorted = true
				sortCall, _ = cs.Instr.(*ssa.Call)
			}
			if NameOf(f) == "dedupBlocks" {
				dedupCall, _ = cs.Instr.(*ssa.Call)
			}
		}
		order := sortCall != nil && dedupCall != nil && InstrDominates(sortCall, dedupCall)
		c.Oblige("C15.overlap", ShortName(nb), c.Prog.FuncPos(nb), sorted && copied && order, "NewBytes must copy each block's bytes into fresh storage, sort the blocks by address and only then merge/check them")
	}
	if ld := anchor(c, "(*"+pkgMemory+".Bytes).Load"); ld != nil {
		n := 0
		for _, b := range ld.Blocks {
			ret, ok := b.Instrs[len(b.Instrs)-1].(*ssa.Return)
			if !ok || !matches(ret.Results[1], BoolPat(true)) {
				continue
			}
			n++
			copyOK := matches(ret.Results[0], CallTo("pkg/expr.NewConst", Any(), ParamN(2)))
			found, reach := false, false
			for _, g := range GuardsOf(b) {
				if matches(g.Cond, ExtractN(1, Method("address", ParamN(0), ParamN(1)))) && g.Outcome {
					found = true
				}
				if bo, isBin := g.Cond.(*ssa.BinOp); isBin && matches(bo.X, Method("end", Any())) {
					if (bo.Op == token.LSS && !g.Outcome) || (bo.Op == token.GEQ && g.Outcome) {
						reach = true
					}
				}
			}
			c.Oblige("C15.load", ShortName(ld)+"/success", c.Prog.Pos(ret.Pos()), copyOK && found && reach, "a read succeeds without the address being inside a block that covers the whole range, or hands out the block's own bytes instead of a copy")
		}
		c.RequireCount("C15.load success return", n, 1)
	}
	if st := anchor(c, "(*"+pkgMemory+".Bytes).Store"); st != nil {
		// non-Const panics
		ok := false
		for _, b := range st.Blocks {
			if BlockExit(b) != ExitPanic {
				continue
			}
			for _, g := range GuardsOf(b) {
				if ex, isEx := g.Cond.(*ssa.Extract); isEx && ex.Index == 1 && !g.Outcome {
					if ta, isTA := ex.Tuple.(*ssa.TypeAssert); isTA && TypeNameIs(ta.AssertedType, "pkg/expr.Const") {
						ok = true
					}
				}
			}
		}
		c.Oblige("C15.load", ShortName(st)+"/non-constant", c.Prog.FuncPos(st), ok, "storing a non-constant is not rejected")
		// all bytes of the constant at width w are stored: loop until len(bs)==0 advancing by n
		widthOK := false
		for _, cs := range Calls(st) {
			if f := Callee(cs.Common()); f != nil && NameOf(f) == "WithWidth" && len(cs.Common().Args) == 2 && cs.Common().Args[1] == ssa.Value(st.Params[3]) {
				widthOK = true
			}
		}
		c.Oblige("C15.load", ShortName(st)+"/write-width", c.Prog.FuncPos(st), widthOK, "the constant is not adjusted to the write width before being stored")
	}
}

// checkShifts judges every in-place element shift of the package by the
// memmove direction rule. The count may be zero (builtin copy is overlap-safe).
func checkShifts(c *Ctx, rule, pkg string) int {
	n := 0
	for _, fn := range c.Prog.FuncsIn(ModulePath + "/" + pkg) {
		for i, sh := range FindShifts(fn) {
			n++
			c.Oblige(rule, fmt.Sprintf("%s/shift#%d", ShortName(fn), i+1), c.Prog.Pos(sh.Store.Pos()), sh.Safe(),
				fmt.Sprintf("elements travel by %+d but the loop walks %s: each element is overwritten before it is moved, so one element is smeared over the rest", sh.K, dirName(sh.Dir)))
		}
	}
	c.Note(fmt.Sprintf("%s: %d in-place shift loops judged in %s", rule, n, pkg))
	return n
}

// mayFollow: b may execute after a.
func mayFollow(a, b ssa.Instruction) bool {
	found := false
	ReachableFromInstr(a, func(in ssa.Instruction) {
		if in == b {
			found = true
		}
	})
	return found
}

func dirName(d int) string {
	switch {
	case d > 0:
		return "upwards"
	case d < 0:
		return "downwards"
	}
	return "in an undetermined direction"
}

// checkInsertion: fn stores a fresh element into field[idx] of a slice that it
// has just grown by one; everything from idx must have been moved one slot up
// first: by copy(s[idx+1:], s[idx:]) or by a safe shift loop with K=+1.
func checkInsertion(c *Ctx, rule string, fn *ssa.Function, field string) int {
	isField := func(v ssa.Value) bool {
		n, _, ok := FieldNameOfLoad(v)
		return ok && n == field
	}
	n := 0
	for _, b := range fn.Blocks {
		for _, in := range b.Instrs {
			st, ok := in.(*ssa.Store)
			if !ok {
				continue
			}
			dst, ok := st.Addr.(*ssa.IndexAddr)
			if !ok || !isField(dst.X) {
				continue
			}
			if ld, isLd := st.Val.(*ssa.UnOp); isLd {
				if src, isIdx := ld.X.(*ssa.IndexAddr); isIdx && isField(src.X) {
					continue // a move within the slice, judged as a shift
				}
			}
			n++
			opened := false
			why := "no shift of the elements from the insertion index precedes the store: the element at that index is overwritten (or duplicated)"
			for _, sh := range FindShifts(fn) {
				if !isField(sh.S) || sh.K != 1 {
					continue
				}
				if !sh.Safe() {
					why = "the slot is opened by a shift loop that walks with the direction of travel"
					continue
				}
				if mayFollow(sh.Store, st) {
					opened = true
				}
			}
			for _, cs := range Calls(fn) {
				bi, isBi := cs.Common().Value.(*ssa.Builtin)
				if !isBi || bi.Name() != "copy" {
					continue
				}
				d, dOK := cs.Common().Args[0].(*ssa.Slice)
				s, sOK := cs.Common().Args[1].(*ssa.Slice)
				if !dOK || !sOK || !isField(d.X) || !isField(s.X) || d.Low == nil || s.Low == nil {
					continue
				}
				db, doff := LinOff(d.Low)
				sb, soff := LinOff(s.Low)
				ib, ioff := LinOff(dst.Index)
				if SameValue(db, sb) && SameValue(sb, ib) && doff-soff == 1 && soff == ioff && mayFollow(cs.Instr, st) {
					opened = true
				}
			}
			c.Oblige(rule, ShortName(fn)+"/insert", c.Prog.Pos(st.Pos()), opened, why)
		}
	}
	return n
}

// --------------------------------------------------------------------- C16

func checkC16(c *Ctx) {
	c.Rule("C16.set", "set algebra by truth table: Overlay.Missing = base.Missing ∩ overlay.Missing; Overlay.Blocks = base.Blocks ∪ overlay.Blocks; in Load the ranges read from the overlay are [addr,addr+w) \\ overlay.Missing and the ranges read from the base are overlay.Missing")
	c.Rule("C16.ops", "the interval operators the set algebra stands on: MapUnion, MapComplement and MapIntersect, walked for every pair of sets of up to 2 intervals with endpoints in 0..6, yield the normal form of union, difference and intersection without leaving their lists; their per-interval helpers (when they have one), walked for every ordering of an interval and a sorted list of up to 3, emit exactly the pieces and report as consumed only list elements that end at or before the interval")
	checkIntervalOps(c, "C16.ops")
	checkIntervalOperators(c, map[string]string{"MapUnion": "C16.ops", "MapComplement": "C16.ops", "MapIntersect": "C16.ops"})
	c.Rule("C16.ro", "the base layer is read-only: on Overlay.base only Load, Missing and Blocks are ever invoked; Overlay.Store delegates to the overlay layer with its own arguments; no Store is invoked on anything obtained from Overlay.Base()")
	c.Rule("C16.load", "Overlay.Load: nothing missing in the overlay -> overlay.Load(addr,w); everything missing -> base.Load(addr,w); otherwise every range is read with (Begin(), Len()) of its interval, a failed base read returns (nil,false), pieces are sorted by Begin(), the first is taken as is and every other piece is shifted by (Begin()-addr) bytes with Lsh and OR-ed at width w")
	checkSetTerm(c, "C16.set", "(*"+pkgMemory+".Overlay).Missing", []string{"base.Missing", "overlay.Missing"},
		func(a map[string]bool) bool { return a["base.Missing"] && a["overlay.Missing"] }, "base.Missing ∩ overlay.Missing")
	checkSetTerm(c, "C16.set", "(*"+pkgMemory+".Overlay).Blocks", []string{"base.Blocks", "overlay.Blocks"},
		func(a map[string]bool) bool { return a["base.Blocks"] || a["overlay.Blocks"] }, "base.Blocks ∪ overlay.Blocks")

	ov := c.Prog.LookupType(ModulePath+"/"+pkgMemory, "Overlay")
	baseF := FieldByName(ov, "base")
	if baseF == nil {
		c.Undecide("C16: field Overlay.base does not resolve")
		return
	}
	// --- read-only base
	nInv := 0
	for _, fn := range c.Prog.Funcs() {
		if fn.Origin() != nil {
			continue
		}
		for _, cs := range Calls(fn) {
			if !cs.Common().IsInvoke() {
				continue
			}
			fromBase := DependsOn(cs.Common().Value, func(v ssa.Value) bool {
				if fa, ok := v.(*ssa.FieldAddr); ok && SameField(FieldOf(fa), baseF) {
					return true
				}
				if f, ok := v.(*ssa.Field); ok && SameField(FieldOf(f), baseF) {
					return true
				}
				if call, ok := v.(*ssa.Call); ok && FuncNameIs(call.Call.StaticCallee(), "("+pkgMemory+".Overlay).Base") {
					return true
				}
				return false
			})
			if !fromBase {
				// the layer handed to a helper of the package as a parameter
				if p, isParam := Unwrap(cs.Common().Value).(*ssa.Parameter); isParam && PkgPathOf(fn) == ModulePath+"/"+pkgMemory {
					idx := -1
					for i, q := range fn.Params {
						if q == p {
							idx = i
						}
					}
					for _, caller := range c.Prog.FuncsIn(ModulePath + "/" + pkgMemory) {
						for _, cs2 := range CallsTo(caller, fn) {
							if idx >= 0 && idx < len(cs2.Common().Args) && DependsOn(cs2.Common().Args[idx], func(v ssa.Value) bool {
								if fa, ok := v.(*ssa.FieldAddr); ok && SameField(FieldOf(fa), baseF) {
									return true
								}
								f, ok := v.(*ssa.Field)
								return ok && SameField(FieldOf(f), baseF)
							}) {
								fromBase = true
							}
						}
					}
				}
			}
			if !fromBase {
				continue
			}
			nInv++
			m := cs.Common().Method.Name()
			key := ShortName(fn) + "/base." + m
			if m == "Load" || m == "Missing" || m == "Blocks" {
				c.Pass("C16.ro", key, c.Prog.Pos(cs.Pos()), "")
			} else {
				c.Fail("C16.ro", key, c.Prog.Pos(cs.Pos()), "method "+m+" is invoked on the base layer: the read-only program image could be modified")
			}
		}
	}
	c.RequireCount("C16.ro invocations on the base layer", nInv, 3)
	if st := anchor(c, "(*"+pkgMemory+".Overlay).Store"); st != nil {
		n, ok := 0, false
		for _, cs := range Calls(st) {
			n++
			if cs.Common().IsInvoke() && cs.Common().Method.Name() == "Store" {
				name, base, isF := FieldNameOfLoad(cs.Common().Value)
				a := cs.Common().Args
				ok = isF && name == "overlay" && base == ssa.Value(st.Params[0]) && a[0] == ssa.Value(st.Params[1]) && a[1] == ssa.Value(st.Params[2]) && a[2] == ssa.Value(st.Params[3])
			}
		}
		c.Oblige("C16.ro", ShortName(st), c.Prog.FuncPos(st), ok && n == 1, "Overlay.Store must be exactly o.overlay.Store(addr, ex, w)")
	}

	// --- Load
	ld := anchor(c, "(*"+pkgMemory+".Overlay).Load")
	if ld == nil {
		return
	}
	key := ShortName(ld)
	atom := layerAtom(ld)
	layerLoad := map[string]int{}
	enterLd := InModulePkg(ld)
	for _, site := range DeepInstrs(ld, enterLd, func(in ssa.Instruction) bool {
		call, ok := in.(*ssa.Call)
		return ok && call.Call.IsInvoke() && call.Call.Method.Name() == "Load"
	}) {
		call := site.Instr.(*ssa.Call)
		layer, base, isF := FieldNameOfLoad(site.UpRoot(call.Call.Value))
		if !isF || base != ssa.Value(ld.Params[0]) {
			continue
		}
		// the whole-range delegations are the fast paths (below)
		if Unwrap(site.UpRoot(call.Call.Args[0])) == ssa.Value(ld.Params[1]) && Unwrap(site.UpRoot(call.Call.Args[1])) == ssa.Value(ld.Params[2]) {
			continue
		}
		// a range read: inside a loop over Intervals() of a set
		var loop *RangeLoop
		for _, l := range RangeLoops(site.Fn) {
			if LoopBlocks(l.Header)[call.Block()] {
				loop = l
			}
		}
		k := key + "/ranges-read-from-" + layer
		if loop == nil {
			c.Fail("C16.set", k, c.Prog.Pos(call.Pos()), "the layer is read for a range that is not an element of a list of intervals")
			continue
		}
		intervals, ok := Unwrap(site.UpRoot(loop.Over)).(*ssa.Call)
		if !ok || intervals.Call.StaticCallee() == nil || NameOf(Origin(intervals.Call.StaticCallee())) != "Intervals" {
			c.Fail("C16.set", k, c.Prog.Pos(call.Pos()), "the ranges read are not the Intervals() of a set")
			continue
		}
		setV := intervals.Call.Args[0]
		layerLoad[layer]++
		t, err := SetTermOf(setV, atom)
		if err != nil {
			c.Fail("C16.set", k, c.Prog.Pos(call.Pos()), "not a set-algebra term: "+err.Error())
			continue
		}
		var spec func(map[string]bool) bool
		specText := ""
		if layer == "overlay" {
			spec = func(a map[string]bool) bool { return a["whole"] && !a["overlay.Missing"] }
			specText = "[addr,addr+w) \\ overlay.Missing"
		} else {
			// overlay.Missing is a subset of the whole range by its contract
			spec = func(a map[string]bool) bool { return a["overlay.Missing"] }
			specText = "overlay.Missing"
		}
		if ok, cex := t.Equivalent([]string{"whole", "overlay.Missing"}, func(a map[string]bool) bool {
			if a["overlay.Missing"] && !a["whole"] {
				return t.Eval(a) // outside the contract: don't care
			}
			return spec(a)
		}); ok {
			c.Pass("C16.set", k, c.Prog.Pos(call.Pos()), t.Text)
		} else {
			c.Fail("C16.set", k, c.Prog.Pos(call.Pos()), fmt.Sprintf("the %s layer is read for %s, specified %s; they differ for an address with %v", layer, t.Text, specText, cex))
		}
		// (Begin(), Len()) of the loop element
		isElem := func(v ssa.Value, _ *Bind) bool {
			idx, ok := elemLoadIndex(v, loop.Over)
			return ok && idx == loop.Key
		}
		argOK := matches(call.Call.Args[0], Method("Begin", isElem)) && matches(call.Call.Args[1], Conv(Method("Len", isElem)))
		c.Oblige("C16.load", key+"/"+layer+"-read-args", c.Prog.Pos(call.Pos()), argOK, "the layer is not read with (Begin(), Len()) of the interval being processed")
	}
	if layerLoad["base"] < 1 || layerLoad["overlay"] < 1 {
		c.Undecide("C16.load: expected a loop reading the base and one reading the overlay (found %v)", layerLoad)
	}
	// a failed read, walked concretely for one interval per layer: a byte
	// available in neither layer makes the whole read fail with (nil, false);
	// a failing overlay read (the overlay said it has the bytes) is a bug
	for _, sc := range []struct {
		name           string
		baseOK, overOK bool
	}{{"both-layers-answer", true, true}, {"base-read-failure", false, true}, {"overlay-read-failure", true, false}} {
		sc := sc
		var vl *Valuation
		vl = &Valuation{
			Enter: SamePackage(ld),
			Int: func(v ssa.Value) (int64, bool) {
				if call, ok := v.(*ssa.Call); ok {
					if bi, isBi := call.Call.Value.(*ssa.Builtin); isBi && bi.Name() == "len" {
						return 1, true
					}
					if f := call.Call.StaticCallee(); f != nil && NameOf(Origin(f)) == "Len" && PkgPathOf(f) == IntervalPkg {
						return 1, true
					}
				}
				return 0, false
			},
			Bool: func(v ssa.Value) (bool, bool) {
				switch x := v.(type) {
				case *ssa.Call:
					if f := x.Call.StaticCallee(); f != nil && NameOf(Origin(f)) == "Equal" && PkgPathOf(f) == IntervalPkg {
						return false, true // part of the range is in the overlay
					}
				case *ssa.Extract:
					if call, ok := x.Tuple.(*ssa.Call); ok && x.Index == 1 && call.Call.IsInvoke() && call.Call.Method.Name() == "Load" {
						layer, _, _ := FieldNameOfLoad(vl.Root(call.Call.Value))
						switch layer {
						case "base":
							return sc.baseOK, true
						case "overlay":
							return sc.overOK, true
						}
					}
				}
				return false, false
			},
		}
		res := vl.Walk(ld.Blocks[0], nil)
		why := ""
		_, panics := res.End.(*ssa.Panic)
		switch {
		case !res.OK:
			why = "the read cannot be followed: " + res.Why
		case sc.baseOK && sc.overOK:
			if ok, known := res.RetBool[1]; panics || !known || !ok {
				why = "a read whose ranges are all answered does not succeed"
			}
		case !sc.baseOK:
			ok, known := res.RetBool[1]
			if isNil, kn := res.RetNil[0]; panics || !known || ok || !kn || !isNil {
				why = "a byte available in neither layer does not make the read fail with (nil, false)"
			}
		case !sc.overOK:
			if !panics {
				why = "an overlay read that fails although the overlay reported the bytes present is not treated as a bug"
			}
		}
		c.Oblige("C16.load", key+"/"+sc.name, c.Prog.FuncPos(ld), why == "", why)
	}
	// fast paths
	for _, b := range ld.Blocks {
		ret, ok := b.Instrs[len(b.Instrs)-1].(*ssa.Return)
		if !ok {
			continue
		}
		bd, isDeleg := Match(ret.Results[0], ExtractN(0, Invoke("Load", Capture("layer", Any()), ParamN(1), ParamN(2))))
		if !isDeleg {
			continue
		}
		layer, _, _ := FieldNameOfLoad(bd.M["layer"])
		k := key + "/fast-path-" + layer
		good := false
		for _, g := range GuardsOf(b) {
			switch layer {
			case "overlay":
				// missing.Len() == 0
				if bo, isBin := g.Cond.(*ssa.BinOp); isBin && bo.Op == token.EQL && g.Outcome {
					if matches(bo.X, Method("Len", func(v ssa.Value, _ *Bind) bool { return atom(Unwrap(v)) == "overlay.Missing" })) && matches(bo.Y, IntPat(0)) {
						good = true
					}
				}
			case "base":
				if call, isCall := g.Cond.(*ssa.Call); isCall && g.Outcome && call.Call.StaticCallee() != nil && NameOf(Origin(call.Call.StaticCallee())) == "Equal" {
					x, y := atom(Unwrap(call.Call.Args[0])), atom(Unwrap(call.Call.Args[1]))
					if (x == "whole" && y == "overlay.Missing") || (y == "whole" && x == "overlay.Missing") {
						good = true
					}
				}
			}
		}
		c.Oblige("C16.load", k, c.Prog.Pos(ret.Pos()), good, "the whole read is delegated to the "+layer+" layer under the wrong condition")
	}
	// sort + shift + or
	sortOK := false
	for _, st := range DeepCalls(ld, enterLd) {
		cs := st.Call()
		if sortsAscending(cs.Common(), isBeginKey) {
			sortOK = true
		}
	}
	c.Oblige("C16.load", key+"/pieces-sorted-by-address", c.Prog.FuncPos(ld), sortOK, "the pieces are not sorted by Begin() before being combined")
	off := anchor(c, pkgMemory+".offsetExpr")
	nOff := 0
	if off != nil {
		for _, st := range DeepCalls(ld, enterLd) {
			cs := st.Call()
			if !SameFunc(Callee(cs.Common()), off) {
				continue
			}
			nOff++
			a := cs.Common().Args
			// bytes = Width(r.intv.Begin() - addr), addr and w being Load's own
			shiftOK := false
			if bd, ok := Match(a[1], Conv(Bin(token.SUB, Method("Begin", Any()), Capture("addr", Any())))); ok {
				shiftOK = Unwrap(st.UpRoot(bd.M["addr"])) == ssa.Value(ld.Params[1]) && Unwrap(st.UpRoot(a[2])) == ssa.Value(ld.Params[2])
			}
			wParam, _ := Unwrap(a[2]).(*ssa.Parameter)
			// same r for ex and intv: both fields of the same loop element
			call := st.Instr.(*ssa.Call)
			orOK := false
			if refs := call.Referrers(); refs != nil {
				for _, r := range *refs {
					if mi, ok := r.(*ssa.MakeInterface); ok {
						_ = mi
					}
					if bo, ok := r.(*ssa.Call); ok && FuncNameIs(bo.Call.StaticCallee(), pkgTools+".BitOr") && Unwrap(st.UpRoot(bo.Call.Args[2])) == ssa.Value(ld.Params[2]) {
						orOK = true
					}
				}
			}
			if !orOK && wParam != nil {
				// through MakeInterface
				orOK = usedByBitOr(call, wParam)
			}
			c.Oblige("C16.load", key+"/shift-and-or", c.Prog.Pos(cs.Pos()), shiftOK && orOK, "a piece is not shifted by (piece.Begin() - addr) bytes and OR-ed into the result at width w")
		}
		c.RequireCount("C16.load offsetExpr call", nOff, 1)
		// offsetExpr = NewBinary(Lsh, ex, ConstFromUint(bytes.Bits()), w)
		ep := c.Prog.SSAPkg[ExprPkg]
		lsh := int64(-1)
		if ep != nil && ep.Const("Lsh") != nil {
			lsh = ep.Const("Lsh").Value.Int64()
		}
		ok := false
		for _, b := range off.Blocks {
			if ret, isRet := b.Instrs[len(b.Instrs)-1].(*ssa.Return); isRet {
				ok = matches(ret.Results[0], CallTo("pkg/expr.NewBinary", IntPat(lsh), ParamN(0), CallTo("pkg/expr.ConstFromUint", Method("Bits", ParamN(1))), ParamN(2)))
			}
		}
		c.Oblige("C16.load", ShortName(off), c.Prog.FuncPos(off), ok && lsh >= 0, "offsetExpr is not NewBinary(Lsh, ex, ConstFromUint(bytes.Bits()), w)")
	}
}

func usedByBitOr(v ssa.Value, w *ssa.Parameter) bool {
	refs := v.Referrers()
	if refs == nil {
		return false
	}
	for _, r := range *refs {
		switch x := r.(type) {
		case *ssa.MakeInterface:
			if usedByBitOr(x, w) {
				return true
			}
		case *ssa.Call:
			if FuncNameIs(x.Call.StaticCallee(), pkgTools+".BitOr") && len(x.Call.Args) == 3 && x.Call.Args[2] == ssa.Value(w) {
				return true
			}
		}
	}
	return false
}

// --------------------------------------------------------------------- C14

func checkC14(c *Ctx) {
	c.Rule("C14.cut", "ghost intervals (E8): every cutExpr put into the tree by Sparse.Store covers exactly the address interval it is stored under; in Sparse.Load the piece taken from an overlapping interval o covers exactly [max(addr,o.Low), min(end,o.High)), is shifted by (piece.low - addr) bytes and OR-ed at width w; cutBegin(L)/cutEnd(L) keep the last/first L bytes")
	c.Rule("C14.miss", "Sparse.Missing emits a gap interval.New(a, b) only under a comparison establishing a < b (or a != b for consecutive sorted intervals): before the first overlap, between overlaps, after the last one; with no overlap the whole range is missing")
	c.Rule("C14.bits", "byte counts of type expr.Width (8 bits) are turned into bit counts only after being widened: in packages memory and expr no multiplication or left shift by a constant is carried out in an 8-bit type (offsets of 32 bytes and more would wrap)")
	checkNarrowScaling(c, "C14.bits", []string{ModulePath + "/" + pkgMemory, ExprPkg})
	c.Rule("C14.own", "sparse memory never writes through a byte slice it was handed")
	c.Rule("C14.whole", "Sparse.Load fails unless wholeInterval(addr, end, overlaps) holds; wholeInterval, walked concretely on 16 interval lists, is true exactly for a non-empty contiguous list that starts at or before begin and ends at or after end")
	ownRule(c, "C14.own", func(fn *ssa.Function) bool {
		if PkgPathOf(fn) != ModulePath+"/"+pkgMemory {
			return false
		}
		pos := c.Prog.FuncPos(fn)
		return strings.Contains(pos, "sparse.go") || strings.Contains(pos, "cut.go")
	})
	checkGhost(c)
	checkSparseKeep(c)
	if ms := anchor(c, "(*"+pkgMemory+".Sparse).Missing"); ms != nil {
		n := 0
		for _, cs := range Calls(ms) {
			f := Callee(cs.Common())
			if f == nil || PkgPathOf(f) != IntervalPkg || NameOf(Origin(f)) != "New" {
				continue
			}
			n++
			a := cs.Common().Args
			key := fmt.Sprintf("%s/gap#%d", ShortName(ms), n)
			if IsWholeRange(cs.Instr.(*ssa.Call), ms.Params[1], ms.Params[2]) {
				// the no-overlap case
				g := false
				for _, gd := range GuardsOf(cs.Block()) {
					if bo, ok := gd.Cond.(*ssa.BinOp); ok && bo.Op == token.EQL && gd.Outcome && matches(bo.Y, IntPat(0)) {
						g = true
					}
				}
				c.Oblige("C14.miss", key+"(whole)", c.Prog.Pos(cs.Pos()), g, "the whole range is reported missing although overlapping intervals exist")
				continue
			}
			g := false
			for _, gd := range GuardsOf(cs.Block()) {
				bo, ok := gd.Cond.(*ssa.BinOp)
				if !ok {
					continue
				}
				x, y := bo.X, bo.Y
				lt := (bo.Op == token.LSS && gd.Outcome) || (bo.Op == token.GEQ && !gd.Outcome)
				gt := (bo.Op == token.GTR && gd.Outcome) || (bo.Op == token.LEQ && !gd.Outcome)
				ne := (bo.Op == token.NEQ && gd.Outcome) || (bo.Op == token.EQL && !gd.Outcome)
				switch {
				case SameValue(x, a[0]) && SameValue(y, a[1]) && (lt || ne):
					g = true
				case SameValue(x, a[1]) && SameValue(y, a[0]) && (gt || ne):
					g = true
				}
			}
			c.Oblige("C14.miss", key, c.Prog.Pos(cs.Pos()), g, "a gap [a, b) is reported without a dominating comparison of exactly a and b that makes it non-empty")
		}
		c.RequireCount("C14.miss interval.New sites in Sparse.Missing", n, 4)
	}
	if ld := anchor(c, "(*"+pkgMemory+".Sparse).Load"); ld != nil {
		// wholeInterval gate
		ok := false
		for _, b := range ld.Blocks {
			ret, isRet := b.Instrs[len(b.Instrs)-1].(*ssa.Return)
			if !isRet || !matches(ret.Results[1], BoolPat(true)) {
				continue
			}
			for _, g := range GuardsOf(b) {
				if call, isCall := g.Cond.(*ssa.Call); isCall && g.Outcome && call.Call.StaticCallee() != nil && NameOf(call.Call.StaticCallee()) == "wholeInterval" {
					a := call.Call.Args
					if a[0] == ssa.Value(ld.Params[1]) && matches(a[1], Bin(token.ADD, ParamN(1), Conv(ParamN(2)))) {
						ok = true
					}
				}
			}
		}
		c.Oblige("C14.whole", ShortName(ld), c.Prog.FuncPos(ld), ok, "a read can succeed without wholeInterval(addr, addr+w, overlaps) having been established")
	}
	if wi := anchor(c, pkgMemory+".wholeInterval"); wi != nil {
		// wholeInterval(begin, end, ints), walked concretely on lists of up to
		// three intervals: true exactly when the list is non-empty, starts at or
		// before begin, is contiguous, and ends at or after end
		type iv struct{ lo, hi int64 }
		const begin, end = 10, 20
		lists := [][]iv{
			{}, {{10, 20}}, {{8, 25}}, {{11, 20}}, {{10, 19}}, {{20, 30}}, {{0, 10}},
			{{10, 15}, {15, 20}}, {{10, 15}, {16, 20}}, {{10, 14}, {15, 20}}, {{11, 15}, {15, 20}}, {{10, 15}, {15, 19}},
			{{5, 12}, {12, 18}, {18, 30}}, {{5, 12}, {12, 18}, {19, 30}}, {{5, 12}, {13, 18}, {18, 30}}, {{10, 12}, {12, 18}, {18, 19}},
		}
		ints := ssa.Value(wi.Params[2])
		nw := 0
		for li, list := range lists {
			list := list
			var vl *Valuation
			// which element of the parameter does an element address denote?
			elemIdx := func(addr ssa.Value) (int64, bool) {
				ia, ok := addr.(*ssa.IndexAddr)
				if !ok {
					return 0, false
				}
				i, ok := vl.EvalInt(ia.Index, nil)
				if !ok {
					return 0, false
				}
				base := vl.Root(ia.X)
				if sl, isSl := base.(*ssa.Slice); isSl && vl.Root(sl.X) == ints {
					lo := int64(0)
					if sl.Low != nil {
						lo, ok = vl.EvalInt(sl.Low, nil)
						if !ok {
							return 0, false
						}
					}
					return lo + i, true
				}
				if base == ints {
					return i, true
				}
				return 0, false
			}
			var crash string
			vl = &Valuation{
				Enter: SamePackage(wi),
				Int: func(v ssa.Value) (int64, bool) {
					switch vl.Root(v) {
					case ssa.Value(wi.Params[0]):
						return begin, true
					case ssa.Value(wi.Params[1]):
						return end, true
					}
					switch x := v.(type) {
					case *ssa.Call:
						if bi, ok := x.Call.Value.(*ssa.Builtin); ok && bi.Name() == "len" {
							r := vl.Root(x.Call.Args[0])
							if r == ints {
								return int64(len(list)), true
							}
							if sl, isSl := r.(*ssa.Slice); isSl && vl.Root(sl.X) == ints {
								lo, hi := int64(0), int64(len(list))
								if sl.Low != nil {
									lo, _ = vl.EvalInt(sl.Low, nil)
								}
								if sl.High != nil {
									hi, _ = vl.EvalInt(sl.High, nil)
								}
								return hi - lo, true
							}
						}
					case *ssa.UnOp:
						// load of ints[i].Low / .High (directly or from a copied element)
						if fa, ok := x.X.(*ssa.FieldAddr); ok && FieldOf(fa) != nil {
							name := FieldOf(fa).Name()
							var idx int64
							var found bool
							if i, ok := elemIdx(fa.X); ok {
								idx, found = i, true
							} else if al, isAl := fa.X.(*ssa.Alloc); isAl && al.Referrers() != nil {
								// the range variable: a local that was assigned *(&ints[i])
								for _, r := range *al.Referrers() {
									if st, isSt := r.(*ssa.Store); isSt && st.Addr == ssa.Value(al) {
										if ld, isLd := vl.Root(st.Val).(*ssa.UnOp); isLd {
											if i, ok := elemIdx(ld.X); ok {
												idx, found = i, true
											}
										}
									}
								}
							}
							if found {
								if idx < 0 || idx >= int64(len(list)) {
									crash = fmt.Sprintf("element %d of %d intervals is read", idx, len(list))
									return 0, false
								}
								switch name {
								case "Low":
									return list[idx].lo, true
								case "High":
									return list[idx].hi, true
								}
							}
						}
					case *ssa.Field:
						if fv := FieldOf(x); fv != nil {
							if ld, isLd := vl.Root(x.X).(*ssa.UnOp); isLd {
								if i, ok := elemIdx(ld.X); ok && i >= 0 && i < int64(len(list)) {
									switch fv.Name() {
									case "Low":
										return list[i].lo, true
									case "High":
										return list[i].hi, true
									}
								}
							}
						}
					}
					return 0, false
				},
			}
			res := vl.Walk(wi.Blocks[0], nil)
			nw++
			want := len(list) > 0 && list[0].lo <= begin && list[len(list)-1].hi >= end
			for i := 1; i < len(list); i++ {
				if list[i].lo != list[i-1].hi {
					want = false
				}
			}
			key := fmt.Sprintf("%s/list#%d%v", ShortName(wi), li, list)
			got, known := res.RetBool[0]
			why := ""
			switch {
			case crash != "":
				why = crash
			case !res.OK:
				why = "the function cannot be followed: " + res.Why
			case !known:
				why = "the result cannot be evaluated"
			case got != want:
				why = fmt.Sprintf("for [%d,%d) the intervals %v are reported as %v, expected %v", begin, end, list, got, want)
			}
			c.Oblige("C14.whole", key, c.Prog.FuncPos(wi), why == "", why)
		}
		c.RequireCount("C14.whole interval lists walked", nw, 16)
	}
}

func fieldOfValue(v ssa.Value) string {
	if f, ok := Unwrap(v).(*ssa.Field); ok {
		if fv := FieldOf(f); fv != nil {
			return fv.Name()
		}
	}
	return ""
}

// sortsAscending: the call is sort.Slice / sort.SliceStable with a less
// function - a closure, a function or a method value - that returns
// key(x[i]) < key(x[j]) (or the mirrored key(x[j]) > key(x[i])) for its two
// index parameters i and j.
func sortsAscending(cc *ssa.CallCommon, isKey func(ssa.Value) bool) bool {
	f := Callee(cc)
	if f == nil || (f.String() != "sort.Slice" && f.String() != "sort.SliceStable") || len(cc.Args) != 2 {
		return false
	}
	cmp, bound := ResolveFunc(cc.Args[1])
	if cmp == nil || cmp.Blocks == nil {
		return false
	}
	ps := cmp.Params
	if bound && len(ps) == 3 {
		ps = ps[1:]
	}
	if len(ps) != 2 {
		return false
	}
	uses := func(v ssa.Value, p *ssa.Parameter) bool {
		return DependsOn(v, func(x ssa.Value) bool { return x == ssa.Value(p) })
	}
	n := 0
	for _, b := range cmp.Blocks {
		ret, isRet := b.Instrs[len(b.Instrs)-1].(*ssa.Return)
		if !isRet {
			continue
		}
		n++
		bo, isBin := ret.Results[0].(*ssa.BinOp)
		if !isBin || !isKey(bo.X) || !isKey(bo.Y) {
			return false
		}
		xi, xj := uses(bo.X, ps[0]), uses(bo.X, ps[1])
		yi, yj := uses(bo.Y, ps[0]), uses(bo.Y, ps[1])
		switch {
		case bo.Op == token.LSS && xi && !xj && yj && !yi:
		case bo.Op == token.GTR && xj && !xi && yi && !yj:
		default:
			return false
		}
	}
	return n == 1
}

// checkNarrowScaling: see rule C14.bits.
func checkNarrowScaling(c *Ctx, rule string, pkgs []string) {
	is8 := func(t types.Type) bool {
		b, ok := t.Underlying().(*types.Basic)
		return ok && (b.Kind() == types.Uint8 || b.Kind() == types.Int8)
	}
	nWide := 0
	for _, fn := range c.Prog.Funcs() {
		in := false
		for _, p := range pkgs {
			if PkgPathOf(fn) == p {
				in = true
			}
		}
		if !in || fn.Blocks == nil || fn.Origin() != nil {
			continue
		}
		for _, b := range fn.Blocks {
			for _, instr := range b.Instrs {
				bo, ok := instr.(*ssa.BinOp)
				if !ok || (bo.Op != token.MUL && bo.Op != token.SHL) {
					continue
				}
				k, isC := ConstInt(bo.Y)
				other := bo.X
				if !isC && bo.Op == token.MUL {
					k, isC = ConstInt(bo.X)
					other = bo.Y
				}
				if !isC || (bo.Op == token.MUL && k < 2) || (bo.Op == token.SHL && k < 1) {
					continue
				}
				if _, constOperand := other.(*ssa.Const); constOperand {
					continue
				}
				if is8(bo.Type()) {
					c.Fail(rule, fmt.Sprintf("%s/%s-by-%d", ShortName(fn), map[token.Token]string{token.MUL: "multiply", token.SHL: "shift"}[bo.Op], k), c.Prog.Pos(bo.Pos()), "an 8-bit quantity is scaled in 8-bit arithmetic: the result wraps at 256")
					continue
				}
				// the widened form: the scaled operand is an 8-bit value converted up
				if cv, isConv := other.(*ssa.Convert); isConv && is8(cv.X.Type()) {
					nWide++
					c.Pass(rule, fmt.Sprintf("%s/widened-before-scaling-by-%d", ShortName(fn), k), c.Prog.Pos(bo.Pos()), "")
				}
			}
		}
	}
	c.RequireCount(rule+" scalings of a widened 8-bit quantity", nWide, 1)
}

// isBeginKey: v is the begin address of an element: x.Begin() or a direct
// read of the field a Begin getter returns (begin).
func isBeginKey(v ssa.Value) bool {
	if matches(v, Method("Begin", Any())) {
		return true
	}
	n, _, ok := FieldNameOfRead(v)
	return ok && n == "begin"
}
