package rules

import (
	"fmt"
	"go/token"
	"go/types"
	"strings"

	"golang.org/x/tools/go/ssa"

	. "mltlint/internal/core"
)

// C16.ops: the interval-set operators that the set-algebra rules (C04.set,
// C15.set, C16.set) take as intersection and complement are decided here.
//
// MapIntersect / MapComplement sweep two sorted lists with a per-interval
// helper `h(intv, rest) (pieces, consumed)`. The helper touches interval
// endpoints only by comparing them (and copying them into the pieces), so its
// behaviour on an interval and a list of k intervals is determined by the weak
// ordering of the 2+2k endpoints: a finite set. The helper is walked (E7+)
// once per ordering, for k = 0..3, with a small cell model for its
// interval-typed locals, and two things are compared with the definition:
//
//   - the pieces it emits: intv ∩ rest resp. intv \ rest, in order;
//   - the count of list elements it reports as consumed (the caller never
//     looks at them again): every consumed element must end at or before
//     intv.End(), otherwise it could still overlap the caller's next interval.
//
// The drivers are then checked structurally: every interval of the first
// operand is given to the helper together with the not yet consumed rest of
// the second operand, the rest advances by exactly the helper's count, and
// every piece is appended to the result.

type ivl struct{ b, e int64 }

// ivlScenarios enumerates an interval [a,b) and a sorted list of k disjoint,
// non-adjacent, non-empty intervals with all endpoints among 0..n-1.
func ivlScenarios(n, k int) (out []struct {
	intv ivl
	list []ivl
}) {
	var lists [][]ivl
	var rec func(from int64, cur []ivl)
	rec = func(from int64, cur []ivl) {
		if len(cur) == k {
			lists = append(lists, append([]ivl(nil), cur...))
			return
		}
		for b := from; b < int64(n); b++ {
			for e := b + 1; e < int64(n); e++ {
				rec(e+1, append(cur, ivl{b, e}))
			}
		}
	}
	rec(0, nil)
	for a := int64(0); a < int64(n); a++ {
		for b := a + 1; b < int64(n); b++ {
			for _, l := range lists {
				out = append(out, struct {
					intv ivl
					list []ivl
				}{ivl{a, b}, l})
			}
		}
	}
	return out
}

func ivlString(l []ivl) string {
	var s []string
	for _, i := range l {
		s = append(s, fmt.Sprintf("[%d,%d)", i.b, i.e))
	}
	return "{" + strings.Join(s, " ") + "}"
}

func ivlEqual(a, b []ivl) bool {
	if len(a) != len(b) {
		return false
	}
	for i := range a {
		if a[i] != b[i] {
			return false
		}
	}
	return true
}

func wantIntersect(x ivl, l []ivl) (out []ivl) {
	for _, y := range l {
		b, e := x.b, x.e
		if y.b > b {
			b = y.b
		}
		if y.e < e {
			e = y.e
		}
		if b < e {
			out = append(out, ivl{b, e})
		}
	}
	return out
}

func wantComplement(x ivl, l []ivl) (out []ivl) {
	cur := x.b
	for _, y := range l {
		if y.e <= cur || y.b >= x.e {
			continue
		}
		if cur < y.b {
			out = append(out, ivl{cur, y.b})
		}
		cur = y.e
	}
	if cur < x.e {
		out = append(out, ivl{cur, x.e})
	}
	return out
}

// ivlWalk walks helper h(intv, list) concretely. It returns the emitted
// pieces, the consumed count and whether the walk was decided.
func ivlWalk(h *ssa.Function, intvIdx, listIdx int, x ivl, l []ivl) (pieces []ivl, consumed int64, why string) {
	fieldName := func(v ssa.Value) string {
		if f := FieldOf(v); f != nil {
			return f.Name()
		}
		return ""
	}
	isIvlType := func(t types.Type) bool {
		if p, ok := t.(*types.Pointer); ok {
			t = p.Elem()
		}
		n, ok := t.(*types.Named)
		return ok && n.Obj().Name() == "Interval"
	}
	cells := map[*ssa.Alloc]ivl{}    // interval-typed locals
	snap := map[ssa.Value]ivl{}      // struct values loaded on the way
	snapInt := map[ssa.Value]int64{} // endpoint values loaded on the way
	var vl *Valuation
	// resolve: the interval a struct-typed value stands for
	var resolve func(v ssa.Value, depth int) (ivl, bool)
	resolve = func(v ssa.Value, depth int) (ivl, bool) {
		if depth > 8 {
			return ivl{}, false
		}
		if s, ok := snap[v]; ok {
			return s, true
		}
		v = vl.Root(v)
		if s, ok := snap[v]; ok {
			return s, true
		}
		switch y := v.(type) {
		case *ssa.Parameter:
			if y == h.Params[intvIdx] {
				return x, true
			}
		case *ssa.Call:
			if f := y.Call.StaticCallee(); f != nil && NameOf(Origin(f)) == "New" && len(y.Call.Args) == 2 {
				b, ok1 := vl.EvalInt(y.Call.Args[0], nil)
				e, ok2 := vl.EvalInt(y.Call.Args[1], nil)
				return ivl{b, e}, ok1 && ok2
			}
		case *ssa.UnOp:
			if y.Op != token.MUL {
				break
			}
			switch a := y.X.(type) {
			case *ssa.Alloc:
				c, ok := cells[a]
				return c, ok
			case *ssa.IndexAddr:
				if vl.Root(a.X) == ssa.Value(h.Params[listIdx]) {
					if i, ok := vl.EvalInt(a.Index, nil); ok && i >= 0 && i < int64(len(l)) {
						return l[i], true
					}
				}
			}
		}
		return ivl{}, false
	}
	endpoint := func(i ivl, name string) (int64, bool) {
		switch name {
		case "begin":
			return i.b, true
		case "end":
			return i.e, true
		}
		return 0, false
	}
	vl = &Valuation{
		Enter: func(g *ssa.Function) bool {
			if g == nil || g.Blocks == nil && Origin(g).Blocks == nil {
				return false
			}
			if PkgPathOf(g) != PkgPathOf(h) {
				return false
			}
			// interval getters and the constructor are modelled, not followed
			if g.Signature.Recv() != nil && isIvlType(g.Signature.Recv().Type()) {
				if _, isGetter := GetterOf(g); isGetter {
					return false
				}
			}
			return NameOf(Origin(g)) != "New"
		},
		Int: func(v ssa.Value) (int64, bool) {
			if n, ok := snapInt[v]; ok {
				return n, true
			}
			switch y := v.(type) {
			case *ssa.Call:
				if bi, ok := y.Call.Value.(*ssa.Builtin); ok {
					if bi.Name() == "len" && vl.Root(y.Call.Args[0]) == ssa.Value(h.Params[listIdx]) {
						return int64(len(l)), true
					}
					return 0, false
				}
				f := y.Call.StaticCallee()
				if f == nil || y.Call.IsInvoke() || len(y.Call.Args) != 1 || !isIvlType(y.Call.Args[0].Type()) {
					return 0, false
				}
				fld, isGetter := GetterOf(f)
				if !isGetter {
					return 0, false
				}
				if i, ok := resolve(y.Call.Args[0], 0); ok {
					return endpoint(i, fld)
				}
			case *ssa.Field:
				if isIvlType(y.X.Type()) {
					if i, ok := resolve(y.X, 0); ok {
						return endpoint(i, fieldName(y))
					}
				}
			}
			return 0, false
		},
	}
	vl.Visit = func(in ssa.Instruction) {
		switch y := in.(type) {
		case *ssa.UnOp:
			if y.Op != token.MUL {
				return
			}
			// loads are snapshotted where they execute: the cell may change later
			switch a := y.X.(type) {
			case *ssa.Alloc:
				if c, ok := cells[a]; ok {
					snap[y] = c
				}
			case *ssa.FieldAddr:
				var base ivl
				ok := false
				switch bs := a.X.(type) {
				case *ssa.Alloc:
					base, ok = cells[bs]
				case *ssa.IndexAddr:
					if vl.Root(bs.X) == ssa.Value(h.Params[listIdx]) {
						if i, iok := vl.EvalInt(bs.Index, nil); iok && i >= 0 && i < int64(len(l)) {
							base, ok = l[i], true
						}
					}
				}
				if ok {
					if n, nok := endpoint(base, fieldName(a)); nok {
						snapInt[y] = n
					}
				} else {
					delete(snapInt, y)
				}
			case *ssa.IndexAddr:
				if vl.Root(a.X) == ssa.Value(h.Params[listIdx]) {
					if i, iok := vl.EvalInt(a.Index, nil); iok && i >= 0 && i < int64(len(l)) {
						snap[y] = l[i]
					}
				}
			}
		case *ssa.Store:
			switch a := y.Addr.(type) {
			case *ssa.Alloc:
				if isIvlType(a.Type()) {
					if i, ok := resolve(y.Val, 0); ok {
						cells[a] = i
					} else {
						delete(cells, a)
					}
				}
			case *ssa.FieldAddr:
				if al, ok := a.X.(*ssa.Alloc); ok && isIvlType(al.Type()) {
					c, has := cells[al]
					n, nok := vl.EvalInt(y.Val, nil)
					if !has || !nok {
						delete(cells, al)
						why = "a write to an interval local cannot be evaluated"
						return
					}
					switch fieldName(a) {
					case "begin":
						c.b = n
					case "end":
						c.e = n
					}
					cells[al] = c
				}
			case *ssa.IndexAddr:
				// an interval stored into a fresh array: the argument of append
				if al, ok := a.X.(*ssa.Alloc); ok && isIvlType(y.Val.Type()) {
					if _, isArr := al.Type().(*types.Pointer).Elem().Underlying().(*types.Array); isArr {
						if i, ok := resolve(y.Val, 0); ok {
							pieces = append(pieces, i)
						} else {
							why = "an emitted piece cannot be evaluated"
						}
					}
				}
			}
		}
	}
	res := vl.Walk(h.Blocks[0], nil)
	if why != "" {
		return nil, 0, why
	}
	if !res.OK {
		return nil, 0, res.Why
	}
	if _, isRet := res.End.(*ssa.Return); !isRet {
		return nil, 0, "the helper panics"
	}
	r, ok := res.RetInt[1]
	if !ok {
		return nil, 0, "the consumed count cannot be evaluated"
	}
	return pieces, r, ""
}

func checkIntervalOps(c *Ctx, rule string) {
	ipkg := ModulePath + "/internal/state/interval"
	nHelpers := 0
	for _, op := range []struct {
		driver string
		want   func(ivl, []ivl) []ivl
		what   string
	}{
		{"MapIntersect", wantIntersect, "intersection"},
		{"MapComplement", wantComplement, "difference"},
	} {
		drv := c.Prog.Func(ipkg + "." + op.driver)
		if drv == nil {
			c.Undecide("%s: %s.%s not found", rule, ipkg, op.driver)
			continue
		}
		if drv.Blocks == nil {
			drv = Origin(drv)
		}
		// the per-interval helper, by role: a same-package callee taking an
		// interval and a list of intervals and returning (pieces, count)
		var h *ssa.Function
		var hcall *ssa.Call
		intvIdx, listIdx := -1, -1
		for _, cs := range Calls(drv) {
			f := Callee(cs.Common())
			if f == nil || PkgPathOf(f) != ipkg || f.Signature.Results().Len() != 2 {
				continue
			}
			g := Origin(f)
			if g.Blocks == nil {
				continue
			}
			ii, li := -1, -1
			for i, p := range g.Params {
				switch t := p.Type().(type) {
				case *types.Named:
					if t.Obj().Name() == "Interval" {
						ii = i
					}
				case *types.Slice:
					li = i
				}
			}
			if b, ok := g.Signature.Results().At(1).Type().Underlying().(*types.Basic); ok && b.Kind() == types.Int && ii >= 0 && li >= 0 {
				h, intvIdx, listIdx = g, ii, li
				hcall, _ = cs.Instr.(*ssa.Call)
			}
		}
		if h == nil {
			// no helper to look into: the operator as a whole is decided by the
			// whole-operator walks
			continue
		}
		nHelpers++
		for k := 0; k <= 3; k++ {
			n := 8
			if k == 3 {
				n = 7
			}
			key := fmt.Sprintf("%s/list-of-%d", ShortName(h), k)
			bad, walked := "", 0
			for _, sc := range ivlScenarios(n, k) {
				pieces, r, why := ivlWalk(h, intvIdx, listIdx, sc.intv, sc.list)
				at := fmt.Sprintf("for [%d,%d) and %s", sc.intv.b, sc.intv.e, ivlString(sc.list))
				if why != "" {
					bad = at + ": not computable: " + why
					break
				}
				walked++
				if want := op.want(sc.intv, sc.list); !ivlEqual(pieces, want) {
					bad = fmt.Sprintf("%s the pieces are %s, the %s is %s", at, ivlString(pieces), op.what, ivlString(want))
					break
				}
				if k > 0 { // what an empty list yields only matters if the driver ever passes one: decided by the whole-operator walks (C17)
					if r < 0 || r > int64(k) {
						bad = fmt.Sprintf("%s the consumed count is %d: the caller's position in the list leaves the list", at, r)
						break
					}
					for i := int64(0); i < r; i++ {
						if sc.list[i].e > sc.intv.e {
							bad = fmt.Sprintf("%s element %d, [%d,%d), is reported as consumed although it reaches beyond the interval: the caller never tests it against its following intervals", at, i, sc.list[i].b, sc.list[i].e)
						}
					}
					if bad != "" {
						break
					}
				}
			}
			c.Oblige(rule, key, c.Prog.FuncPos(h), bad == "", bad)
			c.Saw("interval_orderings", fmt.Sprintf("%s: %d", key, walked))
		}
		_ = hcall
	}
	c.Saw("interval_helpers", fmt.Sprintf("%d", nHelpers))
}
