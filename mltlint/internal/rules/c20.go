package rules

import (
	"fmt"
	"go/token"
	"go/types"
	"os"

	"golang.org/x/tools/go/ssa"

	. "mltlint/internal/core"
)

func init() { register("C20", "other", checkC20) }

// elfConst reads a constant of package debug/elf from the loaded program.
func elfConst(c *Ctx, name string) (int64, bool) {
	for _, p := range c.Prog.SSA.AllPackages() {
		if p.Pkg.Path() == "debug/elf" {
			if k := p.Const(name); k != nil && k.Value != nil {
				return k.Value.Int64(), true
			}
		}
	}
	c.Undecide("constant debug/elf.%s does not resolve", name)
	return 0, false
}

// fieldLoadValuation binds loads of struct fields (by field name) to values.
func fieldLoadValuation(vals map[string]int64, nilErr bool) *Valuation {
	var vl *Valuation
	vl = &Valuation{
		Int: func(v ssa.Value) (int64, bool) {
			if n, _, ok := FieldNameOfLoad(v); ok {
				if x, has := vals[n]; has {
					return x, true
				}
			}
			return 0, false
		},
		Bool: func(v ssa.Value) (bool, bool) {
			if x, nn, ok := NilCheck(v); ok {
				// an error handed back by an entered helper is what the helper
				// returned: nil, or a freshly made (non-nil) error
				isNil := nilErr
				switch r := vl.Root(x).(type) {
				case *ssa.Const:
					if r.IsNil() {
						isNil = true
					}
				case *ssa.MakeInterface:
					isNil = false
				case *ssa.Call:
					if f := r.Call.StaticCallee(); f != nil && (f.String() == "fmt.Errorf" || f.String() == "errors.New") {
						isNil = false
					}
				}
				// every other error is nil / non-nil as requested
				return nn != isNil, true
			}
			return false, false
		},
	}
	return vl
}

func checkC20(c *Ctx) {
	c.Rule("C20.type", "NewParser, walked for each ELF file type named by the property (NONE, REL, EXEC, DYN, CORE), accepts exactly ET_EXEC and ET_DYN, and fails when the file cannot be opened")
	c.Rule("C20.skip", "MachineCode, walked over a one-section file for all 16 combinations of (type is PROGBITS, size is 0, address is 0, EXECINSTR flag set), reads (keeps) exactly non-empty, address-bearing, executable PROGBITS sections")
	c.Rule("C20.seg", "Memory, walked over a one-segment file, loads every PT_LOAD segment with a non-zero in-memory size (with or without file bytes), no other segment, and rejects Memsz < Filesz with an error")
	c.Rule("C20.load", "Memory(): only PT_LOAD segments; Memsz < Filesz is an error; the block is newBlock(Addr(p.Vaddr), file bytes read from p.Open() followed by Memsz-len(data) zero bytes). MachineCode(): newBlock(Addr(s.Addr), s.Data()) with len(data) == s.Size enforced; both collect every selected element and go through nonEmptyMemory/newMemory")
	c.Rule("C20.overlap", "newMemory sorts blocks by Begin() and returns an error on the edge next.Begin() < prev.End(); an empty selection is an error; errors reach the caller")
	c.Rule("C20.addr", "Block.Address returns bytes[a-Begin():] only under Begin() <= a < End(), and nil otherwise; Memory.Address finds the block by binary search on End() > addr and checks Begin() <= addr")

	// --- C20.type
	if np := anchor(c, pkgElf+".NewParser"); np != nil {
		types := []string{"ET_NONE", "ET_REL", "ET_EXEC", "ET_DYN", "ET_CORE"}
		for _, tn := range types {
			tv, ok := elfConst(c, tn)
			if !ok {
				continue
			}
			vl := fieldLoadValuation(map[string]int64{"Type": tv}, true)
			res := vl.Walk(np.Blocks[0], nil)
			key := ShortName(np) + "/" + tn
			ret, isRet := res.End.(*ssa.Return)
			if !res.OK || !isRet {
				c.Fail("C20.type", key, c.Prog.FuncPos(np), "decision not computable: "+res.Why)
				continue
			}
			accepted := IsNilConst(ret.Results[1]) && !IsNilConst(ret.Results[0])
			want := tn == "ET_EXEC" || tn == "ET_DYN"
			c.Oblige("C20.type", key, c.Prog.Pos(ret.Pos()), accepted == want, fmt.Sprintf("file type %s: accepted=%v, expected %v", tn, accepted, want))
		}
		// open failure
		vl := fieldLoadValuation(map[string]int64{"Type": 2}, false)
		res := vl.Walk(np.Blocks[0], nil)
		ret, isRet := res.End.(*ssa.Return)
		c.Oblige("C20.type", ShortName(np)+"/open-error", c.Prog.FuncPos(np), res.OK && isRet && !IsNilConst(ret.Results[1]), "a file that cannot be opened does not yield an error")
		// the parser wraps the opened file
		okOpen := false
		for _, cs := range Calls(np) {
			if f := Callee(cs.Common()); f != nil && f.String() == "debug/elf.Open" && cs.Common().Args[0] == ssa.Value(np.Params[0]) {
				okOpen = true
			}
		}
		c.Oblige("C20.type", ShortName(np)+"/opens-filename", c.Prog.FuncPos(np), okOpen, "NewParser does not open its own filename with debug/elf.Open")
	}

	// --- C20.skip: MachineCode walked concretely (E7) over a file with one
	// section, for all 16 combinations; the section is kept when its bytes are
	// read (Section.Data) before the loop over the sections is left, however the
	// selection is written (a skip predicate, a keep predicate, inline tests)
	if mc := anchor(c, "(*"+pkgElf+".Parser).MachineCode"); mc != nil {
		pb, ok1 := elfConst(c, "SHT_PROGBITS")
		nb, ok2 := elfConst(c, "SHT_NOBITS")
		ex, ok3 := elfConst(c, "SHF_EXECINSTR")
		al, ok4 := elfConst(c, "SHF_ALLOC")
		var loop *RangeLoop
		for _, l := range RangeLoops(mc) {
			if n, _, ok := FieldNameOfLoad(l.Over); ok && n == "Sections" {
				loop = l
			}
		}
		if loop == nil {
			c.Undecide("C20.skip: MachineCode has no loop over the file's Sections")
		}
		nWalk := 0
		if ok1 && ok2 && ok3 && ok4 && loop != nil {
			for mask := 0; mask < 16; mask++ {
				isPB, empty, noAddr, exec := mask&1 != 0, mask&2 != 0, mask&4 != 0, mask&8 != 0
				vals := map[string]int64{"Type": nb, "Size": 64, "Addr": 0x1000, "Flags": al}
				if isPB {
					vals["Type"] = pb
				}
				if empty {
					vals["Size"] = 0
				}
				if noAddr {
					vals["Addr"] = 0
				}
				if exec {
					vals["Flags"] = al | ex
				}
				kept, left, res := walkOneElement(mc, loop, "Sections", "(*debug/elf.Section).Data", vals, vals["Size"])
				key := fmt.Sprintf("%s/progbits=%v,empty=%v,noaddr=%v,exec=%v", ShortName(mc), isPB, empty, noAddr, exec)
				if !left {
					why := res.Why
					if res.OK {
						why = "MachineCode returns before it has gone through the sections"
					}
					c.Fail("C20.skip", key, c.Prog.FuncPos(mc), "decision not computable: "+why)
					continue
				}
				nWalk++
				want := isPB && !empty && !noAddr && exec
				c.Oblige("C20.skip", key, c.Prog.FuncPos(mc), kept == want, fmt.Sprintf("section kept=%v, expected %v", kept, want))
			}
		}
		c.RequireCount("C20.skip section kinds walked through MachineCode", nWalk, 16)
	}

	// --- C20.seg: Memory walked the same way over a one-segment file
	if mm := anchor(c, "(*"+pkgElf+".Parser).Memory"); mm != nil {
		ptLoad, ok1 := elfConst(c, "PT_LOAD")
		ptNote, ok2 := elfConst(c, "PT_NOTE")
		var loop *RangeLoop
		for _, l := range RangeLoops(mm) {
			if n, _, ok := FieldNameOfLoad(l.Over); ok && n == "Progs" {
				loop = l
			}
		}
		if loop == nil {
			c.Undecide("C20.seg: Memory has no loop over the file's Progs")
		}
		nWalk := 0
		if ok1 && ok2 && loop != nil {
			for _, sc := range []struct {
				load          bool
				filesz, memsz int64
			}{{true, 0, 16}, {true, 8, 8}, {true, 8, 16}, {true, 16, 8}, {false, 0, 16}, {false, 8, 8}, {false, 8, 16}} {
				vals := map[string]int64{"Type": ptNote, "Filesz": sc.filesz, "Memsz": sc.memsz, "Vaddr": 0x1000, "Paddr": 0x1000, "Flags": 4}
				if sc.load {
					vals["Type"] = ptLoad
				}
				kept, left, res := walkOneElement(mm, loop, "Progs", "(*debug/elf.Prog).Open", vals, sc.filesz)
				key := fmt.Sprintf("%s/loadable=%v,filesz=%d,memsz=%d", ShortName(mm), sc.load, sc.filesz, sc.memsz)
				if sc.load && sc.memsz < sc.filesz {
					// rejected with an error before anything else happens
					_, isRet := res.End.(*ssa.Return)
					isNil, known := res.RetNil[1]
					nWalk++
					c.Oblige("C20.seg", key, c.Prog.FuncPos(mm), res.OK && isRet && known && !isNil, "a loadable segment whose in-memory size is smaller than its file size is not rejected with an error")
					continue
				}
				if !left {
					why := res.Why
					if res.OK {
						why = "Memory returns before it has gone through the segments"
					}
					c.Fail("C20.seg", key, c.Prog.FuncPos(mm), "decision not computable: "+why)
					continue
				}
				nWalk++
				c.Oblige("C20.seg", key, c.Prog.FuncPos(mm), kept == sc.load, fmt.Sprintf("segment loaded=%v, expected %v", kept, sc.load))
			}
		}
		c.RequireCount("C20.seg segment kinds walked through Memory", nWalk, 7)
	}

	// --- C20.load: the blocks of the two images, wherever they are built
	// (in the method itself or in a helper it hands the program header / section to)
	checkImageBlocks(c, "(*"+pkgElf+".Parser).Memory", imageSpec{
		list: "Progs", addr: "Vaddr",
		guard: func(c *Ctx, fieldOf func(name string, v ssa.Value, chain []*ssa.Call) bool, g CtxGuard, st *imageState) {
			bo, ok := g.Cond.(*ssa.BinOp)
			if !ok {
				return
			}
			ptLoad, _ := elfConst(c, "PT_LOAD")
			if fieldOf("Type", bo.X, g.Chain) {
				if k, isK := ConstInt(bo.Y); isK && k == ptLoad && ((bo.Op == token.NEQ && !g.Outcome) || (bo.Op == token.EQL && g.Outcome)) {
					st.ok["type"] = true
				}
			}
			if fieldOf("Memsz", bo.X, g.Chain) && fieldOf("Filesz", bo.Y, g.Chain) && ((bo.Op == token.LSS && !g.Outcome) || (bo.Op == token.GEQ && g.Outcome)) {
				st.ok["size"] = true
			}
		},
		need: []string{"type", "size"},
		why: map[string]string{
			"type": "a segment other than PT_LOAD can become part of the memory image",
			"size": "a segment whose in-memory size is smaller than its file size is not rejected",
		},
		data: func(c *Ctx, s Site, nb *ssa.Call, isElem func(v ssa.Value, chain []*ssa.Call) bool, fieldOf func(name string, v ssa.Value, chain []*ssa.Call) bool) string {
			fn := s.Fn
			var readAll *ssa.Call
			for _, cs := range Calls(fn) {
				if f := Callee(cs.Common()); f != nil && f.String() == "io.ReadAll" {
					if DependsOn(cs.Common().Args[0], func(v ssa.Value) bool {
						call, ok := v.(*ssa.Call)
						return ok && call.Call.StaticCallee() != nil && call.Call.StaticCallee().String() == "(*debug/elf.Prog).Open" && isElem(call.Call.Args[0], s.Chain)
					}) {
						readAll, _ = cs.Instr.(*ssa.Call)
					}
				}
			}
			if readAll == nil {
				return "the block bytes are not the bytes read from the segment (p.Open())"
			}
			data := extractOf(readAll, 0)
			if !DependsOn(nb.Call.Args[1], func(v ssa.Value) bool { return v == data }) {
				return "the block bytes are not the bytes read from the segment (p.Open())"
			}
			// zero fill: append(data, make([]byte, Memsz - len(data))...)
			for _, cs := range Calls(fn) {
				if bi, ok := cs.Common().Value.(*ssa.Builtin); ok && bi.Name() == "append" && cs.Common().Args[0] == data {
					if ms, ok := cs.Common().Args[1].(*ssa.MakeSlice); ok {
						if matches(ms.Len, Conv(Bin(token.SUB, func(v ssa.Value, _ *Bind) bool { return fieldOf("Memsz", v, s.Chain) }, Conv(lenOf(data))))) {
							if DependsOn(nb.Call.Args[1], func(v ssa.Value) bool { return v == ssa.Value(cs.Instr.(*ssa.Call)) }) {
								return ""
							}
						}
					}
				}
			}
			return "the block is not zero-filled up to Memsz"
		},
	})
	checkImageBlocks(c, "(*"+pkgElf+".Parser).MachineCode", imageSpec{
		list: "Sections", addr: "Addr",
		guard: func(c *Ctx, fieldOf func(name string, v ssa.Value, chain []*ssa.Call) bool, g CtxGuard, st *imageState) {
			// skipMachineCodeSection(sec) is false
			if call, ok := g.Cond.(*ssa.Call); ok && !g.Outcome && call.Call.StaticCallee() != nil && NameOf(call.Call.StaticCallee()) == "skipMachineCodeSection" && st.isElem(call.Call.Args[0], g.Chain) {
				st.ok["skip"] = true
			}
			if bo, ok := g.Cond.(*ssa.BinOp); ok && st.dataLen != nil {
				if st.dataLen(bo.X) && fieldOf("Size", bo.Y, g.Chain) && ((bo.Op == token.NEQ && !g.Outcome) || (bo.Op == token.EQL && g.Outcome)) {
					st.ok["size"] = true
				}
			}
		},
		need: []string{"size"}, // which sections are selected is decided by C20.skip
		why: map[string]string{
			"skip": "a section that skipMachineCodeSection rejects can become part of the code image",
			"size": "a section whose data length differs from its declared size is not rejected",
		},
		data: func(c *Ctx, s Site, nb *ssa.Call, isElem func(v ssa.Value, chain []*ssa.Call) bool, fieldOf func(name string, v ssa.Value, chain []*ssa.Call) bool) string {
			var dataCall *ssa.Call
			for _, cs := range Calls(s.Fn) {
				if f := Callee(cs.Common()); f != nil && f.String() == "(*debug/elf.Section).Data" && isElem(cs.Common().Args[0], s.Chain) {
					dataCall, _ = cs.Instr.(*ssa.Call)
				}
			}
			if dataCall == nil {
				return "the data read does not belong to the section that was selected"
			}
			if nb.Call.Args[1] != extractOf(dataCall, 0) {
				return "the block bytes are not the section's data"
			}
			return ""
		},
		dataLenOf: func(s Site) func(ssa.Value) bool {
			var dataCall *ssa.Call
			for _, cs := range Calls(s.Fn) {
				if f := Callee(cs.Common()); f != nil && f.String() == "(*debug/elf.Section).Data" {
					dataCall, _ = cs.Instr.(*ssa.Call)
				}
			}
			if dataCall == nil {
				return nil
			}
			return func(v ssa.Value) bool { return matches(v, Conv(lenOf(extractOf(dataCall, 0)))) }
		},
	})

	// --- C20.overlap
	n := checkErrflow(c, "C20.overlap", []string{pkgElf}, nil)
	c.RequireCount("C20.overlap error-returning calls in package elf", n, 5)
	if nm := anchor(c, pkgElf+".newMemory"); nm != nil {
		sorted, overlap := false, false
		var sortCall ssa.Instruction
		for _, cs := range Calls(nm) {
			if sortsAscending(cs.Common(), isBeginKey) {
				sorted = true
				sortCall = cs.Instr.(ssa.Instruction)
			}
		}
		_ = overlap
		_ = sortCall
		c.Oblige("C20.overlap", ShortName(nm)+"/sorted", c.Prog.FuncPos(nm), sorted, "newMemory does not sort the blocks by Begin() (sort.Slice with a less function comparing Begin())")
		// the overlap decision, walked concretely on (already sorted) pairs and
		// triples of blocks: an error exactly when a block begins before its
		// predecessor ends; touching blocks are accepted
		type blk struct{ b, l int64 }
		lists := [][]blk{
			{{10, 4}}, {{10, 4}, {14, 4}}, {{10, 4}, {13, 4}}, {{10, 4}, {20, 4}}, {{10, 4}, {10, 4}}, {{10, 4}, {11, 1}},
			{{10, 4}, {14, 4}, {18, 2}}, {{10, 4}, {14, 4}, {17, 2}}, {{10, 4}, {13, 4}, {20, 2}}, {{10, 4}, {20, 4}, {30, 4}},
		}
		for li, list := range lists {
			bl := &blockList{}
			for _, x := range list {
				bl.begins = append(bl.begins, x.b)
				bl.lens = append(bl.lens, x.l)
			}
			vl := &Valuation{Enter: SamePackage(nm)}
			bl.install(vl, func(r ssa.Value) bool { return r == ssa.Value(nm.Params[0]) })
			res := vl.Walk(nm.Blocks[0], nil)
			want := false
			for i := 1; i < len(list); i++ {
				if list[i].b < list[i-1].b+list[i-1].l {
					want = true
				}
			}
			key := fmt.Sprintf("%s/blocks#%d%v", ShortName(nm), li, list)
			why := ""
			isNil, known := res.RetNil[1]
			switch {
			case bl.crash != "":
				why = bl.crash
			case !res.OK:
				why = "the function cannot be followed: " + res.Why
			case !known:
				why = "the error result cannot be evaluated"
			case isNil == want:
				why = fmt.Sprintf("blocks (begin, length) %v: overlap reported=%v, expected %v", list, !isNil, want)
			}
			c.Oblige("C20.overlap", key, c.Prog.FuncPos(nm), why == "", why)
		}
	}
	if ne := anchor(c, pkgElf+".nonEmptyMemory"); ne != nil {
		ok := false
		for _, b := range ne.Blocks {
			ret, isRet := b.Instrs[len(b.Instrs)-1].(*ssa.Return)
			if !isRet || IsNilConst(ret.Results[1]) {
				continue
			}
			for _, g := range GuardsOf(b) {
				if bo, isBin := g.Cond.(*ssa.BinOp); isBin && bo.Op == token.EQL && g.Outcome && matches(bo.X, lenOf(ssa.Value(ne.Params[0]))) && matches(bo.Y, IntPat(0)) {
					ok = true
				}
			}
		}
		c.Oblige("C20.overlap", ShortName(ne), c.Prog.FuncPos(ne), ok, "an image without any block is not rejected")
	}

	// --- C20.addr
	if ba := anchor(c, "("+pkgElf+".Block).Address"); ba != nil {
		// Block.Address(a), walked concretely for a block [4,7): the bytes from a
		// to the end of the block for 4 <= a < 7, nothing otherwise
		for a := int64(2); a <= 8; a++ {
			const B, L = 4, 3
			var lows []int64
			var vl *Valuation
			fieldName := func(v ssa.Value) string {
				if n, _, ok := FieldNameOfLoad(v); ok {
					return n
				}
				if f, ok := v.(*ssa.Field); ok && FieldOf(f) != nil {
					return FieldOf(f).Name()
				}
				return ""
			}
			vl = &Valuation{
				Enter: SamePackage(ba),
				Int: func(v ssa.Value) (int64, bool) {
					if vl.Root(v) == ssa.Value(ba.Params[1]) {
						return a, true
					}
					if fieldName(v) == "begin" {
						return B, true
					}
					if call, ok := v.(*ssa.Call); ok {
						if bi, isBi := call.Call.Value.(*ssa.Builtin); isBi && bi.Name() == "len" && (fieldName(call.Call.Args[0]) == "bytes" || fieldName(vl.Root(call.Call.Args[0])) == "bytes") {
							return L, true
						}
					}
					return 0, false
				},
			}
			highSet := false
			vl.Visit = func(in ssa.Instruction) {
				if sl, ok := in.(*ssa.Slice); ok && (fieldName(sl.X) == "bytes" || fieldName(vl.Root(sl.X)) == "bytes") {
					lo := int64(0)
					if sl.Low != nil {
						lo, _ = vl.EvalInt(sl.Low, nil)
					}
					if sl.High != nil {
						if hi, ok := vl.EvalInt(sl.High, nil); !ok || hi != L {
							highSet = true
						}
					}
					lows = append(lows, lo)
				}
			}
			res := vl.Walk(ba.Blocks[0], nil)
			inside := a >= B && a < B+L
			key := fmt.Sprintf("%s/address %d of block [%d,%d)", ShortName(ba), a, B, B+L)
			why := ""
			isNil, known := res.RetNil[0]
			switch {
			case !res.OK:
				why = "the method cannot be followed: " + res.Why
			case func() bool { _, p := res.End.(*ssa.Panic); return p }():
				why = "the method panics"
			case !known:
				why = "the result cannot be evaluated"
			case inside && (isNil || len(lows) != 1 || lows[0] != a-B || highSet):
				why = fmt.Sprintf("an address inside the block does not yield the bytes from offset %d to the end of the block (slices taken at %v)", a-B, lows)
			case !inside && !isNil:
				why = "an address outside the block yields bytes"
			}
			c.Oblige("C20.addr", key, c.Prog.FuncPos(ba), why == "", why)
		}
	}
	if ma := anchor(c, "(*"+pkgElf+".Memory).Address"); ma != nil {
		// Memory.Address(addr), walked concretely over three blocks (two of them
		// touching) with the search (sort.Search or a loop) followed: the block
		// asked is the one that contains addr, or nothing is returned
		begins, lens := []int64{10, 14, 30}, []int64{4, 4, 4}
		for addr := int64(8); addr <= 35; addr++ {
			bl := &blockList{begins: begins, lens: lens}
			var vl *Valuation
			var lows []int64
			vl = &Valuation{
				Enter: SamePackage(ma),
				Int: func(v ssa.Value) (int64, bool) {
					if vl.Root(v) == ssa.Value(ma.Params[1]) {
						return addr, true
					}
					return 0, false
				},
			}
			isBlocks := func(r ssa.Value) bool {
				n, _, ok := FieldNameOfLoad(r)
				return ok && n == "Blocks"
			}
			bl.install(vl, isBlocks)
			vl.Visit = func(in ssa.Instruction) {
				if sl, ok := in.(*ssa.Slice); ok && sl.Low != nil {
					if _, isBytes := sl.X.Type().Underlying().(*types.Slice); isBytes {
						if lo, ok := vl.EvalInt(sl.Low, nil); ok {
							lows = append(lows, lo)
						}
					}
				}
			}
			res := vl.Walk(ma.Blocks[0], nil)
			want := int64(-1) // offset into the containing block
			for i := range begins {
				if addr >= begins[i] && addr < begins[i]+lens[i] {
					want = addr - begins[i]
				}
			}
			key := fmt.Sprintf("%s/address %d", ShortName(ma), addr)
			why := ""
			isNil, known := res.RetNil[0]
			switch {
			case bl.crash != "":
				why = bl.crash
			case !res.OK:
				why = "the method cannot be followed: " + res.Why
			case func() bool { _, p := res.End.(*ssa.Panic); return p }():
				why = "the method panics"
			case !known:
				why = "the result cannot be evaluated"
			case want < 0 && !isNil:
				why = "an unmapped address yields bytes"
			case want >= 0 && (isNil || len(lows) == 0 || lows[len(lows)-1] != want):
				why = fmt.Sprintf("a mapped address does not yield the bytes from offset %d of its block (blocks [10,14) [14,18) [30,34); nil=%v, offsets %v)", want, isNil, lows)
			}
			c.Oblige("C20.addr", key, c.Prog.FuncPos(ma), why == "", why)
		}
	}
}

// blockList is a concrete list of elf.Block values for the E7 walker: element
// i begins at begins[i] and holds lens[i] bytes. install makes every read of
// an element's begin field and of len(bytes) - however it is reached
// (accessors, copies, helper functions) - evaluate to these numbers.
type blockList struct {
	begins, lens []int64
	crash        string
	// snapshots: which element a block-typed phi / local cell / loaded value
	// stands for (taken when the phi is entered, the cell stored, the load done)
	phiElem  map[*ssa.Phi]int64
	cellElem map[*ssa.Alloc]int64
	loadElem map[ssa.Value]int64
}

func (bl *blockList) install(vl *Valuation, isList func(root ssa.Value) bool) {
	bl.phiElem, bl.cellElem, bl.loadElem = map[*ssa.Phi]int64{}, map[*ssa.Alloc]int64{}, map[ssa.Value]int64{}
	isBlock := func(t types.Type) bool {
		if p, ok := t.(*types.Pointer); ok {
			t = p.Elem()
		}
		n, ok := t.(*types.Named)
		return ok && n.Obj().Name() == "Block"
	}
	// element index of a struct value / element address
	var elemOf func(v ssa.Value) (int64, bool)
	oldStop := vl.RootStop
	vl.RootStop = func(v ssa.Value) bool {
		if p, ok := v.(*ssa.Phi); ok {
			if _, has := bl.phiElem[p]; has {
				return true
			}
		}
		if _, has := bl.loadElem[v]; has {
			return true
		}
		return oldStop != nil && oldStop(v)
	}
	vl.PhiHook = func(phi *ssa.Phi, incoming ssa.Value) {
		if !isBlock(phi.Type()) {
			return
		}
		if os.Getenv("MLTLINT_DEBUG") == "bl" {
			i, ok := elemOf(incoming)
			fmt.Fprintf(os.Stderr, "bl: phi %s <- %s elem=%d ok=%v\n", phi.Name(), incoming.Name(), i, ok)
		}
		if i, ok := elemOf(incoming); ok {
			bl.phiElem[phi] = i
		} else {
			delete(bl.phiElem, phi)
		}
	}
	oldVisit := vl.Visit
	vl.Visit = func(in ssa.Instruction) {
		switch x := in.(type) {
		case *ssa.Store:
			if al, ok := x.Addr.(*ssa.Alloc); ok && isBlock(al.Type()) && storesToCell(al) > 1 {
				if i, ok := elemOf(x.Val); ok {
					bl.cellElem[al] = i
				} else {
					delete(bl.cellElem, al)
				}
			}
		case *ssa.UnOp:
			if al, ok := x.X.(*ssa.Alloc); ok && x.Op == token.MUL && isBlock(al.Type()) {
				if i, has := bl.cellElem[al]; has {
					bl.loadElem[x] = i
				} else {
					delete(bl.loadElem, x)
				}
			}
		}
		if oldVisit != nil {
			oldVisit(in)
		}
	}
	elemOf = func(v ssa.Value) (int64, bool) {
		if p, ok := Unwrap(v).(*ssa.Phi); ok {
			if i, has := bl.phiElem[p]; has {
				return i, true
			}
		}
		if i, has := bl.loadElem[Unwrap(v)]; has {
			return i, true
		}
		r, fr := vl.RootF(v)
		if p, ok := r.(*ssa.Phi); ok {
			if i, has := bl.phiElem[p]; has {
				return i, true
			}
		}
		if i, has := bl.loadElem[r]; has {
			return i, true
		}
		if al, isAl := r.(*ssa.Alloc); isAl {
			if i, has := bl.cellElem[al]; has {
				return i, true
			}
		}
		// a struct copied into a local (value receiver, range variable): the
		// value that was stored into it
		if al, isAl := r.(*ssa.Alloc); isAl && al.Referrers() != nil {
			for _, ref := range *al.Referrers() {
				if st, isSt := ref.(*ssa.Store); isSt && st.Addr == ssa.Value(al) {
					save := vl.SetFrame(fr)
					r, fr = vl.RootF(st.Val)
					vl.SetFrame(save)
					break
				}
			}
		}
		if p, ok := r.(*ssa.Phi); ok {
			if i, has := bl.phiElem[p]; has {
				return i, true
			}
		}
		if i, has := bl.loadElem[r]; has {
			return i, true
		}
		var ia *ssa.IndexAddr
		switch x := r.(type) {
		case *ssa.IndexAddr:
			ia = x
		case *ssa.UnOp:
			if a, ok := x.X.(*ssa.IndexAddr); ok {
				ia = a
			}
		}
		if ia == nil {
			return 0, false
		}
		i, ok := vl.EvalIntF(fr, ia.Index)
		if !ok {
			return 0, false
		}
		// a reslice of the list with a constant lower bound
		if sl, isSl := ia.X.(*ssa.Slice); isSl && sl.Low != nil {
			if lo, ok := vl.EvalIntF(fr, sl.Low); ok {
				i += lo
			}
		}
		if i < 0 || i >= int64(len(bl.begins)) {
			if bl.crash == "" {
				bl.crash = fmt.Sprintf("element %d of a list of %d blocks is accessed", i, len(bl.begins))
			}
			return 0, false
		}
		return i, true
	}
	fieldRead := func(v ssa.Value) (string, ssa.Value, bool) {
		switch x := v.(type) {
		case *ssa.Field:
			if f := FieldOf(x); f != nil {
				return NameOf(f), x.X, true
			}
		case *ssa.UnOp:
			if fa, ok := x.X.(*ssa.FieldAddr); ok && x.Op == token.MUL {
				if f := FieldOf(fa); f != nil {
					return NameOf(f), fa.X, true
				}
			}
		}
		return "", nil, false
	}
	userInt := vl.Int
	vl.Int = func(v ssa.Value) (int64, bool) {
		if name, base, ok := fieldRead(v); ok && name == "begin" {
			if i, ok := elemOf(base); ok {
				return bl.begins[i], true
			}
			if os.Getenv("MLTLINT_DEBUG") == "bl" {
				r, _ := vl.RootF(base)
				fmt.Fprintf(os.Stderr, "bl: begin of %s (%T) in %s: root %s (%T)\n", base.Name(), base, v.Parent(), r.Name(), r)
			}
		}
		if call, ok := v.(*ssa.Call); ok {
			if bi, isBi := call.Call.Value.(*ssa.Builtin); isBi && bi.Name() == "len" {
				arg := call.Call.Args[0]
				if name, base, ok := fieldRead(arg); ok && name == "bytes" {
					if i, ok := elemOf(base); ok {
						return bl.lens[i], true
					}
				}
				r := vl.Root(arg)
				if name, base, ok := fieldRead(r); ok && name == "bytes" {
					if i, ok := elemOf(base); ok {
						return bl.lens[i], true
					}
				}
				if isList(r) {
					return int64(len(bl.begins)), true
				}
				if sl, isSl := r.(*ssa.Slice); isSl && isList(vl.Root(sl.X)) {
					lo, hi := int64(0), int64(len(bl.begins))
					if sl.Low != nil {
						lo, _ = vl.EvalInt(sl.Low, nil)
					}
					if sl.High != nil {
						hi, _ = vl.EvalInt(sl.High, nil)
					}
					return hi - lo, true
				}
			}
		}
		if userInt != nil {
			return userInt(v)
		}
		return 0, false
	}
}

// imageSpec describes how one of the two images is assembled from a list of
// the ELF file (program headers / sections).
type imageSpec struct {
	list, addr string
	guard      func(c *Ctx, fieldOf func(name string, v ssa.Value, chain []*ssa.Call) bool, g CtxGuard, st *imageState)
	need       []string
	why        map[string]string
	data       func(c *Ctx, s Site, nb *ssa.Call, isElem func(v ssa.Value, chain []*ssa.Call) bool, fieldOf func(name string, v ssa.Value, chain []*ssa.Call) bool) string
	dataLenOf  func(s Site) func(ssa.Value) bool
}

type imageState struct {
	ok      map[string]bool
	isElem  func(v ssa.Value, chain []*ssa.Call) bool
	dataLen func(ssa.Value) bool
}

func checkImageBlocks(c *Ctx, rootName string, spec imageSpec) {
	root := anchor(c, rootName)
	if root == nil {
		return
	}
	key := ShortName(root)
	enter := InModulePkg(root)
	// the loop over all elements of the list, in the root
	var loop *RangeLoop
	for _, l := range RangeLoops(root) {
		if n, _, ok := FieldNameOfLoad(l.Over); ok && n == spec.list {
			loop = l
		}
	}
	if loop == nil {
		c.Fail("C20.load", key, c.Prog.FuncPos(root), "the image is not assembled in a loop over all "+spec.list+" of the file")
		return
	}
	primary := loop
	isElemOfLoop := func(l *RangeLoop) func(v ssa.Value, chain []*ssa.Call) bool {
		return func(v ssa.Value, chain []*ssa.Call) bool {
			return DependsOnVia(chain, v, nil, func(x ssa.Value) bool {
				idx, ok := elemLoadIndex(x, l.Over)
				if !ok {
					// the same list loaded again
					if ld, isLd := Unwrap(x).(*ssa.UnOp); isLd && ld.Op == token.MUL {
						if ia, isIA := ld.X.(*ssa.IndexAddr); isIA && SameValue(ia.X, l.Over) {
							idx, ok = ia.Index, true
						}
					}
				}
				return ok && idx == l.Key
			}, nil)
		}
	}
	// a second loop over a local list into which the first loop has put (some
	// of) the elements: select first, build afterwards
	derived := map[*RangeLoop]bool{}
	for _, l := range RangeLoops(root) {
		if l == primary || l.IsMap || !l.FixedTrips {
			continue
		}
		if _, isSlice := l.Over.Type().Underlying().(*types.Slice); !isSlice {
			continue
		}
		nApp, okAll := 0, true
		for _, cs := range Calls(root) {
			bi, isB := cs.Common().Value.(*ssa.Builtin)
			if !isB || bi.Name() != "append" || !types.Identical(cs.Common().Args[0].Type(), l.Over.Type()) {
				continue
			}
			if !DependsOn(l.Over, func(v ssa.Value) bool { return v == cs.Value() }) {
				continue
			}
			nApp++
			// what is appended: the stores into the varargs array
			if sl, isSl := cs.Common().Args[1].(*ssa.Slice); isSl {
				if arr, isArr := sl.X.(*ssa.Alloc); isArr && arr.Referrers() != nil {
					for _, r := range *arr.Referrers() {
						if ia, isIA := r.(*ssa.IndexAddr); isIA && ia.Referrers() != nil {
							for _, r2 := range *ia.Referrers() {
								if st, isSt := r2.(*ssa.Store); isSt && !isElemOfLoop(primary)(st.Val, nil) {
									okAll = false
								}
							}
						}
					}
					continue
				}
			}
			okAll = false
		}
		if nApp > 0 && okAll {
			derived[l] = true
		}
	}
	sites := DeepInstrs(root, enter, func(in ssa.Instruction) bool {
		call, ok := in.(*ssa.Call)
		return ok && call.Call.StaticCallee() != nil && NameOf(call.Call.StaticCallee()) == "newBlock"
	})
	if len(sites) == 0 {
		c.Fail("C20.load", key, c.Prog.FuncPos(root), ShortName(root)+" builds no block")
		return
	}
	for i, s := range sites {
		nb := s.Instr.(*ssa.Call)
		st := &imageState{ok: map[string]bool{}}
		if spec.dataLenOf != nil {
			st.dataLen = spec.dataLenOf(s)
		}
		// inside the loop over all elements (seen from the root)
		var at ssa.Instruction = nb
		if len(s.Chain) > 0 {
			at = s.Chain[0]
		}
		bad := ""
		loop, isElem := primary, isElemOfLoop(primary)
		for l := range derived {
			if LoopBlocks(l.Header)[at.Block()] {
				loop, isElem = l, isElemOfLoop(l)
			}
		}
		st.isElem = isElem
		fieldOf := func(name string, v ssa.Value, chain []*ssa.Call) bool {
			n, base, ok := FieldNameOfLoad(v)
			return ok && n == name && isElem(base, chain)
		}
		if !LoopBlocks(loop.Header)[at.Block()] {
			bad = "blocks are not built for every element of " + spec.list
		}
		for _, g := range s.GuardsCtx() {
			spec.guard(c, fieldOf, g, st)
		}
		if bad == "" {
			for _, n := range spec.need {
				if !st.ok[n] {
					bad = spec.why[n]
					break
				}
			}
		}
		if bad == "" && !matches(nb.Call.Args[0], Conv(func(v ssa.Value, _ *Bind) bool { return fieldOf(spec.addr, v, s.Chain) })) {
			bad = "the block address is not the element's " + spec.addr
		}
		if bad == "" {
			bad = spec.data(c, s, nb, isElem, fieldOf)
		}
		k := key
		if i > 0 {
			k = fmt.Sprintf("%s#%d", key, i+1)
		}
		c.Oblige("C20.load", k, c.Prog.Pos(nb.Pos()), bad == "", bad)
		// collected into what nonEmptyMemory receives
		app := false
		for _, cs := range Calls(root) {
			if f := Callee(cs.Common()); f != nil && NameOf(f) == "nonEmptyMemory" {
				app = DependsOnVia(nil, cs.Common().Args[0], enter, func(v ssa.Value) bool { return v == ssa.Value(nb) }, nil)
			}
		}
		c.Oblige("C20.load", k+"/collected", c.Prog.FuncPos(root), app, "the blocks built are not what nonEmptyMemory receives")
	}
}

// walkOneElement walks an image builder (MachineCode / Memory) concretely over
// a file whose list (Sections / Progs) has one element with the given field
// values; every error is nil and the element's bytes, read with the callee
// readFn (directly or through io.ReadAll), have length readLen. kept: the
// element's bytes were read before the loop over the list was left; left: the
// loop was left (the walk got through the list).
func walkOneElement(fn *ssa.Function, loop *RangeLoop, list, readFn string, vals map[string]int64, readLen int64) (kept, left bool, res WalkResult) {
	vl := fieldLoadValuation(vals, true)
	fieldInt := vl.Int
	isRead := func(v ssa.Value) bool {
		call, ok := v.(*ssa.Call)
		return ok && call.Call.StaticCallee() != nil && call.Call.StaticCallee().String() == readFn
	}
	isBytes := func(v ssa.Value) bool {
		if isRead(v) {
			return true
		}
		call, ok := v.(*ssa.Call)
		return ok && call.Call.StaticCallee() != nil && call.Call.StaticCallee().String() == "io.ReadAll"
	}
	vl.Int = func(v ssa.Value) (int64, bool) {
		if call, ok := v.(*ssa.Call); ok {
			if bi, isB := call.Call.Value.(*ssa.Builtin); isB && bi.Name() == "len" {
				arg := vl.Root(call.Call.Args[0])
				if n, _, ok := FieldNameOfLoad(arg); ok && n == list {
					return 1, true // one element
				}
				if e, ok := arg.(*ssa.Extract); ok && isBytes(e.Tuple) {
					return readLen, true
				}
			}
		}
		return fieldInt(v)
	}
	vl.Enter = SamePackage(fn)
	vl.Visit = func(in ssa.Instruction) {
		if in.Parent() == fn && in.Block() == loop.Done {
			left = true
		}
		if v, ok := in.(ssa.Value); ok && isRead(v) {
			kept = true // (also in a later loop over the selected elements)
		}
	}
	res = vl.Walk(fn.Blocks[0], nil)
	return kept, left, res
}

// storesToCell counts the whole-value stores to a local cell.
func storesToCell(al *ssa.Alloc) int {
	n := 0
	if al.Referrers() != nil {
		for _, r := range *al.Referrers() {
			if st, ok := r.(*ssa.Store); ok && st.Addr == ssa.Value(al) {
				n++
			}
		}
	}
	return n
}
