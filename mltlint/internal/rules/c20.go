package rules

import (
	"fmt"
	"go/token"

	"golang.org/x/tools/go/ssa"

	. "mltlint/internal/core"
)

func init() { register("C20", "other", checkC20) }

// elfConst reads a constant of package debug/elf from the loaded program.
func elfConst(c *Ctx, name string) (int64, bool) {
	for _, p := range c.Prog.SSA.AllPackages() {
		if p.Pkg.Path() == "debug/elf" {
			if k := p.Const(name); k != nil && k.Value != nil {
				return k.Value.Int64(), true
			}
		}
	}
	c.Undecide("constant debug/elf.%s does not resolve", name)
	return 0, false
}

// fieldLoadValuation binds loads of struct fields (by field name) to values.
func fieldLoadValuation(vals map[string]int64, nilErr bool) *Valuation {
	return &Valuation{
		Int: func(v ssa.Value) (int64, bool) {
			if n, _, ok := FieldNameOfLoad(v); ok {
				if x, has := vals[n]; has {
					return x, true
				}
			}
			return 0, false
		},
		Bool: func(v ssa.Value) (bool, bool) {
			if _, nn, ok := NilCheck(v); ok {
				// every error is nil / non-nil as requested
				return nn != nilErr, true
			}
			return false, false
		},
	}
}

func checkC20(c *Ctx) {
	c.Rule("C20.type", "NewParser, walked for each ELF file type named by the property (NONE, REL, EXEC, DYN, CORE), accepts exactly ET_EXEC and ET_DYN, and fails when the file cannot be opened")
	c.Rule("C20.skip", "skipMachineCodeSection, walked over all 16 combinations of (type is PROGBITS, size is 0, address is 0, EXECINSTR flag set), keeps exactly non-empty, address-bearing, executable PROGBITS sections")
	c.Rule("C20.load", "Memory(): only PT_LOAD segments; Memsz < Filesz is an error; the block is newBlock(Addr(p.Vaddr), file bytes read from p.Open() followed by Memsz-len(data) zero bytes). MachineCode(): newBlock(Addr(s.Addr), s.Data()) with len(data) == s.Size enforced; both collect every selected element and go through nonEmptyMemory/newMemory")
	c.Rule("C20.overlap", "newMemory sorts blocks by Begin() and returns an error on the edge next.Begin() < prev.End(); an empty selection is an error; errors reach the caller")
	c.Rule("C20.addr", "Block.Address returns bytes[a-Begin():] only under Begin() <= a < End(), and nil otherwise; Memory.Address finds the block by binary search on End() > addr and checks Begin() <= addr")

	// --- C20.type
	if np := anchor(c, pkgElf+".NewParser"); np != nil {
		types := []string{"ET_NONE", "ET_REL", "ET_EXEC", "ET_DYN", "ET_CORE"}
		for _, tn := range types {
			tv, ok := elfConst(c, tn)
			if !ok {
				continue
			}
			vl := fieldLoadValuation(map[string]int64{"Type": tv}, true)
			res := vl.Walk(np.Blocks[0], nil)
			key := ShortName(np) + "/" + tn
			ret, isRet := res.End.(*ssa.Return)
			if !res.OK || !isRet {
				c.Fail("C20.type", key, c.Prog.FuncPos(np), "decision not computable: "+res.Why)
				continue
			}
			accepted := IsNilConst(ret.Results[1]) && !IsNilConst(ret.Results[0])
			want := tn == "ET_EXEC" || tn == "ET_DYN"
			c.Oblige("C20.type", key, c.Prog.Pos(ret.Pos()), accepted == want, fmt.Sprintf("file type %s: accepted=%v, expected %v", tn, accepted, want))
		}
		// open failure
		vl := fieldLoadValuation(map[string]int64{"Type": 2}, false)
		res := vl.Walk(np.Blocks[0], nil)
		ret, isRet := res.End.(*ssa.Return)
		c.Oblige("C20.type", ShortName(np)+"/open-error", c.Prog.FuncPos(np), res.OK && isRet && !IsNilConst(ret.Results[1]), "a file that cannot be opened does not yield an error")
		// the parser wraps the opened file
		okOpen := false
		for _, cs := range Calls(np) {
			if f := Callee(cs.Common()); f != nil && f.String() == "debug/elf.Open" && cs.Common().Args[0] == ssa.Value(np.Params[0]) {
				okOpen = true
			}
		}
		c.Oblige("C20.type", ShortName(np)+"/opens-filename", c.Prog.FuncPos(np), okOpen, "NewParser does not open its own filename with debug/elf.Open")
	}

	// --- C20.skip
	if sk := anchor(c, pkgElf+".skipMachineCodeSection"); sk != nil {
		pb, ok1 := elfConst(c, "SHT_PROGBITS")
		nb, ok2 := elfConst(c, "SHT_NOBITS")
		ex, ok3 := elfConst(c, "SHF_EXECINSTR")
		al, ok4 := elfConst(c, "SHF_ALLOC")
		if ok1 && ok2 && ok3 && ok4 {
			for mask := 0; mask < 16; mask++ {
				isPB, empty, noAddr, exec := mask&1 != 0, mask&2 != 0, mask&4 != 0, mask&8 != 0
				vals := map[string]int64{"Type": nb, "Size": 64, "Addr": 0x1000, "Flags": al}
				if isPB {
					vals["Type"] = pb
				}
				if empty {
					vals["Size"] = 0
				}
				if noAddr {
					vals["Addr"] = 0
				}
				if exec {
					vals["Flags"] = al | ex
				}
				vl := fieldLoadValuation(vals, true)
				res := vl.Walk(sk.Blocks[0], nil)
				key := fmt.Sprintf("%s/progbits=%v,empty=%v,noaddr=%v,exec=%v", ShortName(sk), isPB, empty, noAddr, exec)
				ret, isRet := res.End.(*ssa.Return)
				if !res.OK || !isRet {
					c.Fail("C20.skip", key, c.Prog.FuncPos(sk), "decision not computable: "+res.Why)
					continue
				}
				skipped, known := res.RetBool[0]
				if !known {
					c.Fail("C20.skip", key, c.Prog.Pos(ret.Pos()), "the returned decision cannot be evaluated")
					continue
				}
				want := !(isPB && !empty && !noAddr && exec)
				c.Oblige("C20.skip", key, c.Prog.Pos(ret.Pos()), skipped == want, fmt.Sprintf("skipped=%v, expected %v", skipped, want))
			}
		}
	}

	// --- C20.load
	if mem := anchor(c, "(*"+pkgElf+".Parser).Memory"); mem != nil {
		key := ShortName(mem)
		ptLoad, _ := elfConst(c, "PT_LOAD")
		var nbCall *ssa.Call
		for _, cs := range Calls(mem) {
			if f := Callee(cs.Common()); f != nil && f.Name() == "newBlock" {
				nbCall, _ = cs.Instr.(*ssa.Call)
			}
		}
		if nbCall == nil {
			c.Fail("C20.load", key, c.Prog.FuncPos(mem), "Memory() builds no block")
		} else {
			// loop over all Progs
			loopOK := false
			var prog ssa.Value
			for _, l := range RangeLoops(mem) {
				if n, _, ok := FieldNameOfLoad(l.Over); ok && n == "Progs" && LoopBlocks(l.Header)[nbCall.Block()] {
					loopOK = true
					// element
					for _, b := range mem.Blocks {
						for _, in := range b.Instrs {
							if u, ok := in.(*ssa.UnOp); ok {
								if idx, ok2 := elemLoadIndex(u, l.Over); ok2 && idx == l.Key {
									prog = u
								}
							}
						}
					}
				}
			}
			fieldOfProg := func(name string) Pat {
				return func(v ssa.Value, _ *Bind) bool {
					n, base, ok := FieldNameOfLoad(v)
					if !ok || n != name {
						return false
					}
					return DependsOn(base, func(x ssa.Value) bool { return x == prog })
				}
			}
			// guards: Type == PT_LOAD, !(Memsz < Filesz)
			typeOK, sizeOK := false, false
			for _, g := range GuardsOf(nbCall.Block()) {
				bo, ok := g.Cond.(*ssa.BinOp)
				if !ok {
					continue
				}
				if matches(bo.X, fieldOfProg("Type")) {
					if k, isK := ConstInt(bo.Y); isK && k == ptLoad && ((bo.Op == token.NEQ && !g.Outcome) || (bo.Op == token.EQL && g.Outcome)) {
						typeOK = true
					}
				}
				if matches(bo.X, fieldOfProg("Memsz")) && matches(bo.Y, fieldOfProg("Filesz")) && ((bo.Op == token.LSS && !g.Outcome) || (bo.Op == token.GEQ && g.Outcome)) {
					sizeOK = true
				}
			}
			addrOK := matches(nbCall.Call.Args[0], Conv(fieldOfProg("Vaddr")))
			// data: phi/append of io.ReadAll(p.Open()) and make(Memsz-len(data))
			var readAll *ssa.Call
			for _, cs := range Calls(mem) {
				if f := Callee(cs.Common()); f != nil && f.String() == "io.ReadAll" {
					if DependsOn(cs.Common().Args[0], func(v ssa.Value) bool {
						call, ok := v.(*ssa.Call)
						return ok && call.Call.StaticCallee() != nil && call.Call.StaticCallee().String() == "(*debug/elf.Prog).Open" && call.Call.Args[0] == prog
					}) {
						readAll, _ = cs.Instr.(*ssa.Call)
					}
				}
			}
			dataOK, fillOK := false, false
			if readAll != nil {
				data := extractOf(readAll, 0)
				dataOK = DependsOn(nbCall.Call.Args[1], func(v ssa.Value) bool { return v == data })
				// zero fill: append(data, make([]byte, Memsz - len(data))...)
				for _, cs := range Calls(mem) {
					if bi, ok := cs.Common().Value.(*ssa.Builtin); ok && bi.Name() == "append" && cs.Common().Args[0] == data {
						if ms, ok := cs.Common().Args[1].(*ssa.MakeSlice); ok {
							if matches(ms.Len, Conv(Bin(token.SUB, fieldOfProg("Memsz"), Conv(lenOf(data))))) {
								fillOK = DependsOn(nbCall.Call.Args[1], func(v ssa.Value) bool { return v == ssa.Value(cs.Instr.(*ssa.Call)) })
							}
						}
					}
				}
			}
			bad := ""
			switch {
			case !loopOK || prog == nil:
				bad = "segments are not taken from a loop over all program headers"
			case !typeOK:
				bad = "a segment other than PT_LOAD can become part of the memory image"
			case !sizeOK:
				bad = "a segment whose in-memory size is smaller than its file size is not rejected"
			case !addrOK:
				bad = "the block address is not the segment's Vaddr"
			case !dataOK:
				bad = "the block bytes are not the bytes read from the segment (p.Open())"
			case !fillOK:
				bad = "the block is not zero-filled up to Memsz"
			}
			c.Oblige("C20.load", key, c.Prog.Pos(nbCall.Pos()), bad == "", bad)
			// appended and passed to nonEmptyMemory
			app := false
			for _, cs := range Calls(mem) {
				if f := Callee(cs.Common()); f != nil && f.Name() == "nonEmptyMemory" {
					app = DependsOn(cs.Common().Args[0], func(v ssa.Value) bool { return v == ssa.Value(nbCall) })
				}
			}
			c.Oblige("C20.load", key+"/collected", c.Prog.FuncPos(mem), app, "the blocks built are not what nonEmptyMemory receives")
		}
	}
	if mc := anchor(c, "(*"+pkgElf+".Parser).MachineCode"); mc != nil {
		key := ShortName(mc)
		var nbCall, skipCall, dataCall *ssa.Call
		for _, cs := range Calls(mc) {
			f := Callee(cs.Common())
			if f == nil {
				continue
			}
			call, _ := cs.Instr.(*ssa.Call)
			switch {
			case f.Name() == "newBlock":
				nbCall = call
			case f.Name() == "skipMachineCodeSection":
				skipCall = call
			case f.String() == "(*debug/elf.Section).Data":
				dataCall = call
			}
		}
		bad := ""
		if nbCall == nil || skipCall == nil || dataCall == nil {
			bad = "MachineCode() does not select sections with skipMachineCodeSection, read them with Data() and build blocks"
		} else {
			sec := skipCall.Call.Args[0]
			loopOK := false
			for _, l := range RangeLoops(mc) {
				if n, _, ok := FieldNameOfLoad(l.Over); ok && n == "Sections" {
					if idx, ok := elemLoadIndex(sec, l.Over); ok && idx == l.Key {
						loopOK = true
					}
				}
			}
			skipOK, sizeOK := false, false
			for _, g := range GuardsOf(nbCall.Block()) {
				if g.Cond == ssa.Value(skipCall) && !g.Outcome {
					skipOK = true
				}
				if bo, ok := g.Cond.(*ssa.BinOp); ok {
					isLen := matches(bo.X, Conv(lenOf(extractOf(dataCall, 0))))
					isSize := func(v ssa.Value) bool { n, _, ok := FieldNameOfLoad(v); return ok && n == "Size" }
					if isLen && isSize(bo.Y) && ((bo.Op == token.NEQ && !g.Outcome) || (bo.Op == token.EQL && g.Outcome)) {
						sizeOK = true
					}
				}
			}
			addrOK := matches(nbCall.Call.Args[0], Conv(func(v ssa.Value, _ *Bind) bool {
				n, base, ok := FieldNameOfLoad(v)
				return ok && n == "Addr" && DependsOn(base, func(x ssa.Value) bool { return x == sec })
			}))
			switch {
			case !loopOK:
				bad = "sections are not taken from a loop over all sections of the file"
			case dataCall.Call.Args[0] != sec:
				bad = "the data read does not belong to the section that was selected"
			case !skipOK:
				bad = "a section that skipMachineCodeSection rejects can become part of the code image"
			case !sizeOK:
				bad = "a section whose data length differs from its declared size is not rejected"
			case !addrOK:
				bad = "the block address is not the section's Addr"
			case nbCall.Call.Args[1] != extractOf(dataCall, 0):
				bad = "the block bytes are not the section's data"
			}
		}
		c.Oblige("C20.load", key, c.Prog.FuncPos(mc), bad == "", bad)
	}

	// --- C20.overlap
	n := checkErrflow(c, "C20.overlap", []string{pkgElf}, nil)
	c.RequireCount("C20.overlap error-returning calls in package elf", n, 5)
	if nm := anchor(c, pkgElf+".newMemory"); nm != nil {
		sorted, overlap := false, false
		var sortCall ssa.Instruction
		for _, cs := range Calls(nm) {
			if f := Callee(cs.Common()); f != nil && f.String() == "sort.Slice" {
				if mc, ok := Unwrap(cs.Common().Args[1]).(*ssa.MakeClosure); ok {
					if cmp, ok := mc.Fn.(*ssa.Function); ok {
						for _, b := range cmp.Blocks {
							if ret, isRet := b.Instrs[len(b.Instrs)-1].(*ssa.Return); isRet {
								if bo, isBin := ret.Results[0].(*ssa.BinOp); isBin && bo.Op == token.LSS && matches(bo.X, Method("Begin", Any())) && matches(bo.Y, Method("Begin", Any())) {
									sorted = true
									sortCall = cs.Instr.(ssa.Instruction)
								}
							}
						}
					}
				}
			}
		}
		for _, b := range nm.Blocks {
			ret, ok := b.Instrs[len(b.Instrs)-1].(*ssa.Return)
			if !ok || IsNilConst(ret.Results[1]) {
				continue
			}
			for _, g := range GuardsOf(b) {
				bo, ok := g.Cond.(*ssa.BinOp)
				if !ok {
					continue
				}
				beg := func(v ssa.Value) bool { return matches(v, Method("Begin", Any())) }
				end := func(v ssa.Value) bool { return matches(v, Method("End", Any())) }
				if (bo.Op == token.LSS && beg(bo.X) && end(bo.Y) && g.Outcome) || (bo.Op == token.GTR && end(bo.X) && beg(bo.Y) && g.Outcome) {
					if sortCall == nil || sortCall.Block().Dominates(b) {
						overlap = true
					}
				}
			}
		}
		c.Oblige("C20.overlap", ShortName(nm), c.Prog.FuncPos(nm), sorted && overlap, "newMemory does not sort by Begin() and reject next.Begin() < prev.End()")
	}
	if ne := anchor(c, pkgElf+".nonEmptyMemory"); ne != nil {
		ok := false
		for _, b := range ne.Blocks {
			ret, isRet := b.Instrs[len(b.Instrs)-1].(*ssa.Return)
			if !isRet || IsNilConst(ret.Results[1]) {
				continue
			}
			for _, g := range GuardsOf(b) {
				if bo, isBin := g.Cond.(*ssa.BinOp); isBin && bo.Op == token.EQL && g.Outcome && matches(bo.X, lenOf(ssa.Value(ne.Params[0]))) && matches(bo.Y, IntPat(0)) {
					ok = true
				}
			}
		}
		c.Oblige("C20.overlap", ShortName(ne), c.Prog.FuncPos(ne), ok, "an image without any block is not rejected")
	}

	// --- C20.addr
	if ba := anchor(c, "("+pkgElf+".Block).Address"); ba != nil {
		n := 0
		bad := ""
		for _, b := range ba.Blocks {
			for _, in := range b.Instrs {
				sl, ok := in.(*ssa.Slice)
				if !ok {
					continue
				}
				n++
				lo, hi := false, false
				for _, g := range GuardsOf(b) {
					bo, ok := g.Cond.(*ssa.BinOp)
					if !ok || !IsParam(bo.X, ba.Params[1]) {
						continue
					}
					if matches(bo.Y, Method("Begin", Any())) && ((bo.Op == token.LSS && !g.Outcome) || (bo.Op == token.GEQ && g.Outcome)) {
						lo = true
					}
					if matches(bo.Y, Method("End", Any())) && ((bo.Op == token.GEQ && !g.Outcome) || (bo.Op == token.LSS && g.Outcome)) {
						hi = true
					}
				}
				okLow := sl.Low != nil && matches(sl.Low, Conv(Bin(token.SUB, func(v ssa.Value, _ *Bind) bool { return IsParam(v, ba.Params[1]) }, Method("Begin", Any()))))
				if !lo || !hi {
					bad = "the bytes are sliced without Begin() <= a < End() having been established"
				} else if !okLow || sl.High != nil {
					bad = "the slice does not start at a-Begin() and run to the end of the block"
				}
			}
		}
		c.Oblige("C20.addr", ShortName(ba), c.Prog.FuncPos(ba), n == 1 && bad == "", bad)
	}
	if ma := anchor(c, "(*"+pkgElf+".Memory).Address"); ma != nil {
		searchOK, checkOK := false, false
		for _, af := range ma.AnonFuncs {
			for _, b := range af.Blocks {
				if ret, ok := b.Instrs[len(b.Instrs)-1].(*ssa.Return); ok {
					if bo, isBin := ret.Results[0].(*ssa.BinOp); isBin && bo.Op == token.GTR && matches(bo.X, Method("End", Any())) {
						searchOK = true
					}
				}
			}
		}
		for _, cs := range Calls(ma) {
			if f := Callee(cs.Common()); f != nil && f.Name() == "Address" {
				for _, g := range GuardsOf(cs.Block()) {
					if bo, ok := g.Cond.(*ssa.BinOp); ok && bo.Op == token.GTR && !g.Outcome && matches(bo.X, Method("Begin", Any())) && IsParam(bo.Y, ma.Params[1]) {
						checkOK = true
					}
				}
			}
		}
		c.Oblige("C20.addr", ShortName(ma), c.Prog.FuncPos(ma), searchOK && checkOK, "Memory.Address does not search for the first block with End() > addr and check Begin() <= addr")
	}
}
