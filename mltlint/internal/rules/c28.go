package rules

import (
	"fmt"
	"go/token"
	"go/types"
	"sort"
	"strings"

	"golang.org/x/tools/go/ssa"

	. "mltlint/internal/core"
)

func init() { register("C28", "other", checkC28) }

// every function of the module that type-switches over a sealed IR interface
// (generic instantiations are represented by their origin).
func switchingFuncs(c *Ctx, iface string) []*ssa.Function {
	var out []*ssa.Function
	for _, fn := range c.Prog.Funcs() {
		if fn.Origin() != nil || fn.Blocks == nil {
			continue
		}
		if len(c.Prog.TypeSwitches(fn, iface)) > 0 {
			out = append(out, fn)
		}
	}
	return out
}

func checkExhaustiveAll(c *Ctx, rule string) {
	n := 0
	for _, iface := range []string{"Expr", "Effect"} {
		for _, fn := range switchingFuncs(c, iface) {
			for _, ts := range c.Prog.TypeSwitches(fn, iface) {
				n++
				c.Saw("type_switches", ShortName(fn)+"/"+iface)
				c.Exhaustive(rule, ts, iface)
			}
		}
	}
	c.RequireCount(rule+" (type switches over expr.Expr/expr.Effect)", n, 11)
}

func checkC28(c *Ctx) {
	c.Rule("C28.exh", "every type switch over expr.Expr / expr.Effect in the module has a case for every implementer (11 switches)")
	c.Rule("C28.order", "in pkg/expr constructor parameter order, struct field order and accessor declaration order agree for every node type (the k-th constructor argument is what the k-th accessor returns)")
	c.Rule("C28.equal", "Equal: in each case the second operand is asserted to the same node type, every child and attribute accessor of the node is compared between the two nodes (directly, recursively, or by the node's own Equal method, which compares every field), and the result is true only if all comparisons are true")
	c.Rule("C28.find", "findAll: the node itself is appended before any child is searched (pre-order); each case searches every child, in accessor order, threading the result list")
	c.Rule("C28.replace", "replaceAll: each case rebuilds the node homomorphically from all transformed children (same operator/key/width); the replacement function is applied after the children (no recursion after it)")
	c.Rule("C28.exprs", "Exprs lists exactly the child expressions of each effect")
	c.Rule("C28.apply", "EffectApply rebuilds each effect with the same constructor, key and width from the transformed children")

	checkExhaustiveAll(c, "C28.exh")
	model := c.Prog.ExprModel()
	if len(model) < 7 {
		c.Undecide("C28: node model of pkg/expr incomplete (%d types)", len(model))
		return
	}

	// --- C28.order
	var names []string
	for n := range model {
		names = append(names, n)
	}
	sort.Strings(names)
	for _, n := range names {
		m := model[n]
		if m.Ctor == nil || (len(m.Children()) == 0 && n == "Const") {
			continue // Const has several constructors that copy their input; its storage is decided under C27
		}
		key := "expr." + n
		bad := ""
		last := -1
		var accOrder []string
		for pi, a := range m.ParamAcc {
			if a == "" {
				bad = fmt.Sprintf("constructor parameter %d is not stored in a field that an accessor returns", pi)
				break
			}
			fi := m.AccField[a]
			if fi <= last {
				bad = fmt.Sprintf("constructor parameter %d is stored in field %d, out of order", pi, fi)
				break
			}
			last = fi
			accOrder = append(accOrder, a)
		}
		if bad == "" {
			// accessor declaration order == parameter order
			var decl []string
			for _, a := range m.Accessors {
				for _, b := range accOrder {
					if a == b {
						decl = append(decl, a)
					}
				}
			}
			for i := range decl {
				if i < len(accOrder) && decl[i] != accOrder[i] {
					bad = fmt.Sprintf("accessor declaration order %v differs from constructor parameter order %v", decl, accOrder)
					break
				}
			}
		}
		c.Oblige("C28.order", key, c.Prog.FuncPos(m.Ctor), bad == "", bad)
	}

	// --- Equal
	if eq := anchor(c, pkgXform+".Equal"); eq != nil {
		checkEqual(c, eq, model)
	}
	// --- findAll
	// the traversal behind FindAll, by role: the self-recursive function of the
	// package that FindAll calls and that switches over the node types (a plain
	// function threading the result list, or a method of a collector)
	var fa *ssa.Function
	if top := c.Prog.Func(ModulePath + "/" + pkgXform + ".FindAll"); top != nil && top.Blocks != nil {
		cands := []*ssa.Function{top}
		for _, cs := range Calls(top) {
			if g := Callee(cs.Common()); g != nil && g.Blocks != nil && PkgPathOf(g) == PkgPathOf(top) {
				cands = append(cands, Origin(g))
			}
		}
		for _, g := range cands {
			if g.Blocks != nil && len(c.Prog.TypeSwitches(g, "Expr")) == 1 && len(CallsTo(g, g)) > 0 {
				fa = g
			}
		}
	}
	if fa == nil {
		fa = anchor(c, pkgXform+".findAll")
	}
	if fa != nil {
		checkFindAll(c, fa, model)
	}
	// --- replaceAll
	if ra := anchor(c, pkgXform+".replaceAll"); ra != nil {
		n := checkRebuild(c, "C28.replace", ra, "Expr", nil)
		c.RequireCount("C28.replace constructor calls", n, 3)
		// f applied after the children
		group := c.Prog.RecursionGroup(ra)
		nf := 0
		for _, cs := range Calls(ra) {
			if _, isParam := cs.Common().Value.(*ssa.Parameter); !isParam || cs.Common().IsInvoke() {
				continue
			}
			nf++
			bad := ""
			ReachableFromInstr(cs.Instr.(ssa.Instruction), func(x ssa.Instruction) {
				if call, ok := x.(*ssa.Call); ok {
					if f := call.Call.StaticCallee(); f != nil && group[Origin(f)] {
						bad = c.Prog.Pos(call.Pos())
					}
				}
			})
			c.Oblige("C28.replace", ShortName(ra)+"/f-after-children", c.Prog.Pos(cs.Pos()), bad == "", "children are replaced at "+bad+" after the replacement function has been applied to the parent (not bottom-up)")
		}
		c.RequireCount("C28.replace call of f", nf, 1)
		// f is given, and every path that does not use f's answer returns, the
		// node as rebuilt from the replaced children (not the original node)
		var rebuilt []*ssa.Call
		enterRA := InModulePkg(ra)
		for _, st := range DeepCalls(ra, func(g *ssa.Function) bool { return enterRA(g) && Origin(g) != Origin(ra) }) {
			if f := Callee(st.Call().Common()); f != nil && PkgPathOf(f) == ExprPkg && strings.HasPrefix(NameOf(f), "New") {
				if call, ok := st.Instr.(*ssa.Call); ok {
					rebuilt = append(rebuilt, call)
				}
			}
		}
		missing := func(v ssa.Value) string {
			for _, rb := range rebuilt {
				if !DependsOnVia(nil, v, func(g *ssa.Function) bool { return enterRA(g) && Origin(g) != Origin(ra) }, func(w ssa.Value) bool { return w == ssa.Value(rb) }, nil) {
					return NameOf(rb.Call.StaticCallee()) + " at " + c.Prog.Pos(rb.Pos())
				}
			}
			return ""
		}
		var fCall ssa.Value
		for _, cs := range Calls(ra) {
			if _, isParam := cs.Common().Value.(*ssa.Parameter); !isParam || cs.Common().IsInvoke() {
				continue
			}
			fCall = cs.Instr.(ssa.Value)
			m := missing(cs.Common().Args[0])
			c.Oblige("C28.replace", ShortName(ra)+"/f-on-rebuilt-node", c.Prog.Pos(cs.Pos()), m == "", "the replacement function is not given the node rebuilt by "+m+": replacements made inside the node are lost when the node itself is replaced from its children")
		}
		for _, b := range ra.Blocks {
			ret, ok := b.Instrs[len(b.Instrs)-1].(*ssa.Return)
			if !ok {
				continue
			}
			if fCall != nil && DependsOn(ret.Results[0], func(w ssa.Value) bool { return w == fCall }) {
				continue
			}
			m := missing(ret.Results[0])
			c.Oblige("C28.replace", ShortName(ra)+"/returns-rebuilt-node", c.Prog.Pos(ret.Pos()), m == "", "a path on which the node itself is not replaced returns a node that is not the one rebuilt by "+m)
		}
	}
	// --- Exprs
	if ex := anchor(c, pkgXform+".Exprs"); ex != nil {
		n := 0
		for _, ts := range c.Prog.TypeSwitches(ex, "Effect") {
			for name := range ts.Cases {
				m := model[name]
				e, cb := ts.CaseValue(name), ts.CaseBlock(name)
				if m == nil || e == nil || cb == nil {
					continue
				}
				region := RegionOf(cb)
				oc := &OriginCtx{E: e, X: ts.X, Model: m, Group: map[*ssa.Function]bool{}}
				for b := range region {
					ret, ok := b.Instrs[len(b.Instrs)-1].(*ssa.Return)
					if !ok {
						continue
					}
					n++
					o := oc.Origins(ret.Results[0])
					want := map[string]bool{}
					for _, ch := range m.Children() {
						want[ch] = true
					}
					got := map[string]bool{}
					for k := range o {
						got[k] = true
					}
					key := ShortName(ex) + "/case " + name
					if joinNames(got) == joinNames(want) {
						c.Pass("C28.exprs", key, c.Prog.Pos(ret.Pos()), "")
					} else {
						c.Fail("C28.exprs", key, c.Prog.Pos(ret.Pos()), fmt.Sprintf("returns expressions derived from {%s}, the effect's operand expressions are {%s}", joinNames(got), joinNames(want)))
					}
				}
			}
		}
		c.RequireCount("C28.exprs cases", n, 2)
	}
	// --- EffectApply
	if ea := anchor(c, pkgXform+".EffectApply"); ea != nil {
		n := checkRebuild(c, "C28.apply", ea, "Effect", nil)
		c.RequireCount("C28.apply constructor calls", n, 2)
	}
	// --- EffectsApply / ExprsMany keep order and number
	if eas := anchor(c, pkgXform+".EffectsApply"); eas != nil {
		ea := c.Prog.Func(ModulePath + "/" + pkgXform + ".EffectApply")
		ok := false
		for _, cs := range CallsTo(eas, ea) {
			// applied[i] = EffectApply(effects[i], f): element i of the input goes to slot i
			call := cs.Instr.(*ssa.Call)
			var src, dst ssa.Value
			if ld, isLoad := call.Call.Args[0].(*ssa.UnOp); isLoad {
				if ia, isIdx := ld.X.(*ssa.IndexAddr); isIdx {
					src = ia.Index
				}
			}
			if refs := call.Referrers(); refs != nil {
				for _, r := range *refs {
					if st, isStore := r.(*ssa.Store); isStore {
						if ia, isIdx := st.Addr.(*ssa.IndexAddr); isIdx {
							dst = ia.Index
						}
					}
				}
			}
			_, fOK := call.Call.Args[1].(*ssa.Parameter)
			if src != nil && src == dst && fOK {
				ok = true
			}
		}
		c.Oblige("C28.apply", ShortName(eas)+"/slot-i<-element-i", c.Prog.FuncPos(eas), ok, "EffectsApply does not store EffectApply(effects[i], f) into slot i (order/number of effects not preserved)")
	}
}

func checkEqual(c *Ctx, eq *ssa.Function, model map[string]*NodeModel) {
	tss := c.Prog.TypeSwitches(eq, "Expr")
	var ts *TypeSwitch
	for _, t := range tss {
		if t.X == ssa.Value(eq.Params[0]) {
			ts = t
		}
	}
	if ts == nil {
		c.Undecide("C28.equal: no type switch on Equal's first parameter")
		return
	}
	// width compared generically before the switch?
	widthFirst := false
	for _, g := range GuardsOf(ts.Cases[firstKey(ts.Cases)].Block()) {
		if b, ok := g.Cond.(*ssa.BinOp); ok && (b.Op == token.NEQ || b.Op == token.EQL) {
			isW := func(v ssa.Value, p *ssa.Parameter) bool {
				return matches(v, Invoke("Width", func(x ssa.Value, _ *Bind) bool { return x == ssa.Value(p) }))
			}
			if (isW(b.X, eq.Params[0]) && isW(b.Y, eq.Params[1])) || (isW(b.X, eq.Params[1]) && isW(b.Y, eq.Params[0])) {
				if (b.Op == token.NEQ) != g.Outcome {
					widthFirst = true
				}
			}
		}
	}
	n := 0
	var names []string
	for name := range ts.Cases {
		names = append(names, name)
	}
	sort.Strings(names)
	for _, name := range names {
		m := model[name]
		e1, cb := ts.CaseValue(name), ts.CaseBlock(name)
		if m == nil || e1 == nil || cb == nil {
			c.Fail("C28.equal", ShortName(eq)+"/case "+name, c.Prog.FuncPos(eq), "case has no bound node value")
			continue
		}
		n++
		key := ShortName(eq) + "/case " + name
		pos := c.Prog.Pos(ts.Cases[name].Pos())
		// the other operand asserted to the same type
		var e2, ok2 ssa.Value
		for b := range RegionOf(cb) {
			for _, in := range b.Instrs {
				ta, ok := in.(*ssa.TypeAssert)
				if !ok || ta.X != ssa.Value(eq.Params[1]) {
					continue
				}
				if nt, ok := ta.AssertedType.(*types.Named); ok && nt.Obj().Name() == name && ta.CommaOk {
					if refs := ta.Referrers(); refs != nil {
						for _, r := range *refs {
							if ex, ok := r.(*ssa.Extract); ok {
								if ex.Index == 0 {
									e2 = ex
								} else {
									ok2 = ex
								}
							}
						}
					}
				}
			}
		}
		if e2 == nil || ok2 == nil {
			c.Fail("C28.equal", key, pos, "the second operand is not asserted (comma-ok) to expr."+name)
			continue
		}
		// atoms
		covers := map[ssa.Value][]string{}
		negAtom := map[ssa.Value]bool{} // `a != b`: the pair is equal when the atom is false
		acc := func(v ssa.Value, e ssa.Value) string {
			for a := range m.AccField {
				if accessorCallOn(v, e, a) {
					return a
				}
			}
			return ""
		}
		pair := func(x, y ssa.Value) string {
			if a := acc(x, e1); a != "" && acc(y, e2) == a {
				return a
			}
			if a := acc(x, e2); a != "" && acc(y, e1) == a {
				return a
			}
			return ""
		}
		for b := range RegionOf(cb) {
			for _, in := range b.Instrs {
				switch x := in.(type) {
				case *ssa.BinOp:
					if x.Op == token.EQL || x.Op == token.NEQ {
						if a := pair(x.X, x.Y); a != "" {
							covers[x] = []string{a}
							if x.Op == token.NEQ {
								negAtom[x] = true
							}
						}
					}
				case *ssa.Call:
					f := x.Call.StaticCallee()
					if f == nil || x.Call.IsInvoke() {
						continue
					}
					if SameFunc(f, eq) && len(x.Call.Args) == 2 {
						if a := pair(x.Call.Args[0], x.Call.Args[1]); a != "" {
							covers[x] = []string{a}
						}
					} else if NameOf(f) == "Equal" && f.Signature.Recv() != nil && len(x.Call.Args) == 2 &&
						((x.Call.Args[0] == e1 && x.Call.Args[1] == e2) || (x.Call.Args[0] == e2 && x.Call.Args[1] == e1)) {
						// the node's own Equal method: covers the accessors it compares
						covers[x] = ownEqualCovers(c, f, m)
					}
				}
			}
		}
		isAtom := func(v ssa.Value) bool {
			if v == ok2 {
				return true
			}
			_, ok := covers[v]
			return ok
		}
		paths, ok := boolReturnPaths(cb, cb.Preds[0], 0, isAtom)
		if !ok {
			c.Fail("C28.equal", key, pos, "the case returns something other than a conjunction of comparisons of the two nodes")
			continue
		}
		need := map[string]bool{}
		for _, a := range m.Accessors {
			if a == "Width" && widthFirst {
				continue
			}
			need[a] = true
		}
		bad := ""
		nTrue := 0
		for _, p := range paths {
			if !p.Result {
				continue
			}
			nTrue++
			if v, has := p.Assign[ok2]; !has || !v {
				bad = "returns true although the second operand is not an expr." + name
			}
			got := map[string]bool{}
			for atom, val := range p.Assign {
				if val != negAtom[atom] {
					for _, a := range covers[atom] {
						got[a] = true
					}
				}
			}
			for a := range need {
				if !got[a] {
					bad = "returns true without " + a + "() of the two nodes having compared equal"
				}
			}
		}
		if nTrue == 0 {
			bad = "never returns true"
		}
		c.Oblige("C28.equal", key, pos, bad == "", bad)
	}
	c.RequireCount("C28.equal cases", n, 5)
	c.Oblige("C28.equal", ShortName(eq)+"/width-first", c.Prog.FuncPos(eq), widthFirst, "widths of the two expressions are not compared before the type switch")
}

func firstKey(m map[string]*ssa.TypeAssert) string {
	var ks []string
	for k := range m {
		ks = append(ks, k)
	}
	sort.Strings(ks)
	return ks[0]
}

// ownEqualCovers analyses a node's own Equal(other) method: it returns the
// accessors (fields) that are compared on every path returning true.
func ownEqualCovers(c *Ctx, f *ssa.Function, m *NodeModel) []string {
	if f.Blocks == nil || len(f.Params) != 2 {
		return nil
	}
	c.Saw("functions", ShortName(f))
	p1, p2 := ssa.Value(f.Params[0]), ssa.Value(f.Params[1])
	// field/accessor of parameter
	fieldOf := func(v ssa.Value, p ssa.Value) (int, bool) {
		v = Unwrap(v)
		if call, ok := v.(*ssa.Call); ok && !call.Call.IsInvoke() {
			g := call.Call.StaticCallee()
			if g != nil && len(call.Call.Args) == 1 && isParamOrCopy(call.Call.Args[0], p) {
				if fi, ok := m.AccField[NameOf(g)]; ok {
					return fi, true
				}
			}
			return 0, false
		}
		if fl, ok := v.(*ssa.Field); ok && isParamOrCopy(fl.X, p) {
			return fl.Field, true
		}
		if u, ok := v.(*ssa.UnOp); ok && u.Op == token.MUL {
			if fa, ok := u.X.(*ssa.FieldAddr); ok && isParamOrCopy(fa.X, p) {
				return fa.Field, true
			}
		}
		return 0, false
	}
	covers := map[ssa.Value]int{}
	negOwn := map[ssa.Value]bool{}
	for _, b := range f.Blocks {
		for _, in := range b.Instrs {
			var x, y ssa.Value
			neg := false
			switch v := in.(type) {
			case *ssa.BinOp:
				if v.Op != token.EQL && v.Op != token.NEQ {
					continue
				}
				neg = v.Op == token.NEQ
				x, y = v.X, v.Y
			case *ssa.Call:
				g := v.Call.StaticCallee()
				if g == nil || g.String() != "bytes.Equal" {
					continue
				}
				x, y = v.Call.Args[0], v.Call.Args[1]
			default:
				continue
			}
			a, ok1 := fieldOf(x, p1)
			b2, ok2 := fieldOf(y, p2)
			if !ok1 || !ok2 {
				a, ok1 = fieldOf(x, p2)
				b2, ok2 = fieldOf(y, p1)
			}
			if ok1 && ok2 && a == b2 {
				covers[in.(ssa.Value)] = a
				if neg {
					negOwn[in.(ssa.Value)] = true
				}
			}
		}
	}
	paths, ok := boolReturnPaths(f.Blocks[0], nil, 0, func(v ssa.Value) bool { _, ok := covers[v]; return ok })
	if !ok {
		return nil
	}
	var common map[int]bool
	for _, p := range paths {
		if !p.Result {
			continue
		}
		got := map[int]bool{}
		for atom, val := range p.Assign {
			if val != negOwn[atom] {
				got[covers[atom]] = true
			}
		}
		if common == nil {
			common = got
		} else {
			for k := range common {
				if !got[k] {
					delete(common, k)
				}
			}
		}
	}
	var out []string
	for a, fi := range m.AccField {
		if common[fi] {
			out = append(out, a)
		}
	}
	// a field without accessor (Const.bs) compared => Width (len of bs) is covered as well
	st, _ := m.Named.Underlying().(*types.Struct)
	if st != nil && st.NumFields() == 1 && common[0] {
		out = append(out, m.Accessors...)
	}
	return out
}

func isParamOrCopy(v ssa.Value, p ssa.Value) bool {
	if v == p {
		return true
	}
	// address of a local copy of the parameter
	if a, ok := v.(*ssa.Alloc); ok {
		if refs := a.Referrers(); refs != nil {
			for _, r := range *refs {
				if st, ok := r.(*ssa.Store); ok && st.Addr == ssa.Value(a) && st.Val == p {
					return true
				}
			}
		}
	}
	return false
}

func checkFindAll(c *Ctx, fa *ssa.Function, model map[string]*NodeModel) {
	tss := c.Prog.TypeSwitches(fa, "Expr")
	if len(tss) != 1 {
		c.Undecide("C28.find: expected one type switch in findAll, found %d", len(tss))
		return
	}
	ts := tss[0]
	// self-append: append whose appended element derives from a type
	// assertion of ex to the type parameter
	var selfAppend ssa.Instruction
	for _, b := range fa.Blocks {
		for _, in := range b.Instrs {
			call, ok := in.(*ssa.Call)
			if !ok {
				continue
			}
			if bi, ok := call.Call.Value.(*ssa.Builtin); !ok || bi.Name() != "append" {
				continue
			}
			if DependsOn(call.Call.Args[1], func(v ssa.Value) bool {
				ta, ok := v.(*ssa.TypeAssert)
				if !ok || ta.X != ts.X {
					return false
				}
				_, isTP := ta.AssertedType.(*types.TypeParam)
				return isTP
			}) {
				selfAppend = call
			}
		}
	}
	key := ShortName(fa)
	if selfAppend == nil {
		c.Fail("C28.find", key+"/self", c.Prog.FuncPos(fa), "the node itself is never appended when it has the requested type")
	} else {
		bad := ""
		for _, cs := range CallsTo(fa, fa) {
			reach := false
			ReachableFromInstr(cs.Instr.(ssa.Instruction), func(x ssa.Instruction) {
				if x == selfAppend {
					reach = true
				}
			})
			if reach {
				bad = c.Prog.Pos(cs.Pos())
			}
		}
		c.Oblige("C28.find", key+"/self-before-children", c.Prog.Pos(selfAppend.Pos()), bad == "", "a child is searched at "+bad+" before the node itself is appended (not pre-order)")
	}
	n := 0
	var names []string
	for name := range ts.Cases {
		names = append(names, name)
	}
	sort.Strings(names)
	for _, name := range names {
		m := model[name]
		e, cb := ts.CaseValue(name), ts.CaseBlock(name)
		if m == nil || len(m.Children()) == 0 {
			continue
		}
		ckey := key + "/case " + name
		if e == nil || cb == nil {
			c.Fail("C28.find", ckey, c.Prog.FuncPos(fa), "case has no bound node although expr."+name+" has children")
			continue
		}
		n++
		region := RegionOf(cb)
		var seq []*ssa.Call
		for _, b := range fa.Blocks {
			if !region[b] {
				continue
			}
			for _, in := range b.Instrs {
				if call, ok := in.(*ssa.Call); ok && SameFunc(call.Call.StaticCallee(), fa) {
					seq = append(seq, call)
				}
			}
		}
		// which argument is the node searched, which (if any) the list so far
		exprIdx, listIdx := 0, -1
		for i, p := range fa.Params {
			if TypeNameIs(p.Type(), "pkg/expr.Expr") {
				exprIdx = i
			} else if _, isSl := p.Type().Underlying().(*types.Slice); isSl {
				listIdx = i
			}
		}
		var got []string
		threaded := true
		for i, call := range seq {
			a := ""
			for _, ch := range m.Children() {
				if accessorCallOn(call.Call.Args[exprIdx], e, ch) {
					a = ch
				}
			}
			got = append(got, a)
			switch {
			case listIdx >= 0:
				if i > 0 && Unwrap(call.Call.Args[listIdx]) != ssa.Value(seq[i-1]) {
					threaded = false
				}
			case fa.Signature.Recv() != nil:
				// a collector: every child search goes to the same collector
				if Unwrap(call.Call.Args[0]) != ssa.Value(fa.Params[0]) {
					threaded = false
				}
			default:
				threaded = false
			}
		}
		want := m.Children()
		switch {
		case fmt.Sprint(got) != fmt.Sprint(want):
			c.Fail("C28.find", ckey, c.Prog.Pos(cb.Instrs[0].Pos()), fmt.Sprintf("children searched: %v, children of the node in order: %v", got, want))
		case !threaded:
			c.Fail("C28.find", ckey, c.Prog.Pos(cb.Instrs[0].Pos()), "the result list is not threaded through the child searches (earlier finds are lost)")
		default:
			// the case's final list is the last call's result
			c.Pass("C28.find", ckey, c.Prog.Pos(cb.Instrs[0].Pos()), "")
		}
	}
	c.RequireCount("C28.find cases with children", n, 3)
	// the returned value in each case is the last search result
	for _, b := range fa.Blocks {
		ret, ok := b.Instrs[len(b.Instrs)-1].(*ssa.Return)
		if !ok {
			continue
		}
		if len(ret.Results) == 0 {
			continue // a collector: nothing is handed back
		}
		if ph, ok := ret.Results[0].(*ssa.Phi); ok {
			bad := ""
			for i, e := range ph.Edges {
				pred := b.Preds[i]
				// last recursive call in pred (if any) must be the value
				var last *ssa.Call
				for _, in := range pred.Instrs {
					if call, ok := in.(*ssa.Call); ok && SameFunc(call.Call.StaticCallee(), fa) {
						last = call
					}
				}
				if last != nil && e != ssa.Value(last) {
					bad = c.Prog.Pos(last.Pos())
				}
			}
			c.Oblige("C28.find", key+"/returns-last-result", c.Prog.Pos(ret.Pos()), bad == "", "the result of the child search at "+bad+" is not what the case returns")
		}
	}
}
