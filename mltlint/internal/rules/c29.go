package rules

import (
	"fmt"
	"go/constant"
	"go/token"
	"go/types"
	"strings"

	"golang.org/x/tools/go/ssa"

	. "mltlint/internal/core"
)

func init() { register("C29", "other", checkC29) }

// C29: help text wrapping. consoleui.format looks at the characters of its
// text only to compare them with the space character (rule C29.alpha), so what
// it does with a text is determined by the text's pattern of spaces and
// non-spaces, its length, the indentation and the width. format is walked
// (E7+ with literal strings) for every such pattern up to a length, with every
// non-space position given its own letter so that order and loss are visible,
// and the output written to the strings.Builder is compared with the property.
func checkC29(c *Ctx) {
	c.Rule("C29.alpha", "format and the helpers it calls use a character of the text only in a comparison with the space character")
	c.Rule("C29.wrap", "format, walked for every space pattern of texts of 1..7 characters (no leading space) x 6 (indentation, width) pairs leaving room for 1..4 characters, terminates; every line starts with the indentation and fits the room; the non-space characters of the text appear once, in order; a word is split only when it alone is longer than the room")

	ff := c.Prog.Func(ModulePath + "/internal/consoleui.format")
	if ff == nil || ff.Blocks == nil || len(ff.Params) != 3 {
		c.Undecide("C29: consoleui.format(text, indent, width) not found")
		return
	}
	// ---- C29.alpha
	bad := ""
	var fns []*ssa.Function
	seen := map[*ssa.Function]bool{}
	var collect func(f *ssa.Function)
	collect = func(f *ssa.Function) {
		if f == nil || f.Blocks == nil || seen[f] || PkgPathOf(f) != PkgPathOf(ff) {
			return
		}
		seen[f] = true
		fns = append(fns, f)
		for _, cs := range Calls(f) {
			collect(Callee(cs.Common()))
		}
	}
	collect(ff)
	nChar := 0
	for _, f := range fns {
		for _, b := range f.Blocks {
			for _, in := range b.Instrs {
				var ch ssa.Value
				switch x := in.(type) {
				case *ssa.Lookup:
					if isStringT(x.X.Type()) {
						ch = x
					}
				case *ssa.Index:
					if isStringT(x.X.Type()) {
						ch = x
					}
				}
				if ch == nil || ch.Referrers() == nil {
					continue
				}
				nChar++
				for _, r := range *ch.Referrers() {
					bo, ok := r.(*ssa.BinOp)
					if ok && (bo.Op == token.EQL || bo.Op == token.NEQ) {
						other := bo.Y
						if other == ch {
							other = bo.X
						}
						if k, isC := ConstInt(other); isC && k == ' ' {
							continue
						}
					}
					bad = c.Prog.Pos(in.Pos())
				}
			}
		}
	}
	// the text handed to a library function: only searches for / trimming of the space
	for _, f := range fns {
		for _, cs := range Calls(f) {
			g := Callee(cs.Common())
			if g == nil || PkgPathOf(g) == PkgPathOf(ff) {
				continue
			}
			hasText := false
			for _, a := range cs.Common().Args {
				if isStringT(a.Type()) {
					if _, isConst := a.(*ssa.Const); !isConst {
						hasText = true
					}
				}
			}
			if !hasText {
				continue
			}
			nChar++
			isSpaceArg := func(v ssa.Value) bool {
				if k, ok := ConstInt(v); ok {
					return k == ' '
				}
				if k, ok := v.(*ssa.Const); ok && k.Value != nil && k.Value.Kind() == constant.String {
					return constant.StringVal(k.Value) == " "
				}
				return false
			}
			switch g.String() {
			case "(*strings.Builder).WriteString":
			case "strings.LastIndexByte", "strings.IndexByte", "strings.TrimLeft", "strings.TrimRight", "strings.Trim", "strings.LastIndex", "strings.Index":
				if !isSpaceArg(cs.Common().Args[1]) {
					bad = c.Prog.Pos(cs.Pos())
				}
			default:
				bad = c.Prog.Pos(cs.Pos())
			}
		}
	}
	c.Oblige("C29.alpha", ShortName(ff), c.Prog.FuncPos(ff), bad == "" && nChar >= 1, "a character of the text is used for something other than a comparison with / a search for the space character (at "+bad+"): the space pattern no longer determines the result")

	// ---- C29.wrap
	tabW := int64(8)
	if pk := c.Prog.SSAPkg[PkgPathOf(ff)]; pk != nil && pk.Const("tabWidth") != nil {
		tabW = pk.Const("tabWidth").Value.Int64()
	}
	type cfg struct{ indent, width int64 }
	var cfgs []cfg
	for room := int64(1); room <= 4; room++ {
		cfgs = append(cfgs, cfg{0, room})
	}
	cfgs = append(cfgs, cfg{1, tabW + 1}, cfg{1, tabW + 3})
	walked := 0
	firstBad := map[cfg]string{}
	for L := 1; L <= 7; L++ {
		for pat := 0; pat < 1<<(L-1); pat++ {
			// position 0 is a letter; bit k-1 of pat set: position k is a space
			text := make([]byte, L)
			for k := 0; k < L; k++ {
				if k > 0 && pat>>(k-1)&1 == 1 {
					text[k] = ' '
				} else {
					text[k] = byte('a' + k)
				}
			}
			for _, cf := range cfgs {
				if firstBad[cf] != "" {
					continue
				}
				why := wrapWalk(ff, string(text), cf.indent, cf.width, tabW)
				walked++
				if why != "" {
					firstBad[cf] = fmt.Sprintf("text %q: %s", string(text), why)
				}
			}
		}
	}
	for _, cf := range cfgs {
		c.Oblige("C29.wrap", fmt.Sprintf("%s/indent=%d,width=%d", ShortName(ff), cf.indent, cf.width), c.Prog.FuncPos(ff), firstBad[cf] == "", firstBad[cf])
	}
	c.Saw("wrap_walks", fmt.Sprintf("%d", walked))
	c.RequireCount("C29.wrap texts x configurations walked", walked, 700)
}

func isStringT(t types.Type) bool {
	b, ok := t.Underlying().(*types.Basic)
	return ok && b.Info()&types.IsString != 0
}

// wrapWalk walks format(text, indent, width) and compares what it writes with
// the property; "" when it holds.
func wrapWalk(ff *ssa.Function, text string, indent, width, tabW int64) string {
	var out strings.Builder
	sw := &StrWalk{Bind: func(v ssa.Value) (string, bool) {
		if v == ssa.Value(ff.Params[0]) {
			return text, true
		}
		return "", false
	}}
	var vl *Valuation
	vl = &Valuation{
		Enter: SamePackage(ff),
		Int: func(v ssa.Value) (int64, bool) {
			switch v {
			case ssa.Value(ff.Params[1]):
				return indent, true
			case ssa.Value(ff.Params[2]):
				return width, true
			}
			return 0, false
		},
	}
	unknown := ""
	vl.Visit = func(in ssa.Instruction) {
		call, ok := in.(*ssa.Call)
		if !ok || call.Call.StaticCallee() == nil {
			return
		}
		switch call.Call.StaticCallee().String() {
		case "(*strings.Builder).WriteByte":
			if n, ok := vl.EvalInt(call.Call.Args[1], nil); ok {
				out.WriteByte(byte(n))
			} else {
				unknown = "a byte written cannot be evaluated"
			}
		case "(*strings.Builder).WriteString":
			if s, ok := sw.StrOf(call.Call.Args[1]); ok {
				out.WriteString(s)
			} else {
				unknown = "a string written cannot be evaluated"
			}
		case "(*strings.Builder).WriteRune":
			if n, ok := vl.EvalInt(call.Call.Args[1], nil); ok {
				out.WriteRune(rune(n))
			} else {
				unknown = "a rune written cannot be evaluated"
			}
		}
	}
	sw.Install(vl)
	res := vl.Walk(ff.Blocks[0], nil)
	switch {
	case sw.Crash != "":
		return "the text is accessed out of range: " + sw.Crash
	case unknown != "":
		return unknown
	case !res.OK:
		return "the function cannot be followed to its end (no termination within the step bound, or an undecidable branch): " + res.Why
	}
	if _, isRet := res.End.(*ssa.Return); !isRet {
		return "format panics"
	}
	room := int(width - indent*tabW)
	got := out.String()
	if got != "" && !strings.HasSuffix(got, "\n") {
		return fmt.Sprintf("the output %q does not end its last line", got)
	}
	lines := strings.Split(strings.TrimSuffix(got, "\n"), "\n")
	if got == "" {
		lines = nil
	}
	prefix := strings.Repeat("\t", int(indent))
	var letters strings.Builder
	var bodies []string
	for _, ln := range lines {
		if !strings.HasPrefix(ln, prefix) {
			return fmt.Sprintf("line %q does not start with the indentation", ln)
		}
		body := ln[len(prefix):]
		if len(body) > room {
			return fmt.Sprintf("line %q has %d characters, the room is %d", body, len(body), room)
		}
		bodies = append(bodies, body)
		letters.WriteString(strings.ReplaceAll(body, " ", ""))
	}
	if want := strings.ReplaceAll(text, " ", ""); letters.String() != want {
		return fmt.Sprintf("the lines hold the characters %q, the text has %q", letters.String(), want)
	}
	// a word split over two lines must be longer than the room on its own
	for i := 0; i+1 < len(bodies); i++ {
		a, b := bodies[i], bodies[i+1]
		if a == "" || b == "" || a[len(a)-1] == ' ' || b[0] == ' ' {
			continue
		}
		// adjacent in the text?
		pa, pb := strings.IndexByte(text, a[len(a)-1]), strings.IndexByte(text, b[0])
		if pb != pa+1 {
			continue
		}
		// the word around the split
		lo, hi := pa, pb
		for lo > 0 && text[lo-1] != ' ' {
			lo--
		}
		for hi+1 < len(text) && text[hi+1] != ' ' {
			hi++
		}
		if hi-lo+1 <= room {
			return fmt.Sprintf("the word %q (%d characters, room %d) is split between lines %q and %q", text[lo:hi+1], hi-lo+1, room, a, b)
		}
	}
	return ""
}
