package absint

import (
	"fmt"
	"go/constant"
	"go/token"
	"go/types"
	"strings"

	"golang.org/x/tools/go/ssa"
)

const (
	RiscvPkg = "mltwist/internal/riscv"
)

// Entry is one evaluated element of riscv.instructions.
type Entry struct {
	Variant   uint64 // value of the Variant map key
	Ext       uint64 // value of the Extension map key
	Index     int    // position within its table
	Name      string
	Bytes     []byte
	MaskBytes []byte
	Mask      uint32 // little-endian word view (patterns <= 4 bytes)
	Match     uint32
	Struct    *StructV
	Ptr       PtrV
	Effects   FuncV
	Pos       token.Pos

	InputRegCnt  uint64
	HasOutputReg bool
	LoadBytes    uint64
	StoreBytes   uint64
	Immediate    uint64
	InstrType    uint64
}

// Key identifies the entry independent of source position.
func (e *Entry) Key() string {
	return fmt.Sprintf("v%d/ext%d/%s", e.Variant, e.Ext, e.Name)
}

// Tables is the result of evaluating package riscv's initialiser.
type Tables struct {
	In      *Interp
	Pkg     *ssa.Package
	Entries []*Entry
	ByPtr   map[*Cell]*Entry
	Steps   int
}

// NewRiscvInterp builds an interpreter whose home package is internal/riscv
// and whose cut points are pkg/expr and pkg/expr/exprtools.
func NewRiscvInterp(prog *ssa.Program, sizes types.Sizes) *Interp {
	in := New(prog, sizes)
	in.Home = func(p string) bool { return p == RiscvPkg || p == "mltwist/pkg/model" }
	in.Cut = func(p string) (string, bool) {
		switch p {
		case "mltwist/pkg/expr":
			return "expr", true
		case "mltwist/pkg/expr/exprtools":
			return "exprtools", true
		}
		return "", false
	}
	return in
}

// EvalTables interprets riscv.init and reads the `instructions` map.
func EvalTables(prog *ssa.Program, pkg *ssa.Package, sizes types.Sizes) (t *Tables, err error) {
	defer func() {
		if r := recover(); r != nil {
			switch x := r.(type) {
			case Abort:
				err = fmt.Errorf("abstract interpretation of riscv.init aborted: %s", x.Msg)
			case PathPanic:
				err = fmt.Errorf("riscv.init panics at %s (table construction is invalid)", prog.Fset.Position(x.Pos))
			default:
				panic(r)
			}
		}
	}()
	in := NewRiscvInterp(prog, sizes)
	initFn := pkg.Func("init")
	if initFn == nil {
		return nil, fmt.Errorf("riscv.init not found")
	}
	in.Call(initFn, nil, nil)
	g := pkg.Var("instructions")
	if g == nil {
		return nil, fmt.Errorf("riscv.instructions not found")
	}
	m, ok := in.Global(g).V.(*MapV)
	if !ok {
		return nil, fmt.Errorf("riscv.instructions is not a map literal")
	}
	t = &Tables{In: in, Pkg: pkg, ByPtr: map[*Cell]*Entry{}}
	for _, vk := range m.Keys {
		ks, _ := mapKey(vk)
		em, ok := m.Vals[ks].(*MapV)
		if !ok {
			return nil, fmt.Errorf("riscv.instructions[%v] is not a map", vk)
		}
		for _, ek := range em.Keys {
			eks, _ := mapKey(ek)
			sl, ok := em.Vals[eks].(SliceV)
			if !ok {
				return nil, fmt.Errorf("instruction table is not a slice")
			}
			for k := 0; k < sl.Len(); k++ {
				ep, ok := sl.At(k).(PtrV)
				if !ok {
					return nil, fmt.Errorf("table element is not a pointer")
				}
				st, ok := ep.C.V.(*StructV)
				if !ok {
					return nil, fmt.Errorf("table element is not a struct")
				}
				e := &Entry{Variant: vk.(IntV).V, Ext: ek.(IntV).V, Index: k, Struct: st, Ptr: ep}
				if err := fillEntry(e, st); err != nil {
					return nil, fmt.Errorf("table v%d ext%d #%d: %v", e.Variant, e.Ext, k, err)
				}
				t.Entries = append(t.Entries, e)
				t.ByPtr[ep.C] = e
			}
		}
	}
	t.Steps = in.Steps()
	return t, nil
}

func fillEntry(e *Entry, st *StructV) error {
	name, ok := st.Field("name").(StrV)
	if !ok {
		return fmt.Errorf("name is not a constant string")
	}
	e.Name = string(name)
	op, ok := st.Field("opcode").(*StructV)
	if !ok {
		return fmt.Errorf("%s: opcode is not a struct", e.Name)
	}
	var err error
	if e.Bytes, err = bytesOf(op.Field("Bytes")); err != nil {
		return fmt.Errorf("%s: opcode.Bytes: %v", e.Name, err)
	}
	if e.MaskBytes, err = bytesOf(op.Field("Mask")); err != nil {
		return fmt.Errorf("%s: opcode.Mask: %v", e.Name, err)
	}
	for i, b := range e.MaskBytes {
		if i < 4 {
			e.Mask |= uint32(b) << (8 * uint(i))
		}
	}
	for i, b := range e.Bytes {
		if i < 4 {
			e.Match |= uint32(b) << (8 * uint(i))
		}
	}
	fx, ok := st.Field("effects").(FuncV)
	if !ok {
		return fmt.Errorf("%s: effects is not a function literal", e.Name)
	}
	e.Effects = fx
	e.Pos = fx.Fn.Pos()
	geti := func(n string) (uint64, error) {
		v, ok := st.Field(n).(IntV)
		if !ok || v.Unk != 0 {
			return 0, fmt.Errorf("%s: %s is not a constant", e.Name, n)
		}
		return v.V, nil
	}
	if e.InputRegCnt, err = geti("inputRegCnt"); err != nil {
		return err
	}
	if e.LoadBytes, err = geti("loadBytes"); err != nil {
		return err
	}
	if e.StoreBytes, err = geti("storeBytes"); err != nil {
		return err
	}
	if e.Immediate, err = geti("immediate"); err != nil {
		return err
	}
	if e.InstrType, err = geti("instrType"); err != nil {
		return err
	}
	hb, ok := st.Field("hasOutputReg").(BoolV)
	if !ok {
		return fmt.Errorf("%s: hasOutputReg is not a constant", e.Name)
	}
	e.HasOutputReg = bool(hb)
	return nil
}

func bytesOf(v Value) ([]byte, error) {
	s, ok := v.(SliceV)
	if !ok {
		return nil, fmt.Errorf("not a slice")
	}
	var b []byte
	for i := 0; i < s.Len(); i++ {
		iv, ok := s.At(i).(IntV)
		if !ok || iv.Unk != 0 {
			return nil, fmt.Errorf("byte %d is not a constant", i)
		}
		b = append(b, byte(iv.V))
	}
	return b, nil
}

// SymbolicInstruction builds a riscv.instruction whose value has 32 source
// bits and whose address is opaque (AddrBit).
func (t *Tables) SymbolicInstruction(e *Entry) (*StructV, error) {
	it := t.Pkg.Type("instruction")
	if it == nil {
		return nil, fmt.Errorf("type riscv.instruction not found")
	}
	st, ok := it.Type().Underlying().(*types.Struct)
	if !ok {
		return nil, fmt.Errorf("riscv.instruction is not a struct")
	}
	s := &StructV{T: st}
	for i := 0; i < st.NumFields(); i++ {
		f := st.Field(i)
		switch f.Name() {
		case "addr":
			b, ok := f.Type().Underlying().(*types.Basic)
			if !ok {
				return nil, fmt.Errorf("instruction.addr is not an integer")
			}
			s.Fields = append(s.Fields, &Cell{t.In.Unknown(b, AddrBit)})
		case "value":
			b, ok := f.Type().Underlying().(*types.Basic)
			if !ok || t.In.Sizes.Sizeof(b) != 4 {
				return nil, fmt.Errorf("instruction.value is not a 32-bit integer")
			}
			s.Fields = append(s.Fields, &Cell{t.In.Symbolic(b, 32)})
		case "instrType":
			s.Fields = append(s.Fields, &Cell{e.Ptr})
		default:
			return nil, fmt.Errorf("unknown field instruction.%s", f.Name())
		}
	}
	return s, nil
}

// Template explores an entry's effects closure on a symbolic instruction.
func (t *Tables) Template(e *Entry) (paths []PathResult, err error) {
	defer recoverAbort(&err, t.In.Prog, "effects of "+e.Key())
	ins, err := t.SymbolicInstruction(e)
	if err != nil {
		return nil, err
	}
	_ = ins
	paths = t.In.Explore(func() Value {
		i, _ := t.SymbolicInstruction(e)
		return t.In.Call(e.Effects.Fn, e.Effects.Bind, []Value{i})
	})
	return paths, nil
}

// Text explores instruction.String() for an entry.
func (t *Tables) Text(e *Entry) (paths []PathResult, err error) {
	defer recoverAbort(&err, t.In.Prog, "String of "+e.Key())
	it := t.Pkg.Type("instruction")
	if it == nil {
		return nil, fmt.Errorf("type riscv.instruction not found")
	}
	strFn := t.In.Prog.LookupMethod(it.Type(), t.Pkg.Pkg, "String")
	if strFn == nil {
		return nil, fmt.Errorf("method riscv.instruction.String not found")
	}
	paths = t.In.Explore(func() Value {
		i, _ := t.SymbolicInstruction(e)
		return t.In.Call(strFn, nil, []Value{i})
	})
	return paths, nil
}

// InstructionSet interprets riscv.instructionSet(v, exts) concretely and
// returns the selected entries.
func (t *Tables) InstructionSet(variant uint64, exts []uint64) (out []*Entry, err error) {
	defer recoverAbort(&err, t.In.Prog, "instructionSet")
	fn := t.Pkg.Func("instructionSet")
	if fn == nil {
		return nil, fmt.Errorf("riscv.instructionSet not found")
	}
	if len(fn.Params) != 2 {
		return nil, fmt.Errorf("riscv.instructionSet has an unexpected signature")
	}
	vt, ok := fn.Params[0].Type().Underlying().(*types.Basic)
	if !ok {
		return nil, fmt.Errorf("variant parameter is not an integer")
	}
	st, ok := fn.Params[1].Type().Underlying().(*types.Slice)
	if !ok {
		return nil, fmt.Errorf("extension parameter is not a slice")
	}
	et, ok := st.Elem().Underlying().(*types.Basic)
	if !ok {
		return nil, fmt.Errorf("extension element is not an integer")
	}
	arr := &ArrayV{}
	for _, x := range exts {
		arr.Elems = append(arr.Elems, &Cell{IntV{V: x, T: et}})
	}
	sl := SliceV{Arr: arr, Lo: 0, Hi: len(exts), Cap: len(exts)}
	if len(exts) == 0 {
		sl = SliceV{IsNil: true}
	}
	paths := t.In.Explore(func() Value {
		return t.In.Call(fn, nil, []Value{IntV{V: variant, T: vt}, sl})
	})
	if len(paths) != 1 {
		return nil, fmt.Errorf("instructionSet did not evaluate to a single path")
	}
	if paths[0].Panicked {
		return nil, fmt.Errorf("instructionSet(%d, %v) panics at %s", variant, exts, t.In.Prog.Fset.Position(paths[0].PanicPos))
	}
	res, ok := paths[0].Result.(SliceV)
	if !ok {
		return nil, fmt.Errorf("instructionSet result is not a slice")
	}
	for i := 0; i < res.Len(); i++ {
		p, ok := res.At(i).(PtrV)
		if !ok {
			return nil, fmt.Errorf("instructionSet element is not a pointer")
		}
		e := t.ByPtr[p.C]
		if e == nil {
			return nil, fmt.Errorf("instructionSet returns an entry that is not in riscv.instructions")
		}
		out = append(out, e)
	}
	return out, nil
}

func recoverAbort(err *error, prog *ssa.Program, what string) {
	if r := recover(); r != nil {
		switch x := r.(type) {
		case Abort:
			*err = fmt.Errorf("abstract interpretation of %s aborted: %s", what, x.Msg)
		default:
			panic(r)
		}
	}
}

// ConstByName returns the constant value of a package-level constant.
func ConstByName(pkg *ssa.Package, name string) (int64, bool) {
	c := pkg.Const(name)
	if c == nil || c.Value == nil {
		return 0, false
	}
	return c.Value.Int64(), true
}

var _ = strings.TrimSpace

// StringConstByName returns the value of a package-level string constant.
func StringConstByName(pkg *ssa.Package, name string) (string, bool) {
	c := pkg.Const(name)
	if c == nil || c.Value == nil || c.Value.Value == nil || c.Value.Value.Kind() != constant.String {
		return "", false
	}
	return constant.StringVal(c.Value.Value), true
}
