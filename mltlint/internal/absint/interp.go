package absint

import (
	"fmt"
	"go/constant"
	"go/token"
	"go/types"
	"strings"

	"golang.org/x/tools/go/ssa"
)

// CondRec is one decided branch of the current path.
type CondRec struct {
	Dep     Dep
	Desc    *CondDesc
	Outcome bool
	Pos     token.Pos
}

type decision struct{ val, flipped bool }

// Bounds of the interpreter; exceeding one aborts with an Abort (undecided).
type Bounds struct {
	Steps int
	Depth int
	Paths int
}

var QuickBounds = Bounds{Steps: 2_000_000, Depth: 64, Paths: 4096}

// Interp interprets SSA functions of the "home" packages.
type Interp struct {
	Prog    *ssa.Program
	Sizes   types.Sizes
	Home    func(pkgPath string) bool                     // packages whose functions are interpreted
	Cut     func(pkgPath string) (prefix string, ok bool) // packages whose functions become terms
	Bounds  Bounds
	globals map[*ssa.Global]*Cell

	steps int
	depth int
	// path exploration
	dec  []decision
	pos  int
	Path []CondRec
}

// Abort is raised (as a panic) when the interpreter meets something it does
// not model or exceeds a bound. It makes the analysis undecided.
type Abort struct{ Msg string }

func (a Abort) Error() string { return a.Msg }

// PathPanic is raised when the interpreted code panics on the current path.
type PathPanic struct{ Pos token.Pos }

func New(prog *ssa.Program, sizes types.Sizes) *Interp {
	return &Interp{Prog: prog, Sizes: sizes, globals: map[*ssa.Global]*Cell{}, Bounds: QuickBounds}
}

// Global returns the cell of a package-level variable.
func (in *Interp) Global(g *ssa.Global) *Cell {
	c, ok := in.globals[g]
	if !ok {
		c = &Cell{in.zero(g.Type().(*types.Pointer).Elem())}
		in.globals[g] = c
	}
	return c
}

func (in *Interp) zero(t types.Type) Value {
	switch u := t.Underlying().(type) {
	case *types.Basic:
		switch {
		case u.Info()&types.IsBoolean != 0:
			return BoolV(false)
		case u.Info()&types.IsString != 0:
			return StrV("")
		case u.Info()&types.IsInteger != 0:
			return IntV{T: u}
		}
		return NilV{t}
	case *types.Struct:
		s := &StructV{T: u}
		for i := 0; i < u.NumFields(); i++ {
			s.Fields = append(s.Fields, &Cell{in.zero(u.Field(i).Type())})
		}
		return s
	case *types.Array:
		a := &ArrayV{}
		for i := int64(0); i < u.Len(); i++ {
			a.Elems = append(a.Elems, &Cell{in.zero(u.Elem())})
		}
		return a
	case *types.Slice:
		return SliceV{IsNil: true}
	default:
		return NilV{t}
	}
}

func clone(v Value) Value {
	switch x := v.(type) {
	case *StructV:
		n := &StructV{T: x.T}
		for _, f := range x.Fields {
			n.Fields = append(n.Fields, &Cell{clone(f.V)})
		}
		return n
	case *ArrayV:
		n := &ArrayV{}
		for _, f := range x.Elems {
			n.Elems = append(n.Elems, &Cell{clone(f.V)})
		}
		return n
	}
	return v
}

func (in *Interp) width(b *types.Basic) uint { return uint(in.Sizes.Sizeof(b)) * 8 }
func (in *Interp) wmask(b *types.Basic) uint64 {
	n := in.width(b)
	if n >= 64 {
		return ^uint64(0)
	}
	return 1<<n - 1
}
func (in *Interp) norm(x IntV) IntV {
	m := in.wmask(x.T)
	x.V &= m &^ x.Unk
	x.Unk &= m
	x.Ex &= x.Unk
	if x.Unk == 0 {
		x.Dep = nil
	}
	return x
}
func isUns(b *types.Basic) bool { return b.Info()&types.IsUnsigned != 0 }

// SignedK returns the value of a fully known integer as int64.
func (in *Interp) SignedK(x IntV) int64 {
	n := in.width(x.T)
	if isUns(x.T) {
		return int64(x.V)
	}
	if n < 64 && x.V&(1<<(n-1)) != 0 {
		return int64(x.V | ^uint64(0)<<n)
	}
	return int64(x.V)
}

// ByteWidth is the size in bytes of the integer's Go type.
func (in *Interp) ByteWidth(x IntV) int { return int(in.Sizes.Sizeof(x.T)) }

// MaybeNegative reports whether x is of a signed type and its sign bit is
// not known to be zero.
func (in *Interp) MaybeNegative(x IntV) bool {
	if isUns(x.T) {
		return false
	}
	sb := in.width(x.T) - 1
	return x.Unk>>sb&1 == 1 || x.V>>sb&1 == 1
}

func (in *Interp) constVal(c *ssa.Const) Value {
	if c.Value == nil {
		return in.zero(c.Type())
	}
	if u, ok := c.Type().Underlying().(*types.Basic); ok {
		switch {
		case u.Info()&types.IsBoolean != 0:
			return BoolV(constant.BoolVal(c.Value))
		case u.Info()&types.IsString != 0:
			return StrV(constant.StringVal(c.Value))
		case u.Info()&types.IsInteger != 0:
			if i, ok := constant.Int64Val(constant.ToInt(c.Value)); ok {
				return in.norm(IntV{V: uint64(i), T: u})
			}
			ui, _ := constant.Uint64Val(constant.ToInt(c.Value))
			return in.norm(IntV{V: ui, T: u})
		}
	}
	panic(Abort{"unsupported constant " + c.String()})
}

type frame struct {
	fn   *ssa.Function
	env  map[ssa.Value]Value
	bind []Value
}

func pkgPath(fn *ssa.Function) string {
	f := fn
	for f.Parent() != nil {
		f = f.Parent()
	}
	if o := f.Origin(); o != nil {
		f = o
	}
	if f.Pkg != nil {
		return f.Pkg.Pkg.Path()
	}
	if f.Object() != nil && f.Object().Pkg() != nil {
		return f.Object().Pkg().Path()
	}
	return ""
}

func (in *Interp) get(fr *frame, v ssa.Value) Value {
	switch x := v.(type) {
	case *ssa.Const:
		return in.constVal(x)
	case *ssa.Global:
		p := x.Pkg.Pkg.Path()
		if !in.Home(p) {
			if pre, ok := in.Cut(p); ok {
				return PtrV{&Cell{TermV{Fn: "global " + pre + "." + x.Name(), Idx: -1}}}
			}
			return PtrV{&Cell{OpaqueV{What: "global " + p + "." + x.Name()}}}
		}
		return PtrV{in.Global(x)}
	case *ssa.Function:
		return FuncV{Fn: x}
	case *ssa.Builtin:
		return x
	case *ssa.FreeVar:
		for i, fv := range fr.fn.FreeVars {
			if fv == x {
				return fr.bind[i]
			}
		}
	}
	if r, ok := fr.env[v]; ok {
		return r
	}
	panic(Abort{fmt.Sprintf("unbound value %s in %s", v.Name(), fr.fn)})
}

func (in *Interp) decide(b OBool, pos token.Pos) bool {
	var d bool
	if in.pos < len(in.dec) {
		d = in.dec[in.pos].val
	} else {
		in.dec = append(in.dec, decision{val: true})
		d = true
	}
	in.pos++
	in.Path = append(in.Path, CondRec{Dep: b.Dep, Desc: b.Cond, Outcome: d, Pos: pos})
	return d
}

// Call interprets fn with the given closure bindings and arguments.
func (in *Interp) Call(fn *ssa.Function, bind []Value, args []Value) Value {
	if fn.Blocks == nil {
		panic(Abort{"external function without body: " + fn.String()})
	}
	in.depth++
	defer func() { in.depth-- }()
	if in.depth > in.Bounds.Depth {
		panic(Abort{"call depth bound exceeded in " + fn.String()})
	}
	fr := &frame{fn: fn, env: map[ssa.Value]Value{}, bind: bind}
	for i, p := range fn.Params {
		fr.env[p] = args[i]
	}
	var prev, cur *ssa.BasicBlock = nil, fn.Blocks[0]
	for {
		var next *ssa.BasicBlock
		// phis first, evaluated in parallel
		var phiVals []Value
		nphi := 0
		for _, ins := range cur.Instrs {
			x, ok := ins.(*ssa.Phi)
			if !ok {
				break
			}
			nphi++
			var val Value
			for i, p := range cur.Preds {
				if p == prev {
					val = in.get(fr, x.Edges[i])
				}
			}
			phiVals = append(phiVals, val)
		}
		for i := 0; i < nphi; i++ {
			fr.env[cur.Instrs[i].(*ssa.Phi)] = phiVals[i]
		}
		for _, ins := range cur.Instrs[nphi:] {
			in.steps++
			if in.steps > in.Bounds.Steps {
				panic(Abort{"step bound exceeded"})
			}
			switch x := ins.(type) {
			case *ssa.Alloc:
				fr.env[x] = PtrV{&Cell{in.zero(x.Type().(*types.Pointer).Elem())}}
			case *ssa.FieldAddr:
				p, ok := in.get(fr, x.X).(PtrV)
				if !ok {
					panic(Abort{"field address of non-pointer in " + fn.String()})
				}
				s, ok := p.C.V.(*StructV)
				if !ok {
					panic(Abort{fmt.Sprintf("field address of %T in %s", p.C.V, fn)})
				}
				fr.env[x] = PtrV{s.Fields[x.Field]}
			case *ssa.Field:
				s, ok := in.get(fr, x.X).(*StructV)
				if !ok {
					panic(Abort{"field of non-struct in " + fn.String()})
				}
				fr.env[x] = clone(s.Fields[x.Field].V)
			case *ssa.IndexAddr:
				iv, ok := in.get(fr, x.Index).(IntV)
				if !ok || iv.Unk != 0 {
					panic(Abort{"index is not a compile-time constant in " + fn.String()})
				}
				idx := int(in.SignedK(iv))
				switch b := in.get(fr, x.X).(type) {
				case PtrV:
					a := b.C.V.(*ArrayV)
					if idx < 0 || idx >= len(a.Elems) {
						panic(PathPanic{x.Pos()})
					}
					fr.env[x] = PtrV{a.Elems[idx]}
				case SliceV:
					if idx < 0 || b.Lo+idx >= b.Hi || b.IsNil {
						panic(PathPanic{x.Pos()})
					}
					fr.env[x] = PtrV{b.Arr.Elems[b.Lo+idx]}
				default:
					panic(Abort{"IndexAddr on unsupported value"})
				}
			case *ssa.Index:
				iv, ok := in.get(fr, x.Index).(IntV)
				if !ok || iv.Unk != 0 {
					panic(Abort{"index is not a compile-time constant in " + fn.String()})
				}
				idx := int(in.SignedK(iv))
				switch b := in.get(fr, x.X).(type) {
				case *ArrayV:
					fr.env[x] = clone(b.Elems[idx].V)
				case StrV:
					fr.env[x] = IntV{V: uint64(b[idx]), T: types.Typ[types.Uint8]}
				default:
					panic(Abort{"Index on unsupported value"})
				}
			case *ssa.Store:
				p, ok := in.get(fr, x.Addr).(PtrV)
				if !ok {
					panic(Abort{"store through non-pointer in " + fn.String()})
				}
				p.C.V = clone(in.get(fr, x.Val))
			case *ssa.UnOp:
				fr.env[x] = in.unop(fr, x)
			case *ssa.BinOp:
				fr.env[x] = in.binop(x.Op, in.get(fr, x.X), in.get(fr, x.Y))
			case *ssa.Convert:
				fr.env[x] = in.convert(in.get(fr, x.X), x.Type())
			case *ssa.ChangeType:
				v := in.get(fr, x.X)
				if iv, ok := v.(IntV); ok {
					if b, ok := x.Type().Underlying().(*types.Basic); ok {
						iv.T = b
						v = iv
					}
				}
				fr.env[x] = v
			case *ssa.MakeInterface:
				fr.env[x] = IfaceV{x.X.Type(), in.get(fr, x.X)}
			case *ssa.ChangeInterface:
				fr.env[x] = in.get(fr, x.X)
			case *ssa.TypeAssert:
				v := in.get(fr, x.X)
				iv, ok := v.(IfaceV)
				if !ok {
					panic(Abort{"type assertion on non-interface value in " + fn.String()})
				}
				match := types.Identical(iv.T, x.AssertedType)
				if x.CommaOk {
					if match {
						fr.env[x] = TupleV{iv.V, BoolV(true)}
					} else {
						fr.env[x] = TupleV{in.zero(x.AssertedType), BoolV(false)}
					}
				} else {
					if !match {
						panic(PathPanic{x.Pos()})
					}
					fr.env[x] = iv.V
				}
			case *ssa.Slice:
				fr.env[x] = in.slice(fr, x)
			case *ssa.MakeSlice:
				lv, ok1 := in.get(fr, x.Len).(IntV)
				cv, ok2 := in.get(fr, x.Cap).(IntV)
				if !ok1 || !ok2 || lv.Unk != 0 || cv.Unk != 0 {
					panic(Abort{"make with non-constant size in " + fn.String()})
				}
				n, c := int(in.SignedK(lv)), int(in.SignedK(cv))
				if n < 0 || c < n || c > 1<<20 {
					panic(Abort{"make size out of range"})
				}
				a := &ArrayV{}
				et := x.Type().Underlying().(*types.Slice).Elem()
				for i := 0; i < c; i++ {
					a.Elems = append(a.Elems, &Cell{in.zero(et)})
				}
				fr.env[x] = SliceV{Arr: a, Lo: 0, Hi: n, Cap: c}
			case *ssa.MakeMap:
				fr.env[x] = &MapV{Vals: map[string]Value{}}
			case *ssa.MapUpdate:
				m, ok := in.get(fr, x.Map).(*MapV)
				if !ok {
					panic(Abort{"map update on unsupported map"})
				}
				k := in.get(fr, x.Key)
				ks, ok := mapKey(k)
				if !ok {
					panic(Abort{"map key is not a compile-time constant"})
				}
				if _, ok := m.Vals[ks]; !ok {
					m.Keys = append(m.Keys, k)
				}
				m.Vals[ks] = in.get(fr, x.Value)
			case *ssa.Lookup:
				switch m := in.get(fr, x.X).(type) {
				case *MapV:
					ks, ok := mapKey(in.get(fr, x.Index))
					if !ok {
						panic(Abort{"map lookup with non-constant key in " + fn.String()})
					}
					val, found := m.Vals[ks]
					if !found {
						val = in.zero(x.X.Type().Underlying().(*types.Map).Elem())
					}
					if x.CommaOk {
						fr.env[x] = TupleV{val, BoolV(found)}
					} else {
						fr.env[x] = val
					}
				default:
					panic(Abort{"lookup on unsupported value in " + fn.String()})
				}
			case *ssa.MakeClosure:
				var b []Value
				for _, bv := range x.Bindings {
					b = append(b, in.get(fr, bv))
				}
				fr.env[x] = FuncV{Fn: x.Fn.(*ssa.Function), Bind: b}
			case *ssa.Extract:
				switch t := in.get(fr, x.Tuple).(type) {
				case TupleV:
					fr.env[x] = t[x.Index]
				case OpaqueV:
					fr.env[x] = t
				case TermV:
					t.Idx = x.Index
					fr.env[x] = t
				default:
					panic(Abort{"extract from unsupported value"})
				}
			case *ssa.Call:
				fr.env[x] = in.call(fr, &x.Call, x.Pos())
			case *ssa.If:
				var c bool
				switch cv := in.get(fr, x.Cond).(type) {
				case BoolV:
					c = bool(cv)
				case OBool:
					c = in.decide(cv, x.Pos())
				default:
					panic(Abort{fmt.Sprintf("branch on unsupported value %T in %s", cv, fn)})
				}
				if c {
					next = cur.Succs[0]
				} else {
					next = cur.Succs[1]
				}
			case *ssa.Jump:
				next = cur.Succs[0]
			case *ssa.Return:
				switch len(x.Results) {
				case 0:
					return nil
				case 1:
					return in.get(fr, x.Results[0])
				}
				var t TupleV
				for _, r := range x.Results {
					t = append(t, in.get(fr, r))
				}
				return t
			case *ssa.Panic:
				panic(PathPanic{x.Pos()})
			case *ssa.DebugRef:
			default:
				panic(Abort{fmt.Sprintf("unsupported instruction %T in %s", ins, fn)})
			}
		}
		if next == nil {
			panic(Abort{"block without terminator in " + fn.String()})
		}
		prev, cur = cur, next
	}
}

func mapKey(k Value) (string, bool) {
	switch x := k.(type) {
	case IntV:
		if x.Unk != 0 {
			return "", false
		}
		return fmt.Sprint("i", x.V), true
	case StrV:
		return "s" + string(x), true
	}
	return "", false
}

func (in *Interp) call(fr *frame, c *ssa.CallCommon, pos token.Pos) Value {
	var args []Value
	for _, a := range c.Args {
		args = append(args, in.get(fr, a))
	}
	if c.IsInvoke() {
		recv := in.get(fr, c.Value)
		// dynamic dispatch on a concrete receiver in a home package
		if iv, ok := recv.(IfaceV); ok {
			if m := in.Prog.LookupMethod(iv.T, c.Method.Pkg(), c.Method.Name()); m != nil && in.Home(pkgPath(m)) {
				return in.Call(m, nil, append([]Value{iv.V}, args...))
			}
		}
		return OpaqueV{Dep: depsOf(TupleV(append(args, recv)), map[interface{}]bool{}), What: "invoke " + c.Method.Name()}
	}
	switch f := in.get(fr, c.Value).(type) {
	case FuncV:
		return in.applyFunc(f, args, pos)
	case *ssa.Builtin:
		return in.builtin(f, args)
	}
	panic(Abort{"call of non-function value in " + fr.fn.String()})
}

func (in *Interp) applyFunc(f FuncV, args []Value, pos token.Pos) Value {
	path := pkgPath(f.Fn)
	if !in.Home(path) && f.Fn.Name() == "init" {
		return nil
	}
	// plain arithmetic on a width (expr.Width.Bits) is interpreted, not cut
	if recv := f.Fn.Signature.Recv(); recv != nil && f.Fn.Blocks != nil {
		if n, ok := recv.Type().(*types.Named); ok && n.Obj().Name() == "Width" && n.Obj().Pkg() != nil && strings.HasSuffix(n.Obj().Pkg().Path(), "/pkg/expr") && len(f.Fn.Blocks) == 1 {
			return in.Call(f.Fn, f.Bind, args)
		}
	}
	if pre, ok := in.Cut(path); ok {
		name := f.Fn.Name()
		if o := f.Fn.Origin(); o != nil {
			name = o.Name()
		}
		return TermV{Fn: pre + "." + name, Args: args, Pos: pos, Sig: f.Fn.Signature, Idx: -1}
	}
	if !in.Home(path) {
		return in.external(f.Fn, args)
	}
	return in.Call(f.Fn, f.Bind, args)
}

// external models a few library calls; anything else is opaque with the
// union of its arguments' dependences.
func (in *Interp) external(fn *ssa.Function, args []Value) Value {
	dep := depsOf(TupleV(args), map[interface{}]bool{})
	switch fn.String() {
	case "fmt.Sprintf", "fmt.Errorf":
		o := OpaqueV{Dep: dep, What: fn.String()}
		if s, ok := args[0].(StrV); ok {
			var parts []Value
			if len(args) > 1 {
				if sl, ok := args[1].(SliceV); ok {
					for i := 0; i < sl.Len(); i++ {
						parts = append(parts, UnwrapV(sl.At(i)))
					}
				}
			}
			o.Parts = parts
			o.Format = string(s)
			o.Exact = len(args) <= 1 || func() bool { _, isSl := args[1].(SliceV); return isSl }()
			// constant prefix: literal text up to the first verb, then string
			// arguments that are constants for leading %s verbs
			format := string(s)
			pi := 0
			var pre strings.Builder
			for i := 0; i < len(format); i++ {
				if format[i] != '%' {
					pre.WriteByte(format[i])
					continue
				}
				if i+1 < len(format) && format[i+1] == 's' && pi < len(parts) {
					if cs, ok := parts[pi].(StrV); ok {
						pre.WriteString(string(cs))
						pi++
						i++
						continue
					}
				}
				break
			}
			o.Prefix = pre.String()
		}
		return o
	case "strings.Join":
		o := OpaqueV{Dep: dep, What: "strings.Join"}
		if sl, ok := args[0].(SliceV); ok {
			if sep, ok := args[1].(StrV); ok {
				o.Format, o.Exact = string(sep), true
				for i := 0; i < sl.Len(); i++ {
					o.Parts = append(o.Parts, UnwrapV(sl.At(i)))
				}
			}
		}
		return o
	}
	return OpaqueV{Dep: dep, What: fn.String()}
}

func (in *Interp) builtin(f *ssa.Builtin, args []Value) Value {
	switch f.Name() {
	case "len", "cap":
		switch s := args[0].(type) {
		case SliceV:
			if f.Name() == "cap" {
				return IntV{V: uint64(s.Cap), T: types.Typ[types.Int]}
			}
			return IntV{V: uint64(s.Len()), T: types.Typ[types.Int]}
		case StrV:
			return IntV{V: uint64(len(s)), T: types.Typ[types.Int]}
		case *MapV:
			return IntV{V: uint64(len(s.Keys)), T: types.Typ[types.Int]}
		case OpaqueV:
			return in.allUnknown(types.Typ[types.Int], s.Dep)
		}
	case "append":
		s, ok1 := args[0].(SliceV)
		t, ok2 := args[1].(SliceV)
		if !ok1 || !ok2 {
			break
		}
		// in-place when capacity allows (Go semantics), else reallocate
		if !s.IsNil && s.Hi+t.Len() <= s.Lo+s.Cap-0 && s.Hi+t.Len() <= len(s.Arr.Elems) {
			for i := 0; i < t.Len(); i++ {
				s.Arr.Elems[s.Hi+i].V = clone(t.At(i))
			}
			s.Hi += t.Len()
			return s
		}
		a := &ArrayV{}
		for i := 0; i < s.Len(); i++ {
			a.Elems = append(a.Elems, &Cell{clone(s.At(i))})
		}
		for i := 0; i < t.Len(); i++ {
			a.Elems = append(a.Elems, &Cell{clone(t.At(i))})
		}
		return SliceV{Arr: a, Lo: 0, Hi: len(a.Elems), Cap: len(a.Elems)}
	case "copy":
		d, ok1 := args[0].(SliceV)
		s, ok2 := args[1].(SliceV)
		if !ok1 || !ok2 {
			break
		}
		n := d.Len()
		if s.Len() < n {
			n = s.Len()
		}
		for i := 0; i < n; i++ {
			d.Arr.Elems[d.Lo+i].V = clone(s.At(i))
		}
		return IntV{V: uint64(n), T: types.Typ[types.Int]}
	}
	panic(Abort{"unsupported builtin " + f.Name()})
}

func (in *Interp) slice(fr *frame, x *ssa.Slice) Value {
	lo, hi := 0, -1
	k := func(v ssa.Value) int {
		iv, ok := in.get(fr, v).(IntV)
		if !ok || iv.Unk != 0 {
			panic(Abort{"slice bound is not a compile-time constant in " + fr.fn.String()})
		}
		return int(in.SignedK(iv))
	}
	if x.Low != nil {
		lo = k(x.Low)
	}
	if x.High != nil {
		hi = k(x.High)
	}
	switch b := in.get(fr, x.X).(type) {
	case PtrV:
		a, ok := b.C.V.(*ArrayV)
		if !ok {
			panic(Abort{"slice of non-array pointer"})
		}
		if hi < 0 {
			hi = len(a.Elems)
		}
		if lo < 0 || hi > len(a.Elems) || lo > hi {
			panic(PathPanic{x.Pos()})
		}
		return SliceV{Arr: a, Lo: lo, Hi: hi, Cap: len(a.Elems) - lo}
	case SliceV:
		if b.IsNil {
			if lo == 0 && hi <= 0 {
				return b
			}
			panic(PathPanic{x.Pos()})
		}
		if hi < 0 {
			hi = b.Len()
		}
		if lo < 0 || hi > b.Cap || lo > hi {
			panic(PathPanic{x.Pos()})
		}
		return SliceV{Arr: b.Arr, Lo: b.Lo + lo, Hi: b.Lo + hi, Cap: b.Cap - lo}
	case StrV:
		if hi < 0 {
			hi = len(b)
		}
		if lo < 0 || hi > len(b) || lo > hi {
			panic(PathPanic{x.Pos()})
		}
		return b[lo:hi]
	}
	panic(Abort{"slice of unsupported value"})
}

func (in *Interp) unop(fr *frame, x *ssa.UnOp) Value {
	v := in.get(fr, x.X)
	switch x.Op {
	case token.MUL:
		p, ok := v.(PtrV)
		if !ok {
			panic(Abort{"load through non-pointer in " + fr.fn.String()})
		}
		return clone(p.C.V)
	case token.NOT:
		switch b := v.(type) {
		case BoolV:
			return !b
		case OBool:
			if b.Cond != nil {
				c := *b.Cond
				c.Neg = !c.Neg
				b.Cond = &c
			}
			return b
		}
	case token.XOR:
		if i, ok := v.(IntV); ok {
			i.V = ^i.V
			i.Ex = 0
			return in.norm(i)
		}
	case token.SUB:
		if i, ok := v.(IntV); ok {
			return in.binop(token.SUB, IntV{T: i.T}, i)
		}
	}
	panic(Abort{"unsupported unary operation " + x.Op.String()})
}

func (in *Interp) convert(v Value, t types.Type) Value {
	b, ok := t.Underlying().(*types.Basic)
	if !ok {
		if o, ok := v.(OpaqueV); ok {
			return o
		}
		panic(Abort{"unsupported conversion to " + t.String()})
	}
	if x, ok := v.(IntV); ok && b.Info()&types.IsInteger != 0 {
		n := in.width(x.T)
		r := IntV{V: x.V, Unk: x.Unk, T: b, Ex: x.Ex}
		if x.Dep != nil {
			d := *x.Dep
			r.Dep = &d
		}
		if !isUns(x.T) && n < 64 {
			sb := n - 1
			if x.Unk>>sb&1 == 1 {
				if r.Dep == nil {
					r.Dep = &[64]Dep{}
				}
				for p := n; p < 64; p++ {
					r.Unk |= 1 << p
					r.Dep[p] = x.Dep[sb]
					r.Ex |= (x.Ex >> sb & 1) << p
				}
			} else if x.V>>sb&1 == 1 {
				r.V |= ^uint64(0) << n
			}
		}
		return in.norm(r)
	}
	if b.Info()&types.IsString != 0 {
		switch s := v.(type) {
		case StrV, OpaqueV:
			return s
		}
	}
	if o, ok := v.(OpaqueV); ok {
		return o
	}
	panic(Abort{fmt.Sprintf("unsupported conversion of %T to %s", v, t)})
}

func (in *Interp) allUnknown(t *types.Basic, dep Dep) IntV {
	r := IntV{T: t, Unk: in.wmask(t), Dep: &[64]Dep{}}
	for p := 0; p < 64; p++ {
		r.Dep[p] = dep
	}
	return in.norm(r)
}

// Symbolic makes an integer of type t whose bit p depends on source bit
// base+p.
func (in *Interp) Symbolic(t *types.Basic, bits int) IntV {
	r := IntV{T: t, Dep: &[64]Dep{}}
	for p := 0; p < bits; p++ {
		r.Unk |= 1 << uint(p)
		r.Dep[p] = 1 << uint(p)
	}
	r.Ex = r.Unk
	return in.norm(r)
}

// Unknown makes an integer all of whose bits depend on dep.
func (in *Interp) Unknown(t *types.Basic, dep Dep) IntV { return in.allUnknown(t, dep) }

func (in *Interp) binop(op token.Token, a, b Value) Value {
	switch x := a.(type) {
	case BoolV:
		if y, ok := b.(BoolV); ok {
			switch op {
			case token.EQL:
				return BoolV(x == y)
			case token.NEQ:
				return BoolV(x != y)
			}
		}
		return OBool{Dep: DepsOf(b)}
	case OBool:
		return OBool{Dep: x.Dep | DepsOf(b)}
	case IntV:
		y, ok := b.(IntV)
		if !ok {
			panic(Abort{fmt.Sprintf("binary %s on int and %T", op, b)})
		}
		known := x.Unk == 0 && y.Unk == 0
		dd := x.AllDeps() | y.AllDeps()
		switch op {
		case token.SHL, token.SHR:
			if y.Unk != 0 {
				return in.allUnknown(x.T, dd)
			}
			sh := uint(y.V)
			r := IntV{T: x.T}
			if x.Dep != nil {
				r.Dep = &[64]Dep{}
			}
			n := in.width(x.T)
			for p := uint(0); p < n; p++ {
				var src int
				if op == token.SHL {
					src = int(p) - int(sh)
				} else {
					src = int(p + sh)
				}
				var kv, ku, ke uint64
				var dp Dep
				switch {
				case src < 0:
				case src >= int(n):
					if op == token.SHR && !isUns(x.T) { // arithmetic
						kv, ku, ke = x.V>>(n-1)&1, x.Unk>>(n-1)&1, x.Ex>>(n-1)&1
						if ku == 1 {
							dp = x.Dep[n-1]
						}
					}
				default:
					kv, ku, ke = x.V>>uint(src)&1, x.Unk>>uint(src)&1, x.Ex>>uint(src)&1
					if ku == 1 {
						dp = x.Dep[src]
					}
				}
				r.V |= kv << p
				r.Unk |= ku << p
				r.Ex |= ke << p
				if ku == 1 {
					r.Dep[p] = dp
				}
			}
			return in.norm(r)
		case token.AND, token.OR, token.XOR, token.AND_NOT:
			if op == token.AND_NOT {
				y.V = ^y.V
				y = in.norm(y)
				op = token.AND
			}
			xk0, xk1 := ^x.Unk&^x.V, ^x.Unk&x.V
			yk0, yk1 := ^y.Unk&^y.V, ^y.Unk&y.V
			var k0, k1 uint64
			switch op {
			case token.AND:
				k0, k1 = xk0|yk0, xk1&yk1
			case token.OR:
				k0, k1 = xk0&yk0, xk1|yk1
			case token.XOR:
				k0, k1 = xk0&yk0|xk1&yk1, xk0&yk1|xk1&yk0
			}
			r := IntV{T: x.T, V: k1, Unk: ^(k0 | k1)}
			// a bit stays an exact copy when the other operand's bit is the
			// known neutral element of the operation
			switch op {
			case token.AND:
				r.Ex = x.Ex&yk1 | y.Ex&xk1
			case token.OR, token.XOR:
				r.Ex = x.Ex&yk0 | y.Ex&xk0
			}
			r = in.norm(r)
			if r.Unk != 0 {
				r.Dep = &[64]Dep{}
				for p := 0; p < 64; p++ {
					if r.Unk>>uint(p)&1 == 1 {
						if x.Unk>>uint(p)&1 == 1 {
							r.Dep[p] |= x.Dep[p]
						}
						if y.Unk>>uint(p)&1 == 1 {
							r.Dep[p] |= y.Dep[p]
						}
					}
				}
			}
			return r
		case token.ADD, token.SUB, token.MUL, token.QUO, token.REM:
			if !known {
				if op == token.ADD || op == token.SUB {
					// bit p depends on operand bits <= p
					r := IntV{T: x.T, Dep: &[64]Dep{}}
					n := in.width(x.T)
					var acc Dep
					anyUnk := false
					for p := uint(0); p < n; p++ {
						if x.Unk>>p&1 == 1 {
							acc |= x.Dep[p]
							anyUnk = true
						}
						if y.Unk>>p&1 == 1 {
							acc |= y.Dep[p]
							anyUnk = true
						}
						if anyUnk {
							r.Unk |= 1 << p
							r.Dep[p] = acc
						}
					}
					// the known low part (below the first unknown bit)
					var lowMask uint64
					for p := uint(0); p < n; p++ {
						if r.Unk>>p&1 == 1 {
							break
						}
						lowMask |= 1 << p
					}
					if op == token.ADD {
						r.V = (x.V + y.V) & lowMask
					} else {
						r.V = (x.V - y.V) & lowMask
					}
					return in.norm(r)
				}
				return in.allUnknown(x.T, dd)
			}
			sx, sy := in.SignedK(x), in.SignedK(y)
			var r uint64
			switch op {
			case token.ADD:
				r = x.V + y.V
			case token.SUB:
				r = x.V - y.V
			case token.MUL:
				r = x.V * y.V
			case token.QUO, token.REM:
				if y.V == 0 {
					panic(PathPanic{})
				}
				if isUns(x.T) {
					if op == token.QUO {
						r = x.V / y.V
					} else {
						r = x.V % y.V
					}
				} else if op == token.QUO {
					r = uint64(sx / sy)
				} else {
					r = uint64(sx % sy)
				}
			}
			return in.norm(IntV{V: r, T: x.T})
		case token.EQL, token.NEQ:
			if (x.V^y.V)&^(x.Unk|y.Unk) != 0 {
				return BoolV(op == token.NEQ)
			}
			if known {
				return BoolV(op == token.EQL)
			}
			return OBool{Dep: dd, Cond: condDesc(op, x, y)}
		case token.LSS, token.LEQ, token.GTR, token.GEQ:
			n := in.width(x.T)
			signUnknown := !isUns(x.T) && (x.Unk>>(n-1)&1 == 1 || y.Unk>>(n-1)&1 == 1)
			if signUnknown {
				return OBool{Dep: dd, Cond: condDesc(op, x, y)}
			}
			key := func(v IntV, u uint64) uint64 {
				if isUns(v.T) {
					return u
				}
				return u ^ (1 << (n - 1))
			}
			xmin, xmax := key(x, x.V), key(x, x.V|x.Unk)
			ymin, ymax := key(y, y.V), key(y, y.V|y.Unk)
			var t, f bool
			switch op {
			case token.LSS:
				t, f = xmax < ymin, xmin >= ymax
			case token.LEQ:
				t, f = xmax <= ymin, xmin > ymax
			case token.GTR:
				t, f = xmin > ymax, xmax <= ymin
			case token.GEQ:
				t, f = xmin >= ymax, xmax < ymin
			}
			if t {
				return BoolV(true)
			}
			if f {
				return BoolV(false)
			}
			return OBool{Dep: dd, Cond: condDesc(op, x, y)}
		}
	case StrV:
		if y, ok := b.(StrV); ok {
			switch op {
			case token.EQL:
				return BoolV(x == y)
			case token.NEQ:
				return BoolV(x != y)
			case token.ADD:
				return x + y
			}
		}
		if op == token.EQL || op == token.NEQ {
			return OBool{Dep: DepsOf(a) | DepsOf(b)}
		}
		if op == token.ADD {
			return OpaqueV{Dep: DepsOf(a) | DepsOf(b), What: "concat", Prefix: string(x)}
		}
	case OpaqueV, TermV, IfaceV, NilV, PtrV, FuncV:
		if op == token.EQL || op == token.NEQ {
			// nil comparisons of known values
			an, bn := IsNil(a), IsNil(b)
			_, aKnown := a.(OpaqueV)
			_, bKnown := b.(OpaqueV)
			if !aKnown && !bKnown {
				if an || bn {
					return BoolV((an == bn) == (op == token.EQL))
				}
			}
			return OBool{Dep: DepsOf(a) | DepsOf(b)}
		}
		if op == token.ADD {
			o := OpaqueV{Dep: DepsOf(a) | DepsOf(b), What: "concat"}
			if ao, ok := a.(OpaqueV); ok {
				o.Prefix = ao.Prefix
			}
			return o
		}
	}
	panic(Abort{fmt.Sprintf("unsupported binary operation %s on %T and %T", op, a, b)})
}

func condDesc(op token.Token, x, y IntV) *CondDesc {
	oneBit := func(d *CondDesc, v IntV) *CondDesc {
		if v.V == 0 && v.Unk != 0 && v.Unk&(v.Unk-1) == 0 && v.Ex == v.Unk && v.Dep != nil {
			p := 0
			for v.Unk>>uint(p)&1 == 0 {
				p++
			}
			if dd := v.Dep[p]; dd != 0 && dd&(dd-1) == 0 && dd&AddrBit == 0 {
				b := 0
				for dd>>uint(b)&1 == 0 {
					b++
				}
				d.OneBit, d.Bit = true, b
			}
		}
		return d
	}
	switch {
	case y.Unk == 0 && x.Unk != 0:
		return oneBit(&CondDesc{Op: op, XDep: x.AllDeps(), Const: y.V}, x)
	case x.Unk == 0 && y.Unk != 0:
		// mirror
		m := map[token.Token]token.Token{token.EQL: token.EQL, token.NEQ: token.NEQ, token.LSS: token.GTR, token.GTR: token.LSS, token.LEQ: token.GEQ, token.GEQ: token.LEQ}
		return oneBit(&CondDesc{Op: m[op], XDep: y.AllDeps(), Const: x.V}, y)
	}
	return nil
}

// PathResult is the outcome of one explored path.
type PathResult struct {
	Conds    []CondRec
	Result   Value
	Panicked bool
	PanicPos token.Pos
}

// Explore runs f under every decision vector (depth-first replay) and
// returns one result per feasible path of the abstract semantics.
func (in *Interp) Explore(f func() Value) []PathResult {
	in.dec = nil
	var out []PathResult
	for {
		in.pos = 0
		in.Path = nil
		in.depth = 0
		pr := PathResult{}
		func() {
			defer func() {
				if r := recover(); r != nil {
					if pp, ok := r.(PathPanic); ok {
						pr.Panicked = true
						pr.PanicPos = pp.Pos
						return
					}
					panic(r)
				}
			}()
			pr.Result = f()
		}()
		pr.Conds = append([]CondRec(nil), in.Path...)
		out = append(out, pr)
		if len(out) > in.Bounds.Paths {
			panic(Abort{"path bound exceeded"})
		}
		for len(in.dec) > 0 && in.dec[len(in.dec)-1].flipped {
			in.dec = in.dec[:len(in.dec)-1]
		}
		if len(in.dec) == 0 {
			return out
		}
		l := &in.dec[len(in.dec)-1]
		l.val, l.flipped = !l.val, true
	}
}

// Steps returns the number of interpreted SSA instructions so far.
func (in *Interp) Steps() int { return in.steps }
