// Package absint is an abstract interpreter over go/ssa used for pure
// construction code (package initialisers, pattern builders, `effects`
// closures, String methods). Integers are tracked per bit as {0,1,dep(S)}
// where S is a set of source bits (known-bits + bit-level dependence); with
// literal inputs the domain degenerates to constant propagation. Calls into
// pkg/expr and pkg/expr/exprtools are cut points that become uninterpreted
// term nodes. Nothing of the analysed program is executed: the only inputs
// are the literals of the source.
package absint

import (
	"fmt"
	"go/token"
	"go/types"
	"sort"
	"strings"

	"golang.org/x/tools/go/ssa"
)

// Dep is a set of source bits: bit p (p<32) is bit p of the instruction
// word; AddrBit marks dependence on the instruction address.
type Dep = uint64

const AddrBit Dep = 1 << 32

type Value interface{}

type Cell struct{ V Value }

type StructV struct {
	T      *types.Struct
	Fields []*Cell
}

// Field returns the value of the field called name (nil if absent).
func (s *StructV) Field(name string) Value {
	for i := 0; i < s.T.NumFields(); i++ {
		if s.T.Field(i).Name() == name {
			return s.Fields[i].V
		}
	}
	return nil
}

type ArrayV struct{ Elems []*Cell }

type SliceV struct {
	Arr    *ArrayV
	Lo, Hi int
	Cap    int
	IsNil  bool
}

func (s SliceV) Len() int {
	if s.IsNil {
		return 0
	}
	return s.Hi - s.Lo
}
func (s SliceV) At(i int) Value { return s.Arr.Elems[s.Lo+i].V }

type PtrV struct{ C *Cell }

// IntV is an integer of basic type T: bit p is known (value in V) unless set
// in Unk, in which case Dep[p] lists the source bits it depends on.
type IntV struct {
	V, Unk uint64
	Dep    *[64]Dep
	T      *types.Basic
	// Ex marks unknown bits that are exact copies of one source bit (Dep[p]
	// is then a singleton naming it). Only bit moves (shifts, masks,
	// conversions, or-ing with known zeros) keep it; everything else clears
	// it. Two integers with equal V, Unk, Dep and Ex == Unk are the same
	// function of the source word.
	Ex uint64
}

type BoolV bool

// OBool is a boolean that depends on source bits; Cond describes it when it
// is a recognisable comparison.
type OBool struct {
	Dep  Dep
	Cond *CondDesc
}

// CondDesc describes `X op Const` where X depends on XDep.
type CondDesc struct {
	Op    token.Token
	XDep  Dep
	Const uint64
	Neg   bool // logical negation applied
	// OneBit: X is zero everywhere except for one bit that is an exact copy of
	// instruction bit Bit, so X == 0 exactly when that instruction bit is 0.
	OneBit bool
	Bit    int
}

type StrV string

// OpaqueV is an unknown non-integer value (string, external result).
type OpaqueV struct {
	Dep    Dep
	What   string
	Prefix string  // constant prefix if it is a string built by Sprintf
	Parts  []Value // Sprintf arguments (ordered) when known
	Format string  // Sprintf format / Join separator when known
	Exact  bool    // Format and Parts determine the string completely
}

// TermV is an uninterpreted call of a cut-point function.
type TermV struct {
	Fn   string // e.g. "expr.NewBinary", "exprtools.SignExtend", "global expr.Zero"
	Args []Value
	Pos  token.Pos
	Sig  *types.Signature
	Idx  int // result index for multi-result calls (-1: whole)
}

type FuncV struct {
	Fn   *ssa.Function
	Bind []Value
}

type IfaceV struct {
	T types.Type
	V Value
}

type MapV struct {
	Keys []Value
	Vals map[string]Value
}

type TupleV []Value

type NilV struct{ T types.Type }

// AllDeps returns the union of the dependence sets of the unknown bits.
func (x IntV) AllDeps() Dep {
	var d Dep
	if x.Dep != nil {
		for p := 0; p < 64; p++ {
			if x.Unk>>uint(p)&1 == 1 {
				d |= x.Dep[p]
			}
		}
	}
	return d
}

// Known reports whether every bit is known.
func (x IntV) Known() bool { return x.Unk == 0 }

// DepsOf returns every source bit a value depends on (deep).
func DepsOf(v Value) Dep { return depsOf(v, map[interface{}]bool{}) }

func depsOf(v Value, seen map[interface{}]bool) Dep {
	switch x := v.(type) {
	case IntV:
		return x.AllDeps()
	case OBool:
		return x.Dep
	case OpaqueV:
		return x.Dep
	case TermV:
		var d Dep
		for _, a := range x.Args {
			d |= depsOf(a, seen)
		}
		return d
	case SliceV:
		var d Dep
		for i := x.Lo; i < x.Hi && !x.IsNil; i++ {
			d |= depsOf(x.Arr.Elems[i].V, seen)
		}
		return d
	case IfaceV:
		return depsOf(x.V, seen)
	case *StructV:
		if seen[x] {
			return 0
		}
		seen[x] = true
		var d Dep
		for _, f := range x.Fields {
			d |= depsOf(f.V, seen)
		}
		return d
	case *ArrayV:
		var d Dep
		for _, f := range x.Elems {
			d |= depsOf(f.V, seen)
		}
		return d
	case PtrV:
		if seen[x.C] {
			return 0
		}
		seen[x.C] = true
		return depsOf(x.C.V, seen)
	case TupleV:
		var d Dep
		for _, a := range x {
			d |= depsOf(a, seen)
		}
		return d
	case FuncV:
		var d Dep
		for _, a := range x.Bind {
			d |= depsOf(a, seen)
		}
		return d
	}
	return 0
}

// Ranges renders a bit set as "7-11,15-19" ("addr" for AddrBit).
func Ranges(m Dep) string {
	if m == 0 {
		return "-"
	}
	var out []string
	for p := 0; p < 32; {
		if m>>uint(p)&1 == 0 {
			p++
			continue
		}
		q := p
		for q+1 < 32 && m>>uint(q+1)&1 == 1 {
			q++
		}
		if p == q {
			out = append(out, fmt.Sprint(p))
		} else {
			out = append(out, fmt.Sprintf("%d-%d", p, q))
		}
		p = q + 1
	}
	if m&AddrBit != 0 {
		out = append(out, "addr")
	}
	return strings.Join(out, ",")
}

// Unwrap strips interface wrappers.
func UnwrapV(v Value) Value {
	for {
		i, ok := v.(IfaceV)
		if !ok {
			return v
		}
		v = i.V
	}
}

// IsNil reports whether v is a nil value (nil interface, nil pointer).
func IsNil(v Value) bool {
	switch x := v.(type) {
	case nil:
		return true
	case NilV:
		return true
	case IfaceV:
		return IsNil(x.V)
	case SliceV:
		return x.IsNil
	}
	return false
}

// Render prints a value compactly (for samples in the evidence).
func Render(v Value) string { return render(v, 0) }

func render(v Value, depth int) string {
	if depth > 12 {
		return "…"
	}
	switch x := v.(type) {
	case nil:
		return "nil"
	case NilV:
		return "nil"
	case IntV:
		if x.Known() {
			return fmt.Sprint(x.V)
		}
		return "‹" + Ranges(x.AllDeps()) + "›"
	case BoolV:
		return fmt.Sprint(bool(x))
	case OBool:
		return "bool‹" + Ranges(x.Dep) + "›"
	case StrV:
		return fmt.Sprintf("%q", string(x))
	case OpaqueV:
		if x.Prefix != "" {
			return fmt.Sprintf("str(%q…‹%s›)", x.Prefix, Ranges(x.Dep))
		}
		return "opaque‹" + Ranges(x.Dep) + "›"
	case TermV:
		var a []string
		for _, y := range x.Args {
			a = append(a, render(y, depth+1))
		}
		return x.Fn + "(" + strings.Join(a, ", ") + ")"
	case IfaceV:
		return render(x.V, depth)
	case SliceV:
		var a []string
		for i := 0; i < x.Len(); i++ {
			a = append(a, render(x.At(i), depth+1))
		}
		return "[" + strings.Join(a, ", ") + "]"
	case TupleV:
		var a []string
		for _, y := range x {
			a = append(a, render(y, depth+1))
		}
		return "(" + strings.Join(a, ", ") + ")"
	case FuncV:
		return "func " + x.Fn.Name()
	case PtrV:
		return "&" + render(x.C.V, depth+1)
	case *StructV:
		var a []string
		for i, f := range x.Fields {
			a = append(a, x.T.Field(i).Name()+":"+render(f.V, depth+1))
		}
		sort.Strings(a)
		return "{" + strings.Join(a, " ") + "}"
	}
	return fmt.Sprintf("%T", v)
}

// TextSig renders a string-valued result so that two results with the same
// signature are the same function of the source word. ok is false when some
// part of the value is not known exactly (then nothing may be concluded).
func TextSig(v Value) (sig string, ok bool) {
	switch x := UnwrapV(v).(type) {
	case StrV:
		return fmt.Sprintf("%q", string(x)), true
	case BoolV:
		return fmt.Sprint(bool(x)), true
	case IntV:
		if x.Unk == 0 {
			return fmt.Sprintf("%s:%d", x.T.Name(), x.V), true
		}
		if x.Ex != x.Unk || x.Dep == nil {
			return "", false
		}
		var b strings.Builder
		fmt.Fprintf(&b, "%s:%x/%x[", x.T.Name(), x.V, x.Unk)
		for p := 0; p < 64; p++ {
			if x.Unk>>uint(p)&1 == 1 {
				fmt.Fprintf(&b, "%d=%x,", p, uint64(x.Dep[p]))
			}
		}
		b.WriteString("]")
		return b.String(), true
	case OpaqueV:
		if !x.Exact {
			return "", false
		}
		var b strings.Builder
		fmt.Fprintf(&b, "%s(%q", x.What, x.Format)
		for _, part := range x.Parts {
			ps, ok := TextSig(part)
			if !ok {
				return "", false
			}
			b.WriteString("; " + ps)
		}
		b.WriteString(")")
		return b.String(), true
	}
	return "", false
}
