package core

import (
	"go/token"
	"go/types"
	"sort"
	"strings"

	"golang.org/x/tools/go/ssa"
)

// NodeModel describes one sealed IR node type of pkg/expr, derived from the
// source of pkg/expr itself (constructor parameter -> field -> accessor).
type NodeModel struct {
	Name      string
	Named     *types.Named
	Ctor      *ssa.Function
	ParamAcc  []string        // constructor parameter index -> paired accessor name ("" if none)
	Accessors []string        // accessor names in declaration order (Width last if present)
	AccField  map[string]int  // accessor -> field index
	Child     map[string]bool // accessor returns expr.Expr
}

// Children lists the child accessors in declaration order.
func (m *NodeModel) Children() []string {
	var out []string
	for _, a := range m.Accessors {
		if m.Child[a] {
			out = append(out, a)
		}
	}
	return out
}

// Attributes lists the non-child accessors except Width.
func (m *NodeModel) Attributes() []string {
	var out []string
	for _, a := range m.Accessors {
		if !m.Child[a] && a != "Width" {
			out = append(out, a)
		}
	}
	return out
}

// ExprModel derives the node models of every implementer of Expr and Effect.
func (p *Program) ExprModel() map[string]*NodeModel {
	out := map[string]*NodeModel{}
	sp := p.SSAPkg[ExprPkg]
	if sp == nil {
		return out
	}
	exprIface := p.LookupType(ExprPkg, "Expr")
	var all []*types.Named
	all = append(all, p.Implementers("Expr")...)
	all = append(all, p.Implementers("Effect")...)
	for _, n := range all {
		st, ok := n.Underlying().(*types.Struct)
		if !ok {
			continue
		}
		m := &NodeModel{Name: n.Obj().Name(), Named: n, AccField: map[string]int{}, Child: map[string]bool{}}
		// accessors: methods with no parameters, one result, returning a field
		type acc struct {
			name string
			pos  token.Pos
		}
		var accs []acc
		ms := p.SSA.MethodSets.MethodSet(n)
		for i := 0; i < ms.Len(); i++ {
			sel := ms.At(i)
			fn := p.SSA.MethodValue(sel)
			if fn == nil || fn.Signature.Params().Len() != 0 || fn.Signature.Results().Len() != 1 || fn.Blocks == nil {
				continue
			}
			fi, ok := returnsField(fn)
			if !ok {
				continue
			}
			m.AccField[fn.Name()] = fi
			if exprIface != nil && NamedOf(fn.Signature.Results().At(0).Type()) == exprIface {
				m.Child[fn.Name()] = true
			}
			accs = append(accs, acc{fn.Name(), fn.Pos()})
		}
		sort.Slice(accs, func(i, j int) bool { return accs[i].pos < accs[j].pos })
		for _, a := range accs {
			m.Accessors = append(m.Accessors, a.name)
		}
		// constructor
		if c := sp.Func("New" + m.Name); c != nil && c.Blocks != nil {
			m.Ctor = c
			m.ParamAcc = make([]string, len(c.Params))
			fieldOfParam := map[int]int{}
			for _, b := range c.Blocks {
				for _, in := range b.Instrs {
					s, ok := in.(*ssa.Store)
					if !ok {
						continue
					}
					fa, ok := s.Addr.(*ssa.FieldAddr)
					if !ok {
						continue
					}
					if par, ok := Unwrap(s.Val).(*ssa.Parameter); ok {
						for pi, pp := range c.Params {
							if pp == par {
								fieldOfParam[pi] = fa.Field
							}
						}
					}
				}
			}
			for pi, fi := range fieldOfParam {
				for a, afi := range m.AccField {
					if afi == fi {
						m.ParamAcc[pi] = a
					}
				}
			}
		}
		_ = st
		out[m.Name] = m
	}
	return out
}

// returnsField recognises `func (x T) A() R { return x.f }`.
func returnsField(fn *ssa.Function) (int, bool) {
	if len(fn.Blocks) != 1 || len(fn.Params) != 1 {
		return 0, false
	}
	b := fn.Blocks[0]
	ret, ok := b.Instrs[len(b.Instrs)-1].(*ssa.Return)
	if !ok || len(ret.Results) != 1 {
		return 0, false
	}
	switch x := ret.Results[0].(type) {
	case *ssa.Field:
		if x.X == fn.Params[0] {
			return x.Field, true
		}
	case *ssa.UnOp:
		if x.Op != token.MUL {
			return 0, false
		}
		fa, ok := x.X.(*ssa.FieldAddr)
		if !ok {
			return 0, false
		}
		switch base := fa.X.(type) {
		case *ssa.Alloc:
			// local copy of the receiver
			if refs := base.Referrers(); refs != nil {
				for _, r := range *refs {
					if st, ok := r.(*ssa.Store); ok && st.Addr == base && st.Val == fn.Params[0] {
						return fa.Field, true
					}
				}
			}
		case *ssa.Parameter:
			return fa.Field, true
		}
	}
	return 0, false
}

// OInfo is what is known about one origin of a value.
type OInfo struct {
	Transformed bool            // passed through a function of the recursion group / a function parameter
	Partial     bool            // passed through a sub-slicing with explicit bounds
	Via         map[string]bool // names of the functions it passed through
}

// Origins computes, for value v inside fn, the set of accessors of node value
// e (the type-switch-bound value) it is data-derived from. Special origins:
// "<self>" (the switched interface value itself), "<new>" (a freshly built
// node), "<const>" (a constant/other).
type OriginCtx struct {
	E     ssa.Value // the case-bound node value
	X     ssa.Value // the switched interface value
	Model *NodeModel
	Group map[*ssa.Function]bool // functions whose calls count as "transformed"
}

func (oc *OriginCtx) Origins(v ssa.Value) map[string]*OInfo {
	out := map[string]*OInfo{}
	oc.origins(v, map[ssa.Value]bool{}, &OInfo{Via: map[string]bool{}}, out)
	return out
}

func cloneInfo(i *OInfo) *OInfo {
	n := &OInfo{Transformed: i.Transformed, Partial: i.Partial, Via: map[string]bool{}}
	for k := range i.Via {
		n.Via[k] = true
	}
	return n
}

func mergeInfo(out map[string]*OInfo, name string, i *OInfo) {
	if old, ok := out[name]; ok {
		// an origin reached on two routes is transformed only if both are
		old.Transformed = old.Transformed && i.Transformed
		old.Partial = old.Partial || i.Partial
		for k := range old.Via {
			if !i.Via[k] {
				delete(old.Via, k)
			}
		}
		return
	}
	out[name] = cloneInfo(i)
}

func (oc *OriginCtx) origins(v ssa.Value, seen map[ssa.Value]bool, cur *OInfo, out map[string]*OInfo) {
	if v == nil || seen[v] {
		return
	}
	seen[v] = true
	defer delete(seen, v)
	if v == oc.X {
		mergeInfo(out, "<self>", cur)
		return
	}
	switch x := v.(type) {
	case *ssa.MakeInterface:
		oc.origins(x.X, seen, cur, out)
	case *ssa.ChangeType:
		oc.origins(x.X, seen, cur, out)
	case *ssa.ChangeInterface:
		oc.origins(x.X, seen, cur, out)
	case *ssa.TypeAssert:
		oc.origins(x.X, seen, cur, out)
	case *ssa.Extract:
		oc.origins(x.Tuple, seen, cur, out)
	case *ssa.Phi:
		for _, e := range x.Edges {
			oc.origins(e, seen, cur, out)
		}
	case *ssa.Call:
		if bi, ok := x.Call.Value.(*ssa.Builtin); ok {
			if bi.Name() == "append" {
				for _, a := range x.Call.Args {
					oc.origins(a, seen, cur, out)
				}
				return
			}
			mergeInfo(out, "<const>", cur)
			return
		}
		if callee := x.Call.StaticCallee(); callee != nil && !x.Call.IsInvoke() {
			// accessor on e
			if callee.Signature.Recv() != nil && len(x.Call.Args) == 1 && oc.E != nil && x.Call.Args[0] == oc.E {
				if _, ok := oc.Model.AccField[callee.Name()]; ok {
					mergeInfo(out, callee.Name(), cur)
					return
				}
			}
			if strings.HasPrefix(callee.Name(), "New") && PkgPathOf(callee) == ExprPkg {
				mergeInfo(out, "<new>", cur)
				return
			}
			if len(x.Call.Args) == 0 {
				mergeInfo(out, "<const>", cur)
				return
			}
			n := cloneInfo(cur)
			n.Via[Origin(callee).Name()] = true
			if oc.Group[Origin(callee)] {
				n.Transformed = true
			}
			oc.origins(x.Call.Args[0], seen, n, out)
			return
		}
		// dynamic call: a function-typed parameter/free variable applied to arg0
		if !x.Call.IsInvoke() && len(x.Call.Args) > 0 {
			switch x.Call.Value.(type) {
			case *ssa.Parameter, *ssa.FreeVar:
				n := cloneInfo(cur)
				n.Transformed = true
				n.Via["<func-param>"] = true
				oc.origins(x.Call.Args[0], seen, n, out)
				return
			}
		}
		mergeInfo(out, "<const>", cur)
	case *ssa.UnOp:
		if x.Op != token.MUL {
			oc.origins(x.X, seen, cur, out)
			return
		}
		switch a := x.X.(type) {
		case *ssa.IndexAddr:
			oc.origins(a.X, seen, cur, out)
		case *ssa.Alloc:
			oc.storesInto(a, seen, cur, out)
		default:
			mergeInfo(out, "<const>", cur)
		}
	case *ssa.Slice:
		n := cur
		if x.Low != nil || x.High != nil {
			n = cloneInfo(cur)
			n.Partial = true
		}
		oc.origins(x.X, seen, n, out)
	case *ssa.Alloc:
		oc.storesInto(x, seen, cur, out)
	case *ssa.MakeSlice:
		oc.storesInto(x, seen, cur, out)
	case *ssa.Index:
		// an element of an array value (ranging over a local array of lists)
		oc.origins(x.X, seen, cur, out)
	default:
		mergeInfo(out, "<const>", cur)
	}
}

// storesInto unions the origins of every value stored into the object
// (directly or through an element address).
func (oc *OriginCtx) storesInto(obj ssa.Value, seen map[ssa.Value]bool, cur *OInfo, out map[string]*OInfo) {
	refs := obj.Referrers()
	if refs == nil {
		return
	}
	found := false
	for _, r := range *refs {
		switch x := r.(type) {
		case *ssa.Store:
			if x.Addr == obj {
				found = true
				oc.origins(x.Val, seen, cur, out)
			}
		case *ssa.IndexAddr:
			if x.X != obj {
				continue
			}
			if rr := x.Referrers(); rr != nil {
				for _, r2 := range *rr {
					if st, ok := r2.(*ssa.Store); ok && st.Addr == x {
						found = true
						oc.origins(st.Val, seen, cur, out)
					}
				}
			}
		}
	}
	if !found {
		mergeInfo(out, "<const>", cur)
	}
}

// OriginNames renders an origin set.
func OriginNames(m map[string]*OInfo) string {
	var n []string
	for k, i := range m {
		s := k
		if i.Transformed {
			s += "*"
		}
		if i.Partial {
			s += "[partial]"
		}
		n = append(n, s)
	}
	sort.Strings(n)
	return "{" + strings.Join(n, ",") + "}"
}

// RecursionGroup returns fn plus every module function of the same package
// that (transitively, through static calls) calls fn.
func (p *Program) RecursionGroup(fn *ssa.Function) map[*ssa.Function]bool {
	fn = Origin(fn)
	g := map[*ssa.Function]bool{fn: true}
	path := PkgPathOf(fn)
	changed := true
	for changed {
		changed = false
		for _, f := range p.FuncsIn(path) {
			of := Origin(f)
			if g[of] {
				continue
			}
			for _, cs := range Calls(f) {
				if c := Callee(cs.Common()); c != nil && g[Origin(c)] {
					g[of] = true
					changed = true
					break
				}
			}
		}
	}
	return g
}

// RegionOf returns the blocks dominated by b (b included).
func RegionOf(b *ssa.BasicBlock) map[*ssa.BasicBlock]bool {
	out := map[*ssa.BasicBlock]bool{}
	if b == nil {
		return out
	}
	for _, x := range b.Parent().Blocks {
		if b.Dominates(x) {
			out[x] = true
		}
	}
	return out
}
