package core

import (
	"go/token"
	"go/types"

	"golang.org/x/tools/go/ssa"
)

// Callee returns the statically resolved callee of a call (function, method
// via static dispatch, or closure created in place); nil for dynamic calls.
// Generic instantiations are mapped to their origin.
func Callee(c *ssa.CallCommon) *ssa.Function {
	f := c.StaticCallee()
	if f == nil {
		return nil
	}
	return f
}

// Origin maps an instantiation to its generic origin (identity otherwise).
func Origin(f *ssa.Function) *ssa.Function {
	if f == nil {
		return nil
	}
	if o := f.Origin(); o != nil {
		return o
	}
	return f
}

// SameFunc reports whether a and b are the same function modulo generic
// instantiation.
func SameFunc(a, b *ssa.Function) bool {
	return a != nil && b != nil && Origin(a) == Origin(b)
}

// CallSite is one call instruction.
type CallSite struct {
	Fn    *ssa.Function // enclosing function
	Instr ssa.CallInstruction
}

func (s CallSite) Common() *ssa.CallCommon { return s.Instr.Common() }
func (s CallSite) Pos() token.Pos          { return s.Instr.Pos() }
func (s CallSite) Block() *ssa.BasicBlock  { return s.Instr.Block() }

// Value: the call as a value (nil for go/defer).
func (s CallSite) Value() ssa.Value {
	if v := s.Instr.Value(); v != nil {
		return v
	}
	return nil
}

// Calls lists the call instructions (call, go, defer) of fn in block/instr order.
func Calls(fn *ssa.Function) []CallSite {
	var out []CallSite
	for _, b := range fn.Blocks {
		for _, in := range b.Instrs {
			if ci, ok := in.(ssa.CallInstruction); ok {
				out = append(out, CallSite{fn, ci})
			}
		}
	}
	return out
}

// CallsTo lists the call sites inside fn whose static callee is target
// (modulo instantiation).
func CallsTo(fn *ssa.Function, target *ssa.Function) []CallSite {
	var out []CallSite
	for _, cs := range Calls(fn) {
		if SameFunc(Callee(cs.Common()), target) {
			out = append(out, cs)
		}
	}
	return out
}

// IsMethodCall reports whether the call invokes (statically or through an
// interface) a method named name whose receiver's named type is recv
// (pointer receivers are looked through).
func IsMethodCall(c *ssa.CallCommon, recv *types.Named, name string) bool {
	if c.IsInvoke() {
		if c.Method.Name() != name {
			return false
		}
		return namedOf(c.Value.Type()) == recv
	}
	f := c.StaticCallee()
	if f == nil || Origin(f).Name() != name || f.Signature.Recv() == nil {
		return false
	}
	return namedOf(f.Signature.Recv().Type()) == originNamed(recv)
}

func originNamed(n *types.Named) *types.Named {
	if n == nil {
		return nil
	}
	return n.Origin()
}

func namedOf(t types.Type) *types.Named {
	if p, ok := t.(*types.Pointer); ok {
		t = p.Elem()
	}
	n, _ := t.(*types.Named)
	if n != nil {
		return n.Origin()
	}
	return nil
}

// NamedOf exposes namedOf.
func NamedOf(t types.Type) *types.Named { return namedOf(t) }

// InstrIndex returns the index of in within its block.
func InstrIndex(in ssa.Instruction) int {
	for i, x := range in.Block().Instrs {
		if x == in {
			return i
		}
	}
	return -1
}

// InstrDominates reports whether a is executed before b on every path that
// reaches b.
func InstrDominates(a, b ssa.Instruction) bool {
	if a.Block() == b.Block() {
		return InstrIndex(a) < InstrIndex(b)
	}
	return a.Block().Dominates(b.Block())
}

// Reachable computes the blocks reachable from start, optionally pretending
// that edge (cutFrom -> cutTo) does not exist and that the blocks in stop are
// absorbing (not expanded).
func Reachable(start *ssa.BasicBlock, cutFrom, cutTo *ssa.BasicBlock, stop map[*ssa.BasicBlock]bool) map[*ssa.BasicBlock]bool {
	seen := map[*ssa.BasicBlock]bool{start: true}
	work := []*ssa.BasicBlock{start}
	for len(work) > 0 {
		b := work[len(work)-1]
		work = work[:len(work)-1]
		if stop[b] {
			continue
		}
		for _, s := range b.Succs {
			if b == cutFrom && s == cutTo {
				// an If with both successors equal keeps the other copy
				n := 0
				for _, s2 := range b.Succs {
					if s2 == cutTo {
						n++
					}
				}
				if n == 1 {
					continue
				}
			}
			if !seen[s] {
				seen[s] = true
				work = append(work, s)
			}
		}
	}
	return seen
}

// EdgeDominates reports whether every path from the entry to target passes
// the CFG edge from -> from.Succs[succ].
func EdgeDominates(from *ssa.BasicBlock, succ int, target *ssa.BasicBlock) bool {
	fn := from.Parent()
	to := from.Succs[succ]
	if len(from.Succs) == 2 && from.Succs[0] == from.Succs[1] {
		return false
	}
	r := Reachable(fn.Blocks[0], from, to, nil)
	return !r[target]
}

// Guard is a branch condition with the outcome that leads to a program point.
type Guard struct {
	Cond    ssa.Value
	Outcome bool
	If      *ssa.If
}

// GuardsOf lists every (condition, outcome) whose edge dominates block b.
func GuardsOf(b *ssa.BasicBlock) []Guard {
	var out []Guard
	fn := b.Parent()
	for _, d := range fn.Blocks {
		if len(d.Instrs) == 0 {
			continue
		}
		iff, ok := d.Instrs[len(d.Instrs)-1].(*ssa.If)
		if !ok {
			continue
		}
		if !d.Dominates(b) && d != b {
			continue
		}
		if d == b {
			continue
		}
		if EdgeDominates(d, 0, b) {
			out = append(out, Guard{iff.Cond, true, iff})
		} else if EdgeDominates(d, 1, b) {
			out = append(out, Guard{iff.Cond, false, iff})
		}
	}
	return out
}

// ExitKind classifies how a block leaves the function.
type ExitKind int

const (
	NotExit ExitKind = iota
	ExitReturn
	ExitPanic
)

// BlockExit classifies the terminator of b.
func BlockExit(b *ssa.BasicBlock) ExitKind {
	if len(b.Instrs) == 0 {
		return NotExit
	}
	switch b.Instrs[len(b.Instrs)-1].(type) {
	case *ssa.Return:
		return ExitReturn
	case *ssa.Panic:
		return ExitPanic
	}
	return NotExit
}

// MustPassBefore reports whether every path from instruction `from` (after
// it) to any block satisfying `end` passes an instruction satisfying `mid`.
// Returns a witness block of a path that avoids mid (nil if none).
func MustPassBefore(from ssa.Instruction, mid func(ssa.Instruction) bool, end func(*ssa.BasicBlock) bool) (ok bool, witness *ssa.BasicBlock) {
	b := from.Block()
	idx := InstrIndex(from)
	// rest of the start block
	for _, in := range b.Instrs[idx+1:] {
		if mid(in) {
			return true, nil
		}
	}
	if end(b) {
		return false, b
	}
	seen := map[*ssa.BasicBlock]bool{}
	var work []*ssa.BasicBlock
	for _, s := range b.Succs {
		if !seen[s] {
			seen[s] = true
			work = append(work, s)
		}
	}
	for len(work) > 0 {
		x := work[len(work)-1]
		work = work[:len(work)-1]
		blocked := false
		for _, in := range x.Instrs {
			if mid(in) {
				blocked = true
				break
			}
		}
		if blocked {
			continue
		}
		if end(x) {
			return false, x
		}
		for _, s := range x.Succs {
			if !seen[s] {
				seen[s] = true
				work = append(work, s)
			}
		}
	}
	return true, nil
}

// ReachableFromInstr lists instructions that may execute after `from`.
func ReachableFromInstr(from ssa.Instruction, visit func(ssa.Instruction)) {
	b := from.Block()
	idx := InstrIndex(from)
	for _, in := range b.Instrs[idx+1:] {
		visit(in)
	}
	seen := map[*ssa.BasicBlock]bool{}
	var work []*ssa.BasicBlock
	for _, s := range b.Succs {
		if !seen[s] {
			seen[s] = true
			work = append(work, s)
		}
	}
	for len(work) > 0 {
		x := work[len(work)-1]
		work = work[:len(work)-1]
		for _, in := range x.Instrs {
			visit(in)
		}
		for _, s := range x.Succs {
			if !seen[s] {
				seen[s] = true
				work = append(work, s)
			}
		}
	}
}

// Unwrap strips value-preserving wrappers (ChangeType, ChangeInterface,
// MakeInterface, Convert between identical underlying integer sizes is NOT
// stripped).
func Unwrap(v ssa.Value) ssa.Value {
	for {
		switch x := v.(type) {
		case *ssa.ChangeType:
			v = x.X
		case *ssa.ChangeInterface:
			v = x.X
		case *ssa.MakeInterface:
			v = x.X
		default:
			return v
		}
	}
}

// DependsOn reports whether value v is data-derived from a value satisfying
// src, following operands through pure instructions (BinOp, UnOp, Convert,
// ChangeType, Phi, Extract, Field, Index, Slice, MakeInterface, TypeAssert,
// Call results whose arguments derive, loads from Allocs that were stored a
// deriving value).
func DependsOn(v ssa.Value, src func(ssa.Value) bool) bool {
	seen := map[ssa.Value]bool{}
	var rec func(ssa.Value) bool
	rec = func(v ssa.Value) bool {
		if v == nil || seen[v] {
			return false
		}
		seen[v] = true
		if src(v) {
			return true
		}
		switch x := v.(type) {
		case *ssa.Phi:
			for _, e := range x.Edges {
				if rec(e) {
					return true
				}
			}
			return false
		case *ssa.UnOp:
			if x.Op == token.MUL {
				// load: look at stores into the same alloc/address
				if rec(x.X) {
					return true
				}
				if refs := x.X.Referrers(); refs != nil {
					for _, r := range *refs {
						if st, ok := r.(*ssa.Store); ok && st.Addr == x.X && rec(st.Val) {
							return true
						}
					}
				}
				return false
			}
			return rec(x.X)
		case *ssa.Call:
			for _, a := range x.Call.Args {
				if rec(a) {
					return true
				}
			}
			if x.Call.IsInvoke() {
				return rec(x.Call.Value)
			}
			if _, ok := x.Call.Value.(*ssa.Function); !ok {
				if _, ok := x.Call.Value.(*ssa.Builtin); !ok {
					return rec(x.Call.Value)
				}
			}
			return false
		case *ssa.FreeVar:
			// the binding given by the enclosing function's MakeClosure
			fn := x.Parent()
			idx := -1
			for i, fv := range fn.FreeVars {
				if fv == x {
					idx = i
				}
			}
			if par := fn.Parent(); par != nil && idx >= 0 {
				for _, b := range par.Blocks {
					for _, in := range b.Instrs {
						if mc, ok := in.(*ssa.MakeClosure); ok && mc.Fn == ssa.Value(fn) && idx < len(mc.Bindings) {
							if rec(mc.Bindings[idx]) {
								return true
							}
						}
					}
				}
			}
			return false
		case *ssa.Alloc, *ssa.MakeSlice:
			// values stored into the object (directly or through an element /
			// field address)
			if refs := v.Referrers(); refs != nil {
				for _, r := range *refs {
					switch y := r.(type) {
					case *ssa.Store:
						if y.Addr == v && rec(y.Val) {
							return true
						}
					case *ssa.IndexAddr, *ssa.FieldAddr:
						yv := y.(ssa.Value)
						if rr := yv.Referrers(); rr != nil {
							for _, r2 := range *rr {
								if st, ok := r2.(*ssa.Store); ok && st.Addr == yv && rec(st.Val) {
									return true
								}
							}
						}
					}
				}
			}
			return false
		case ssa.Instruction:
			for _, op := range x.Operands(nil) {
				if *op != nil && rec(*op) {
					return true
				}
			}
		}
		return false
	}
	return rec(v)
}

// IsNilConst reports whether v is the nil constant.
func IsNilConst(v ssa.Value) bool {
	c, ok := v.(*ssa.Const)
	return ok && c.Value == nil
}

// ErrNilCheck recognises `x != nil` / `x == nil` and returns x and whether
// the true outcome means x is non-nil.
func NilCheck(cond ssa.Value) (x ssa.Value, trueMeansNonNil bool, ok bool) {
	b, isBin := cond.(*ssa.BinOp)
	if !isBin || (b.Op != token.EQL && b.Op != token.NEQ) {
		return nil, false, false
	}
	switch {
	case IsNilConst(b.Y):
		return b.X, b.Op == token.NEQ, true
	case IsNilConst(b.X):
		return b.Y, b.Op == token.NEQ, true
	}
	return nil, false, false
}

// FieldOf resolves the struct field selected by a FieldAddr or Field.
func FieldOf(v ssa.Value) *types.Var {
	switch x := v.(type) {
	case *ssa.FieldAddr:
		st := derefStruct(x.X.Type())
		if st != nil {
			return st.Field(x.Field)
		}
	case *ssa.Field:
		st := derefStruct(x.X.Type())
		if st != nil {
			return st.Field(x.Field)
		}
	}
	return nil
}

func derefStruct(t types.Type) *types.Struct {
	if p, ok := t.Underlying().(*types.Pointer); ok {
		t = p.Elem()
	}
	st, _ := t.Underlying().(*types.Struct)
	return st
}

// FieldByName finds field name in named struct type n.
func FieldByName(n *types.Named, name string) *types.Var {
	if n == nil {
		return nil
	}
	st, ok := n.Underlying().(*types.Struct)
	if !ok {
		return nil
	}
	for i := 0; i < st.NumFields(); i++ {
		if st.Field(i).Name() == name {
			return st.Field(i)
		}
	}
	return nil
}

// SameField compares struct fields modulo generic instantiation.
func SameField(a, b *types.Var) bool {
	if a == nil || b == nil {
		return false
	}
	return a.Origin() == b.Origin()
}

// IsParam reports whether v is parameter p or a load of the heap/stack cell
// p was spilled to (go/ssa spills parameters captured by closures).
func IsParam(v ssa.Value, p *ssa.Parameter) bool {
	v = Unwrap(v)
	if v == ssa.Value(p) {
		return true
	}
	u, ok := v.(*ssa.UnOp)
	if !ok || u.Op != token.MUL {
		return false
	}
	a, ok := u.X.(*ssa.Alloc)
	if !ok {
		return false
	}
	refs := a.Referrers()
	if refs == nil {
		return false
	}
	n := 0
	for _, r := range *refs {
		if st, ok := r.(*ssa.Store); ok && st.Addr == ssa.Value(a) {
			n++
			if st.Val != ssa.Value(p) {
				return false
			}
		}
	}
	return n == 1
}
