package core

import (
	"go/constant"
	"go/token"
	"go/types"
	"strings"
	"unicode/utf8"

	"golang.org/x/tools/go/ssa"
)

// StrWalk adds concrete strings to the E7 walker: chosen root values (a
// string parameter, the result of a read call) are bound to literal strings of
// the checker's choosing, and everything the analysed code derives from them
// with slicing, indexing, len, comparison with literals, ranging, and a few
// strings.* helpers is evaluated on those literals. A slice or index outside
// the string is recorded as a crash (the walked code would panic there).
type StrWalk struct {
	Bind  func(root ssa.Value) (string, bool)
	Crash string // description of the first out-of-range access, "" if none

	val      *Valuation
	rangePos map[*ssa.Range]int
	next     map[*ssa.Next]nextRes
	phiStr   map[*ssa.Phi]string // string-typed phis: the string at the time the phi was entered
}

type nextRes struct {
	ok bool
	k  int
	r  rune
}

// Install wires the string atoms into vl (before vl's own atoms).
func (sw *StrWalk) Install(vl *Valuation) {
	sw.val = vl
	sw.rangePos = map[*ssa.Range]int{}
	sw.next = map[*ssa.Next]nextRes{}
	sw.phiStr = map[*ssa.Phi]string{}
	userHook, userStop := vl.PhiHook, vl.RootStop
	vl.PhiHook = func(phi *ssa.Phi, incoming ssa.Value) {
		if isStringType(phi.Type()) {
			// (a loop variable that is resliced every iteration: the incoming value is
			// re-executed later, so the string is fixed now)
			if s, ok := sw.StrOf(incoming); ok {
				sw.phiStr[phi] = s
			} else {
				delete(sw.phiStr, phi)
			}
		}
		if userHook != nil {
			userHook(phi, incoming)
		}
	}
	vl.RootStop = func(v ssa.Value) bool {
		if p, ok := v.(*ssa.Phi); ok {
			if _, has := sw.phiStr[p]; has {
				return true
			}
		}
		return userStop != nil && userStop(v)
	}
	userInt, userBool, userVisit := vl.Int, vl.Bool, vl.Visit
	vl.Int = func(v ssa.Value) (int64, bool) {
		if n, ok := sw.intAtom(v); ok {
			return n, true
		}
		if userInt != nil {
			return userInt(v)
		}
		return 0, false
	}
	vl.Bool = func(v ssa.Value) (bool, bool) {
		if b, ok := sw.boolAtom(v); ok {
			return b, true
		}
		if userBool != nil {
			return userBool(v)
		}
		return false, false
	}
	vl.Visit = func(in ssa.Instruction) {
		sw.visit(in)
		if userVisit != nil {
			userVisit(in)
		}
	}
}

func isStringType(t types.Type) bool {
	b, ok := t.Underlying().(*types.Basic)
	return ok && b.Info()&types.IsString != 0
}

// StrOf evaluates a string-valued SSA value.
func (sw *StrWalk) StrOf(v ssa.Value) (string, bool) { return sw.strOf(v, 0) }

func (sw *StrWalk) strOf(v ssa.Value, depth int) (string, bool) {
	if depth > 40 || v == nil {
		return "", false
	}
	// the value may live in a caller's frame (a string handed to a helper):
	// everything below is evaluated there
	v, fr := sw.val.RootF(v)
	if fr != nil {
		old := sw.val.SetFrame(fr)
		defer sw.val.SetFrame(old)
	}
	if p, ok := v.(*ssa.Phi); ok {
		if s, has := sw.phiStr[p]; has {
			return s, true
		}
	}
	if s, ok := sw.Bind(v); ok {
		return s, true
	}
	switch x := v.(type) {
	case *ssa.Const:
		if x.Value != nil && x.Value.Kind() == constant.String {
			return constant.StringVal(x.Value), true
		}
	case *ssa.Slice:
		s, ok := sw.strOf(x.X, depth+1)
		if !ok {
			return "", false
		}
		lo, hi := int64(0), int64(len(s))
		if x.Low != nil {
			n, ok := sw.val.EvalInt(x.Low, nil)
			if !ok {
				return "", false
			}
			lo = n
		}
		if x.High != nil {
			n, ok := sw.val.EvalInt(x.High, nil)
			if !ok {
				return "", false
			}
			hi = n
		}
		if lo < 0 || hi > int64(len(s)) || lo > hi {
			return "", false
		}
		return s[lo:hi], true
	case *ssa.BinOp:
		if x.Op == token.ADD && isStringType(x.Type()) {
			a, ok1 := sw.strOf(x.X, depth+1)
			b, ok2 := sw.strOf(x.Y, depth+1)
			return a + b, ok1 && ok2
		}
	case *ssa.Call:
		if f := x.Call.StaticCallee(); f != nil && len(x.Call.Args) >= 1 {
			arg := func(i int) (string, bool) { return sw.strOf(x.Call.Args[i], depth+1) }
			switch f.String() {
			case "strings.TrimPrefix":
				a, ok1 := arg(0)
				b, ok2 := arg(1)
				return strings.TrimPrefix(a, b), ok1 && ok2
			case "strings.TrimSpace":
				a, ok := arg(0)
				return strings.TrimSpace(a), ok
			case "strings.ToLower":
				a, ok := arg(0)
				return strings.ToLower(a), ok
			case "strings.TrimLeft", "strings.TrimRight", "strings.Trim":
				a, ok1 := arg(0)
				b, ok2 := arg(1)
				if ok1 && ok2 {
					switch f.String() {
					case "strings.TrimLeft":
						return strings.TrimLeft(a, b), true
					case "strings.TrimRight":
						return strings.TrimRight(a, b), true
					}
					return strings.Trim(a, b), true
				}
				return "", false
			case "strings.Repeat":
				a, ok := arg(0)
				n, ok2 := sw.val.EvalInt(x.Call.Args[1], nil)
				if ok && ok2 && n >= 0 && n < 1<<16 {
					return strings.Repeat(a, int(n)), true
				}
				return "", false
			}
		}
	}
	return "", false
}

func (sw *StrWalk) intAtom(v ssa.Value) (int64, bool) {
	switch x := v.(type) {
	case *ssa.Call:
		if bi, ok := x.Call.Value.(*ssa.Builtin); ok && bi.Name() == "len" && isStringType(x.Call.Args[0].Type()) {
			if s, ok := sw.StrOf(x.Call.Args[0]); ok {
				return int64(len(s)), true
			}
			return 0, false
		}
		if f := x.Call.StaticCallee(); f != nil {
			switch f.String() {
			case "strings.LastIndexByte":
				s, ok := sw.StrOf(x.Call.Args[0])
				c, ok2 := sw.val.EvalInt(x.Call.Args[1], nil)
				if ok && ok2 {
					return int64(strings.LastIndexByte(s, byte(c))), true
				}
			case "strings.IndexByte", "strings.IndexRune":
				s, ok := sw.StrOf(x.Call.Args[0])
				c, ok2 := sw.val.EvalInt(x.Call.Args[1], nil)
				if ok && ok2 {
					return int64(strings.IndexRune(s, rune(c))), true
				}
			case "strings.Index":
				s, ok := sw.StrOf(x.Call.Args[0])
				t, ok2 := sw.StrOf(x.Call.Args[1])
				if ok && ok2 {
					return int64(strings.Index(s, t)), true
				}
			case "strings.Count":
				s, ok := sw.StrOf(x.Call.Args[0])
				t, ok2 := sw.StrOf(x.Call.Args[1])
				if ok && ok2 {
					return int64(strings.Count(s, t)), true
				}
			}
		}
	case *ssa.Lookup:
		if isStringType(x.X.Type()) {
			s, ok := sw.StrOf(x.X)
			i, ok2 := sw.val.EvalInt(x.Index, nil)
			if ok && ok2 && i >= 0 && i < int64(len(s)) {
				return int64(s[i]), true
			}
		}
	case *ssa.Index:
		if isStringType(x.X.Type()) {
			s, ok := sw.StrOf(x.X)
			i, ok2 := sw.val.EvalInt(x.Index, nil)
			if ok && ok2 && i >= 0 && i < int64(len(s)) {
				return int64(s[i]), true
			}
		}
	case *ssa.Extract:
		if nx, ok := x.Tuple.(*ssa.Next); ok {
			if r, has := sw.next[nx]; has {
				switch x.Index {
				case 1:
					return int64(r.k), true
				case 2:
					return int64(r.r), true
				}
			}
		}
	}
	return 0, false
}

func (sw *StrWalk) boolAtom(v ssa.Value) (bool, bool) {
	switch x := v.(type) {
	case *ssa.BinOp:
		if !isStringType(x.X.Type()) {
			return false, false
		}
		a, ok1 := sw.StrOf(x.X)
		b, ok2 := sw.StrOf(x.Y)
		if !ok1 || !ok2 {
			return false, false
		}
		switch x.Op {
		case token.EQL:
			return a == b, true
		case token.NEQ:
			return a != b, true
		case token.LSS:
			return a < b, true
		case token.GTR:
			return a > b, true
		}
	case *ssa.Call:
		if f := x.Call.StaticCallee(); f != nil && len(x.Call.Args) == 2 {
			s, ok1 := sw.StrOf(x.Call.Args[0])
			switch f.String() {
			case "strings.HasPrefix", "strings.HasSuffix", "strings.Contains":
				t, ok2 := sw.StrOf(x.Call.Args[1])
				if ok1 && ok2 {
					switch f.String() {
					case "strings.HasPrefix":
						return strings.HasPrefix(s, t), true
					case "strings.HasSuffix":
						return strings.HasSuffix(s, t), true
					}
					return strings.Contains(s, t), true
				}
			case "strings.ContainsRune":
				c, ok2 := sw.val.EvalInt(x.Call.Args[1], nil)
				if ok1 && ok2 {
					return strings.ContainsRune(s, rune(c)), true
				}
			case "strings.ContainsAny":
				t, ok2 := sw.StrOf(x.Call.Args[1])
				if ok1 && ok2 {
					return strings.ContainsAny(s, t), true
				}
			}
		}
	case *ssa.Extract:
		if nx, ok := x.Tuple.(*ssa.Next); ok && x.Index == 0 {
			if r, has := sw.next[nx]; has {
				return r.ok, true
			}
		}
	}
	return false, false
}

func (sw *StrWalk) visit(in ssa.Instruction) {
	switch x := in.(type) {
	case *ssa.Slice:
		if !isStringType(x.X.Type()) {
			return
		}
		s, ok := sw.StrOf(x.X)
		if !ok {
			return
		}
		lo, hi := int64(0), int64(len(s))
		if x.Low != nil {
			if n, ok := sw.val.EvalInt(x.Low, nil); ok {
				lo = n
			}
		}
		if x.High != nil {
			if n, ok := sw.val.EvalInt(x.High, nil); ok {
				hi = n
			}
		}
		if (lo < 0 || hi > int64(len(s)) || lo > hi) && sw.Crash == "" {
			sw.Crash = "a slice expression [" + itoa(lo) + ":" + itoa(hi) + "] is applied to a string of length " + itoa(int64(len(s)))
		}
	case *ssa.Lookup:
		if !isStringType(x.X.Type()) {
			return
		}
		s, ok := sw.StrOf(x.X)
		i, ok2 := sw.val.EvalInt(x.Index, nil)
		if ok && ok2 && (i < 0 || i >= int64(len(s))) && sw.Crash == "" {
			sw.Crash = "index " + itoa(i) + " is applied to a string of length " + itoa(int64(len(s)))
		}
	case *ssa.Index:
		if !isStringType(x.X.Type()) {
			return
		}
		s, ok := sw.StrOf(x.X)
		i, ok2 := sw.val.EvalInt(x.Index, nil)
		if ok && ok2 && (i < 0 || i >= int64(len(s))) && sw.Crash == "" {
			sw.Crash = "index " + itoa(i) + " is applied to a string of length " + itoa(int64(len(s)))
		}
	case *ssa.Range:
		sw.rangePos[x] = 0
	case *ssa.Next:
		rg, ok := x.Iter.(*ssa.Range)
		if !ok || !x.IsString {
			return
		}
		s, ok := sw.StrOf(rg.X)
		if !ok {
			return
		}
		pos := sw.rangePos[rg]
		if pos >= len(s) {
			sw.next[x] = nextRes{ok: false}
			return
		}
		r, size := utf8.DecodeRuneInString(s[pos:])
		sw.next[x] = nextRes{ok: true, k: pos, r: r}
		sw.rangePos[rg] = pos + size
	}
}

func itoa(n int64) string {
	neg := n < 0
	if neg {
		n = -n
	}
	if n == 0 {
		return "0"
	}
	var b []byte
	for n > 0 {
		b = append([]byte{byte('0' + n%10)}, b...)
		n /= 10
	}
	if neg {
		return "-" + string(b)
	}
	return string(b)
}
