package core

import (
	"go/token"
	"go/types"

	"golang.org/x/tools/go/ssa"
)

// RangeLoop describes a `for ... range X` loop in SSA form.
type RangeLoop struct {
	Over   ssa.Value       // the ranged collection (map or slice value)
	Header *ssa.BasicBlock // loop header
	Body   *ssa.BasicBlock // first block of the body
	Done   *ssa.BasicBlock // block after the loop
	Key    ssa.Value       // map key (map range) or index (slice range)
	Elem   ssa.Value       // slice element value(s): loads of &Over[idx] (nil for maps)
	IsMap  bool
	// Coll: the loop counts up to Over.Len() where Len is a length accessor of
	// a collection type (returns len of field CollField); its elements are
	// read with the matching index accessor, see IsElem.
	Coll      bool
	CollField string
	// FixedTrips: the number of iterations is fixed when the loop is entered
	// (a range loop, or a counted loop whose length is taken before the loop)
	FixedTrips bool
}

// accessorBody returns the body-carrying function of f (the generic origin
// when the instance has no body).
func accessorBody(f *ssa.Function) *ssa.Function {
	if f != nil {
		f = Origin(f)
	}
	if f == nil || len(f.Blocks) != 1 {
		return nil
	}
	return f
}

func accessorField(f *ssa.Function, v ssa.Value) (string, bool) {
	switch x := v.(type) {
	case *ssa.Field:
		if len(f.Params) > 0 && x.X == ssa.Value(f.Params[0]) {
			if fld := FieldOf(x); fld != nil {
				return fld.Name(), true
			}
		}
	case *ssa.UnOp:
		if fa, ok := x.X.(*ssa.FieldAddr); ok && x.Op == token.MUL && len(f.Params) > 0 {
			recv := fa.X == ssa.Value(f.Params[0])
			if al, isAl := fa.X.(*ssa.Alloc); isAl && storesTo(al) == 1 {
				// a value receiver spilled into a local
				for _, r := range *al.Referrers() {
					if st, ok := r.(*ssa.Store); ok && st.Addr == ssa.Value(al) && st.Val == ssa.Value(f.Params[0]) {
						recv = true
					}
				}
			}
			if fld := FieldOf(fa); fld != nil && recv {
				return fld.Name(), true
			}
		}
	}
	return "", false
}

// LenAccessor: f is `func (r T) Len() int { return len(r.f) }`; returns f's name of the field.
func LenAccessor(f *ssa.Function) (string, bool) {
	f = accessorBody(f)
	if f == nil || len(f.Params) != 1 {
		return "", false
	}
	ret, ok := f.Blocks[0].Instrs[len(f.Blocks[0].Instrs)-1].(*ssa.Return)
	if !ok || len(ret.Results) != 1 {
		return "", false
	}
	call, ok := ret.Results[0].(*ssa.Call)
	if !ok {
		return "", false
	}
	if bi, ok := call.Call.Value.(*ssa.Builtin); !ok || bi.Name() != "len" {
		return "", false
	}
	return accessorField(f, call.Call.Args[0])
}

// IndexAccessor: f is `func (r T) Index(i int) E { return r.f[i] }`.
func IndexAccessor(f *ssa.Function) (string, bool) {
	f = accessorBody(f)
	if f == nil || len(f.Params) != 2 {
		return "", false
	}
	ret, ok := f.Blocks[0].Instrs[len(f.Blocks[0].Instrs)-1].(*ssa.Return)
	if !ok || len(ret.Results) != 1 {
		return "", false
	}
	ld, ok := ret.Results[0].(*ssa.UnOp)
	if !ok || ld.Op != token.MUL {
		return "", false
	}
	ia, ok := ld.X.(*ssa.IndexAddr)
	if !ok || ia.Index != ssa.Value(f.Params[1]) {
		return "", false
	}
	return accessorField(f, ia.X)
}

// IsElem reports whether v is the element of the ranged collection for the
// current iteration of l: a load of &Over[Key], or Over.Index(Key) for a
// collection loop.
func (l *RangeLoop) IsElem(v ssa.Value) bool {
	v = Unwrap(v)
	if l.Coll {
		call, ok := v.(*ssa.Call)
		if !ok || call.Call.IsInvoke() || len(call.Call.Args) != 2 {
			return false
		}
		fld, ok := IndexAccessor(call.Call.StaticCallee())
		return ok && fld == l.CollField && SameValue(call.Call.Args[0], l.Over) && call.Call.Args[1] == l.Key
	}
	ld, ok := v.(*ssa.UnOp)
	if !ok || ld.Op != token.MUL {
		return false
	}
	ia, ok := ld.X.(*ssa.IndexAddr)
	return ok && (ia.X == l.Over || SameValue(ia.X, l.Over)) && ia.Index == l.Key
}

// RangeLoops finds the range loops of fn.
func RangeLoops(fn *ssa.Function) []*RangeLoop {
	var out []*RangeLoop
	for _, b := range fn.Blocks {
		for _, in := range b.Instrs {
			switch x := in.(type) {
			case *ssa.Next:
				rg, ok := x.Iter.(*ssa.Range)
				if !ok {
					continue
				}
				l := &RangeLoop{Over: rg.X, Header: b, IsMap: true}
				if refs := x.Referrers(); refs != nil {
					for _, r := range *refs {
						if e, ok := r.(*ssa.Extract); ok {
							switch e.Index {
							case 0:
								if er := e.Referrers(); er != nil {
									for _, r2 := range *er {
										if iff, ok := r2.(*ssa.If); ok {
											l.Body, l.Done = iff.Block().Succs[0], iff.Block().Succs[1]
										}
									}
								}
							case 1:
								l.Key = e
							}
						}
					}
				}
				if l.Body != nil {
					out = append(out, l)
				}
			case *ssa.If:
				// rangeindex loop: cond is idx < len(X) with idx = phi + 1
				bo, ok := x.Cond.(*ssa.BinOp)
				if !ok || bo.Op != token.LSS {
					continue
				}
				if l := countedLoop(b, bo); l != nil {
					out = append(out, l)
					continue
				}
				add, ok := bo.X.(*ssa.BinOp)
				if !ok || add.Op != token.ADD {
					continue
				}
				ph, ok := add.X.(*ssa.Phi)
				if !ok || ph.Block() != b {
					continue
				}
				if one, ok := ConstInt(add.Y); !ok || one != 1 {
					continue
				}
				ln, ok := bo.Y.(*ssa.Call)
				if !ok {
					continue
				}
				if bi, ok := ln.Call.Value.(*ssa.Builtin); !ok || bi.Name() != "len" {
					continue
				}
				// phi must start at -1 and continue with add
				okPhi := false
				for _, e := range ph.Edges {
					if k, isC := ConstInt(e); isC && k == -1 {
						okPhi = true
					}
				}
				if !okPhi {
					continue
				}
				l := &RangeLoop{Over: ln.Call.Args[0], Header: b, Body: b.Succs[0], Done: b.Succs[1], Key: add, FixedTrips: true}
				out = append(out, l)
			}
		}
	}
	return out
}

// LoopBlocks returns the blocks of the natural loop with the given header
// (blocks dominated by the header from which the header is reachable).
func LoopBlocks(header *ssa.BasicBlock) map[*ssa.BasicBlock]bool {
	out := map[*ssa.BasicBlock]bool{header: true}
	var work []*ssa.BasicBlock
	for _, p := range header.Preds {
		if header.Dominates(p) {
			work = append(work, p)
		}
	}
	for len(work) > 0 {
		b := work[len(work)-1]
		work = work[:len(work)-1]
		if out[b] {
			continue
		}
		out[b] = true
		for _, p := range b.Preds {
			work = append(work, p)
		}
	}
	return out
}

// EveryIterationPasses reports whether every path from the loop body's first
// block back to the header passes an instruction satisfying mid. It returns a
// block on an avoiding path otherwise.
func EveryIterationPasses(body, header *ssa.BasicBlock, mid func(ssa.Instruction) bool) (bool, *ssa.BasicBlock) {
	seen := map[*ssa.BasicBlock]bool{}
	work := []*ssa.BasicBlock{body}
	seen[body] = true
	for len(work) > 0 {
		b := work[len(work)-1]
		work = work[:len(work)-1]
		blocked := false
		for _, in := range b.Instrs {
			if mid(in) {
				blocked = true
				break
			}
		}
		if blocked {
			continue
		}
		for _, s := range b.Succs {
			if s == header {
				return false, b
			}
			if !seen[s] && header.Dominates(s) {
				seen[s] = true
				work = append(work, s)
			}
		}
	}
	return true, nil
}

// LoadOfField recognises a load of x.field where x satisfies base.
func LoadOfField(v ssa.Value, field string, base func(ssa.Value) bool) bool {
	u, ok := Unwrap(v).(*ssa.UnOp)
	if !ok || u.Op != token.MUL {
		return false
	}
	fa, ok := u.X.(*ssa.FieldAddr)
	if !ok {
		return false
	}
	f := FieldOf(fa)
	return f != nil && f.Name() == field && base(fa.X)
}

// FieldNameOfLoad returns the field name when v is a load of x.field.
// FieldNameOfRead is FieldNameOfLoad that also accepts a field of a struct
// value (x.f with x not addressable).
func FieldNameOfRead(v ssa.Value) (string, ssa.Value, bool) {
	if fv, ok := Unwrap(v).(*ssa.Field); ok {
		if f := FieldOf(fv); f != nil {
			return f.Name(), fv.X, true
		}
		return "", nil, false
	}
	return FieldNameOfLoad(v)
}

func FieldNameOfLoad(v ssa.Value) (string, ssa.Value, bool) {
	u, ok := Unwrap(v).(*ssa.UnOp)
	if !ok || u.Op != token.MUL {
		return "", nil, false
	}
	fa, ok := u.X.(*ssa.FieldAddr)
	if !ok {
		return "", nil, false
	}
	f := FieldOf(fa)
	if f == nil {
		return "", nil, false
	}
	return f.Name(), fa.X, true
}

// countedLoop recognises the hand-written form of a slice range loop,
//
//	for i := 0; i < len(x); i++ { ... x[i] ... }
//
// (also with the length hoisted into a local before the loop): the header
// block b ends in `i < len(x)` where i is a phi of b that starts at 0 and is
// stepped by exactly 1 on every back edge. It is reported like a range loop
// over x with key i.
func countedLoop(b *ssa.BasicBlock, cond *ssa.BinOp) *RangeLoop {
	ph, ok := cond.X.(*ssa.Phi)
	if !ok || ph.Block() != b || len(b.Succs) != 2 {
		return nil
	}
	ln, ok := cond.Y.(*ssa.Call)
	if !ok {
		return nil
	}
	collField, coll := "", false
	if bi, ok := ln.Call.Value.(*ssa.Builtin); ok {
		if bi.Name() != "len" {
			return nil
		}
		if _, isSlice := ln.Call.Args[0].Type().Underlying().(*types.Slice); !isSlice {
			return nil
		}
	} else {
		// i < x.Len() with Len a length accessor
		if ln.Call.IsInvoke() || len(ln.Call.Args) != 1 {
			return nil
		}
		collField, coll = LenAccessor(ln.Call.StaticCallee())
		if !coll {
			return nil
		}
	}
	// the length is taken in the header or before the loop
	if ln.Block() != b && !ln.Block().Dominates(b) {
		return nil
	}
	entries, steps := 0, 0
	for i, e := range ph.Edges {
		if b.Dominates(b.Preds[i]) {
			add, ok := e.(*ssa.BinOp)
			if !ok || add.Op != token.ADD || add.X != ssa.Value(ph) {
				return nil
			}
			if one, ok := ConstInt(add.Y); !ok || one != 1 {
				return nil
			}
			steps++
		} else {
			if z, ok := ConstInt(e); !ok || z != 0 {
				return nil
			}
			entries++
		}
	}
	if entries == 0 || steps == 0 {
		return nil
	}
	return &RangeLoop{Over: ln.Call.Args[0], Header: b, Body: b.Succs[0], Done: b.Succs[1], Key: ph, Coll: coll, CollField: collField, FixedTrips: ln.Block() != b}
}

// GetterOf: f is `func (r T) X() E { return r.f }`; returns the field's name.
func GetterOf(f *ssa.Function) (string, bool) {
	f = accessorBody(f)
	if f == nil || len(f.Params) != 1 {
		return "", false
	}
	ret, ok := f.Blocks[0].Instrs[len(f.Blocks[0].Instrs)-1].(*ssa.Return)
	if !ok || len(ret.Results) != 1 {
		return "", false
	}
	return accessorField(f, ret.Results[0])
}
