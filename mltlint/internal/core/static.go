package core

import (
	"go/token"

	"golang.org/x/tools/go/ssa"
)

// Static tables: package-level slices, arrays and maps that are initialised
// by a composite literal in the package initialiser (a dispatch table, a list
// of prefixes, a map from operator to evaluator). StaticTableOf reads the
// literal back from the SSA of init: element values and, for struct elements,
// the value of every field. Rules and the walker use it to see through
// table-driven code the same way they see through a switch.

type StaticElem struct {
	Val    ssa.Value            // the element (scalar, function, ...) when it is not a struct literal
	Fields map[string]ssa.Value // struct literal: field name -> value
	Key    ssa.Value            // map tables: the key
}

type StaticTable struct {
	Global *ssa.Global
	Elems  []StaticElem
	IsMap  bool
}

var staticMemo = map[*ssa.Global]*StaticTable{}

// StaticTableOf returns the table stored in g by its package initialiser, or
// nil when g is not initialised by one literal (or is assigned elsewhere).
func StaticTableOf(g *ssa.Global) *StaticTable {
	if t, ok := staticMemo[g]; ok {
		return t
	}
	staticMemo[g] = nil
	if g.Pkg == nil {
		return nil
	}
	init := g.Pkg.Func("init")
	if init == nil {
		return nil
	}
	// exactly one store to g in the whole package, in init
	var st *ssa.Store
	n := 0
	for _, m := range g.Pkg.Members {
		fn, ok := m.(*ssa.Function)
		if !ok {
			continue
		}
		var visit func(f *ssa.Function)
		visit = func(f *ssa.Function) {
			for _, b := range f.Blocks {
				for _, in := range b.Instrs {
					if s, ok := in.(*ssa.Store); ok && s.Addr == ssa.Value(g) {
						n++
						if f == init {
							st = s
						}
					}
				}
			}
			for _, af := range f.AnonFuncs {
				visit(af)
			}
		}
		visit(fn)
	}
	t := &StaticTable{Global: g}
	if st == nil && n == 0 {
		// an array variable: init stores its elements in place (&g[i] = v)
		if refs := g.Referrers(); refs != nil {
			_ = refs
		}
		byIdx := map[int64]StaticElem{}
		max := int64(-1)
		okArr := false
		for _, b := range init.Blocks {
			for _, in := range b.Instrs {
				ia, ok := in.(*ssa.IndexAddr)
				if !ok || ia.X != ssa.Value(g) || ia.Referrers() == nil {
					continue
				}
				i, ok := ConstInt(ia.Index)
				if !ok {
					return nil
				}
				for _, r := range *ia.Referrers() {
					if s, ok := r.(*ssa.Store); ok && s.Addr == ssa.Value(ia) {
						byIdx[i] = StaticElem{Val: s.Val}
						okArr = true
						if i > max {
							max = i
						}
					}
				}
			}
		}
		if !okArr {
			return nil
		}
		// no other function may write the array
		for _, m := range g.Pkg.Members {
			fn, ok := m.(*ssa.Function)
			if !ok || fn == init {
				continue
			}
			for _, b := range fn.Blocks {
				for _, in := range b.Instrs {
					if ia, ok := in.(*ssa.IndexAddr); ok && ia.X == ssa.Value(g) && ia.Referrers() != nil {
						for _, r := range *ia.Referrers() {
							if s, ok := r.(*ssa.Store); ok && s.Addr == ssa.Value(ia) {
								return nil
							}
						}
					}
				}
			}
		}
		for i := int64(0); i <= max; i++ {
			t.Elems = append(t.Elems, byIdx[i])
		}
		staticMemo[g] = t
		return t
	}
	if st == nil || n != 1 {
		return nil
	}
	structFields := func(v ssa.Value) map[string]ssa.Value {
		ld, ok := v.(*ssa.UnOp)
		if !ok || ld.Op != token.MUL {
			return nil
		}
		al, ok := ld.X.(*ssa.Alloc)
		if !ok || al.Referrers() == nil {
			return nil
		}
		out := map[string]ssa.Value{}
		for _, r := range *al.Referrers() {
			fa, ok := r.(*ssa.FieldAddr)
			if !ok || fa.Referrers() == nil {
				continue
			}
			for _, r2 := range *fa.Referrers() {
				if s, ok := r2.(*ssa.Store); ok && s.Addr == ssa.Value(fa) {
					if f := FieldOf(fa); f != nil {
						out[f.Name()] = s.Val
					}
				}
			}
		}
		return out
	}
	val := st.Val
	if ld, ok := val.(*ssa.UnOp); ok && ld.Op == token.MUL {
		// an array variable: `*g = *local` where local holds the literal
		if al, ok := ld.X.(*ssa.Alloc); ok {
			val = &ssa.Slice{X: al}
		}
	}
	switch v := val.(type) {
	case *ssa.Slice:
		al, ok := v.X.(*ssa.Alloc)
		if !ok || al.Referrers() == nil {
			return nil
		}
		byIdx := map[int64]StaticElem{}
		max := int64(-1)
		for _, r := range *al.Referrers() {
			ia, ok := r.(*ssa.IndexAddr)
			if !ok || ia.Referrers() == nil {
				continue
			}
			i, ok := ConstInt(ia.Index)
			if !ok {
				return nil
			}
			e := byIdx[i]
			for _, r2 := range *ia.Referrers() {
				switch x := r2.(type) {
				case *ssa.Store:
					if x.Addr == ssa.Value(ia) {
						if f := structFields(x.Val); f != nil {
							e.Fields = f
						} else {
							e.Val = x.Val
						}
					}
				case *ssa.FieldAddr:
					// literal lifted into the element: &arr[i].f = v
					if x.Referrers() != nil {
						for _, r3 := range *x.Referrers() {
							if s, ok := r3.(*ssa.Store); ok && s.Addr == ssa.Value(x) {
								if e.Fields == nil {
									e.Fields = map[string]ssa.Value{}
								}
								if f := FieldOf(x); f != nil {
									e.Fields[f.Name()] = s.Val
								}
							}
						}
					}
				}
			}
			byIdx[i] = e
			if i > max {
				max = i
			}
		}
		for i := int64(0); i <= max; i++ {
			t.Elems = append(t.Elems, byIdx[i])
		}
	case *ssa.MakeMap:
		t.IsMap = true
		if v.Referrers() == nil {
			return nil
		}
		for _, r := range *v.Referrers() {
			if mu, ok := r.(*ssa.MapUpdate); ok && mu.Map == ssa.Value(v) {
				t.Elems = append(t.Elems, StaticElem{Key: mu.Key, Val: mu.Value})
			}
		}
	default:
		return nil
	}
	staticMemo[g] = t
	return t
}

// GlobalOfLoad: v is a load of a package-level variable; returns it.
func GlobalOfLoad(v ssa.Value) *ssa.Global {
	ld, ok := Unwrap(v).(*ssa.UnOp)
	if !ok || ld.Op != token.MUL {
		return nil
	}
	g, _ := ld.X.(*ssa.Global)
	return g
}

// TableFuncs lists the functions stored in the table (as elements, map
// values or struct fields).
func (t *StaticTable) TableFuncs() []*ssa.Function {
	var out []*ssa.Function
	add := func(v ssa.Value) {
		if f, _ := ResolveFunc(v); f != nil {
			out = append(out, f)
		}
	}
	for _, e := range t.Elems {
		if e.Val != nil {
			add(e.Val)
		}
		for _, v := range e.Fields {
			add(v)
		}
	}
	return out
}

// TableOfElemLoad: v is a value loaded from an element of a static table
// (`table[i]` of a package-level slice or array); returns the table.
func TableOfElemLoad(v ssa.Value) *StaticTable {
	if ix, ok := Unwrap(v).(*ssa.Index); ok {
		// ranging over an array variable by value: (*g)[i]
		if g := GlobalOfLoad(ix.X); g != nil {
			return StaticTableOf(g)
		}
		return nil
	}
	ld, ok := Unwrap(v).(*ssa.UnOp)
	if !ok || ld.Op != token.MUL {
		return nil
	}
	ia, ok := ld.X.(*ssa.IndexAddr)
	if !ok {
		return nil
	}
	if g, ok := ia.X.(*ssa.Global); ok {
		return StaticTableOf(g)
	}
	if g := GlobalOfLoad(ia.X); g != nil {
		return StaticTableOf(g)
	}
	return nil
}
