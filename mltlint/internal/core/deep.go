package core

import (
	"fmt"
	"go/token"
	"strings"

	"golang.org/x/tools/go/ssa"
)

// Deep (interprocedural) variants of the site / guard / dependence queries.
// A rule that says "function F does X under condition G with value V" must
// not care whether X is written in F itself or in a helper that F calls with
// V as an argument. A Site is an instruction reached from a root function
// through a chain of static calls into selected callees; guards are collected
// along the whole chain and values are translated upwards by replacing the
// parameters of each callee with the arguments of the call that entered it.

type Site struct {
	Instr ssa.Instruction
	Fn    *ssa.Function
	Chain []*ssa.Call // outermost call first; empty when Instr is in the root
}

// Call returns the instruction as a call (nil if it is none).
func (s Site) Call() ssa.CallInstruction {
	ci, _ := s.Instr.(ssa.CallInstruction)
	return ci
}

// Root is the function the chain starts in.
func (s Site) Root() *ssa.Function {
	if len(s.Chain) > 0 {
		return s.Chain[0].Parent()
	}
	return s.Fn
}

// InModulePkg is an enter policy: callees of the same package as root.
func InModulePkg(root *ssa.Function) func(*ssa.Function) bool {
	pp := pkgPathOf(root)
	return func(g *ssa.Function) bool { return g != nil && g.Blocks != nil && pkgPathOf(g) == pp }
}

// DeepInstrs lists the instructions satisfying pred in root and in every
// callee (transitively, without recursion, depth <= 5) selected by enter.
// Closures created in a visited function (MakeClosure) are visited too, as if
// they were called where they are created.
func DeepInstrs(root *ssa.Function, enter func(*ssa.Function) bool, pred func(ssa.Instruction) bool) []Site {
	var out []Site
	var visit func(fn *ssa.Function, chain []*ssa.Call, stack map[*ssa.Function]bool)
	visit = func(fn *ssa.Function, chain []*ssa.Call, stack map[*ssa.Function]bool) {
		if fn == nil || fn.Blocks == nil || stack[fn] || len(chain) > 5 {
			return
		}
		stack[fn] = true
		defer delete(stack, fn)
		for _, b := range fn.Blocks {
			for _, in := range b.Instrs {
				if pred(in) {
					out = append(out, Site{Instr: in, Fn: fn, Chain: append([]*ssa.Call(nil), chain...)})
				}
				if call, ok := in.(*ssa.Call); ok && enter != nil {
					g := call.Call.StaticCallee()
					if g != nil && g.Blocks == nil && Origin(g) != nil && Origin(g).Blocks != nil {
						g = Origin(g)
					}
					if g != nil && enter(g) {
						visit(g, append(append([]*ssa.Call(nil), chain...), call), stack)
					}
				}
			}
		}
	}
	visit(root, nil, map[*ssa.Function]bool{})
	return out
}

// DeepCalls lists the call sites of root and its entered callees.
func DeepCalls(root *ssa.Function, enter func(*ssa.Function) bool) []Site {
	return DeepInstrs(root, enter, func(in ssa.Instruction) bool {
		_, ok := in.(ssa.CallInstruction)
		return ok
	})
}

// Guards returns the guards in force at the site: those of its own block and
// those of every call of the chain (each in its own function).
func (s Site) Guards() []Guard {
	gs := append([]Guard(nil), GuardsOf(s.Instr.Block())...)
	for i := len(s.Chain) - 1; i >= 0; i-- {
		gs = append(gs, GuardsOf(s.Chain[i].Block())...)
	}
	return gs
}

// CtxGuard is a guard together with the call chain under which its operands
// are to be read (values of the function the guard lies in).
type CtxGuard struct {
	Guard
	Chain []*ssa.Call
}

// GuardsCtx is Guards with the chain prefix each guard's values belong to.
func (s Site) GuardsCtx() []CtxGuard {
	var out []CtxGuard
	for _, g := range GuardsOf(s.Instr.Block()) {
		out = append(out, CtxGuard{g, s.Chain})
	}
	for i := len(s.Chain) - 1; i >= 0; i-- {
		for _, g := range GuardsOf(s.Chain[i].Block()) {
			out = append(out, CtxGuard{g, s.Chain[:i]})
		}
	}
	return out
}

// Up translates a value of the site's function towards the root: while it is
// a parameter of the function entered by the innermost remaining call of the
// chain it is replaced by that call's argument. Returns the translated value
// and the chain that remains below it.
func Up(chain []*ssa.Call, v ssa.Value) (ssa.Value, []*ssa.Call) {
	for len(chain) > 0 {
		p, ok := Unwrap(v).(*ssa.Parameter)
		if !ok {
			return v, chain
		}
		call := chain[len(chain)-1]
		g := call.Call.StaticCallee()
		if g != nil && p.Parent() != g && Origin(g) == p.Parent() {
			g = Origin(g)
		}
		if g == nil || p.Parent() != g {
			return v, chain
		}
		idx := -1
		for i, q := range g.Params {
			if q == p {
				idx = i
			}
		}
		if idx < 0 || idx >= len(call.Call.Args) {
			return v, chain
		}
		v, chain = call.Call.Args[idx], chain[:len(chain)-1]
	}
	return v, chain
}

// UpFrom is Up for a value of any function on the chain (not only the
// innermost): the chain is first cut back to the call that entered v's
// function.
func UpFrom(chain []*ssa.Call, v ssa.Value) (ssa.Value, []*ssa.Call) {
	par := Unwrap(v).Parent()
	if par == nil {
		return v, chain
	}
	for k := len(chain); k > 0; k-- {
		g := chain[k-1].Call.StaticCallee()
		if g != nil && (g == par || Origin(g) == par) {
			return Up(chain[:k], v)
		}
	}
	return v, nil // a value of the root function (or of none on the chain)
}

// UpRoot translates v all the way (as far as it is a parameter chain).
func (s Site) UpRoot(v ssa.Value) ssa.Value {
	r, _ := Up(s.Chain, v)
	return r
}

// DependsOnVia is DependsOn across the call chain: a parameter of a chain
// function continues with the argument it was given, and the result of a call
// to a function selected by enter continues with what the callee returns
// (its parameters standing for the call's arguments). barrier, when set,
// stops the traversal at values it accepts (they are not searched further).
func DependsOnVia(chain []*ssa.Call, v ssa.Value, enter func(*ssa.Function) bool, src func(ssa.Value) bool, barrier func(ssa.Value) bool) bool {
	return dependsOnVia(chain, v, enter, src, barrier, false)
}

// DependsOnViaCtl is DependsOnVia that also counts, for an entered callee, the
// conditions deciding which of its returns is taken (a predicate that returns
// true/false depends on what it compared).
func DependsOnViaCtl(chain []*ssa.Call, v ssa.Value, enter func(*ssa.Function) bool, src func(ssa.Value) bool, barrier func(ssa.Value) bool) bool {
	return dependsOnVia(chain, v, enter, src, barrier, true)
}

func dependsOnVia(chain []*ssa.Call, v ssa.Value, enter func(*ssa.Function) bool, src func(ssa.Value) bool, barrier func(ssa.Value) bool, ctl bool) bool {
	type key struct {
		v   ssa.Value
		ctx string // the chain of calls through which v's function was entered: the same value in another activation is another value
	}
	ctxOf := func(chain []*ssa.Call) string {
		var b strings.Builder
		for _, c := range chain {
			fmt.Fprintf(&b, "%p.", c)
		}
		return b.String()
	}
	seen := map[key]bool{}
	var rec func(v ssa.Value, chain []*ssa.Call, depth int) bool
	rec = func(v ssa.Value, chain []*ssa.Call, depth int) bool {
		if v == nil || depth > 60 {
			return false
		}
		k := key{v: v, ctx: ctxOf(chain)}
		if seen[k] {
			return false
		}
		seen[k] = true
		if src(v) {
			return true
		}
		if barrier != nil && barrier(v) {
			return false
		}
		switch x := v.(type) {
		case *ssa.Parameter:
			if len(chain) > 0 {
				if up, rest := Up(chain, x); up != ssa.Value(x) {
					return rec(up, rest, depth+1)
				}
			}
			return false
		case *ssa.Phi:
			for _, e := range x.Edges {
				if rec(e, chain, depth+1) {
					return true
				}
			}
			return false
		case *ssa.UnOp:
			if x.Op == token.MUL {
				if rec(x.X, chain, depth+1) {
					return true
				}
				if refs := x.X.Referrers(); refs != nil {
					for _, r := range *refs {
						if st, ok := r.(*ssa.Store); ok && st.Addr == x.X && rec(st.Val, chain, depth+1) {
							return true
						}
					}
				}
				return false
			}
			return rec(x.X, chain, depth+1)
		case *ssa.Call:
			if g := x.Call.StaticCallee(); g != nil && enter != nil && enter(g) && g.Blocks != nil && len(chain) < 6 {
				// an entered callee: the result depends on what the callee returns
				// (its parameters stand for the arguments), not on every argument
				sub := append(append([]*ssa.Call(nil), chain...), x)
				for _, b := range g.Blocks {
					if ret, ok := b.Instrs[len(b.Instrs)-1].(*ssa.Return); ok {
						for _, r := range ret.Results {
							if rec(r, sub, depth+1) {
								return true
							}
						}
						if ctl {
							for _, gd := range GuardsOf(b) {
								if rec(gd.Cond, sub, depth+1) {
									return true
								}
							}
						}
					}
				}
				return false
			}
			for _, a := range x.Call.Args {
				if rec(a, chain, depth+1) {
					return true
				}
			}
			if x.Call.IsInvoke() {
				return rec(x.Call.Value, chain, depth+1)
			}
			if _, ok := x.Call.Value.(*ssa.Function); !ok {
				if _, ok := x.Call.Value.(*ssa.Builtin); !ok {
					return rec(x.Call.Value, chain, depth+1)
				}
			}
			return false
		case *ssa.FreeVar:
			fn := x.Parent()
			idx := -1
			for i, fv := range fn.FreeVars {
				if fv == x {
					idx = i
				}
			}
			if par := fn.Parent(); par != nil && idx >= 0 {
				for _, b := range par.Blocks {
					for _, in := range b.Instrs {
						if mc, ok := in.(*ssa.MakeClosure); ok && mc.Fn == ssa.Value(fn) && idx < len(mc.Bindings) {
							if rec(mc.Bindings[idx], chain, depth+1) {
								return true
							}
						}
					}
				}
			}
			return false
		case *ssa.Alloc, *ssa.MakeSlice:
			if refs := v.Referrers(); refs != nil {
				for _, r := range *refs {
					switch y := r.(type) {
					case *ssa.Store:
						if y.Addr == v && rec(y.Val, chain, depth+1) {
							return true
						}
					case *ssa.IndexAddr, *ssa.FieldAddr:
						if yr := y.(ssa.Value).Referrers(); yr != nil {
							for _, r2 := range *yr {
								if st, ok := r2.(*ssa.Store); ok && st.Addr == y.(ssa.Value) && rec(st.Val, chain, depth+1) {
									return true
								}
							}
						}
					}
				}
			}
			return false
		}
		if in, ok := v.(ssa.Instruction); ok {
			for _, op := range in.Operands(nil) {
				if *op != nil && rec(*op, chain, depth+1) {
					return true
				}
			}
		}
		return false
	}
	return rec(v, chain, 0)
}

// ResolveFunc resolves a function value to the function that runs when it is
// called: a function constant, a closure, or a method value (the bound-method
// wrapper is looked through). bound reports a method value: the function's
// first parameter is then the receiver and explicit arguments start at 1.
func ResolveFunc(v ssa.Value) (fn *ssa.Function, bound bool) {
	switch x := Unwrap(v).(type) {
	case *ssa.Function:
		return x, false
	case *ssa.MakeClosure:
		f, ok := x.Fn.(*ssa.Function)
		if !ok {
			return nil, false
		}
		if f.Synthetic != "" && len(f.Blocks) == 1 {
			// bound method wrapper: calls the method on the captured receiver
			for _, in := range f.Blocks[0].Instrs {
				if call, ok := in.(*ssa.Call); ok {
					if g := call.Call.StaticCallee(); g != nil {
						return g, true
					}
				}
			}
		}
		return f, false
	}
	return nil, false
}
