package core

import (
	"fmt"
	"go/token"
	"sort"

	"golang.org/x/tools/go/ssa"
)

// E6: set-algebra terms. A value of type interval.Map built from
// MapUnion/MapIntersect/MapComplement/NewMap(New(a,b)) over opaque atoms is
// turned into a Boolean function of its atoms ("is address x in the set").

const IntervalPkg = ModulePath + "/internal/state/interval"

// SetTerm is a Boolean function over named atoms.
type SetTerm struct {
	Atoms []string
	Eval  func(assign map[string]bool) bool
	Text  string
}

// SetTermOf builds the term of v. atomName classifies leaves (returns "" for
// an unrecognised leaf, which makes the analysis fail).
func SetTermOf(v ssa.Value, atomName func(v ssa.Value) string) (*SetTerm, error) {
	atoms := map[string]bool{}
	var rec func(v ssa.Value, depth int) (func(map[string]bool) bool, string, error)
	rec = func(v ssa.Value, depth int) (func(map[string]bool) bool, string, error) {
		if depth > 32 {
			return nil, "", fmt.Errorf("term too deep")
		}
		v = Unwrap(v)
		if n := atomName(v); n != "" {
			atoms[n] = true
			return func(a map[string]bool) bool { return a[n] }, n, nil
		}
		if ph, ok := v.(*ssa.Phi); ok {
			_ = ph
			return nil, "", fmt.Errorf("set value depends on control flow")
		}
		call, ok := v.(*ssa.Call)
		if !ok || call.Call.IsInvoke() || call.Call.StaticCallee() == nil {
			return nil, "", fmt.Errorf("unrecognised set expression %s", v)
		}
		f := Origin(call.Call.StaticCallee())
		if PkgPathOf(f) != IntervalPkg {
			return nil, "", fmt.Errorf("unrecognised set expression (call of %s)", ShortName(f))
		}
		a := call.Call.Args
		switch f.Name() {
		case "MapUnion", "MapIntersect", "MapComplement":
			x, xs, err := rec(a[0], depth+1)
			if err != nil {
				return nil, "", err
			}
			y, ys, err := rec(a[1], depth+1)
			if err != nil {
				return nil, "", err
			}
			switch f.Name() {
			case "MapUnion":
				return func(m map[string]bool) bool { return x(m) || y(m) }, "(" + xs + " ∪ " + ys + ")", nil
			case "MapIntersect":
				return func(m map[string]bool) bool { return x(m) && y(m) }, "(" + xs + " ∩ " + ys + ")", nil
			default:
				return func(m map[string]bool) bool { return x(m) && !y(m) }, "(" + xs + " \\ " + ys + ")", nil
			}
		}
		return nil, "", fmt.Errorf("unrecognised set constructor %s", f.Name())
	}
	ev, text, err := rec(v, 0)
	if err != nil {
		return nil, err
	}
	var names []string
	for n := range atoms {
		names = append(names, n)
	}
	sort.Strings(names)
	return &SetTerm{Atoms: names, Eval: ev, Text: text}, nil
}

// Equivalent compares the term with a specification over (a superset of) its
// atoms by truth table; returns a distinguishing assignment otherwise.
func (t *SetTerm) Equivalent(atoms []string, spec func(map[string]bool) bool) (bool, map[string]bool) {
	n := len(atoms)
	for mask := 0; mask < 1<<uint(n); mask++ {
		a := map[string]bool{}
		for i, name := range atoms {
			a[name] = mask>>uint(i)&1 == 1
		}
		if t.Eval(a) != spec(a) {
			return false, a
		}
	}
	return true, nil
}

// IsWholeRange recognises interval.NewMap(interval.New(addr, addr+Addr(w)))
// (as a variadic call with a single element) for the given addr and w values.
func IsWholeRange(v ssa.Value, addr, w ssa.Value) bool {
	v = Unwrap(v)
	if isNewInterval(v, addr, w) {
		return true
	}
	call, ok := v.(*ssa.Call)
	if !ok || call.Call.StaticCallee() == nil {
		return false
	}
	f := Origin(call.Call.StaticCallee())
	if PkgPathOf(f) != IntervalPkg || f.Name() != "NewMap" || len(call.Call.Args) != 1 {
		return false
	}
	// variadic slice with exactly one store
	sl, ok := call.Call.Args[0].(*ssa.Slice)
	if !ok {
		return false
	}
	al, ok := sl.X.(*ssa.Alloc)
	if !ok {
		return false
	}
	n, good := 0, false
	if refs := al.Referrers(); refs != nil {
		for _, r := range *refs {
			ia, ok := r.(*ssa.IndexAddr)
			if !ok {
				continue
			}
			if rr := ia.Referrers(); rr != nil {
				for _, r2 := range *rr {
					if st, ok := r2.(*ssa.Store); ok {
						n++
						good = isNewInterval(st.Val, addr, w)
					}
				}
			}
		}
	}
	return n == 1 && good
}

// isNewInterval recognises interval.New(addr, addr + Addr(w)).
func isNewInterval(v ssa.Value, addr, w ssa.Value) bool {
	call, ok := Unwrap(v).(*ssa.Call)
	if !ok || call.Call.StaticCallee() == nil {
		return false
	}
	f := Origin(call.Call.StaticCallee())
	if PkgPathOf(f) != IntervalPkg || f.Name() != "New" || len(call.Call.Args) != 2 {
		return false
	}
	if !SameValue(call.Call.Args[0], addr) {
		return false
	}
	end, ok := Unwrap(call.Call.Args[1]).(*ssa.BinOp)
	if !ok || end.Op != token.ADD {
		return false
	}
	isW := func(x ssa.Value) bool {
		x = Unwrap(x)
		for {
			cv, ok := x.(*ssa.Convert)
			if !ok {
				break
			}
			x = Unwrap(cv.X)
		}
		return SameValue(x, w)
	}
	return (SameValue(end.X, addr) && isW(end.Y)) || (SameValue(end.Y, addr) && isW(end.X))
}
