package core

import (
	"go/types"

	"golang.org/x/tools/go/ssa"
)

// E11: error propagation.

var errorType = types.Universe.Lookup("error").Type()

// IsErrorType reports whether t is the predeclared error interface.
func IsErrorType(t types.Type) bool { return types.Identical(t, errorType) }

// ErrorResults returns, for a call, the SSA values that carry its error
// result(s).
func ErrorResults(call *ssa.Call) []ssa.Value {
	sig := call.Call.Signature()
	res := sig.Results()
	var out []ssa.Value
	if res.Len() == 1 {
		if IsErrorType(res.At(0).Type()) {
			out = append(out, call)
		}
		return out
	}
	for i := 0; i < res.Len(); i++ {
		if !IsErrorType(res.At(i).Type()) {
			continue
		}
		found := false
		if refs := call.Referrers(); refs != nil {
			for _, r := range *refs {
				if e, ok := r.(*ssa.Extract); ok && e.Index == i {
					out = append(out, e)
					found = true
				}
			}
		}
		if !found {
			out = append(out, nil) // never extracted: dropped
		}
	}
	return out
}

// HasErrorResult reports whether the call returns an error.
func HasErrorResult(c *ssa.CallCommon) bool {
	res := c.Signature().Results()
	for i := 0; i < res.Len(); i++ {
		if IsErrorType(res.At(i).Type()) {
			return true
		}
	}
	return false
}

// ErrVerdict classifies how an error value is treated.
type ErrVerdict struct {
	OK  bool
	Why string
}

// errReachesReturn: does v flow into the error result of a Return (directly,
// through phis, or wrapped by a call such as fmt.Errorf)?
func flowsToReturn(v ssa.Value, seen map[ssa.Value]bool) bool {
	if v == nil || seen[v] {
		return false
	}
	seen[v] = true
	refs := v.Referrers()
	if refs == nil {
		return false
	}
	for _, r := range *refs {
		switch x := r.(type) {
		case *ssa.Return:
			return true
		case *ssa.Phi:
			// carried round a loop (the value arrives over a back edge only): the next
			// iteration may overwrite it before anything looks at it
			direct := false
			for i, e := range x.Edges {
				if e == v && !x.Block().Dominates(x.Block().Preds[i]) {
					direct = true
				}
			}
			if direct && flowsToReturn(x, seen) {
				return true
			}
		case *ssa.MakeInterface:
			if flowsToReturn(x, seen) {
				return true
			}
		case *ssa.ChangeInterface:
			if flowsToReturn(x, seen) {
				return true
			}
		case *ssa.Store:
			// stored into a varargs array / local that is then used
			if x.Val == v {
				if flowsToReturn(rootOf(x.Addr), seen) {
					return true
				}
			}
		case *ssa.Slice:
			if flowsToReturn(x, seen) {
				return true
			}
		case *ssa.IndexAddr:
			if flowsToReturn(x, seen) {
				return true
			}
		case *ssa.Call:
			// wrapping: the call's (error) result flows on
			for _, ev := range ErrorResults(x) {
				if ev != nil && flowsToReturn(ev, seen) {
					return true
				}
			}
			// invoke err.Error() used to build another error
			if x.Call.IsInvoke() && x.Call.Value == v {
				if flowsToReturn(x, seen) {
					return true
				}
			}
		}
	}
	return false
}

func rootOf(v ssa.Value) ssa.Value {
	for {
		switch x := v.(type) {
		case *ssa.IndexAddr:
			v = x.X
		case *ssa.FieldAddr:
			v = x.X
		default:
			return v
		}
	}
}

// terminates: does block b (or everything reachable from it) end in a panic
// or a call to os.Exit / a non-returning function?
func blockTerminates(b *ssa.BasicBlock) bool {
	seen := map[*ssa.BasicBlock]bool{}
	var rec func(b *ssa.BasicBlock) bool
	rec = func(b *ssa.BasicBlock) bool {
		if seen[b] {
			return true
		}
		seen[b] = true
		for _, in := range b.Instrs {
			if call, ok := in.(*ssa.Call); ok {
				if f := call.Call.StaticCallee(); f != nil && f.String() == "os.Exit" {
					return true
				}
			}
		}
		switch b.Instrs[len(b.Instrs)-1].(type) {
		case *ssa.Panic:
			return true
		case *ssa.Return:
			return false
		}
		for _, s := range b.Succs {
			if !rec(s) {
				return false
			}
		}
		return len(b.Succs) > 0
	}
	return rec(b)
}

// JudgeError decides whether the error value ev of a call in fn is handled:
// it is returned (possibly wrapped), or it is compared with nil and on the
// non-nil edge the function cannot return a nil error / terminates.
func JudgeError(fn *ssa.Function, ev ssa.Value) ErrVerdict {
	if ev == nil {
		return ErrVerdict{false, "the error result is discarded"}
	}
	refs := ev.Referrers()
	n := 0
	if refs != nil {
		for _, r := range *refs {
			if _, ok := r.(*ssa.DebugRef); !ok {
				n++
			}
		}
	}
	if n == 0 {
		return ErrVerdict{false, "the error result is never looked at"}
	}
	// error result position of fn
	errIdx := -1
	res := fn.Signature.Results()
	for i := 0; i < res.Len(); i++ {
		if IsErrorType(res.At(i).Type()) {
			errIdx = i
		}
	}
	checked := false
	for _, r := range *refs {
		bo, ok := r.(*ssa.BinOp)
		if !ok {
			continue
		}
		x, nonNilOnTrue, isNil := NilCheck(bo)
		if !isNil || x != ev {
			continue
		}
		if br := bo.Referrers(); br != nil {
			for _, r2 := range *br {
				iff, ok := r2.(*ssa.If)
				if !ok {
					continue
				}
				checked = true
				succ := iff.Block().Succs[1]
				if nonNilOnTrue {
					succ = iff.Block().Succs[0]
				}
				// on the non-nil edge: every reachable return carries a non-nil error, or the path terminates
				seen := map[*ssa.BasicBlock]bool{}
				work := []*ssa.BasicBlock{succ}
				for len(work) > 0 {
					b := work[len(work)-1]
					work = work[:len(work)-1]
					if seen[b] {
						continue
					}
					seen[b] = true
					if ret, ok := b.Instrs[len(b.Instrs)-1].(*ssa.Return); ok {
						if errIdx < 0 {
							if !blockTerminates(succ) {
								return ErrVerdict{false, "the function has no error result and continues after the failure"}
							}
							continue
						}
						rv := ret.Results[errIdx]
						if IsNilConst(rv) {
							return ErrVerdict{false, "after the failure the function can still return a nil error (the error is swallowed)"}
						}
					}
					if hasExitCall(b) {
						continue
					}
					for _, s := range b.Succs {
						if succ.Dominates(s) {
							work = append(work, s)
						} else if BlockExit(b) == NotExit {
							return ErrVerdict{false, "the failure branch falls through to the normal path"}
						}
					}
				}
			}
		}
	}
	if checked {
		return ErrVerdict{true, ""}
	}
	if flowsToReturn(ev, map[ssa.Value]bool{}) {
		return ErrVerdict{true, ""}
	}
	return ErrVerdict{false, "the error is neither checked against nil nor returned"}
}

func hasExitCall(b *ssa.BasicBlock) bool {
	for _, in := range b.Instrs {
		if call, ok := in.(*ssa.Call); ok {
			if f := call.Call.StaticCallee(); f != nil && f.String() == "os.Exit" {
				return true
			}
		}
	}
	return false
}
