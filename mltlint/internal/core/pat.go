package core

import (
	"go/constant"
	"go/token"
	"go/types"
	"strings"

	"golang.org/x/tools/go/ssa"
)

// Pat is a structural pattern over SSA values. Patterns look through
// value-preserving wrappers (MakeInterface, ChangeType, ChangeInterface).
type Pat func(v ssa.Value, b *Bind) bool

// Bind carries named sub-values captured by a match.
type Bind struct{ M map[string]ssa.Value }

func NewBind() *Bind { return &Bind{M: map[string]ssa.Value{}} }

// Match runs p on v.
func Match(v ssa.Value, p Pat) (*Bind, bool) {
	b := NewBind()
	if p(v, b) {
		return b, true
	}
	return nil, false
}

// Any matches everything.
func Any() Pat { return func(ssa.Value, *Bind) bool { return true } }

// Capture matches p and stores the value under name; a second capture of the
// same name requires the identical SSA value.
func Capture(name string, p Pat) Pat {
	return func(v ssa.Value, b *Bind) bool {
		if !p(v, b) {
			return false
		}
		u := Unwrap(v)
		if old, ok := b.M[name]; ok {
			return sameValue(old, u)
		}
		b.M[name] = u
		return true
	}
}

// Same matches the value previously captured under name.
func Same(name string) Pat {
	return func(v ssa.Value, b *Bind) bool {
		old, ok := b.M[name]
		return ok && sameValue(old, Unwrap(v))
	}
}

// sameValue: identical SSA value, or two loads/accessor calls that are
// syntactically the same pure expression (no CSE in go/ssa).
func sameValue(a, b ssa.Value) bool {
	a, b = Unwrap(a), Unwrap(b)
	if a == b {
		return true
	}
	switch x := a.(type) {
	case *ssa.Const:
		y, ok := b.(*ssa.Const)
		if !ok {
			return false
		}
		if x.Value == nil || y.Value == nil {
			return x.Value == nil && y.Value == nil
		}
		return constant.Compare(x.Value, token.EQL, y.Value)
	case *ssa.Call:
		y, ok := b.(*ssa.Call)
		if !ok || !pureAccessor(x) || !pureAccessor(y) {
			return false
		}
		if x.Call.IsInvoke() != y.Call.IsInvoke() {
			return false
		}
		if x.Call.IsInvoke() {
			if x.Call.Method != y.Call.Method || !sameValue(x.Call.Value, y.Call.Value) {
				return false
			}
		} else if !SameFunc(x.Call.StaticCallee(), y.Call.StaticCallee()) {
			return false
		}
		if len(x.Call.Args) != len(y.Call.Args) {
			return false
		}
		for i := range x.Call.Args {
			if !sameValue(x.Call.Args[i], y.Call.Args[i]) {
				return false
			}
		}
		return true
	case *ssa.UnOp:
		y, ok := b.(*ssa.UnOp)
		if !ok || x.Op != y.Op {
			return false
		}
		if x.Op == token.MUL {
			// two loads of the same address: equal only if it is a field of
			// the same base that is not stored to in the function (checked
			// loosely: same FieldAddr path)
			return sameAddr(x.X, y.X)
		}
		return sameValue(x.X, y.X)
	case *ssa.Extract:
		y, ok := b.(*ssa.Extract)
		return ok && x.Index == y.Index && sameValue(x.Tuple, y.Tuple)
	case *ssa.Field:
		y, ok := b.(*ssa.Field)
		return ok && x.Field == y.Field && sameValue(x.X, y.X)
	case *ssa.Convert:
		y, ok := b.(*ssa.Convert)
		return ok && types.Identical(x.Type(), y.Type()) && sameValue(x.X, y.X)
	case *ssa.BinOp:
		y, ok := b.(*ssa.BinOp)
		return ok && x.Op == y.Op && sameValue(x.X, y.X) && sameValue(x.Y, y.Y)
	}
	return false
}

// SameValue exposes sameValue.
func SameValue(a, b ssa.Value) bool { return sameValue(a, b) }

func sameAddr(a, b ssa.Value) bool {
	if a == b {
		return true
	}
	x, ok1 := a.(*ssa.FieldAddr)
	y, ok2 := b.(*ssa.FieldAddr)
	if ok1 && ok2 {
		return x.Field == y.Field && (x.X == y.X || sameValue(x.X, y.X))
	}
	// two loads of a spilled, write-once variable (a parameter captured by a
	// closure): the pointers loaded are the same pointer
	lx, ok1 := a.(*ssa.UnOp)
	ly, ok2 := b.(*ssa.UnOp)
	if ok1 && ok2 && lx.Op == token.MUL && ly.Op == token.MUL && lx.X == ly.X {
		if al, isAlloc := lx.X.(*ssa.Alloc); isAlloc && storesTo(al) == 1 {
			return true
		}
	}
	return false
}

// storesTo counts the direct stores to an Alloc cell.
func storesTo(al *ssa.Alloc) int {
	n := 0
	if refs := al.Referrers(); refs != nil {
		for _, r := range *refs {
			if st, ok := r.(*ssa.Store); ok && st.Addr == ssa.Value(al) {
				n++
			}
			// a write to a part of the cell (a field, an element) is a write too
			if fa, ok := r.(*ssa.FieldAddr); ok && fa.Referrers() != nil {
				for _, r2 := range *fa.Referrers() {
					if st, ok := r2.(*ssa.Store); ok && st.Addr == ssa.Value(fa) {
						n++
					}
				}
			}
		}
	}
	return n
}

// pureAccessor: a call of a module method with no arguments besides the
// receiver whose name starts with an upper-case letter and that only returns
// a field (getter); conservatively recognised by having a single block with
// no calls/stores.
func pureAccessor(c *ssa.Call) bool {
	if c.Call.IsInvoke() {
		return len(c.Call.Args) == 0
	}
	f := c.Call.StaticCallee()
	if f == nil {
		return false
	}
	return IsPure(f)
}

// IsPure reports whether fn has no calls (except to pure functions), stores,
// map updates or sends: i.e. it is a getter-like function.
func IsPure(fn *ssa.Function) bool {
	return isPureDepth(fn, 0)
}

func isPureDepth(fn *ssa.Function, depth int) bool {
	if fn == nil || fn.Blocks == nil || depth > 4 {
		return false
	}
	for _, b := range fn.Blocks {
		for _, in := range b.Instrs {
			switch x := in.(type) {
			case *ssa.Store:
				// stores into local allocs are fine
				if _, ok := rootAlloc(x.Addr); !ok {
					return false
				}
			case *ssa.MapUpdate, *ssa.Send, *ssa.Go, *ssa.Defer, *ssa.Panic:
				return false
			case *ssa.Call:
				if bi, ok := x.Call.Value.(*ssa.Builtin); ok {
					if bi.Name() == "len" || bi.Name() == "cap" {
						continue
					}
					return false
				}
				if x.Call.IsInvoke() {
					return false
				}
				if !isPureDepth(x.Call.StaticCallee(), depth+1) {
					return false
				}
			}
		}
	}
	return true
}

func rootAlloc(v ssa.Value) (*ssa.Alloc, bool) {
	for {
		switch x := v.(type) {
		case *ssa.Alloc:
			return x, !x.Heap || true
		case *ssa.FieldAddr:
			v = x.X
		case *ssa.IndexAddr:
			v = x.X
		default:
			return nil, false
		}
	}
}

// ParamN matches the function parameter with index i (receiver is 0 for
// methods).
func ParamN(i int) Pat {
	return func(v ssa.Value, _ *Bind) bool {
		p, ok := Unwrap(v).(*ssa.Parameter)
		if !ok {
			return false
		}
		ps := p.Parent().Params
		return i < len(ps) && ps[i] == p
	}
}

// ParamNamed matches the parameter called name.
func ParamNamed(name string) Pat {
	return func(v ssa.Value, _ *Bind) bool {
		p, ok := Unwrap(v).(*ssa.Parameter)
		return ok && p.Name() == name
	}
}

// FuncNameIs compares a function's ssa name (module prefix optional).
func FuncNameIs(f *ssa.Function, name string) bool {
	if f == nil {
		return false
	}
	f = Origin(f)
	s := CanonString(f)
	return s == name || s == ModulePath+"/"+name || strings.ReplaceAll(s, ModulePath+"/", "") == name
}

// CallTo matches a static call of the named function (short names without
// the module prefix are accepted, e.g. "internal/exprtransform.SetWidth" or
// "(*internal/state.RegMap).Store"). args may be shorter than the real
// argument list (remaining arguments are unconstrained).
func CallTo(name string, args ...Pat) Pat {
	return func(v ssa.Value, b *Bind) bool {
		c, ok := Unwrap(v).(*ssa.Call)
		if !ok {
			return false
		}
		return matchCall(&c.Call, name, args, b)
	}
}

func matchCall(c *ssa.CallCommon, name string, args []Pat, b *Bind) bool {
	if c.IsInvoke() {
		return false
	}
	f := c.StaticCallee()
	if !FuncNameIs(f, name) {
		return false
	}
	if len(args) > len(c.Args) {
		return false
	}
	for i, p := range args {
		if !p(c.Args[i], b) {
			return false
		}
	}
	return true
}

// MatchCallCommon applies CallTo's logic to a CallCommon.
func MatchCallCommon(c *ssa.CallCommon, name string, b *Bind, args ...Pat) bool {
	return matchCall(c, name, args, b)
}

// Invoke matches an interface method call recv.name(args...).
func Invoke(name string, recv Pat, args ...Pat) Pat {
	return func(v ssa.Value, b *Bind) bool {
		c, ok := Unwrap(v).(*ssa.Call)
		if !ok || !c.Call.IsInvoke() || c.Call.Method.Name() != name {
			return false
		}
		if !recv(c.Call.Value, b) {
			return false
		}
		if len(args) > len(c.Call.Args) {
			return false
		}
		for i, p := range args {
			if !p(c.Call.Args[i], b) {
				return false
			}
		}
		return true
	}
}

// Method matches a call (static or invoke) of a method called name on a
// receiver matching recv; for static calls the receiver is argument 0.
func Method(name string, recv Pat, args ...Pat) Pat {
	inv := Invoke(name, recv, args...)
	return func(v ssa.Value, b *Bind) bool {
		c, ok := Unwrap(v).(*ssa.Call)
		if !ok {
			// the same value read directly from the field the getter returns
			if len(args) == 0 {
				if base, fld := fieldRead(Unwrap(v)); fld != nil && GetterField(v, base.Type(), name) == fld {
					return recv(base, b)
				}
			}
			return false
		}
		if c.Call.IsInvoke() {
			return inv(v, b)
		}
		f := c.Call.StaticCallee()
		if f == nil || Origin(f).Name() != name || f.Signature.Recv() == nil || len(c.Call.Args) == 0 {
			return false
		}
		if !recv(c.Call.Args[0], b) {
			return false
		}
		rest := c.Call.Args[1:]
		if len(args) > len(rest) {
			return false
		}
		for i, p := range args {
			if !p(rest[i], b) {
				return false
			}
		}
		return true
	}
}

// ExtractN matches the i-th component of a tuple matching p.
func ExtractN(i int, p Pat) Pat {
	return func(v ssa.Value, b *Bind) bool {
		e, ok := Unwrap(v).(*ssa.Extract)
		return ok && e.Index == i && p(e.Tuple, b)
	}
}

// NilPat matches the nil constant.
func NilPat() Pat {
	return func(v ssa.Value, _ *Bind) bool { return IsNilConst(Unwrap(v)) }
}

// BoolPat matches the boolean constant val.
func BoolPat(val bool) Pat {
	return func(v ssa.Value, _ *Bind) bool {
		c, ok := Unwrap(v).(*ssa.Const)
		return ok && c.Value != nil && c.Value.Kind() == constant.Bool && constant.BoolVal(c.Value) == val
	}
}

// IntPat matches the integer constant n.
func IntPat(n int64) Pat {
	return func(v ssa.Value, _ *Bind) bool {
		c, ok := Unwrap(v).(*ssa.Const)
		if !ok || c.Value == nil || c.Value.Kind() != constant.Int {
			return false
		}
		i, exact := constant.Int64Val(c.Value)
		return exact && i == n
	}
}

// ConstInt returns the integer value of a constant.
func ConstInt(v ssa.Value) (int64, bool) {
	c, ok := Unwrap(v).(*ssa.Const)
	if !ok || c.Value == nil || c.Value.Kind() != constant.Int {
		return 0, false
	}
	return constant.Int64Val(c.Value)
}

// Deref matches *addr.
func Deref(addr Pat) Pat {
	return func(v ssa.Value, b *Bind) bool {
		u, ok := Unwrap(v).(*ssa.UnOp)
		return ok && u.Op == token.MUL && addr(u.X, b)
	}
}

// FieldAddrPat matches &x.name.
func FieldAddrPat(name string, x Pat) Pat {
	return func(v ssa.Value, b *Bind) bool {
		fa, ok := v.(*ssa.FieldAddr)
		if !ok {
			return false
		}
		f := FieldOf(fa)
		return f != nil && f.Name() == name && x(fa.X, b)
	}
}

// FieldVal matches the value of x.name (through a pointer or a struct value).
func FieldVal(name string, x Pat) Pat {
	return func(v ssa.Value, b *Bind) bool {
		v = Unwrap(v)
		if u, ok := v.(*ssa.UnOp); ok && u.Op == token.MUL {
			return FieldAddrPat(name, x)(u.X, b)
		}
		if f, ok := v.(*ssa.Field); ok {
			fv := FieldOf(f)
			return fv != nil && fv.Name() == name && x(f.X, b)
		}
		return false
	}
}

// Conv looks through integer conversions as well.
func Conv(p Pat) Pat {
	return func(v ssa.Value, b *Bind) bool {
		v = Unwrap(v)
		for {
			c, ok := v.(*ssa.Convert)
			if !ok {
				break
			}
			v = Unwrap(c.X)
		}
		return p(v, b)
	}
}

// Bin matches x op y.
func Bin(op token.Token, x, y Pat) Pat {
	return func(v ssa.Value, b *Bind) bool {
		bo, ok := Unwrap(v).(*ssa.BinOp)
		return ok && bo.Op == op && x(bo.X, b) && y(bo.Y, b)
	}
}

// OneOf matches any alternative.
func OneOf(ps ...Pat) Pat {
	return func(v ssa.Value, b *Bind) bool {
		for _, p := range ps {
			nb := &Bind{M: map[string]ssa.Value{}}
			for k, x := range b.M {
				nb.M[k] = x
			}
			if p(v, nb) {
				b.M = nb.M
				return true
			}
		}
		return false
	}
}

// TypeAssertOf matches x.(T) (either form) and yields the asserted value;
// the comma-ok form is matched through ExtractN(0, ...).
func TypeAssertOf(typeName string, x Pat) Pat {
	return func(v ssa.Value, b *Bind) bool {
		v = Unwrap(v)
		if e, ok := v.(*ssa.Extract); ok && e.Index == 0 {
			v = e.Tuple
		}
		ta, ok := v.(*ssa.TypeAssert)
		if !ok {
			return false
		}
		if typeName != "" && !TypeNameIs(ta.AssertedType, typeName) {
			return false
		}
		return x(ta.X, b)
	}
}

// TypeNameIs compares a type's printed name modulo the module prefix.
func TypeNameIs(t types.Type, name string) bool {
	s := types.TypeString(t, nil)
	return s == name || strings.ReplaceAll(s, ModulePath+"/", "") == name
}

// fieldRead: v is x.f read from a struct value or through a pointer; returns
// x and the field.
func fieldRead(v ssa.Value) (ssa.Value, *types.Var) {
	switch x := v.(type) {
	case *ssa.Field:
		return x.X, FieldOf(x)
	case *ssa.UnOp:
		if x.Op == token.MUL {
			if fa, ok := x.X.(*ssa.FieldAddr); ok {
				return fa.X, FieldOf(fa)
			}
		}
	}
	return nil, nil
}

// GetterField: when the method called name of type t (or *t) is a plain
// getter - one block that returns a field of its receiver - the field it
// returns; nil otherwise. from supplies the program.
func GetterField(from ssa.Value, t types.Type, name string) *types.Var {
	if from == nil || from.Parent() == nil {
		return nil
	}
	prog := from.Parent().Prog
	if p, ok := t.Underlying().(*types.Pointer); ok {
		t = p.Elem()
	}
	for _, recv := range []types.Type{t, types.NewPointer(t)} {
		ms := prog.MethodSets.MethodSet(recv)
		for i := 0; i < ms.Len(); i++ {
			sel := ms.At(i)
			if sel.Obj().Name() != name {
				continue
			}
			fn := prog.MethodValue(sel)
			if fn == nil || len(fn.Blocks) != 1 || len(fn.Params) != 1 {
				continue
			}
			ret, ok := fn.Blocks[0].Instrs[len(fn.Blocks[0].Instrs)-1].(*ssa.Return)
			if !ok || len(ret.Results) != 1 {
				continue
			}
			base, fld := fieldRead(Unwrap(ret.Results[0]))
			if fld != nil && Unwrap(base) == ssa.Value(fn.Params[0]) {
				return fld
			}
		}
	}
	return nil
}
