package core

import (
	"fmt"
	"go/token"
	"go/types"
	"sort"

	"golang.org/x/tools/go/ssa"
)

// E5: ownership of byte slices. Field-based, flow-insensitive within a
// function, with bottom-up parameter summaries (mutates / retains in a
// mutated field / returns an alias) computed to a fixpoint over the module.

func isByteSlice(t types.Type) bool {
	s, ok := t.Underlying().(*types.Slice)
	if !ok {
		return false
	}
	b, ok := s.Elem().Underlying().(*types.Basic)
	return ok && b.Kind() == types.Uint8
}

// OriginKind classifies where a byte slice value comes from.
type OriginKind int

const (
	OFresh OriginKind = iota // make, literal, append(nil...), library result
	OParam                   // parameter of the enclosing function
	OField                   // loaded from a struct field
	OCall                    // result of a module call (no alias summary) or interface call
	OOther
)

type BOrigin struct {
	Kind  OriginKind
	Param *ssa.Parameter
	Field *types.Var
	Call  *ssa.Call
}

func (o BOrigin) String() string {
	switch o.Kind {
	case OFresh:
		return "fresh"
	case OParam:
		return "param " + o.Param.Name()
	case OField:
		return "field " + o.Field.Name()
	case OCall:
		if o.Call.Call.IsInvoke() {
			return "result of ." + o.Call.Call.Method.Name() + "()"
		}
		if f := o.Call.Call.StaticCallee(); f != nil {
			return "result of " + ShortName(f)
		}
		return "result of a dynamic call"
	}
	return "other"
}

// ParamSummary describes what a function does with a []byte parameter.
type ParamSummary struct {
	Mutates bool
	Retains bool                // stored into a field whose slice is mutated somewhere
	Stored  map[*types.Var]bool // stored into these fields (any)
	Returns bool                // a result aliases it
	Why     string
}

// Own is the result of the ownership analysis.
type Own struct {
	P             *Program
	MutatedFields map[*types.Var]string // field -> position of a mutation
	Summ          map[*ssa.Function]map[int]*ParamSummary
	// RetField: for functions returning a struct, where the bytes of each
	// []byte field of the result come from (OParam origins refer to the
	// function's own parameters and are substituted at call sites).
	RetField map[*ssa.Function]map[*types.Var][]BOrigin
	funcs    []*ssa.Function
}

// origins of a byte-slice value inside its function.
func (o *Own) Origins(v ssa.Value) []BOrigin {
	var out []BOrigin
	seen := map[ssa.Value]bool{}
	var rec func(v ssa.Value)
	rec = func(v ssa.Value) {
		if v == nil || seen[v] {
			return
		}
		seen[v] = true
		switch x := v.(type) {
		case *ssa.Parameter:
			out = append(out, BOrigin{Kind: OParam, Param: x})
		case *ssa.Slice:
			rec(x.X)
		case *ssa.Phi:
			for _, e := range x.Edges {
				rec(e)
			}
		case *ssa.ChangeType:
			rec(x.X)
		case *ssa.Convert:
			rec(x.X)
		case *ssa.MakeSlice:
			out = append(out, BOrigin{Kind: OFresh})
		case *ssa.Const:
			out = append(out, BOrigin{Kind: OFresh})
		case *ssa.Alloc:
			// array literal / local variable: the values stored into it
			found := false
			if refs := x.Referrers(); refs != nil {
				for _, r := range *refs {
					if st, ok := r.(*ssa.Store); ok && st.Addr == ssa.Value(x) {
						if isByteSlice(st.Val.Type()) {
							found = true
							rec(st.Val)
						}
					}
				}
			}
			if !found {
				out = append(out, BOrigin{Kind: OFresh})
			}
		case *ssa.Field:
			if f := FieldOf(x); f != nil {
				out = append(out, o.fieldOrigins(x.X, f.Origin(), 0)...)
			}
		case *ssa.UnOp:
			if x.Op != token.MUL {
				out = append(out, BOrigin{Kind: OOther})
				return
			}
			switch a := x.X.(type) {
			case *ssa.FieldAddr:
				if f := FieldOf(a); f != nil {
					out = append(out, o.fieldOrigins(a.X, f.Origin(), 0)...)
				}
			case *ssa.Alloc:
				rec(a)
			case *ssa.IndexAddr:
				// element of a [][]byte: treat as other
				out = append(out, BOrigin{Kind: OOther})
			case *ssa.FreeVar:
				out = append(out, BOrigin{Kind: OOther})
			default:
				out = append(out, BOrigin{Kind: OOther})
			}
		case *ssa.Call:
			if bi, ok := x.Call.Value.(*ssa.Builtin); ok {
				if bi.Name() == "append" {
					// aliases its first argument (spare capacity), unless that is nil
					if IsNilConst(x.Call.Args[0]) {
						out = append(out, BOrigin{Kind: OFresh})
					} else {
						rec(x.Call.Args[0])
					}
					return
				}
				out = append(out, BOrigin{Kind: OFresh})
				return
			}
			if f := x.Call.StaticCallee(); f != nil && !x.Call.IsInvoke() {
				if PkgPathOf(f) == "" {
					out = append(out, BOrigin{Kind: OFresh}) // library results (big.Int.Bytes, io.ReadAll, ...)
					return
				}
				if s := o.Summ[Origin(f)]; s != nil {
					aliased := false
					for i, ps := range s {
						if ps.Returns && i < len(x.Call.Args) {
							aliased = true
							rec(x.Call.Args[i])
						}
					}
					if aliased {
						return
					}
				}
				out = append(out, BOrigin{Kind: OCall, Call: x})
				return
			}
			out = append(out, BOrigin{Kind: OCall, Call: x})
		case *ssa.Extract:
			if call, ok := x.Tuple.(*ssa.Call); ok {
				if f := call.Call.StaticCallee(); f != nil && PkgPathOf(f) == "" {
					out = append(out, BOrigin{Kind: OFresh})
					return
				}
				out = append(out, BOrigin{Kind: OCall, Call: call})
				return
			}
			out = append(out, BOrigin{Kind: OOther})
		default:
			out = append(out, BOrigin{Kind: OOther})
		}
	}
	rec(v)
	return out
}

// fieldOrigins resolves the bytes of field F of the struct value `base`: a
// local variable holding the result of a module function whose result's F is
// known (RetField) is resolved through that summary; anything else is the
// field itself.
func (o *Own) fieldOrigins(base ssa.Value, F *types.Var, depth int) []BOrigin {
	def := []BOrigin{{Kind: OField, Field: F}}
	if depth > 6 {
		return def
	}
	switch b := base.(type) {
	case *ssa.UnOp:
		if b.Op == token.MUL {
			if al, ok := b.X.(*ssa.Alloc); ok {
				return o.fieldOrigins(al, F, depth+1)
			}
		}
	case *ssa.Alloc:
		var out []BOrigin
		n := 0
		if refs := b.Referrers(); refs != nil {
			for _, r := range *refs {
				switch x := r.(type) {
				case *ssa.Store:
					if x.Addr == ssa.Value(b) {
						n++
						out = append(out, o.fieldOrigins(x.Val, F, depth+1)...)
					}
				case *ssa.FieldAddr:
					if f := FieldOf(x); f != nil && f.Origin() == F {
						if rr := x.Referrers(); rr != nil {
							for _, r2 := range *rr {
								if st, ok := r2.(*ssa.Store); ok && st.Addr == ssa.Value(x) {
									n++
									out = append(out, o.Origins(st.Val)...)
								}
							}
						}
					}
				}
			}
		}
		if n > 0 {
			return out
		}
	case *ssa.Call:
		if f := b.Call.StaticCallee(); f != nil && !b.Call.IsInvoke() {
			if rf, ok := o.RetField[Origin(f)]; ok {
				if ors, ok := rf[F]; ok {
					var out []BOrigin
					for _, or := range ors {
						if or.Kind == OParam {
							idx := -1
							for i, p := range Origin(f).Params {
								if p == or.Param {
									idx = i
								}
							}
							if idx >= 0 && idx < len(b.Call.Args) {
								if isByteSlice(b.Call.Args[idx].Type()) {
									out = append(out, o.Origins(b.Call.Args[idx])...)
								} else {
									out = append(out, o.fieldOrigins(b.Call.Args[idx], F, depth+1)...)
								}
								continue
							}
						}
						out = append(out, or)
					}
					return out
				}
			}
		}
	}
	return def
}

// retFieldOf computes the RetField summary of fn under the current state.
func (o *Own) retFieldOf(fn *ssa.Function) map[*types.Var][]BOrigin {
	res := fn.Signature.Results()
	if res.Len() == 0 {
		return nil
	}
	st, ok := res.At(0).Type().Underlying().(*types.Struct)
	if !ok {
		return nil
	}
	out := map[*types.Var][]BOrigin{}
	for i := 0; i < st.NumFields(); i++ {
		F := st.Field(i)
		if !isByteSlice(F.Type()) {
			continue
		}
		F = F.Origin()
		for _, b := range fn.Blocks {
			ret, ok := b.Instrs[len(b.Instrs)-1].(*ssa.Return)
			if !ok {
				continue
			}
			r := ret.Results[0]
			if p, isParam := r.(*ssa.Parameter); isParam {
				// returns a parameter struct: field F of that parameter
				out[F] = append(out[F], BOrigin{Kind: OParam, Param: p})
				continue
			}
			out[F] = append(out[F], o.fieldOrigins(r, F, 0)...)
		}
	}
	if len(out) == 0 {
		return nil
	}
	return out
}

// Sink is a place where a byte slice is written through or retained.
type Sink struct {
	Fn     *ssa.Function
	Instr  ssa.Instruction
	Target ssa.Value // the slice written / retained
	Kind   string    // "element store", "copy destination", "append", "call mutating", "retained in mutated field X", "call retaining"
	Field  *types.Var
}

// sinksOf lists the sinks of fn under the current summaries.
func (o *Own) sinksOf(fn *ssa.Function) []Sink {
	var out []Sink
	for _, b := range fn.Blocks {
		for _, in := range b.Instrs {
			switch x := in.(type) {
			case *ssa.Store:
				if ia, ok := x.Addr.(*ssa.IndexAddr); ok && isByteSlice(ia.X.Type()) {
					out = append(out, Sink{fn, in, ia.X, "element store", nil})
				}
				if isByteSlice(x.Val.Type()) {
					if fa, ok := x.Addr.(*ssa.FieldAddr); ok {
						if f := FieldOf(fa); f != nil {
							out = append(out, Sink{fn, in, x.Val, "field store", f.Origin()})
						}
					}
				}
			case *ssa.Call:
				if bi, ok := x.Call.Value.(*ssa.Builtin); ok {
					switch bi.Name() {
					case "copy":
						if isByteSlice(x.Call.Args[0].Type()) {
							out = append(out, Sink{fn, in, x.Call.Args[0], "copy destination", nil})
						}
					case "append":
						if isByteSlice(x.Call.Args[0].Type()) && !IsNilConst(x.Call.Args[0]) {
							out = append(out, Sink{fn, in, x.Call.Args[0], "append", nil})
						}
					}
					continue
				}
				f := x.Call.StaticCallee()
				if f == nil || x.Call.IsInvoke() {
					continue
				}
				if PkgPathOf(f) == "" {
					// known mutating library calls
					switch f.String() {
					case "sort.Slice", "(*math/big.Int).FillBytes", "encoding/binary.littleEndian.PutUint32", "encoding/binary.littleEndian.PutUint64":
						if len(x.Call.Args) > 0 {
							for _, a := range x.Call.Args {
								if isByteSlice(a.Type()) {
									out = append(out, Sink{fn, in, a, "library call that writes its argument", nil})
								}
							}
						}
					}
					continue
				}
				if s := o.Summ[Origin(f)]; s != nil {
					for i, ps := range s {
						if i >= len(x.Call.Args) {
							continue
						}
						if ps.Mutates {
							out = append(out, Sink{fn, in, x.Call.Args[i], "passed to " + ShortName(f) + ", which writes through it", nil})
						}
						if ps.Retains {
							out = append(out, Sink{fn, in, x.Call.Args[i], "passed to " + ShortName(f) + ", which keeps it in storage that is later modified", nil})
						}
						if !ps.Retains {
							for fld := range ps.Stored {
								out = append(out, Sink{fn, in, x.Call.Args[i], "field store via " + ShortName(f), fld})
							}
						}
					}
				}
			}
		}
	}
	return out
}

// NewOwn runs the analysis.
func NewOwn(p *Program) *Own {
	o := &Own{P: p, MutatedFields: map[*types.Var]string{}, Summ: map[*ssa.Function]map[int]*ParamSummary{}, RetField: map[*ssa.Function]map[*types.Var][]BOrigin{}}
	for _, fn := range p.Funcs() {
		if fn.Blocks == nil || fn.Origin() != nil {
			continue
		}
		o.funcs = append(o.funcs, fn)
		m := map[int]*ParamSummary{}
		for i, par := range fn.Params {
			if isByteSlice(par.Type()) {
				m[i] = &ParamSummary{Stored: map[*types.Var]bool{}}
			}
		}
		if len(m) > 0 {
			o.Summ[fn] = m
		}
	}
	// struct-result summaries first (they only make origins more precise)
	for iter := 0; iter < 6; iter++ {
		for _, fn := range o.funcs {
			if rf := o.retFieldOf(fn); rf != nil {
				o.RetField[fn] = rf
			}
		}
	}
	for iter := 0; iter < 20; iter++ {
		changed := false
		// 1. mutated fields
		for _, fn := range o.funcs {
			for _, s := range o.sinksOf(fn) {
				if s.Kind == "field store" || (s.Field != nil) {
					continue
				}
				for _, or := range o.Origins(s.Target) {
					if or.Kind == OField {
						if _, ok := o.MutatedFields[or.Field]; !ok {
							o.MutatedFields[or.Field] = p.Pos(s.Instr.Pos()) + " (" + s.Kind + ")"
							changed = true
						}
					}
				}
			}
		}
		// 2. summaries
		for _, fn := range o.funcs {
			sm := o.Summ[fn]
			if sm == nil {
				continue
			}
			idx := map[*ssa.Parameter]int{}
			for i, par := range fn.Params {
				idx[par] = i
			}
			for _, s := range o.sinksOf(fn) {
				for _, or := range o.Origins(s.Target) {
					if or.Kind != OParam {
						continue
					}
					ps := sm[idx[or.Param]]
					if ps == nil {
						continue
					}
					if s.Field != nil {
						if !ps.Stored[s.Field] {
							ps.Stored[s.Field] = true
							changed = true
						}
						if _, mut := o.MutatedFields[s.Field]; mut && !ps.Retains {
							ps.Retains = true
							ps.Why = "stored in " + s.Field.Name() + " at " + p.Pos(s.Instr.Pos())
							changed = true
						}
					} else if s.Kind != "field store" {
						if (len(s.Kind) > 9 && s.Kind[:9] == "passed to" && containsStr(s.Kind, "keeps it")) && !ps.Retains {
							ps.Retains = true
							ps.Why = s.Kind + " at " + p.Pos(s.Instr.Pos())
							changed = true
						} else if !containsStr(s.Kind, "keeps it") && !ps.Mutates {
							ps.Mutates = true
							ps.Why = s.Kind + " at " + p.Pos(s.Instr.Pos())
							changed = true
						}
					}
				}
			}
			// returns alias
			for _, b := range fn.Blocks {
				ret, ok := b.Instrs[len(b.Instrs)-1].(*ssa.Return)
				if !ok {
					continue
				}
				for _, r := range ret.Results {
					if !isByteSlice(r.Type()) {
						continue
					}
					for _, or := range o.Origins(r) {
						if or.Kind == OParam {
							if ps := sm[idx[or.Param]]; ps != nil && !ps.Returns {
								ps.Returns = true
								changed = true
							}
						}
					}
				}
			}
		}
		if !changed {
			break
		}
	}
	return o
}

func containsStr(s, sub string) bool {
	for i := 0; i+len(sub) <= len(s); i++ {
		if s[i:i+len(sub)] == sub {
			return true
		}
	}
	return false
}

// Violation is a sink whose target is borrowed.
type OwnViolation struct {
	Sink   Sink
	Origin BOrigin
	What   string
}

// Check lists, for the functions selected by inScope, the sinks whose target
// derives from a borrowed origin (as decided by isBorrowed).
func (o *Own) Check(inScope func(*ssa.Function) bool, isBorrowed func(fn *ssa.Function, or BOrigin) (bool, string)) []OwnViolation {
	var out []OwnViolation
	for _, fn := range o.funcs {
		if !inScope(fn) {
			continue
		}
		for _, s := range o.sinksOf(fn) {
			bad := s.Kind
			if s.Field != nil {
				mut, isMut := o.MutatedFields[s.Field]
				if !isMut {
					continue
				}
				bad = "kept in field " + s.Field.Name() + ", whose bytes are modified at " + mut
			} else if s.Kind == "field store" {
				continue
			}
			for _, or := range o.Origins(s.Target) {
				if ok, what := isBorrowed(fn, or); ok {
					out = append(out, OwnViolation{Sink: s, Origin: or, What: what + " is " + bad})
				}
			}
		}
	}
	sort.Slice(out, func(i, j int) bool { return out[i].Sink.Instr.Pos() < out[j].Sink.Instr.Pos() })
	return out
}

// SinkCount and summaries for the evidence.
func (o *Own) Describe() (nFuncs, nSinks int, mutated []string, summaries []string) {
	for _, fn := range o.funcs {
		nFuncs++
		nSinks += len(o.sinksOf(fn))
	}
	for f, where := range o.MutatedFields {
		mutated = append(mutated, f.Name()+" (mutated at "+where+")")
	}
	sort.Strings(mutated)
	for fn, sm := range o.Summ {
		for i, ps := range sm {
			if ps.Mutates || ps.Retains || ps.Returns {
				summaries = append(summaries, fmt.Sprintf("%s param %d: mutates=%v retains=%v returns-alias=%v", ShortName(fn), i, ps.Mutates, ps.Retains, ps.Returns))
			}
		}
	}
	sort.Strings(summaries)
	return
}
