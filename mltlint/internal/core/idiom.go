package core

import (
	"go/token"

	"golang.org/x/tools/go/ssa"
)

// E9: in-place compaction idiom. Two index variables i (read) and j (write)
// run over one slice s inside a loop, s[j] = g(s[i]) with j lagging behind i;
// after the loop only s[:j] is meaningful.

type Compaction struct {
	Fn     *ssa.Function
	S      ssa.Value // the slice
	I, J   *ssa.Phi  // read and write index (loop header phis)
	Header *ssa.BasicBlock
	Store  *ssa.Store
}

// FindCompactions finds the compaction loops of fn.
func FindCompactions(fn *ssa.Function) []*Compaction {
	var out []*Compaction
	seen := map[*ssa.BasicBlock]bool{}
	for _, b := range fn.Blocks {
		for _, in := range b.Instrs {
			st, ok := in.(*ssa.Store)
			if !ok {
				continue
			}
			dst, ok := st.Addr.(*ssa.IndexAddr)
			if !ok {
				continue
			}
			j := headerPhi(dst.Index)
			if j == nil {
				continue
			}
			// the stored value derives from s[i] with another header phi i of the same loop
			var iPhi *ssa.Phi
			DependsOn(st.Val, func(v ssa.Value) bool {
				u, ok := v.(*ssa.UnOp)
				if !ok || u.Op != token.MUL {
					return false
				}
				src, ok := u.X.(*ssa.IndexAddr)
				if !ok || src.X != dst.X {
					return false
				}
				// the read index: a header phi, or the range form phi+1
				base, _ := linOff(src.Index)
				p := headerPhi(base)
				if p != nil && p != j && p.Block() == j.Block() {
					iPhi = p
					return true
				}
				return false
			})
			if iPhi == nil {
				continue
			}
			// j must lag: somewhere j is decremented or not incremented while i is
			if !lags(j) {
				continue
			}
			if seen[j.Block()] {
				continue
			}
			seen[j.Block()] = true
			out = append(out, &Compaction{Fn: fn, S: dst.X, I: iPhi, J: j, Header: j.Block(), Store: st})
		}
	}
	return out
}

// headerPhi: v is a loop-header phi, or a phi/value trivially equal to one
// within the iteration.
func headerPhi(v ssa.Value) *ssa.Phi {
	p, ok := v.(*ssa.Phi)
	if !ok {
		return nil
	}
	// a header phi has an incoming edge from a block it dominates
	for _, pred := range p.Block().Preds {
		if p.Block().Dominates(pred) {
			return p
		}
	}
	return nil
}

// lags: the phi's value chain contains a decrement (j-1) or an edge that
// keeps the old value.
func lags(j *ssa.Phi) bool {
	seen := map[ssa.Value]bool{}
	var rec func(v ssa.Value) bool
	rec = func(v ssa.Value) bool {
		if seen[v] {
			return false
		}
		seen[v] = true
		switch x := v.(type) {
		case *ssa.Phi:
			for _, e := range x.Edges {
				if rec(e) {
					return true
				}
			}
		case *ssa.BinOp:
			if x.Op == token.SUB {
				if k, ok := ConstInt(x.Y); ok && k == 1 {
					return true
				}
			}
			return rec(x.X)
		}
		return false
	}
	// a way round the loop that leaves j as it is (i advances, j does not):
	// a back edge carries j itself, directly or merged through phis of the
	// body (`continue` before the j++)
	var same func(v ssa.Value, depth int) bool
	same = func(v ssa.Value, depth int) bool {
		if v == ssa.Value(j) {
			return true
		}
		if p, ok := v.(*ssa.Phi); ok && depth < 8 && p != j {
			for _, e := range p.Edges {
				if same(e, depth+1) {
					return true
				}
			}
		}
		return false
	}
	for i, e := range j.Edges {
		if j.Block().Dominates(j.Block().Preds[i]) && same(e, 0) {
			return true
		}
		if rec(e) {
			return true
		}
	}
	return false
}

// UsesAfterLoop lists the instructions outside the loop (reachable after it)
// that use the compacted slice, split into proper reslices s[:j] and others.
func (cp *Compaction) UsesAfterLoop() (good, bad []ssa.Instruction) {
	loop := LoopBlocks(cp.Header)
	refs := cp.S.Referrers()
	if refs == nil {
		return nil, nil
	}
	// "after the loop": blocks reachable from the header's exit successor
	after := map[*ssa.BasicBlock]bool{}
	for _, s := range cp.Header.Succs {
		if !loop[s] {
			for b := range Reachable(s, nil, nil, nil) {
				after[b] = true
			}
		}
	}
	for _, r := range *refs {
		if loop[r.Block()] || !after[r.Block()] {
			continue
		}
		if _, isDbg := r.(*ssa.DebugRef); isDbg {
			continue
		}
		if sl, ok := r.(*ssa.Slice); ok && sl.X == cp.S && sl.Low == nil && sl.High == ssa.Value(cp.J) {
			good = append(good, r)
			continue
		}
		// len(s) after the loop is harmless only if it is not used to bound reads; be strict
		bad = append(bad, r)
	}
	return good, bad
}

// Shift is an in-place element move s[i+a] = s[i+b] inside a loop over i.
// K = a-b is the distance elements travel; Dir is the direction of the loop
// (+1 ascending, -1 descending, 0 not determined). Such a loop only moves
// elements faithfully when it walks against the direction of travel
// (K>0 needs Dir<0, K<0 needs Dir>0); walking with it smears one element over
// the rest (the memmove direction rule).
type Shift struct {
	Fn    *ssa.Function
	Store *ssa.Store
	S     ssa.Value
	K     int64
	Dir   int
}

// linOff splits v into base + constant offset.
func linOff(v ssa.Value) (ssa.Value, int64) {
	off := int64(0)
	for {
		switch x := v.(type) {
		case *ssa.Convert:
			v = x.X
			continue
		case *ssa.BinOp:
			if k, ok := ConstInt(x.Y); ok && (x.Op == token.ADD || x.Op == token.SUB) {
				if x.Op == token.ADD {
					off += k
				} else {
					off -= k
				}
				v = x.X
				continue
			}
			if k, ok := ConstInt(x.X); ok && x.Op == token.ADD {
				off += k
				v = x.Y
				continue
			}
		}
		return v, off
	}
}

// phiDir tells whether a loop-header phi counts up or down.
func phiDir(p *ssa.Phi) int {
	dir := 0
	for i, e := range p.Edges {
		if !p.Block().Dominates(p.Block().Preds[i]) {
			continue // entry edge
		}
		base, off := linOff(e)
		if base != ssa.Value(p) || off == 0 {
			return 0
		}
		d := 1
		if off < 0 {
			d = -1
		}
		if dir != 0 && dir != d {
			return 0
		}
		dir = d
	}
	return dir
}

// FindShifts lists the in-place shifts of fn.
func FindShifts(fn *ssa.Function) []*Shift {
	var out []*Shift
	for _, b := range fn.Blocks {
		for _, in := range b.Instrs {
			st, ok := in.(*ssa.Store)
			if !ok {
				continue
			}
			dst, ok := st.Addr.(*ssa.IndexAddr)
			if !ok {
				continue
			}
			ld, ok := st.Val.(*ssa.UnOp)
			if !ok || ld.Op != token.MUL {
				continue
			}
			src, ok := ld.X.(*ssa.IndexAddr)
			if !ok || !sameValue(dst.X, src.X) {
				continue
			}
			db, doff := linOff(dst.Index)
			sb, soff := linOff(src.Index)
			if !sameValue(db, sb) || doff == soff {
				continue
			}
			p := headerPhi(db)
			if p == nil {
				continue
			}
			out = append(out, &Shift{Fn: fn, Store: st, S: dst.X, K: doff - soff, Dir: phiDir(p)})
		}
	}
	return out
}

// Safe reports whether the shift walks against the direction of travel.
func (s *Shift) Safe() bool { return (s.K > 0 && s.Dir < 0) || (s.K < 0 && s.Dir > 0) }

// LinOff splits v into base + constant offset.
func LinOff(v ssa.Value) (ssa.Value, int64) { return linOff(v) }
