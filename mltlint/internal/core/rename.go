package core

import (
	"encoding/json"
	"go/types"
	"os"
	"path/filepath"
	"sort"
	"strings"

	"golang.org/x/tools/go/ssa"
)

// Renamed functions. The rules name functions of the analysed module
// (anchors, callees). Renaming an unexported function is an everyday,
// behaviour-preserving edit, so a name that no longer resolves must not make a
// check fail. /verif/spec/functions.json records, for the tree on which the
// rule instances were confirmed, every named function of the module with its
// receiver, signature and callees. When a recorded function is missing from
// the current tree, the function that took its place is looked for: same
// package, same receiver, same signature, not itself a recorded name, and -
// when several qualify - the one whose set of callees is most similar. The
// function found answers to the recorded name in every name comparison of the
// rules (CanonString / NameOf / FuncNameIs / Program.Func) and in obligation
// keys. Only the name is taken from the record: every rule is still evaluated
// on the body found in the current tree.

type FuncRecord struct {
	Full    string   `json:"full"` // fn.String()
	Pkg     string   `json:"pkg"`
	Recv    string   `json:"recv"` // "(*pkg.T)" / "(pkg.T)" / "" for plain functions
	Name    string   `json:"name"`
	Sig     string   `json:"sig"`
	Callees []string `json:"callees"`
}

var renamedTo = map[*ssa.Function]FuncRecord{} // current function -> the record it stands for

func recordOf(fn *ssa.Function) FuncRecord {
	full := fn.String()
	r := FuncRecord{Full: full, Pkg: pkgPathOf(fn), Name: fn.Name(), Sig: types.TypeString(fn.Signature, nil)}
	if i := strings.LastIndex(full, ")."); i >= 0 && strings.HasPrefix(full, "(") {
		r.Recv = full[:i+1]
	}
	seen := map[string]bool{}
	for _, b := range fn.Blocks {
		for _, in := range b.Instrs {
			if ci, ok := in.(ssa.CallInstruction); ok {
				if ci.Common().IsInvoke() {
					seen["invoke "+ci.Common().Method.Name()] = true
				} else if g := ci.Common().StaticCallee(); g != nil {
					seen[Origin(g).String()] = true
				}
			}
		}
	}
	for k := range seen {
		r.Callees = append(r.Callees, k)
	}
	sort.Strings(r.Callees)
	return r
}

func namedTopLevel(fn *ssa.Function) bool {
	return fn.Parent() == nil && fn.Origin() == nil && fn.Synthetic == "" && fn.Blocks != nil && fn.Name() != "init"
}

// FunctionRecords lists the records of the current tree (for -gen-functions).
func (p *Program) FunctionRecords() []FuncRecord {
	var out []FuncRecord
	for _, fn := range p.allFuncs {
		if namedTopLevel(fn) {
			out = append(out, recordOf(fn))
		}
	}
	return out
}

func functionsFile() string { return filepath.Join(VerifDirStatic(), "spec", "functions.json") }

// VerifDirStatic is the directory of the committed verification material
// (never the temporary evidence directory of a tooling run).
func VerifDirStatic() string {
	if d := os.Getenv("MLTLINT_SPEC"); d != "" {
		return d
	}
	return "/verif"
}

// resolveRenames fills renamedTo and the name index of p. It returns notes
// describing what was matched.
func (p *Program) resolveRenames() []string {
	b, err := os.ReadFile(functionsFile())
	if err != nil {
		return nil
	}
	var recs []FuncRecord
	if json.Unmarshal(b, &recs) != nil {
		return nil
	}
	recorded := map[string]bool{}
	for _, r := range recs {
		recorded[r.Full] = true
	}
	var notes []string
	taken := map[*ssa.Function]bool{}
	for _, r := range recs {
		if p.funcs[r.Full] != nil {
			continue
		}
		var cands []*ssa.Function
		for _, fn := range p.allFuncs {
			if !namedTopLevel(fn) || recorded[fn.String()] || taken[fn] {
				continue
			}
			c := recordOf(fn)
			if c.Pkg == r.Pkg && c.Recv == r.Recv && c.Sig == r.Sig {
				cands = append(cands, fn)
			}
		}
		var best *ssa.Function
		if len(cands) == 1 {
			best = cands[0]
		} else if len(cands) > 1 {
			bestScore, tie := -1.0, false
			for _, fn := range cands {
				s := jaccard(recordOf(fn).Callees, r.Callees)
				if s > bestScore {
					best, bestScore, tie = fn, s, false
				} else if s == bestScore {
					tie = true
				}
			}
			if tie || bestScore < 0.5 {
				best = nil
			}
		}
		if best == nil {
			continue
		}
		taken[best] = true
		renamedTo[best] = r
		p.funcs[r.Full] = best
		notes = append(notes, "function "+strings.ReplaceAll(r.Full, ModulePath+"/", "")+" of the reference tree is now called "+best.Name()+" (same package, receiver and signature): the rules that name it are applied to it")
	}
	return notes
}

func jaccard(a, b []string) float64 {
	if len(a) == 0 && len(b) == 0 {
		return 1
	}
	set := map[string]bool{}
	for _, x := range a {
		set[x] = true
	}
	inter := 0
	for _, x := range b {
		if set[x] {
			inter++
		}
	}
	union := len(a) + len(b) - inter
	if union == 0 {
		return 1
	}
	return float64(inter) / float64(union)
}

// CanonString is fn.String() under the name the rules know the function by.
func CanonString(fn *ssa.Function) string {
	if fn == nil {
		return ""
	}
	if r, ok := renamedTo[Origin(fn)]; ok {
		return r.Full
	}
	return fn.String()
}

// NameOf is x.Name(); for a function, the name the rules know it by.
func NameOf(x interface{ Name() string }) string {
	if fn, ok := x.(*ssa.Function); ok {
		if fn == nil {
			return ""
		}
		if r, ok := renamedTo[Origin(fn)]; ok {
			return r.Name
		}
	}
	return x.Name()
}
