package core

import (
	"go/constant"
	"go/token"

	"golang.org/x/tools/go/ssa"
)

// E7: path enumeration of comparison-only code. A Valuation binds SSA values
// (symbols) to small integers or booleans; Walk follows the CFG from a block
// deciding every branch under the valuation.

type Valuation struct {
	Int  func(v ssa.Value) (int64, bool)
	Bool func(v ssa.Value) (bool, bool)
	// Visit, when set, is called for every non-phi instruction passed by Walk,
	// in order (loops included); values can be read with EvalInt at that time.
	Visit func(in ssa.Instruction)

	// concrete values of the phis, assigned in parallel on block entry
	phiInt map[*ssa.Phi]int64
}

// WalkResult is the end of a concrete walk.
type WalkResult struct {
	End    ssa.Instruction   // *ssa.Return or *ssa.Panic
	Instrs []ssa.Instruction // every instruction passed, in order
	Prev   *ssa.BasicBlock   // predecessor of the final block (for phis)
	OK     bool              // false: a branch could not be decided or step bound hit
	Why    string
	Phi    map[*ssa.Phi]ssa.Value // resolved phi inputs along the path
}

// EvalInt evaluates an integer value under the valuation.
func (val *Valuation) EvalInt(v ssa.Value, phi map[*ssa.Phi]ssa.Value) (int64, bool) {
	v = Unwrap(v)
	if val.Int != nil {
		if n, ok := val.Int(v); ok {
			return n, true
		}
	}
	switch x := v.(type) {
	case *ssa.Const:
		if x.Value != nil && x.Value.Kind() == constant.Int {
			return constant.Int64Val(x.Value)
		}
	case *ssa.Convert:
		return val.EvalInt(x.X, phi)
	case *ssa.Phi:
		if n, ok := val.phiInt[x]; ok {
			return n, true
		}
		if in, ok := phi[x]; ok && in != ssa.Value(x) {
			return val.EvalInt(in, phi)
		}
	case *ssa.BinOp:
		a, ok1 := val.EvalInt(x.X, phi)
		b, ok2 := val.EvalInt(x.Y, phi)
		if !ok1 || !ok2 {
			return 0, false
		}
		switch x.Op {
		case token.ADD:
			return a + b, true
		case token.SUB:
			return a - b, true
		case token.MUL:
			return a * b, true
		case token.AND:
			return a & b, true
		case token.OR:
			return a | b, true
		case token.REM:
			if b != 0 {
				return a % b, true
			}
		case token.QUO:
			if b != 0 {
				return a / b, true
			}
		}
	}
	return 0, false
}

// EvalBool evaluates a boolean value under the valuation.
func (val *Valuation) EvalBool(v ssa.Value, phi map[*ssa.Phi]ssa.Value) (bool, bool) {
	v = Unwrap(v)
	if val.Bool != nil {
		if b, ok := val.Bool(v); ok {
			return b, true
		}
	}
	switch x := v.(type) {
	case *ssa.Const:
		if x.Value != nil && x.Value.Kind() == constant.Bool {
			return constant.BoolVal(x.Value), true
		}
	case *ssa.Phi:
		if in, ok := phi[x]; ok {
			return val.EvalBool(in, phi)
		}
	case *ssa.UnOp:
		if x.Op == token.NOT {
			b, ok := val.EvalBool(x.X, phi)
			return !b, ok
		}
	case *ssa.BinOp:
		switch x.Op {
		case token.EQL, token.NEQ, token.LSS, token.LEQ, token.GTR, token.GEQ:
			a, ok1 := val.EvalInt(x.X, phi)
			b, ok2 := val.EvalInt(x.Y, phi)
			if !ok1 || !ok2 {
				// boolean equality
				if x.Op == token.EQL || x.Op == token.NEQ {
					p, ok3 := val.EvalBool(x.X, phi)
					q, ok4 := val.EvalBool(x.Y, phi)
					if ok3 && ok4 {
						return (p == q) == (x.Op == token.EQL), true
					}
				}
				return false, false
			}
			switch x.Op {
			case token.EQL:
				return a == b, true
			case token.NEQ:
				return a != b, true
			case token.LSS:
				return a < b, true
			case token.LEQ:
				return a <= b, true
			case token.GTR:
				return a > b, true
			case token.GEQ:
				return a >= b, true
			}
		}
	}
	return false, false
}

// Walk follows the CFG from `start` (entered from `from`, may be nil).
func (val *Valuation) Walk(start, from *ssa.BasicBlock) WalkResult {
	res := WalkResult{Phi: map[*ssa.Phi]ssa.Value{}}
	cur, prev := start, from
	val.phiInt = map[*ssa.Phi]int64{}
	for steps := 0; steps < 10000; steps++ {
		// phis are assigned in parallel: evaluate every incoming value under
		// the state before the block is entered, then commit
		newInt := map[*ssa.Phi]int64{}
		var phis []*ssa.Phi
		for _, in := range cur.Instrs {
			ph, ok := in.(*ssa.Phi)
			if !ok {
				break
			}
			phis = append(phis, ph)
			for i, p := range cur.Preds {
				if p == prev {
					if n, isInt := val.EvalInt(ph.Edges[i], res.Phi); isInt {
						newInt[ph] = n
					}
				}
			}
		}
		for _, ph := range phis {
			for i, p := range cur.Preds {
				if p == prev {
					res.Phi[ph] = ph.Edges[i]
				}
			}
			if n, ok := newInt[ph]; ok {
				val.phiInt[ph] = n
			} else {
				delete(val.phiInt, ph)
			}
		}
		for _, in := range cur.Instrs {
			if _, ok := in.(*ssa.Phi); ok {
				continue
			}
			res.Instrs = append(res.Instrs, in)
			if val.Visit != nil {
				val.Visit(in)
			}
		}
		last := cur.Instrs[len(cur.Instrs)-1]
		switch x := last.(type) {
		case *ssa.Return, *ssa.Panic:
			res.End, res.Prev, res.OK = last, prev, true
			return res
		case *ssa.Jump:
			prev, cur = cur, cur.Succs[0]
		case *ssa.If:
			b, ok := val.EvalBool(x.Cond, res.Phi)
			if !ok {
				res.Why = "branch condition not decidable under the valuation"
				res.End = last
				return res
			}
			if b {
				prev, cur = cur, cur.Succs[0]
			} else {
				prev, cur = cur, cur.Succs[1]
			}
		default:
			res.Why = "unexpected terminator"
			return res
		}
	}
	res.Why = "step bound"
	return res
}

// WeakOrderings enumerates every weak ordering of n symbols as rank vectors
// (ranks are small positive integers; equal rank = equal value). 3 symbols
// give 13 orderings, 4 give 75.
func WeakOrderings(n int) [][]int64 {
	var out [][]int64
	var rec func(i int, cur []int64)
	rec = func(i int, cur []int64) {
		if i == n {
			// canonical: the set of used ranks must be {1..k}
			used := map[int64]bool{}
			var max int64
			for _, r := range cur {
				used[r] = true
				if r > max {
					max = r
				}
			}
			if int64(len(used)) == max {
				out = append(out, append([]int64(nil), cur...))
			}
			return
		}
		for r := int64(1); r <= int64(n); r++ {
			rec(i+1, append(cur, r))
		}
	}
	rec(0, nil)
	return out
}
